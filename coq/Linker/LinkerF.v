(* LinkerF.v — the linker model instantiated with the kernel's primitive binary64 floats, scripted
   submodels and scripted linker hooks (what harness/scripted_linker.py does), and the in-Coq
   comparison used by the correspondence check.  Definitions only. *)
From Coq Require Import PrimFloat FloatOps ZArith List Bool.
Import ListNotations.
Require Import PyBase Solver SolverF SolveAll Linker LinkerRange.
Open Scope Z_scope.

(* ---- scripted linker hooks: actions over the joint values (component 0 = the linker's own core,
        component j+1 = the j-th submodel in insertion order) ---- *)
Inductive laction : Type :=
| LASet (c i : nat) (x : float)                                  (* comp_c.V_i[t] = x *)
| LAAffine (dc di : nat) (a : float) (sc sj : nat) (b : float)   (* comp_dc.V_di[t] = a * comp_sc.V_sj[t] + b  (cross-link) *)
| LARaise (c : Z).                                               (* raise exception class number c *)

Record lscript := mkLS { ls_pre : list laction; ls_before : list (list laction);
                         ls_after : list (list laction); ls_post : list laction }.
Definition lscripts := list (nat * lscript).            (* keyed by (normalised) position *)

Definition fjvals := jvals float.
Definition jv_comp (jv : fjvals) (c : nat) : vals float :=
  match c with O => fst jv | S j => nth j (snd jv) [] end.
Definition jv_put (jv : fjvals) (c : nat) (v : vals float) : fjvals :=
  match c with
  | O => (v, snd jv)
  | S j => (fst jv, if (j <? length (snd jv))%nat then upd j v (snd jv) else snd jv)
  end.

Fixpoint run_lactions (p : nat) (acts : list laction) (jv : fjvals) : fjvals * option Z :=
  match acts with
  | [] => (jv, None)
  | LASet c i x :: r => run_lactions p r (jv_put jv c (fset_cell (jv_comp jv c) i p x))
  | LAAffine dc di a sc sj b :: r =>
      run_lactions p r (jv_put jv dc (fset_cell (jv_comp jv dc) di p
                                        (PrimFloat.add (PrimFloat.mul a (fcell (jv_comp jv sc) sj p)) b)))
  | LARaise c :: r => (jv, Some c)
  end.

Definition ls_hook (pick : lscript -> nat -> list laction) (n : nat) (hs : lscripts) : lhook float :=
  fun t ids em cf k jv =>
    match py_pos n t with
    | None => (jv, None)                     (* t outside the span: no script is keyed by it *)
    | Some p => match lookup p hs with Some ls => run_lactions p (pick ls k) jv | None => (jv, None) end
    end.
Definition ls_hpre := ls_hook (fun ls _ => ls_pre ls).
Definition ls_hbefore := ls_hook (fun ls k => nth (k - 1) (ls_before ls) []).
Definition ls_hafter := ls_hook (fun ls k => nth (k - 1) (ls_after ls) []).
Definition ls_hpost := ls_hook (fun ls _ => ls_post ls).

(* scripted submodels: per id, per position, the passes of SolverF's pscript.  evaluate_t runs _evaluate
   under warnings.catch_warnings(record=True) + simplefilter('always'): a warning never becomes an
   exception, whatever errors / catch_first_error say -> run_actions with catch = false *)
Definition subscripts := list (sid * scripts).
Definition ls_sev (n : nat) (ss : subscripts) : sid -> hook float := fun id t em cf k v =>
  match py_pos n t, lookup id ss with
  | Some p, Some sc => match lookup p sc with
                       | Some ps => run_actions false p (nth (k - 1) (spasses ps) []) v
                       | None => (v, None)
                       end
  | _, _ => (v, None)
  end.

Definition fcomp := comp float.
Definition flstate := lstate float.

Definition core_len (s : flstate) : nat := length (status (c_st (l_core s))).

(* the state of a linker as BaseLinker.__init__ leaves it: the instance attributes lags / leads (read by the feasibility
   guard of solve_t and by iter_periods) are the longest LAGS / LEADS among the submodels (0 without submodels) *)
Definition max_over (f : mdesc -> nat) (s : flstate) : nat := fold_left Nat.max (map (fun ic => f (c_desc (snd ic))) (l_subs s)) 0%nat.
Definition as_constructed (s : flstate) : flstate :=
  let cd := c_desc (l_core s) in
  mkL (mkComp (mkDesc (check cd) (endo cd) (max_over lags s) (max_over leads s)) (c_st (l_core s))) (l_subs s) (l_log s).

Definition f_linker_solve_t (ss : subscripts) (hs : lscripts) (sel : option (list sid)) (o : fopts) (t : Z) (s : flstate)
  : flstate * lout :=
  let n := core_len s in
  linker_solve_t_M float PrimFloat.sub PrimFloat.abs PrimFloat.ltb fzero
                   (ls_sev n ss) (ls_hpre n hs) (ls_hbefore n hs) (ls_hafter n hs) (ls_hpost n hs) sel o t (as_constructed s).

Definition f_linker_solve (ss : subscripts) (hs : lscripts) (sel : option (list sid)) (o : fopts) (ps : list Z) (s : flstate)
  : flstate * (lexn + list bool) :=
  let n := core_len s in
  linker_solve_M float PrimFloat.sub PrimFloat.abs PrimFloat.ltb fzero
                 (ls_sev n ss) (ls_hpre n hs) (ls_hbefore n hs) (ls_hafter n hs) (ls_hpost n hs) sel o ps (as_constructed s).

(* BaseLinker(submodels).solve(start=, end=): lags / leads come from the constructor model applied to the submodels'
   class-level LAGS / LEADS (all submodels share the list span `labels`); labels are integers, located with list.index *)
Definition f_linker_solve_span (ss : subscripts) (hs : lscripts) (sel : option (list sid)) (o : fopts)
                               (labels : list Z) (start end_ : option Z) (s : flstate)
  : flstate * (lexn + span_result Z) :=
  let n := core_len s in
  let infos := map (fun ic => (fst ic, mkSub (mkSpan SList labels) (Z.of_nat (lags (c_desc (snd ic))))
                                             (Z.of_nat (leads (c_desc (snd ic)))))) (l_subs s) in
  match ctor_lags_leads infos (match infos with [] => Some (mkSpan SList labels) | _ => None end) with
  | Raise e => (s, inl (LExn e))
  | Ret (labs, lg, ld) =>
      linker_solve_span_M float PrimFloat.sub PrimFloat.abs PrimFloat.ltb fzero
                          (ls_sev n ss) (ls_hpre n hs) (ls_hbefore n hs) (ls_hafter n hs) (ls_hpost n hs)
                          Z (locate_index labs) lg ld labs start end_ sel o (as_constructed s)
  end.

(* a history: several solve_t calls on the same linker, one after the other (each with its own selection, options and
   period), whatever each call returns or raises *)
Fixpoint f_linker_history (ss : subscripts) (hs : lscripts) (calls : list (option (list sid) * fopts * Z)) (s : flstate)
                          (acc : list lout) : flstate * list lout :=
  match calls with
  | [] => (s, rev acc)
  | (sel, o, t) :: r => let '(s', out) := f_linker_solve_t ss hs sel o t s in f_linker_history ss hs r s' (out :: acc)
  end.

(* ---- comparison with the implementation's observation ---- *)
Definition levent_eqb (a b : levent) : bool :=
  match a, b with
  | LPre t, LPre u => Z.eqb t u
  | LBefore t k, LBefore u j | LAfter t k, LAfter u j | LPost t k, LPost u j => Z.eqb t u && Nat.eqb k j
  | LSub i t k, LSub i' u j => Nat.eqb i i' && Z.eqb t u && Nat.eqb k j
  | _, _ => false
  end.
Definition lexn_eqb (a b : lexn) : bool :=
  match a, b with
  | LExn x, LExn y => exn_eqb x y
  | LUser x, LUser y => Z.eqb x y
  | _, _ => false
  end.
Definition lout_eqb (a b : lout) : bool :=
  match a, b with
  | LRet x, LRet y => Bool.eqb x y
  | LRaise x, LRaise y => lexn_eqb x y
  | _, _ => false
  end.
(* observable part of a container: values, status, iterations *)
Definition comp_eqb (a b : fcomp) : bool :=
  list_eqb (list_eqb feq_bits) (vals_of (c_st a)) (vals_of (c_st b))
  && list_eqb st_eqb (status (c_st a)) (status (c_st b))
  && list_eqb Z.eqb (iters (c_st a)) (iters (c_st b)).
Definition lstate_eqb (a b : flstate) : bool :=
  comp_eqb (l_core a) (l_core b)
  && list_eqb (fun x y => Nat.eqb (fst x) (fst y) && comp_eqb (snd x) (snd y)) (l_subs a) (l_subs b)
  && list_eqb levent_eqb (l_log a) (l_log b).

Definition solve_res_eqb (a b : lexn + list bool) : bool :=
  match a, b with
  | inl x, inl y => lexn_eqb x y
  | inr x, inr y => list_eqb Bool.eqb x y
  | _, _ => false
  end.

Definition visit_eqb (a b : Z * Z * bool) : bool :=
  Z.eqb (fst (fst a)) (fst (fst b)) && Z.eqb (snd (fst a)) (snd (fst b)) && Bool.eqb (snd a) (snd b).
Definition span_res_eqb (a b : lexn + span_result Z) : bool :=
  match a, b with
  | inl x, inl y => lexn_eqb x y
  | inr (n, vs), inr (m, ws) => Nat.eqb n m && list_eqb visit_eqb vs ws
  | _, _ => false
  end.

Definition ctor_res_eqb (a b : outcome (pspan * Z * Z)) : bool :=
  match a, b with
  | Raise x, Raise y => exn_eqb x y
  | Ret (sa, la, da), Ret (sb, lb, db) =>
      zlist_eqb (sp_labels sa) (sp_labels sb) && Z.eqb la lb && Z.eqb da db
      && match sp_kind sa, sp_kind sb with
         | SList, SList | STuple, STuple | SRange, SRange | SArray, SArray | SIndex, SIndex
         | SPeriodIndex, SPeriodIndex | SDatetimeIndex, SDatetimeIndex => true
         | _, _ => false
         end
  | _, _ => false
  end.

Inductive lcase : Type :=
| CSolveT (ss : subscripts) (hs : lscripts) (sel : option (list sid)) (o : fopts) (t : Z) (s : flstate)
          (xs : flstate) (xo : lout)
| CSolve (ss : subscripts) (hs : lscripts) (sel : option (list sid)) (o : fopts) (ps : list Z) (s : flstate)
         (xs : flstate) (xr : lexn + list bool)
(* solve(start=, end=) by label: returned (len, [(label, index, solved)]) and final state *)
| CSolveSpan (ss : subscripts) (hs : lscripts) (sel : option (list sid)) (o : fopts) (labels : list Z)
             (start end_ : option Z) (s : flstate) (xs : flstate) (xr : lexn + span_result Z)
(* a sequence of solve_t calls on one linker: final state (log = all events in order) and the outcome of every call *)
| CHistory (ss : subscripts) (hs : lscripts) (calls : list (option (list sid) * fopts * Z)) (s : flstate)
           (xs : flstate) (xouts : list lout)
| CCtor (name : sid) (subs : list (sid * subinfo)) (span : option pspan) (xr : outcome (pspan * Z * Z))
(* the same scripted model once wrapped in a linker and once solved directly *)
| CTwin (ss : subscripts) (sel : option (list sid)) (o : fopts) (t : Z) (s : flstate) (xs : flstate) (xo : lout)
        (m : tcase).

Definition check_lcase (c : lcase) : bool :=
  match c with
  | CSolveT ss hs sel o t s xs xo =>
      let '(s', r) := f_linker_solve_t ss hs sel o t s in lstate_eqb s' xs && lout_eqb r xo
  | CSolve ss hs sel o ps s xs xr =>
      let '(s', r) := f_linker_solve ss hs sel o ps s in lstate_eqb s' xs && solve_res_eqb r xr
  | CSolveSpan ss hs sel o labels start end_ s xs xr =>
      let '(s', r) := f_linker_solve_span ss hs sel o labels start end_ s in lstate_eqb s' xs && span_res_eqb r xr
  | CHistory ss hs calls s xs xouts =>
      let '(s', outs) := f_linker_history ss hs calls s [] in lstate_eqb s' xs && list_eqb lout_eqb outs xouts
  | CCtor name subs span xr => ctor_res_eqb (linker_init_M name subs span) xr
  | CTwin ss sel o t s xs xo m =>
      (let '(s', r) := f_linker_solve_t ss [] sel o t s in lstate_eqb s' xs && lout_eqb r xo)
      && check_tcase m
  end.
