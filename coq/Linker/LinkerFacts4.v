(* LinkerFacts4.v — (A) the convergence clause of C08 spelled out entry by entry: "declared solved only when every
   check variable of the linker and of every selected submodel has moved by less than tol, after at least min_iter
   and at most max_iter iterations"; (B) the frame of a call: status / iterations of every period other than t, of
   the linker and of every submodel, are left alone on every path (exceptions included), and so for solve(). *)
From Coq Require Import ZArith List Bool Lia Arith.
Import ListNotations.
Require Import PyBase Solver SolverFacts Linker LinkerFacts LinkerFacts2.
Open Scope Z_scope.

(* ======================= (A) convergence, entry by entry ======================= *)
Section LConv.
  Variable num : Type.
  Variables (sub : num -> num -> num) (absf : num -> num) (ltb : num -> num -> bool) (zero : num).
  Variable sev : sid -> hook num.
  Variables (pre ebefore eafter post : lhook num).

  Notation lstate := (lstate num).
  Notation comp := (comp num).
  Notation conv := (conv num sub absf ltb).
  Notation conv_all := (conv_all num sub absf ltb).
  Notation check_vec := (check_vec num zero).
  Notation check_of := (check_of num zero).
  Notation lst_after := (lst_after num sev ebefore eafter).
  Notation lchk := (lchk num zero sev ebefore eafter).
  Notation lconvk := (lconvk num sub absf ltb zero sev ebefore eafter).
  Notation quiet_upto := (quiet_upto num sev ebefore eafter).
  Notation solve_t := (linker_solve_t_body num sub absf ltb zero sev pre ebefore eafter post).
  Notation run_hook := (run_hook num).
  Notation zero_iters := (zero_iters num).
  Notation wf := (wf num).
  Notation srel := (srel num).

  (* |c - p| < tol, in the arithmetic of the number type (NaN: false) *)
  Definition moved_lt (tl c p : num) : Prop := ltb (absf (sub c p)) tl = true.

  Lemma conv_Forall2 tl : forall cur prev, length cur = length prev ->
    (conv tl cur prev = true <-> Forall2 (moved_lt tl) cur prev).
  Proof.
    induction cur as [|c cs IH]; intros [|p ps] Hl; cbn [Solver.conv]; cbn [length] in Hl; try discriminate.
    - split; [constructor|reflexivity].
    - rewrite andb_true_iff, IH by lia. split.
      + intros [H1 H2]. constructor; assumption.
      + intros H. inversion H; subst. split; assumption.
  Qed.

  (* two families of check vectors with one vector per container and one entry per check variable, pairwise *)
  Definition same_shape (a b : list (list num)) : Prop := Forall2 (fun x y => length x = length y) a b.

  Lemma conv_all_Forall2 tl : forall cur prev, same_shape cur prev ->
    (conv_all tl cur prev = true <-> Forall2 (Forall2 (moved_lt tl)) cur prev).
  Proof.
    induction 1 as [|c p cs ps Hl _ IH]; cbn [Linker.conv_all].
    - split; [constructor|reflexivity].
    - rewrite andb_true_iff, IH, (conv_Forall2 tl c p Hl). split.
      + intros [H1 H2]. constructor; assumption.
      + intros H. inversion H; subst. split; assumption.
  Qed.

  Lemma check_of_length p (c : comp) : length (check_of p c) = length (check (c_desc c)).
  Proof. unfold LinkerFacts2.check_of, get_check. apply map_length. Qed.

  (* descriptors and keys are preserved along a call, so the check vectors keep their shape *)
  Lemma check_vec_shape ids p s s' : srel ids s s' -> same_shape (check_vec ids p s') (check_vec ids p s).
  Proof.
    intros ((D & _) & F & _). unfold LinkerFacts2.check_vec, same_shape. constructor.
    - rewrite !check_of_length, D. reflexivity.
    - induction F as [|[a ca] [b cb] l l' [Ek (Dc & _)] _ IH]; cbn [filter map fst snd]; [constructor|].
      cbn [fst snd] in Ek, Dc. subst b. destruct (selected ids a); cbn [map]; [|exact IH].
      constructor; [|exact IH]. rewrite !check_of_length. cbn [snd]. rewrite Dc. reflexivity.
  Qed.

  Lemma same_shape_sym a b : same_shape a b -> same_shape b a.
  Proof. induction 1; constructor; auto. Qed.
  Lemma same_shape_trans a b c : same_shape a b -> same_shape b c -> same_shape a c.
  Proof.
    intros H. revert c. induction H as [|x y a b E _ IH]; intros c H2; inversion H2; subst; constructor.
    - congruence.
    - apply IH. assumption.
  Qed.

  Section OneCall.
    Variables (sel : option (list sid)) (o : opts num) (t : Z) (p : nat) (s : lstate).
    Variables (subs1 : list (sid * comp)) (s1 : lstate).
    Let ids := sel_ids num sel s.
    Let N := Z.to_nat (max_iter o).
    Hypothesis Hwf : wf t p s.
    Hypothesis Hz : zero_iters ids t (l_subs s) = (subs1, None).
    Hypothesis Hp : run_hook pre ids o t 0%nat (LPre t) (mkL (l_core s) subs1 (l_log s)) = (s1, None).

    Lemma srel_to_lst_after j : srel ids s (lst_after ids o t s1 j).
    Proof.
      eapply srel_trans; [|apply lst_after_srel].
      pose proof (run_hook_srel num pre ids ids o t 0%nat (LPre t) (mkL (l_core s) subs1 (l_log s)) I) as R1.
      rewrite Hp in R1. cbn [fst] in R1. eapply srel_trans; [|exact R1].
      split; [apply crel_refl|]. split; [|apply log_ext_eq; reflexivity].
      pose proof (zero_iters_F2 num t ids (l_subs s)) as HF. rewrite Hz in HF. exact HF.
    Qed.

    (* the check values after k iterations: one vector for the linker ('_'), then one per selected submodel in
       insertion order; each vector has one entry per name in that container's `check`.  k = 0: the values read
       BEFORE the counters are zeroed and the pre-hook runs (that is what the first iteration is compared with) *)
    Definition cvk (k : nat) : list (list num) :=
      match k with O => check_vec ids p s | S _ => check_vec ids p (lst_after ids o t s1 k) end.

    Lemma lchk_cvk k : lchk ids o t (check_vec ids p s) s1 k = cvk k.
    Proof.
      destruct k as [|k]; [reflexivity|]. cbn [LinkerFacts2.lchk cvk]. unfold gcv_or_nil.
      rewrite (gcv_wf num zero ids t p); [reflexivity|]. eapply wf_srel; [apply srel_to_lst_after|exact Hwf].
    Qed.

    Lemma cvk_shape k : same_shape (cvk k) (check_vec ids p s).
    Proof.
      destruct k as [|k]; cbn [cvk].
      - apply check_vec_shape. apply srel_refl.
      - apply check_vec_shape. apply srel_to_lst_after.
    Qed.

    Lemma cvk_shape_step k : same_shape (cvk k) (cvk (k - 1)).
    Proof. eapply same_shape_trans; [apply cvk_shape|apply same_shape_sym; apply cvk_shape]. Qed.

    (* iteration k qualifies: within [1, max_iter], at or beyond min_iter, and EVERY entry of EVERY container
       moved by strictly less than tol since iteration k - 1 *)
    Definition good (k : nat) : Prop :=
      (1 <= k <= N)%nat /\ min_iter o <= Z.of_nat k /\
      Forall2 (Forall2 (moved_lt (tol o))) (cvk k) (cvk (k - 1)).

    Lemma lconvk_good k : (1 <= k <= N)%nat -> (lconvk ids o t (check_vec ids p s) s1 k = true <-> good k).
    Proof.
      intros Hk. unfold LinkerFacts2.lconvk, good. rewrite andb_true_iff, !lchk_cvk.
      rewrite (conv_all_Forall2 (tol o) _ _ (cvk_shape_step k)). split.
      - intros [H1 H2]. split; [exact Hk|]. split; [lia|exact H2].
      - intros (_ & H1 & H2). split; [lia|exact H2].
    Qed.

    Hypothesis Hq : quiet_upto ids o t s1 N.
    Hypothesis Hpost : forall k s', snd (run_hook post ids o t k (LPost t k) s') = None.

    (* Declared solved exactly when some iteration qualifies; then the stamped iteration count is the LEAST
       qualifying k and the status is '.'; when none qualifies the status is 'F' and the count is max_iter. *)
    Theorem solved_iff_all_moved_lt_tol :
      let r := solve_t sel o t s in
      (snd r = LRet true <-> exists k, good k) /\
      (forall k, good k -> (forall j, (j < k)%nat -> ~ good j) ->
         snd r = LRet true /\
         nth_error (status (c_st (l_core (fst r)))) p = Some Solved /\
         nth_error (iters (c_st (l_core (fst r)))) p = Some (Z.of_nat k)) /\
      ((forall k, ~ good k) ->
         snd r = (if fail_raise o then LRaise (LExn NonConvergenceError) else LRet false) /\
         nth_error (status (c_st (l_core (fst r)))) p = Some Failed /\
         nth_error (iters (c_st (l_core (fst r)))) p = Some (Z.of_nat N)).
    Proof.
      intros r.
      assert (Hlt : (p < length (status (c_st (l_core s))))%nat /\ (p < length (iters (c_st (l_core s))))%nat).
      { destruct Hwf as [[H1 H2] _]. pose proof (py_pos_lt _ _ _ H1). lia. }
      destruct Hlt as [L1 L2].
      assert (Hsolved : forall k, good k -> (forall j, (j < k)%nat -> ~ good j) ->
                snd r = LRet true /\
                nth_error (status (c_st (l_core (fst r)))) p = Some Solved /\
                nth_error (iters (c_st (l_core (fst r)))) p = Some (Z.of_nat k)).
      { intros k Hg Hleast. pose proof Hg as (Hk & _).
        destruct (linker_converges_at_least_k num sub absf ltb zero sev pre ebefore eafter post sel o t p s subs1 s1 k
                    Hwf Hz Hp Hq Hpost Hk) as (R & A1 & A2 & _).
        - apply lconvk_good; assumption.
        - intros j Hj. apply not_true_is_false. intros E.
          apply (Hleast j); [lia|]. apply lconvk_good; [lia|exact E].
        - split; [exact R|]. fold r in A1, A2. rewrite A1, A2.
          split; apply nth_error_upd_eq; assumption. }
      assert (Hfailed : (forall k, ~ good k) ->
                snd r = (if fail_raise o then LRaise (LExn NonConvergenceError) else LRet false) /\
                nth_error (status (c_st (l_core (fst r)))) p = Some Failed /\
                nth_error (iters (c_st (l_core (fst r)))) p = Some (Z.of_nat N)).
      { intros Hnone.
        destruct (linker_fails_when_no_k num sub absf ltb zero sev pre ebefore eafter post sel o t p s subs1 s1
                    Hwf Hz Hp Hq) as (R & A1 & A2 & _).
        - intros j Hj. apply not_true_is_false. intros E.
          apply (Hnone j). apply lconvk_good; assumption.
        - split; [exact R|]. fold r in A1, A2. rewrite A1, A2.
          split; apply nth_error_upd_eq; assumption. }
      split; [|split; assumption].
      (* least qualifying k, if any: find_first over the decidable test *)
      destruct (find_first (lconvk ids o t (check_vec ids p s) s1) 1 N) as [k0|] eqn:EF.
      - apply find_first_some in EF as (Hr & Hcv & Hl).
        assert (Hg : good k0) by (apply lconvk_good; [lia|exact Hcv]).
        split; [intros _; exists k0; exact Hg|]. intros _.
        apply (Hsolved k0 Hg). intros j Hj Hgj. pose proof Hgj as (Hjr & _).
        apply lconvk_good in Hgj; [|exact Hjr]. rewrite Hl in Hgj by lia. discriminate.
      - assert (Hnone : forall k, ~ good k).
        { intros k Hg. pose proof Hg as (Hk & _). apply lconvk_good in Hg; [|exact Hk].
          eapply find_first_none in EF; [rewrite EF in Hg; discriminate|lia]. }
        split.
        + intros H. destruct (Hfailed Hnone) as (R & _). rewrite R in H. destruct (fail_raise o); discriminate.
        + intros [k Hg]. exfalso. exact (Hnone k Hg).
    Qed.

  End OneCall.
End LConv.

(* ======================= (B) the frame: other periods are left alone, on every path ======================= *)
(* l' differs from l at most at the position t denotes in l (at no position when t lies outside l) *)
Definition only_at {A} (t : Z) (l l' : list A) : Prop :=
  length l' = length l /\ forall q, py_pos (length l) t <> Some q -> nth_error l' q = nth_error l q.

Lemma only_at_refl {A} t (l : list A) : only_at t l l.
Proof. split; reflexivity. Qed.
Lemma only_at_trans {A} t (a b c : list A) : only_at t a b -> only_at t b c -> only_at t a c.
Proof.
  intros [L1 H1] [L2 H2]. split; [congruence|]. intros q Hq. rewrite H2, H1; [reflexivity|exact Hq|rewrite L1; exact Hq].
Qed.
Lemma only_at_py_set {A} t (l l' : list A) x : py_set l t x = Some l' -> only_at t l l'.
Proof.
  unfold py_set. destruct (py_pos (length l) t) as [p|] eqn:E; [|discriminate]. intros H; inversion H; subst.
  split; [apply upd_length|]. intros q Hq. apply nth_error_upd_neq. congruence.
Qed.

Section LFrame.
  Variable num : Type.
  Variables (sub : num -> num -> num) (absf : num -> num) (ltb : num -> num -> bool) (zero : num).
  Variable sev : sid -> hook num.
  Variables (pre ebefore eafter post : lhook num).

  Notation comp := (comp num).
  Notation lstate := (lstate num).
  Notation lhook := (lhook num).
  Notation find_sub := (find_sub num).
  Notation put_sub := (put_sub num).
  Notation put_sub_vals := (put_sub_vals num).
  Notation with_cvals := (with_cvals num).
  Notation set_iter := (set_iter num).
  Notation bump_iter := (bump_iter num).
  Notation set_status := (set_status num).
  Notation zero_iters := (zero_iters num).
  Notation stamp_subs := (stamp_subs num).
  Notation run_hook := (run_hook num).
  Notation eval_subs := (eval_subs num sev).
  Notation iter_step := (iter_step num sev ebefore eafter).
  Notation lloop := (lloop num sub absf ltb zero sev ebefore eafter post).
  Notation lfinish := (lfinish num).
  Notation solve_t := (linker_solve_t_body num sub absf ltb zero sev pre ebefore eafter post).
  Notation solve := (linker_solve_M num sub absf ltb zero sev pre ebefore eafter post).
  Notation solve_fold := (solve_fold num sub absf ltb zero sev pre ebefore eafter post).
  Notation llres_state := (llres_state num).

  (* one container: status and iterations differ at most at t; descriptor and private log are the same *)
  Definition cfr (t : Z) (c c' : comp) : Prop :=
    only_at t (status (c_st c)) (status (c_st c')) /\ only_at t (iters (c_st c)) (iters (c_st c')).
  Definition pfr (t : Z) (a b : sid * comp) : Prop := fst a = fst b /\ cfr t (snd a) (snd b).
  (* the linker and every submodel (same keys, same order) *)
  Definition sfr (t : Z) (s s' : lstate) : Prop :=
    cfr t (l_core s) (l_core s') /\ Forall2 (pfr t) (l_subs s) (l_subs s').

  Lemma cfr_refl t c : cfr t c c.
  Proof. split; apply only_at_refl. Qed.
  Lemma cfr_trans t a b c : cfr t a b -> cfr t b c -> cfr t a c.
  Proof. intros [A1 A2] [B1 B2]. split; eapply only_at_trans; eauto. Qed.
  Lemma cfr_with_cvals t c v : cfr t c (with_cvals c v).
  Proof. split; apply only_at_refl. Qed.
  Lemma cfr_set_iter t c x c' : set_iter c t x = Some c' -> cfr t c c'.
  Proof.
    unfold Linker.set_iter. destruct (py_set (iters (c_st c)) t x) as [l|] eqn:E; [|discriminate].
    intros H; inversion H; subst. split; [apply only_at_refl|]. cbn [c_st iters]. eapply only_at_py_set; eauto.
  Qed.
  Lemma cfr_set_status t c x c' : set_status c t x = Some c' -> cfr t c c'.
  Proof.
    unfold Linker.set_status. destruct (py_set (status (c_st c)) t x) as [l|] eqn:E; [|discriminate].
    intros H; inversion H; subst. split; [|apply only_at_refl]. cbn [c_st status]. eapply only_at_py_set; eauto.
  Qed.
  Lemma cfr_bump t c c' : bump_iter c t = Some c' -> cfr t c c'.
  Proof. unfold Linker.bump_iter. destruct (py_get _ t); [|discriminate]. apply cfr_set_iter. Qed.

  Lemma P2_refl t l : Forall2 (pfr t) l l.
  Proof. induction l; constructor; auto. split; [reflexivity|apply cfr_refl]. Qed.
  Lemma P2_trans t a : forall b c, Forall2 (pfr t) a b -> Forall2 (pfr t) b c -> Forall2 (pfr t) a c.
  Proof.
    induction a as [|x a IH]; intros b c H1 H2; inversion H1; subst; inversion H2; subst; constructor.
    - destruct H3 as [E1 R1]. destruct H4 as [E2 R2]. split; [congruence|eapply cfr_trans; eauto].
    - eapply IH; eauto.
  Qed.
  Lemma P2_put_sub t id c c' l : find_sub id l = Some c -> cfr t c c' -> Forall2 (pfr t) l (put_sub id c' l).
  Proof.
    intros Hf Hr. induction l as [|[i x] r IH]; cbn [Linker.find_sub Linker.put_sub] in *; [constructor|].
    destruct (Nat.eqb id i).
    - inversion Hf; subst. constructor; [split; [reflexivity|exact Hr]|apply P2_refl].
    - constructor; [split; [reflexivity|apply cfr_refl]|apply IH; exact Hf].
  Qed.
  Lemma P2_put_vals t l : forall vs, Forall2 (pfr t) l (put_sub_vals l vs).
  Proof.
    induction l as [|[i x] r IH]; intros [|v vs]; cbn [Linker.put_sub_vals]; try apply P2_refl.
    constructor; [split; [reflexivity|apply cfr_with_cvals]|apply IH].
  Qed.

  Lemma sfr_refl t s : sfr t s s.
  Proof. split; [apply cfr_refl|apply P2_refl]. Qed.
  Lemma sfr_trans t a b c : sfr t a b -> sfr t b c -> sfr t a c.
  Proof. intros [A1 A2] [B1 B2]. split; [eapply cfr_trans; eauto|eapply P2_trans; eauto]. Qed.

  Lemma zero_iters_P2 t : forall ids subs, Forall2 (pfr t) subs (fst (zero_iters ids t subs)).
  Proof.
    induction ids as [|id r IH]; intros subs; cbn [Linker.zero_iters fst]; [apply P2_refl|].
    destruct (find_sub id subs) as [c|] eqn:Ef; [|apply P2_refl].
    destruct (set_iter c t 0) as [c'|] eqn:Es; [|apply P2_refl].
    eapply P2_trans; [|apply IH]. eapply P2_put_sub; eauto. eapply cfr_set_iter; eauto.
  Qed.
  Lemma stamp_subs_P2 t x : forall ids subs, Forall2 (pfr t) subs (fst (stamp_subs ids t x subs)).
  Proof.
    induction ids as [|id r IH]; intros subs; cbn [Linker.stamp_subs fst]; [apply P2_refl|].
    destruct (find_sub id subs) as [c|] eqn:Ef; [|apply P2_refl].
    destruct (set_status c t x) as [c'|] eqn:Es; [|apply P2_refl].
    eapply P2_trans; [|apply IH]. eapply P2_put_sub; eauto. eapply cfr_set_status; eauto.
  Qed.

  Lemma run_hook_sfr (h : lhook) ids o t k e s : sfr t s (fst (run_hook h ids o t k e s)).
  Proof.
    unfold Linker.run_hook. destruct (h t ids (errors o) (catch_first o) k _) as [jv r]. cbn [fst].
    unfold put_jv. split; [apply cfr_with_cvals|apply P2_put_vals].
  Qed.

  Lemma eval_subs_sfr o t k : forall ids s, sfr t s (fst (eval_subs o t k ids s)).
  Proof.
    induction ids as [|id r IH]; intros s; cbn [Linker.eval_subs]; [apply sfr_refl|].
    destruct (find_sub id (l_subs s)) as [c|] eqn:Ef; [|apply sfr_refl].
    destruct (sev id t (errors o) (catch_first o) k (vals_of (c_st c))) as [v' [e|]].
    - cbn [fst]. split; [apply cfr_refl|]. eapply P2_put_sub; eauto. apply cfr_with_cvals.
    - destruct (bump_iter (with_cvals c v') t) as [c2|] eqn:Eb.
      + eapply sfr_trans; [|apply IH]. split; [apply cfr_refl|]. cbn [l_subs].
        eapply P2_put_sub; eauto. eapply cfr_trans; [apply cfr_with_cvals|eapply cfr_bump; eauto].
      + cbn [fst]. split; [apply cfr_refl|]. eapply P2_put_sub; eauto. apply cfr_with_cvals.
  Qed.

  Lemma iter_step_sfr ids o t k s : sfr t s (fst (iter_step ids o t k s)).
  Proof.
    unfold Linker.iter_step.
    pose proof (run_hook_sfr ebefore ids o t k (LBefore t k) s) as H1.
    destruct (run_hook ebefore ids o t k (LBefore t k) s) as [s1 [e|]]; cbn [fst] in *; [exact H1|].
    pose proof (eval_subs_sfr o t k ids s1) as H2.
    destruct (eval_subs o t k ids s1) as [s2 [e|]]; cbn [fst] in *; [eapply sfr_trans; eauto|].
    eapply sfr_trans; [exact H1|]. eapply sfr_trans; [exact H2|]. apply run_hook_sfr.
  Qed.

  Lemma lloop_sfr ids o t : forall n k s cur, sfr t s (llres_state (lloop ids o t n k s cur)).
  Proof.
    induction n as [|n IH]; intros k s cur; cbn [Linker.lloop LinkerFacts.llres_state]; [apply sfr_refl|].
    pose proof (iter_step_sfr ids o t k s) as H1.
    destruct (iter_step ids o t k s) as [s1 [e|]]; cbn [fst LinkerFacts.llres_state] in *; [exact H1|].
    destruct (Linker.get_check_values num zero ids t s1) as [cur'|e]; cbn [LinkerFacts.llres_state]; [|exact H1].
    destruct (Z.of_nat k <? min_iter o); [eapply sfr_trans; [exact H1|apply IH]|].
    destruct (conv_all num sub absf ltb (tol o) cur' cur); [|eapply sfr_trans; [exact H1|apply IH]].
    pose proof (run_hook_sfr post ids o t k (LPost t k) s1) as H2.
    destruct (run_hook post ids o t k (LPost t k) s1) as [s2 [e|]]; cbn [fst LinkerFacts.llres_state] in *;
      eapply sfr_trans; eauto.
  Qed.

  Lemma lfinish_sfr ids o t r : sfr t (llres_state r) (fst (lfinish o ids t r)).
  Proof.
    destruct r as [s x k|s e]; cbn [Linker.lfinish LinkerFacts.llres_state fst]; [|apply sfr_refl].
    destruct (set_status (l_core s) t x) as [c1|] eqn:E1; [|apply sfr_refl].
    destruct (set_iter c1 t (Z.of_nat k)) as [c2|] eqn:E2.
    - pose proof (stamp_subs_P2 t x ids (l_subs s)) as HF.
      assert (Hc : cfr t (l_core s) c2) by (eapply cfr_trans; [eapply cfr_set_status|eapply cfr_set_iter]; eauto).
      destruct (stamp_subs ids t x (l_subs s)) as [subs' [e|]]; cbn [fst] in *.
      + split; [exact Hc|exact HF].
      + destruct (st_eqb x Failed && fail_raise o); cbn [fst]; (split; [exact Hc|exact HF]).
    - cbn [fst]. split; [eapply cfr_set_status; eauto|apply P2_refl].
  Qed.

  (* Whatever happens in solve_t(t) — return, NonConvergenceError, KeyError, IndexError, an exception out of a hook
     or a submodel — the status and iteration series of the linker and of EVERY submodel keep their lengths and their
     entries at every position other than the one t denotes. *)
  Theorem solve_t_other_periods_untouched sel o t s : sfr t s (fst (solve_t sel o t s)).
  Proof.
    unfold Linker.linker_solve_t_body. set (ids := sel_ids num sel s).
    destruct (Linker.get_check_values num zero ids t s) as [cur|e]; [|apply sfr_refl].
    pose proof (zero_iters_P2 t ids (l_subs s)) as HZ.
    destruct (zero_iters ids t (l_subs s)) as [subs1 [e|]]; cbn [fst] in *.
    - split; [apply cfr_refl|exact HZ].
    - assert (H0 : sfr t s (mkL (l_core s) subs1 (l_log s))) by (split; [apply cfr_refl|exact HZ]).
      pose proof (run_hook_sfr pre ids o t 0%nat (LPre t) (mkL (l_core s) subs1 (l_log s))) as H1.
      destruct (run_hook pre ids o t 0%nat (LPre t) (mkL (l_core s) subs1 (l_log s))) as [s1 [e|]]; cbn [fst] in *.
      + eapply sfr_trans; eauto.
      + eapply sfr_trans; [exact H0|]. eapply sfr_trans; [exact H1|].
        eapply sfr_trans; [apply lloop_sfr|apply lfinish_sfr].
  Qed.

  Notation solve_tM := (linker_solve_t_M num sub absf ltb zero sev pre ebefore eafter post).
  (* the same for the call as made: a guard that fires (ValueError / IndexError) changes nothing at all *)
  Lemma seed_subs_P2 t' p q : forall ids subs, Forall2 (pfr t') subs (seed_subs num zero ids p q subs).
  Proof.
    induction ids as [|id r IH]; intros subs; cbn [Linker.seed_subs]; [apply P2_refl|].
    destruct (find_sub id subs) as [c|] eqn:Ef; [|apply IH].
    eapply P2_trans; [|apply IH]. eapply P2_put_sub; eauto. apply cfr_with_cvals.
  Qed.
  (* the offset seeding writes values only: no status / iteration entry moves *)
  Lemma linker_seed_sfr t' ids o t s s0 : linker_seed num zero ids o t s = (s0, None) -> sfr t' s s0.
  Proof.
    intros H. destruct (linker_seed_spec num zero _ _ _ _ _ H) as [->|(p & q & ->)]; [apply sfr_refl|].
    split; [apply cfr_with_cvals|apply seed_subs_P2].
  Qed.
  Theorem solve_t_other_periods_untouched_M sel o t s : sfr t s (fst (solve_tM sel o t s)).
  Proof.
    unfold Linker.linker_solve_t_M. destruct (max_iter o <? min_iter o); [apply sfr_refl|].
    destruct (linker_infeasible _ _ t); [apply sfr_refl|].
    destruct (linker_seed num zero (sel_ids num sel s) o t s) as [s0 [e|]] eqn:ES; [apply sfr_refl|].
    eapply sfr_trans; [eapply linker_seed_sfr; exact ES|apply solve_t_other_periods_untouched].
  Qed.

  (* ---- solve() over a list of positions: only the listed positions can change ---- *)
  Definition only_in {A} (ps : list Z) (l l' : list A) : Prop :=
    length l' = length l /\
    forall q, (forall t, In t ps -> py_pos (length l) t <> Some q) -> nth_error l' q = nth_error l q.
  Definition cfrs (ps : list Z) (c c' : comp) : Prop :=
    only_in ps (status (c_st c)) (status (c_st c')) /\ only_in ps (iters (c_st c)) (iters (c_st c')).
  Definition sfrs (ps : list Z) (s s' : lstate) : Prop :=
    cfrs ps (l_core s) (l_core s') /\
    Forall2 (fun a b => fst a = fst b /\ cfrs ps (snd a) (snd b)) (l_subs s) (l_subs s').

  Lemma only_in_nil {A} (l : list A) : only_in [] l l.
  Proof. split; reflexivity. Qed.
  Lemma only_in_cons {A} t ps (a b c : list A) : only_at t a b -> only_in ps b c -> only_in (t :: ps) a c.
  Proof.
    intros [L1 H1] [L2 H2]. split; [congruence|]. intros q Hq. rewrite H2, H1; [reflexivity| |].
    - apply Hq. left. reflexivity.
    - intros t' Ht'. rewrite L1. apply Hq. right. exact Ht'.
  Qed.
  Lemma only_in_weaken {A} t ps (a b : list A) : only_at t a b -> only_in (t :: ps) a b.
  Proof. intros H. eapply only_in_cons; [exact H|]. split; reflexivity. Qed.

  Lemma sfrs_refl ps s : sfrs ps s s.
  Proof.
    assert (R : forall A (l : list A), only_in ps l l) by (intros; split; reflexivity).
    split; [split; apply R|]. induction (l_subs s); constructor; auto. split; [reflexivity|split; apply R].
  Qed.
  Lemma sfrs_cons t ps a b c : sfr t a b -> sfrs ps b c -> sfrs (t :: ps) a c.
  Proof.
    intros [[A1 A2] A3] [[B1 B2] B3]. split; [split; eapply only_in_cons; eauto|].
    revert B3. generalize (l_subs c). induction A3 as [|x y l l' [E [C1 C2]] _ IH]; intros lc B3; inversion B3; subst; constructor.
    - destruct H1 as [E' [D1 D2]]. split; [congruence|]. split; eapply only_in_cons; eauto.
    - apply IH. assumption.
  Qed.
  Lemma sfrs_of_sfr t ps a b : sfr t a b -> sfrs (t :: ps) a b.
  Proof. intros H. eapply sfrs_cons; [exact H|apply sfrs_refl]. Qed.

  Lemma solve_fold_sfrs sel o : forall ps s acc, sfrs ps s (fst (solve_fold sel o ps s acc)).
  Proof.
    induction ps as [|t r IH]; intros s acc; cbn [Linker.solve_fold]; [apply sfrs_refl|].
    pose proof (solve_t_other_periods_untouched_M sel o t s) as H1.
    destruct (solve_tM sel o t s) as [s' [b|e]]; cbn [fst] in *.
    - eapply sfrs_cons; [exact H1|apply IH].
    - apply sfrs_of_sfr. exact H1.
  Qed.

  (* solve() over the positions ps: on every path (incl. the ValueError of the min_iter > max_iter guard and an
     exception part-way through) status / iterations of the linker and of every submodel are unchanged at every
     position that no member of ps denotes *)
  Theorem solve_other_periods_untouched sel o ps s : sfrs ps s (fst (solve sel o ps s)).
  Proof.
    unfold Linker.linker_solve_M. destruct (max_iter o <? min_iter o); [apply sfrs_refl|apply solve_fold_sfrs].
  Qed.
End LFrame.

(* ======================= (C) an exception out of a hook or a submodel: nothing is stamped ======================= *)
Section LRaise.
  Variable num : Type.
  Variables (sub : num -> num -> num) (absf : num -> num) (ltb : num -> num -> bool) (zero : num).
  Variable sev : sid -> hook num.
  Variables (pre ebefore eafter post : lhook num).

  Notation comp := (comp num).
  Notation lstate := (lstate num).
  Notation lhook := (lhook num).
  Notation find_sub := (find_sub num).
  Notation put_sub := (put_sub num).
  Notation put_sub_vals := (put_sub_vals num).
  Notation with_cvals := (with_cvals num).
  Notation set_iter := (set_iter num).
  Notation bump_iter := (bump_iter num).
  Notation zero_iters := (zero_iters num).
  Notation run_hook := (run_hook num).
  Notation eval_subs := (eval_subs num sev).
  Notation iter_step := (iter_step num sev ebefore eafter).
  Notation lloop := (lloop num sub absf ltb zero sev ebefore eafter post).
  Notation lfinish := (lfinish num).
  Notation solve_t := (linker_solve_t_body num sub absf ltb zero sev pre ebefore eafter post).
  Notation llres_state := (llres_state num).

  (* no status entry has changed anywhere, and the linker's own iteration counters are as they were
     (submodel counters may have been zeroed / bumped, values may have been written) *)
  Definition cst (c c' : comp) : Prop := status (c_st c') = status (c_st c).
  Definition nostamp (s s' : lstate) : Prop :=
    cst (l_core s) (l_core s') /\ iters (c_st (l_core s')) = iters (c_st (l_core s)) /\
    Forall2 (fun a b => fst a = fst b /\ cst (snd a) (snd b)) (l_subs s) (l_subs s').

  Lemma S2_refl l : Forall2 (fun a b : sid * comp => fst a = fst b /\ cst (snd a) (snd b)) l l.
  Proof. induction l; constructor; auto. split; reflexivity. Qed.
  Lemma S2_trans a : forall b c,
    Forall2 (fun a b : sid * comp => fst a = fst b /\ cst (snd a) (snd b)) a b ->
    Forall2 (fun a b : sid * comp => fst a = fst b /\ cst (snd a) (snd b)) b c ->
    Forall2 (fun a b : sid * comp => fst a = fst b /\ cst (snd a) (snd b)) a c.
  Proof.
    induction a as [|x a IH]; intros b c H1 H2; inversion H1; subst; inversion H2; subst; constructor.
    - destruct H3 as [E1 R1]. destruct H4 as [E2 R2]. split; [congruence|unfold cst in *; congruence].
    - eapply IH; eauto.
  Qed.
  Lemma S2_put_sub id c c' l : find_sub id l = Some c -> cst c c' ->
    Forall2 (fun a b : sid * comp => fst a = fst b /\ cst (snd a) (snd b)) l (put_sub id c' l).
  Proof.
    intros Hf Hr. induction l as [|[i x] r IH]; cbn [Linker.find_sub Linker.put_sub] in *; [constructor|].
    destruct (Nat.eqb id i).
    - inversion Hf; subst. constructor; [split; [reflexivity|exact Hr]|apply S2_refl].
    - constructor; [split; reflexivity|apply IH; exact Hf].
  Qed.
  Lemma S2_put_vals l : forall vs,
    Forall2 (fun a b : sid * comp => fst a = fst b /\ cst (snd a) (snd b)) l (put_sub_vals l vs).
  Proof.
    induction l as [|[i x] r IH]; intros [|v vs]; cbn [Linker.put_sub_vals]; try apply S2_refl.
    constructor; [split; reflexivity|apply IH].
  Qed.

  Lemma nostamp_refl s : nostamp s s.
  Proof. split; [reflexivity|]. split; [reflexivity|apply S2_refl]. Qed.
  Lemma nostamp_trans a b c : nostamp a b -> nostamp b c -> nostamp a c.
  Proof.
    intros (A1 & A2 & A3) (B1 & B2 & B3). split; [unfold cst in *; congruence|]. split; [congruence|eapply S2_trans; eauto].
  Qed.

  Lemma cst_set_iter c t x c' : set_iter c t x = Some c' -> cst c c'.
  Proof. unfold Linker.set_iter. destruct (py_set _ t x); [|discriminate]. intros H; inversion H; subst. reflexivity. Qed.
  Lemma cst_bump c t c' : bump_iter c t = Some c' -> cst c c'.
  Proof. unfold Linker.bump_iter. destruct (py_get _ t); [|discriminate]. apply cst_set_iter. Qed.

  Lemma zero_iters_S2 t : forall ids subs,
    Forall2 (fun a b : sid * comp => fst a = fst b /\ cst (snd a) (snd b)) subs (fst (zero_iters ids t subs)).
  Proof.
    induction ids as [|id r IH]; intros subs; cbn [Linker.zero_iters fst]; [apply S2_refl|].
    destruct (find_sub id subs) as [c|] eqn:Ef; [|apply S2_refl].
    destruct (set_iter c t 0) as [c'|] eqn:Es; [|apply S2_refl].
    eapply S2_trans; [|apply IH]. eapply S2_put_sub; eauto. eapply cst_set_iter; eauto.
  Qed.

  Lemma run_hook_nostamp (h : lhook) ids o t k e s : nostamp s (fst (run_hook h ids o t k e s)).
  Proof.
    unfold Linker.run_hook. destruct (h t ids (errors o) (catch_first o) k _) as [jv r]. cbn [fst].
    unfold put_jv. split; [reflexivity|]. split; [reflexivity|apply S2_put_vals].
  Qed.

  Lemma eval_subs_nostamp o t k : forall ids s, nostamp s (fst (eval_subs o t k ids s)).
  Proof.
    induction ids as [|id r IH]; intros s; cbn [Linker.eval_subs]; [apply nostamp_refl|].
    destruct (find_sub id (l_subs s)) as [c|] eqn:Ef; [|apply nostamp_refl].
    destruct (sev id t (errors o) (catch_first o) k (vals_of (c_st c))) as [v' [e|]].
    - cbn [fst]. split; [reflexivity|]. split; [reflexivity|]. eapply S2_put_sub; eauto. reflexivity.
    - destruct (bump_iter (with_cvals c v') t) as [c2|] eqn:Eb.
      + eapply nostamp_trans; [|apply IH]. split; [reflexivity|]. split; [reflexivity|]. cbn [l_subs].
        eapply S2_put_sub; eauto. apply cst_bump in Eb. exact Eb.
      + cbn [fst]. split; [reflexivity|]. split; [reflexivity|]. eapply S2_put_sub; eauto. reflexivity.
  Qed.

  Lemma iter_step_nostamp ids o t k s : nostamp s (fst (iter_step ids o t k s)).
  Proof.
    unfold Linker.iter_step.
    pose proof (run_hook_nostamp ebefore ids o t k (LBefore t k) s) as H1.
    destruct (run_hook ebefore ids o t k (LBefore t k) s) as [s1 [e|]]; cbn [fst] in *; [exact H1|].
    pose proof (eval_subs_nostamp o t k ids s1) as H2.
    destruct (eval_subs o t k ids s1) as [s2 [e|]]; cbn [fst] in *; [eapply nostamp_trans; eauto|].
    eapply nostamp_trans; [exact H1|]. eapply nostamp_trans; [exact H2|]. apply run_hook_nostamp.
  Qed.

  (* the loop itself never stamps: whatever it returns, its state carries the statuses it started with *)
  Lemma lloop_nostamp ids o t : forall n k s cur, nostamp s (llres_state (lloop ids o t n k s cur)).
  Proof.
    induction n as [|n IH]; intros k s cur; cbn [Linker.lloop LinkerFacts.llres_state]; [apply nostamp_refl|].
    pose proof (iter_step_nostamp ids o t k s) as H1.
    destruct (iter_step ids o t k s) as [s1 [e|]]; cbn [fst LinkerFacts.llres_state] in *; [exact H1|].
    destruct (Linker.get_check_values num zero ids t s1) as [cur'|e]; cbn [LinkerFacts.llres_state]; [|exact H1].
    destruct (Z.of_nat k <? min_iter o); [eapply nostamp_trans; [exact H1|apply IH]|].
    destruct (conv_all num sub absf ltb (tol o) cur' cur); [|eapply nostamp_trans; [exact H1|apply IH]].
    pose proof (run_hook_nostamp post ids o t k (LPost t k) s1) as H2.
    destruct (run_hook post ids o t k (LPost t k) s1) as [s2 [e|]]; cbn [fst LinkerFacts.llres_state] in *;
      eapply nostamp_trans; eauto.
  Qed.

  Lemma lfinish_user o ids t r c : snd (lfinish o ids t r) = LRaise (LUser c) ->
    exists s, r = LLRaise s (LUser c) /\ fst (lfinish o ids t r) = s.
  Proof.
    destruct r as [s x k|s e]; cbn [Linker.lfinish].
    - destruct (set_status num (l_core s) t x) as [c1|]; [|discriminate].
      destruct (set_iter c1 t (Z.of_nat k)) as [c2|]; [|discriminate].
      destruct (stamp_subs num ids t x (l_subs s)) as [subs' [e|]]; [discriminate|].
      destruct (st_eqb x Failed && fail_raise o); discriminate.
    - cbn [snd fst]. intros H; inversion H; subst. eauto.
  Qed.

  (* WHAT THE CODE DOES (the property's text is silent on raise paths; finding twin|no-error-policy is about exactly this):
     an exception raised by a linker hook or by a submodel's _evaluate surfaces unchanged (the linker wraps nothing) and
     NOTHING has been stamped: every status series — the linker's and every submodel's — and the linker's own iteration
     counters are exactly what they were before the call (the linker has no error policy of its own). *)
  Theorem user_exception_stamps_nothing sel o t s c :
    snd (solve_t sel o t s) = LRaise (LUser c) -> nostamp s (fst (solve_t sel o t s)).
  Proof.
    unfold Linker.linker_solve_t_body. set (ids := sel_ids num sel s).
    destruct (Linker.get_check_values num zero ids t s) as [cur|e]; [|discriminate].
    pose proof (zero_iters_S2 t ids (l_subs s)) as HZ.
    destruct (zero_iters ids t (l_subs s)) as [subs1 [e|]]; cbn [fst snd] in *; [discriminate|].
    assert (H0 : nostamp s (mkL (l_core s) subs1 (l_log s))) by (split; [reflexivity|split; [reflexivity|exact HZ]]).
    pose proof (run_hook_nostamp pre ids o t 0%nat (LPre t) (mkL (l_core s) subs1 (l_log s))) as H1.
    destruct (run_hook pre ids o t 0%nat (LPre t) (mkL (l_core s) subs1 (l_log s))) as [s1 [e|]]; cbn [fst snd] in *.
    - intros _. eapply nostamp_trans; eauto.
    - intros H. apply lfinish_user in H as (s2 & E & F). rewrite F.
      pose proof (lloop_nostamp ids o t (Z.to_nat (max_iter o)) 1%nat s1 cur) as H2. rewrite E in H2. cbn [LinkerFacts.llres_state] in H2.
      eapply nostamp_trans; [exact H0|]. eapply nostamp_trans; eauto.
  Qed.

  Lemma seed_subs_S2 p q : forall ids subs,
    Forall2 (fun a b : sid * comp => fst a = fst b /\ cst (snd a) (snd b)) subs (seed_subs num zero ids p q subs).
  Proof.
    induction ids as [|id r IH]; intros subs; cbn [Linker.seed_subs]; [apply S2_refl|].
    destruct (find_sub id subs) as [c|] eqn:Ef; [|apply IH].
    eapply S2_trans; [|apply IH]. eapply S2_put_sub; eauto. reflexivity.
  Qed.
  Lemma linker_seed_nostamp ids o t s s0 : linker_seed num zero ids o t s = (s0, None) -> nostamp s s0.
  Proof.
    intros H. destruct (linker_seed_spec num zero _ _ _ _ _ H) as [->|(p & q & ->)]; [apply nostamp_refl|].
    split; [reflexivity|]. split; [reflexivity|apply seed_subs_S2].
  Qed.

  Theorem user_exception_stamps_nothing_M sel o t s c :
    snd (linker_solve_t_M num sub absf ltb zero sev pre ebefore eafter post sel o t s) = LRaise (LUser c) ->
    nostamp s (fst (linker_solve_t_M num sub absf ltb zero sev pre ebefore eafter post sel o t s)).
  Proof.
    unfold Linker.linker_solve_t_M. destruct (max_iter o <? min_iter o); [discriminate|].
    destruct (linker_infeasible _ _ t); [discriminate|].
    destruct (linker_seed num zero (sel_ids num sel s) o t s) as [s0 [e|]] eqn:ES; [discriminate|].
    intros H. eapply nostamp_trans; [eapply linker_seed_nostamp; exact ES|apply (user_exception_stamps_nothing sel o t s0 c H)].
  Qed.
End LRaise.

(* ======================= (D) the only statuses a linker ever writes: '.' and 'F' ======================= *)
(* l' is l with some entries overwritten by x *)
Definition stamped {A} (x : A) (l l' : list A) : Prop :=
  length l' = length l /\ forall q, nth_error l' q = nth_error l q \/ nth_error l' q = Some x.

Lemma stamped_refl {A} (x : A) l : stamped x l l.
Proof. split; [reflexivity|intros q; left; reflexivity]. Qed.
Lemma stamped_trans {A} (x : A) a b c : stamped x a b -> stamped x b c -> stamped x a c.
Proof.
  intros [L1 H1] [L2 H2]. split; [congruence|]. intros q. destruct (H2 q) as [E|E]; [|right; exact E].
  rewrite E. apply H1.
Qed.
Lemma stamped_py_set {A} (x : A) l t l' : py_set l t x = Some l' -> stamped x l l'.
Proof.
  unfold py_set. destruct (py_pos (length l) t) as [p|] eqn:E; [|discriminate]. intros H; inversion H; subst.
  split; [apply upd_length|]. intros q. destruct (Nat.eq_dec p q) as [->|Hne].
  - right. apply nth_error_upd_eq. eapply py_pos_lt; eauto.
  - left. apply nth_error_upd_neq. exact Hne.
Qed.

Section LStatus.
  Variable num : Type.
  Variables (sub : num -> num -> num) (absf : num -> num) (ltb : num -> num -> bool) (zero : num).
  Variable sev : sid -> hook num.
  Variables (pre ebefore eafter post : lhook num).

  Notation comp := (comp num).
  Notation lstate := (lstate num).
  Notation find_sub := (find_sub num).
  Notation put_sub := (put_sub num).
  Notation set_status := (set_status num).
  Notation set_iter := (set_iter num).
  Notation stamp_subs := (stamp_subs num).
  Notation lloop := (lloop num sub absf ltb zero sev ebefore eafter post).
  Notation lfinish := (lfinish num).
  Notation solve_t := (linker_solve_t_body num sub absf ltb zero sev pre ebefore eafter post).
  Notation nostamp := (nostamp num).

  Definition sst (x : st) (c c' : comp) : Prop := stamped x (status (c_st c)) (status (c_st c')).
  Definition only_stamped (x : st) (s s' : lstate) : Prop :=
    sst x (l_core s) (l_core s') /\ Forall2 (fun a b => fst a = fst b /\ sst x (snd a) (snd b)) (l_subs s) (l_subs s').

  Lemma T2_refl x l : Forall2 (fun a b : sid * comp => fst a = fst b /\ sst x (snd a) (snd b)) l l.
  Proof. induction l; constructor; auto. split; [reflexivity|apply stamped_refl]. Qed.
  Lemma T2_trans x a : forall b c,
    Forall2 (fun a b : sid * comp => fst a = fst b /\ sst x (snd a) (snd b)) a b ->
    Forall2 (fun a b : sid * comp => fst a = fst b /\ sst x (snd a) (snd b)) b c ->
    Forall2 (fun a b : sid * comp => fst a = fst b /\ sst x (snd a) (snd b)) a c.
  Proof.
    induction a as [|y a IH]; intros b c H1 H2; inversion H1; subst; inversion H2; subst; constructor.
    - destruct H3 as [E1 R1]. destruct H4 as [E2 R2]. split; [congruence|eapply stamped_trans; eauto].
    - eapply IH; eauto.
  Qed.
  Lemma T2_put_sub x id c c' l : find_sub id l = Some c -> sst x c c' ->
    Forall2 (fun a b : sid * comp => fst a = fst b /\ sst x (snd a) (snd b)) l (put_sub id c' l).
  Proof.
    intros Hf Hr. induction l as [|[i y] r IH]; cbn [Linker.find_sub Linker.put_sub] in *; [constructor|].
    destruct (Nat.eqb id i).
    - inversion Hf; subst. constructor; [split; [reflexivity|exact Hr]|apply T2_refl].
    - constructor; [split; [reflexivity|apply stamped_refl]|apply IH; exact Hf].
  Qed.

  Lemma only_stamped_of_nostamp x s s' : nostamp s s' -> only_stamped x s s'.
  Proof.
    intros (A1 & _ & A3). split; [unfold sst; rewrite A1; apply stamped_refl|].
    induction A3 as [|a b l l' [E R] _ IH]; constructor; [|exact IH].
    split; [exact E|]. unfold sst. unfold cst in R. rewrite R. apply stamped_refl.
  Qed.
  Lemma only_stamped_trans x a b c : only_stamped x a b -> only_stamped x b c -> only_stamped x a c.
  Proof. intros [A1 A2] [B1 B2]. split; [eapply stamped_trans; eauto|eapply T2_trans; eauto]. Qed.

  Lemma sst_set_status x c t c' : set_status c t x = Some c' -> sst x c c'.
  Proof.
    unfold Linker.set_status. destruct (py_set (status (c_st c)) t x) as [l|] eqn:E; [|discriminate].
    intros H; inversion H; subst. unfold sst. cbn [c_st status]. eapply stamped_py_set; eauto.
  Qed.
  Lemma sst_set_iter x c t v c' : set_iter c t v = Some c' -> sst x c c'.
  Proof.
    unfold Linker.set_iter. destruct (py_set (iters (c_st c)) t v) as [l|]; [|discriminate].
    intros H; inversion H; subst. apply stamped_refl.
  Qed.

  Lemma stamp_subs_T2 t x : forall ids subs,
    Forall2 (fun a b : sid * comp => fst a = fst b /\ sst x (snd a) (snd b)) subs (fst (stamp_subs ids t x subs)).
  Proof.
    induction ids as [|id r IH]; intros subs; cbn [Linker.stamp_subs fst]; [apply T2_refl|].
    destruct (find_sub id subs) as [c|] eqn:Ef; [|apply T2_refl].
    destruct (set_status c t x) as [c'|] eqn:Es; [|apply T2_refl].
    eapply T2_trans; [|apply IH]. eapply T2_put_sub; eauto. eapply sst_set_status; eauto.
  Qed.

  (* the loop hands over only '.' (converged) or 'F' (ran out of iterations) *)
  Lemma lloop_done_status ids o t : forall n k s cur s' x j,
    lloop ids o t n k s cur = LLDone s' x j -> x = Solved \/ x = Failed.
  Proof.
    induction n as [|n IH]; intros k s cur s' x j; cbn [Linker.lloop].
    - intros H; inversion H; subst. right. reflexivity.
    - destruct (iter_step num sev ebefore eafter ids o t k s) as [s1 [e|]]; [discriminate|].
      destruct (Linker.get_check_values num zero ids t s1) as [cur'|e]; [|discriminate].
      destruct (Z.of_nat k <? min_iter o); [apply IH|].
      destruct (conv_all num sub absf ltb (tol o) cur' cur); [|apply IH].
      destruct (run_hook num post ids o t k (LPost t k) s1) as [s2 [e|]]; [discriminate|].
      intros H; inversion H; subst. left. reflexivity.
  Qed.

  Lemma lfinish_only_stamped o ids t s x k : only_stamped x s (fst (lfinish o ids t (LLDone s x k))).
  Proof.
    cbn [Linker.lfinish].
    destruct (set_status (l_core s) t x) as [c1|] eqn:E1; [|split; [apply stamped_refl|apply T2_refl]].
    destruct (set_iter c1 t (Z.of_nat k)) as [c2|] eqn:E2.
    - pose proof (stamp_subs_T2 t x ids (l_subs s)) as HF.
      assert (Hc : sst x (l_core s) c2).
      { eapply stamped_trans; [eapply sst_set_status; eauto|eapply sst_set_iter; eauto]. }
      destruct (stamp_subs ids t x (l_subs s)) as [subs' [e|]]; cbn [fst] in *.
      + split; [exact Hc|exact HF].
      + destruct (st_eqb x Failed && fail_raise o); cbn [fst]; (split; [exact Hc|exact HF]).
    - cbn [fst]. split; [eapply sst_set_status; eauto|apply T2_refl].
  Qed.

  (* WHAT THE CODE DOES (not a clause of C08; it would change with a repair of finding twin|no-error-policy):
     on EVERY path, every status entry of the linker and of every submodel after solve_t is either what it was or one
     single value x, and x is '.' or 'F': the linker never writes 'E' or 'S' (it has no error policy of its own — errors=
     and catch_first_error are only handed down to the hooks and to each submodel's _evaluate, see Linker.eval_subs /
     run_hook), and it never writes two different statuses in one call. *)
  Theorem solve_t_stamps_only_solved_or_failed sel o t s :
    exists x, (x = Solved \/ x = Failed) /\ only_stamped x s (fst (solve_t sel o t s)).
  Proof.
    unfold Linker.linker_solve_t_body. set (ids := sel_ids num sel s).
    assert (Triv : forall s', nostamp s s' -> exists x, (x = Solved \/ x = Failed) /\ only_stamped x s s').
    { intros s' H. exists Failed. split; [right; reflexivity|apply only_stamped_of_nostamp; exact H]. }
    destruct (Linker.get_check_values num zero ids t s) as [cur|e]; [|apply Triv; apply nostamp_refl].
    pose proof (zero_iters_S2 num t ids (l_subs s)) as HZ.
    destruct (zero_iters num ids t (l_subs s)) as [subs1 [e|]]; cbn [fst] in *.
    - apply Triv. split; [reflexivity|split; [reflexivity|exact HZ]].
    - assert (H0 : nostamp s (mkL (l_core s) subs1 (l_log s))) by (split; [reflexivity|split; [reflexivity|exact HZ]]).
      pose proof (run_hook_nostamp num pre ids o t 0%nat (LPre t) (mkL (l_core s) subs1 (l_log s))) as H1.
      destruct (run_hook num pre ids o t 0%nat (LPre t) (mkL (l_core s) subs1 (l_log s))) as [s1 [e|]]; cbn [fst] in *.
      + apply Triv. eapply nostamp_trans; eauto.
      + pose proof (lloop_nostamp num sub absf ltb zero sev ebefore eafter post ids o t (Z.to_nat (max_iter o)) 1%nat s1 cur) as H2.
        destruct (lloop ids o t (Z.to_nat (max_iter o)) 1%nat s1 cur) as [s2 x k|s2 e] eqn:EL.
        * cbn [LinkerFacts.llres_state] in H2. exists x. split; [eapply lloop_done_status; eauto|].
          eapply only_stamped_trans; [|apply lfinish_only_stamped].
          apply only_stamped_of_nostamp. eapply nostamp_trans; [exact H0|]. eapply nostamp_trans; eauto.
        * cbn [LinkerFacts.llres_state Linker.lfinish fst] in *. apply Triv.
          eapply nostamp_trans; [exact H0|]. eapply nostamp_trans; eauto.
  Qed.

  Theorem solve_t_stamps_only_solved_or_failed_M sel o t s :
    exists x, (x = Solved \/ x = Failed) /\
              only_stamped x s (fst (linker_solve_t_M num sub absf ltb zero sev pre ebefore eafter post sel o t s)).
  Proof.
    assert (Triv : exists x, (x = Solved \/ x = Failed) /\ only_stamped x s s).
    { exists Failed. split; [right; reflexivity|apply only_stamped_of_nostamp; apply nostamp_refl]. }
    unfold Linker.linker_solve_t_M. destruct (max_iter o <? min_iter o); [exact Triv|].
    destruct (linker_infeasible _ _ t); [exact Triv|].
    destruct (linker_seed num zero (sel_ids num sel s) o t s) as [s0 [e|]] eqn:ES; [exact Triv|].
    destruct (solve_t_stamps_only_solved_or_failed sel o t s0) as (x & Hx & Hs).
    exists x. split; [exact Hx|]. eapply only_stamped_trans; [|exact Hs].
    apply only_stamped_of_nostamp. eapply linker_seed_nostamp; exact ES.
  Qed.
End LStatus.
