(* LinkerFacts8.v — the last clause of C08 WITHOUT a premise on `offset` (the linker honours it since fix 6298cba): a linker
   that wraps a single model and adds no equations behaves as the model solved directly for every offset — rejected alike
   when it points outside the span, and otherwise both run from the seeded values (LinkerFacts3.linker_offset_seeds on the
   linker's side, SolverFacts.offset_seeds on the model's). *)
From Coq Require Import ZArith List Bool Lia Arith ZifyBool.
Import ListNotations.
Require Import PyBase Solver SolverFacts Linker LinkerFacts LinkerFacts2 LinkerFacts3.
Open Scope Z_scope.

Section SingleOffset.
  Variable num : Type.
  Variables (sub : num -> num -> num) (absf : num -> num) (ltb : num -> num -> bool) (isfin : num -> bool) (zero : num).
  Variable sev : sid -> hook num.
  Variable ev : hook num.
  Variables (d : mdesc) (o : opts num) (t : Z) (p : nat) (id : sid).
  Variables (cd : mdesc) (cv : vals num) (cs : list st) (ci : list Z) (cl : list event).
  Variables (mv : vals num) (ms : list st) (mi : list Z) (ml : list event) (lg : list levent).
  Variable sel : option (list sid).

  Notation msolve := (solve_t_M num sub absf ltb isfin zero ev (id_hook num) (id_hook num) d).
  Notation lsolve := (linker_solve_t_M num sub absf ltb zero sev (id_lhook num) (id_lhook num) (id_lhook num) (id_lhook num) sel).
  Notation L0 := (mkL (mkComp cd (mkState cv cs ci cl)) [(id, mkComp d (mkState mv ms mi ml))] lg).

  Hypothesis Hcheck : check cd = [].
  Hypothesis Hcs : py_pos (length cs) t = Some p.
  Hypothesis Hci : length ci = length cs.
  Hypothesis Hms : py_pos (length ms) t = Some p.
  Hypothesis Hmi : length mi = length ms.
  Hypothesis Hid : id <> us_id.                            (* the model is not keyed '_' *)
  Hypothesis Hlg : lags cd = lags d.
  Hypothesis Hld : leads cd = leads d.
  Hypothesis Hlen : length cs = length ms.
  Hypothesis Hmax : min_iter o <= max_iter o -> 0 <= max_iter o.
  Hypothesis Hsel : sel = None \/ sel = Some [id].

  (* the position the offset points to, and the values the iterations start from *)
  Let q : nat := Z.to_nat (Z.of_nat p + offset o).
  Let mv0 : vals num := if offset o =? 0 then mv else copy_endo num zero d mv p q.
  Let off_out : bool := negb (offset o =? 0) && ((Z.of_nat p + offset o <? 0) || (Z.of_nat (length ms) <=? Z.of_nat p + offset o)).

  (* the finite, exception-free regime — from the SEEDED values *)
  Hypothesis Hev : forall i, (1 <= i <= Z.to_nat (max_iter o))%nat -> snd (evk num ev o t i (st_after num ev o t mv0 (i - 1))) = None.
  Hypothesis Hfin : forall i, (i <= Z.to_nat (max_iter o))%nat ->
    all_finite num isfin (chkseq num zero ev d o t p (get_check num zero d mv0 p) mv0 i) = true.
  Hypothesis Hagree : forall i, (1 <= i <= Z.to_nat (max_iter o))%nat ->
    sev id t (errors o) (catch_first o) i (st_after num ev o t mv0 (i - 1)) = ev t (errors o) (catch_first o) i (st_after num ev o t mv0 (i - 1)).

  Theorem single_model_linker_eq_model_any_offset :
    let rm := msolve o t (mkState mv ms mi ml) in
    let rl := lsolve o t L0 in
    let rejected := (max_iter o <? min_iter o) || negb (feasible d (length ms) p) || off_out in
    snd rl = lout_of (snd rm) /\
    l_subs (fst rl) = [(id, mkComp d (mkState (vals_of (fst rm)) (status (fst rm)) (iters (fst rm)) ml))] /\
    status (c_st (l_core (fst rl))) = (if rejected then cs else upd p (nth p (status (fst rm)) Unsolved) cs) /\
    iters (c_st (l_core (fst rl))) = (if rejected then ci else upd p (nth p (iters (fst rm)) 0) ci).
  Proof.
    intros rm rl rejected.
    destruct (Z.eq_dec (offset o) 0) as [Hoff|Hoff].
    - (* offset = 0: LinkerFacts3.single_model_linker_eq_model *)
      assert (E0 : mv0 = mv) by (unfold mv0; rewrite Hoff; reflexivity).
      assert (Eo : off_out = false) by (unfold off_out; rewrite Hoff; reflexivity).
      rewrite E0 in Hev, Hfin, Hagree.
      destruct (single_model_linker_eq_model num sub absf ltb isfin zero sev ev d o t p id cd cv cs ci cl mv ms mi ml lg
                  Hcheck Hcs Hci Hms Hmi Hid sel Hlg Hld Hlen Hmax Hoff Hev Hfin Hagree Hsel) as (A1 & A2 & A3 & A4 & _).
      subst rejected. rewrite Eo, orb_false_r. repeat split; assumption.
    - (* offset <> 0 *)
      assert (Hg : linker_infeasible cd (length cs) t = negb (feasible d (length ms) p)).
      { rewrite (linker_infeasible_pos cd (length cs) t p Hcs). unfold feasible. rewrite Hlg, Hld, Hlen. reflexivity. }
      assert (Hids : sel_ids num sel L0 = [id]) by (destruct Hsel as [->| ->]; reflexivity).
      destruct (max_iter o <? min_iter o) eqn:Emm.
      + (* ValueError from both *)
        subst rm rl rejected. unfold Linker.linker_solve_t_M, Solver.solve_t_M. rewrite Emm. cbn. repeat split.
      + assert (Hmm : min_iter o <= max_iter o) by lia.
        destruct (feasible d (length ms) p) eqn:Ef.
        * assert (Hgf : linker_infeasible (c_desc (l_core L0)) (length (status (c_st (l_core L0)))) t = false)
            by (cbn [l_core c_desc c_st status]; rewrite Hg; reflexivity).
          destruct ((Z.of_nat p + offset o <? 0) || (Z.of_nat (length ms) <=? Z.of_nat p + offset o)) eqn:Eout.
          -- (* the offset points outside the span: IndexError from both, nothing changed *)
             assert (Eo : off_out = true) by (unfold off_out; replace (offset o =? 0) with false by lia; reflexivity).
             assert (HM : rm = (mkState mv ms mi ml, Raise IndexError)).
             { subst rm. apply (offset_out_of_span_rejected num sub absf ltb isfin zero ev (id_hook num) (id_hook num) d o t _ p Hmm);
                 cbn [status]; try assumption; lia. }
             assert (HL : rl = (L0, LRaise (LExn IndexError))).
             { subst rl. apply (linker_offset_out_of_span_rejected num sub absf ltb zero sev (id_lhook num) (id_lhook num) (id_lhook num)
                                  (id_lhook num) sel o t L0 p Hmm Hgf Hoff); cbn [l_core c_st status]; [exact Hcs|rewrite Hlen; lia]. }
             subst rejected. rewrite HM, HL, Eo. cbn. repeat split.
          -- (* in-span offset: both sides are the offset-free run on the seeded values *)
             assert (Hin : 0 <= Z.of_nat p + offset o < Z.of_nat (length ms)) by lia.
             assert (Eo : off_out = false) by (unfold off_out; apply andb_false_r).
             assert (E0 : mv0 = copy_endo num zero d mv p q) by (unfold mv0; replace (offset o =? 0) with false by lia; reflexivity).
             set (o' := set_offset num o 0).
             assert (HM : rm = msolve o' t (mkState (copy_endo num zero d mv p q) ms mi ml)).
             { subst rm. rewrite (offset_seeds num sub absf ltb isfin zero ev (id_hook num) (id_hook num) d o t _ p); cbn [status]; try assumption.
               rewrite Emm. reflexivity. }
             assert (HL : rl = lsolve o' t (mkL (mkComp cd (mkState (copy_endo num zero cd cv p q) cs ci cl))
                                               [(id, mkComp d (mkState (copy_endo num zero d mv p q) ms mi ml))] lg)).
             { subst rl.
               destruct (linker_offset_seeds num sub absf ltb zero sev (id_lhook num) (id_lhook num) (id_lhook num) (id_lhook num)
                           sel o t L0 p Hmm Hgf Hoff) as [_ E].
               - exact Hcs.
               - cbn [l_core c_st status]. rewrite Hlen. exact Hin.
               - rewrite Hids. intros x [<-|[]]. cbn [l_subs Linker.find_sub]. rewrite Nat.eqb_refl. discriminate.
               - rewrite E, Hids. unfold Linker.seeded, Linker.seed_comp, Linker.with_cvals.
                 cbn [l_core l_subs l_log c_desc c_st vals_of status iters log Linker.seed_subs Linker.find_sub Linker.put_sub].
                 rewrite Nat.eqb_refl. cbn [Linker.put_sub Linker.seed_subs c_desc c_st vals_of status iters log].
                 rewrite ?Nat.eqb_refl. fold q. reflexivity. }
             rewrite E0 in Hev, Hfin, Hagree.
             destruct (single_model_linker_eq_model num sub absf ltb isfin zero sev ev d o' t p id cd (copy_endo num zero cd cv p q) cs ci cl
                         (copy_endo num zero d mv p q) ms mi ml lg Hcheck Hcs Hci Hms Hmi Hid sel Hlg Hld Hlen Hmax eq_refl Hev Hfin Hagree Hsel)
               as (A1 & A2 & A3 & A4 & _).
             cbv zeta in A1, A2, A3, A4. unfold m0, core1 in A1, A2, A3, A4.
             change (max_iter o') with (max_iter o) in A3, A4. change (min_iter o') with (min_iter o) in A3, A4.
             rewrite Emm, Ef in A3, A4. cbn [negb orb] in A3, A4.
             subst rejected. rewrite HM, HL, Eo. cbn [negb orb]. repeat split; assumption.
        * (* no room for the lags / leads: IndexError from both *)
          subst rm rl rejected. unfold Linker.linker_solve_t_M, Solver.solve_t_M. rewrite Emm.
          cbn [l_core c_desc c_st status]. rewrite Hg, Hms, Ef. cbn. repeat split.
  Qed.
End SingleOffset.
