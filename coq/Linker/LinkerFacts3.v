(* LinkerFacts3.v — offset (ignored), multi-period solve, the constructor, and the comparison of a linker that
   wraps a single model and adds no equations with that model solved directly (Solver.solve_t_M). *)
From Coq Require Import ZArith List Bool Lia Arith ZifyBool.
Import ListNotations.
Require Import PyBase Solver SolverFacts Linker LinkerFacts LinkerFacts2.
Open Scope Z_scope.

(* ======================= the two guards of solve_t ======================= *)
(* for a t inside the span, the feasibility guard is the negation of Solver.feasible at t's position *)
Lemma linker_infeasible_pos d n t p : py_pos n t = Some p -> linker_infeasible d n t = negb (feasible d n p).
Proof.
  unfold py_pos, linker_infeasible, feasible.
  destruct ((t <? - Z.of_nat n) || (Z.of_nat n <=? t)) eqn:E; [discriminate|]. intros H; inversion H; subst; clear H.
  destruct (t <? 0) eqn:Et; apply Bool.eq_true_iff_eq; split; intros HH; lia.
Qed.
(* a t outside the span passes the guard when lags, leads <= len(span) (the call then fails reading the check values,
   or goes on if there are none); with longer lags / leads the guard's intervals reach outside the span too *)
Lemma linker_infeasible_outside d n t : (lags d <= n)%nat -> (leads d <= n)%nat ->
  py_pos n t = None -> linker_infeasible d n t = false.
Proof.
  intros Hl Hd. unfold py_pos, linker_infeasible. destruct ((t <? - Z.of_nat n) || (Z.of_nat n <=? t)) eqn:E; [|discriminate]. intros _.
  destruct (t <? 0) eqn:Et; apply Bool.not_true_is_false; intros HH; lia.
Qed.

Section LGuards.
  Variable num : Type.
  Variables (sub : num -> num -> num) (absf : num -> num) (ltb : num -> num -> bool) (zero : num).
  Variable sev : sid -> hook num.
  Variables (pre ebefore eafter post : lhook num).
  Notation solve_t := (linker_solve_t_M num sub absf ltb zero sev pre ebefore eafter post).
  Notation body := (linker_solve_t_body num sub absf ltb zero sev pre ebefore eafter post).
  Notation guard_t s t := (linker_infeasible (c_desc (l_core s)) (length (status (c_st (l_core s)))) t).

  (* min_iter > max_iter: ValueError before anything is looked at or written (fix 97423a0; replaces the former
     "never solved, 'F' stamped" behaviour) — whatever t, the selection (even unknown ids) and the state *)
  Theorem linker_solve_t_min_gt_max sel o t s :
    max_iter o < min_iter o -> solve_t sel o t s = (s, LRaise (LExn ValueError)).
  Proof. intros H. unfold Linker.linker_solve_t_M. replace (max_iter o <? min_iter o) with true by lia. reflexivity. Qed.

  (* a period without room for the linker's lags or leads: IndexError, nothing changed (fix a0fbb5c) — before the
     selection is validated (an unknown id does not turn it into KeyError) and before any counter is zeroed *)
  Theorem linker_solve_t_infeasible sel o t s :
    min_iter o <= max_iter o -> guard_t s t = true -> solve_t sel o t s = (s, LRaise (LExn IndexError)).
  Proof.
    intros H G. unfold Linker.linker_solve_t_M. replace (max_iter o <? min_iter o) with false by lia. rewrite G. reflexivity.
  Qed.
  Corollary linker_solve_t_infeasible_pos sel o t p s :
    min_iter o <= max_iter o -> py_pos (length (status (c_st (l_core s)))) t = Some p ->
    (p < lags (c_desc (l_core s)) \/ length (status (c_st (l_core s))) <= p + leads (c_desc (l_core s)))%nat ->
    solve_t sel o t s = (s, LRaise (LExn IndexError)).
  Proof.
    intros H Hp Hq. apply linker_solve_t_infeasible; [exact H|]. rewrite (linker_infeasible_pos _ _ _ _ Hp).
    unfold feasible. apply negb_true_iff, andb_false_iff. destruct Hq; [left; apply Nat.leb_gt|right; apply Nat.ltb_ge]; lia.
  Qed.

  Notation seed := (linker_seed num zero).

  (* both guards passed: the offset seeding, then the body on the seeded state *)
  Lemma linker_solve_t_seeded sel o t s s0 :
    min_iter o <= max_iter o -> guard_t s t = false -> seed (sel_ids num sel s) o t s = (s0, None) ->
    solve_t sel o t s = body sel o t s0.
  Proof.
    intros H G E. unfold Linker.linker_solve_t_M. replace (max_iter o <? min_iter o) with false by lia. rewrite G, E. reflexivity.
  Qed.
  Lemma linker_solve_t_seed_error sel o t s s' e :
    min_iter o <= max_iter o -> guard_t s t = false -> seed (sel_ids num sel s) o t s = (s', Some e) ->
    solve_t sel o t s = (s, LRaise (LExn e)).
  Proof.
    intros H G E. unfold Linker.linker_solve_t_M. replace (max_iter o <? min_iter o) with false by lia. rewrite G, E. reflexivity.
  Qed.
  Lemma linker_seed_offset0 ids o t s : offset o = 0 -> seed ids o t s = (s, None).
  Proof. intros H. unfold Linker.linker_seed. rewrite H. reflexivity. Qed.
  (* ... with offset = 0 the call is its body *)
  Lemma linker_solve_t_guards_passed sel o t s :
    min_iter o <= max_iter o -> guard_t s t = false -> offset o = 0 -> solve_t sel o t s = body sel o t s.
  Proof. intros H G Ho. apply linker_solve_t_seeded; [exact H|exact G|apply linker_seed_offset0; exact Ho]. Qed.

  (* the ways a call can go: rejected by a guard or by the offset test / id validation of the seeding with NOTHING changed,
     or the body on the (possibly seeded) state *)
  Lemma linker_solve_t_cases sel o t s :
    (exists e, (e = ValueError \/ e = IndexError \/ e = KeyError) /\ solve_t sel o t s = (s, LRaise (LExn e))) \/
    (exists s0, min_iter o <= max_iter o /\ guard_t s t = false /\ seed (sel_ids num sel s) o t s = (s0, None) /\
                solve_t sel o t s = body sel o t s0).
  Proof.
    unfold Linker.linker_solve_t_M. destruct (max_iter o <? min_iter o) eqn:E; [left; exists ValueError; auto|].
    destruct (guard_t s t) eqn:G; [left; exists IndexError; auto|].
    destruct (seed (sel_ids num sel s) o t s) as [s0 [e|]] eqn:ES.
    - left. exists e. split; [|reflexivity]. destruct (linker_seed_error num zero _ _ _ _ _ _ ES) as [_ [->| ->]]; auto.
    - right. exists s0. repeat split. lia.
  Qed.
End LGuards.

(* ======================= offset and solve(): any oracles ======================= *)
Section LOffset.
  Variable num : Type.
  Variables (sub : num -> num -> num) (absf : num -> num) (ltb : num -> num -> bool) (zero : num).
  Variable sev : sid -> hook num.
  Variables (pre ebefore eafter post : lhook num).

  Notation lstate := (lstate num).
  Notation run_hook := (run_hook num).
  Notation eval_subs := (eval_subs num sev).
  Notation iter_step := (iter_step num sev ebefore eafter).
  Notation lloop := (lloop num sub absf ltb zero sev ebefore eafter post).
  Notation lfinish := (lfinish num).
  Notation solve_t := (linker_solve_t_M num sub absf ltb zero sev pre ebefore eafter post).
  Notation body := (linker_solve_t_body num sub absf ltb zero sev pre ebefore eafter post).
  Notation solve := (linker_solve_M num sub absf ltb zero sev pre ebefore eafter post).
  Notation solve_fold := (solve_fold num sub absf ltb zero sev pre ebefore eafter post).
  Notation set_offset := (set_offset num).

  Lemma run_hook_set_offset h ids o x t k e s : run_hook h ids (set_offset o x) t k e s = run_hook h ids o t k e s.
  Proof. reflexivity. Qed.

  Lemma eval_subs_set_offset o x t k : forall ids s, eval_subs (set_offset o x) t k ids s = eval_subs o t k ids s.
  Proof.
    induction ids as [|a r IH]; intros s; cbn [Linker.eval_subs]; [reflexivity|].
    destruct (find_sub num a (l_subs s)) as [c|]; [|reflexivity].
    change (errors (set_offset o x)) with (errors o). change (catch_first (set_offset o x)) with (catch_first o).
    destruct (sev a t (errors o) (catch_first o) k (vals_of (c_st c))) as [v' [e|]]; [reflexivity|].
    destruct (bump_iter num (with_cvals num c v') t); [apply IH|reflexivity].
  Qed.

  Lemma iter_step_set_offset ids o x t k s : iter_step ids (set_offset o x) t k s = iter_step ids o t k s.
  Proof.
    unfold Linker.iter_step. rewrite run_hook_set_offset.
    destruct (run_hook ebefore ids o t k (LBefore t k) s) as [s1 [e|]]; [reflexivity|].
    rewrite eval_subs_set_offset. destruct (eval_subs o t k ids s1) as [s2 [e|]]; reflexivity.
  Qed.

  Lemma lloop_set_offset ids o x t : forall n k s cur, lloop ids (set_offset o x) t n k s cur = lloop ids o t n k s cur.
  Proof.
    induction n as [|n IH]; intros k s cur; cbn [Linker.lloop]; [reflexivity|].
    rewrite iter_step_set_offset. destruct (iter_step ids o t k s) as [s1 [e|]]; [reflexivity|].
    destruct (get_check_values num zero ids t s1) as [cur'|e]; [|reflexivity].
    change (min_iter (set_offset o x)) with (min_iter o). change (tol (set_offset o x)) with (tol o).
    rewrite run_hook_set_offset, !IH. reflexivity.
  Qed.

  (* the linker never reads `offset`: every value of it — zero, in the span, outside the span — gives the same run *)
  Lemma body_offset_ignored sel o x t s : body sel (set_offset o x) t s = body sel o t s.
  Proof.
    unfold Linker.linker_solve_t_body. destruct (get_check_values num zero (sel_ids num sel s) t s) as [cur|e]; [|reflexivity].
    destruct (zero_iters num (sel_ids num sel s) t (l_subs s)) as [subs1 [e|]]; [reflexivity|].
    rewrite run_hook_set_offset. destruct (run_hook pre _ o t 0%nat (LPre t) _) as [s1 [e|]]; [reflexivity|].
    change (max_iter (set_offset o x)) with (max_iter o). rewrite lloop_set_offset.
    destruct (lloop _ o t _ 1%nat s1 cur) as [s2 st k|s2 e]; reflexivity.
  Qed.
  Notation guard_t s t := (linker_infeasible (c_desc (l_core s)) (length (status (c_st (l_core s)))) t).
  Notation seed := (linker_seed num zero).
  Notation seeded := (seeded num zero).

  (* offset = 0: nothing is seeded *)
  Theorem linker_offset_zero_no_seeding ids o t s : offset o = 0 -> seed ids o t s = (s, None).
  Proof. apply linker_seed_offset0. Qed.

  (* an offset pointing outside the span: IndexError, nothing changed (as BaseModel.solve_t) — whatever the selection *)
  Theorem linker_offset_out_of_span_rejected sel o t s p :
    min_iter o <= max_iter o -> guard_t s t = false -> offset o <> 0 ->
    py_pos (length (status (c_st (l_core s)))) t = Some p ->
    (Z.of_nat p + offset o < 0 \/ Z.of_nat (length (status (c_st (l_core s)))) <= Z.of_nat p + offset o) ->
    solve_t sel o t s = (s, LRaise (LExn IndexError)).
  Proof.
    intros Hmm G Ho Hp Hout. eapply linker_solve_t_seed_error; [exact Hmm|exact G|].
    unfold Linker.linker_seed. replace (offset o =? 0) with false by lia.
    assert (Htc : (if t <? 0 then t + Z.of_nat (length (status (c_st (l_core s)))) else t) = Z.of_nat p).
    { unfold py_pos in Hp. destruct (_ || _) eqn:E; [discriminate|]. inversion Hp. destruct (t <? 0) eqn:Et; lia. }
    rewrite Htc. replace ((Z.of_nat p + offset o <? 0) || (Z.of_nat (length (status (c_st (l_core s)))) <=? Z.of_nat p + offset o)) with true by lia.
    reflexivity.
  Qed.

  (* an in-span offset with a known selection: the endogenous rows of the linker's core and of every listed submodel take
     their period-t value from period t + offset (Linker.seeded), and the call then proceeds — get_check_values FIRST —
     on that seeded state exactly as the offset-free call does *)
  Theorem linker_offset_seeds sel o t s p :
    min_iter o <= max_iter o -> guard_t s t = false -> offset o <> 0 ->
    py_pos (length (status (c_st (l_core s)))) t = Some p ->
    0 <= Z.of_nat p + offset o < Z.of_nat (length (status (c_st (l_core s)))) ->
    (forall id, In id (sel_ids num sel s) -> find_sub num id (l_subs s) <> None) ->
    let s0 := seeded (sel_ids num sel s) p (Z.to_nat (Z.of_nat p + offset o)) s in
    solve_t sel o t s = body sel o t s0 /\ solve_t sel o t s = solve_t sel (set_offset o 0) t s0.
  Proof.
    intros Hmm G Ho Hp Hin Hk s0.
    assert (ES : seed (sel_ids num sel s) o t s = (s0, None)).
    { unfold Linker.linker_seed. replace (offset o =? 0) with false by lia.
      assert (Htc : (if t <? 0 then t + Z.of_nat (length (status (c_st (l_core s)))) else t) = Z.of_nat p).
      { unfold py_pos in Hp. destruct (_ || _) eqn:E; [discriminate|]. inversion Hp. destruct (t <? 0) eqn:Et; lia. }
      rewrite Htc. replace ((Z.of_nat p + offset o <? 0) || (Z.of_nat (length (status (c_st (l_core s)))) <=? Z.of_nat p + offset o)) with false by lia.
      replace (existsb _ (sel_ids num sel s)) with false; [rewrite Hp; reflexivity|].
      symmetry. apply not_true_is_false. intros E. apply existsb_exists in E as (id & Hi & Hn).
      specialize (Hk id Hi). destruct (find_sub num id (l_subs s)); [discriminate|contradiction]. }
    split; [apply (linker_solve_t_seeded num sub absf ltb zero sev pre ebefore eafter post sel o t s s0 Hmm G ES)|].
    rewrite (linker_solve_t_seeded num sub absf ltb zero sev pre ebefore eafter post sel o t s s0 Hmm G ES).
    symmetry. rewrite (linker_solve_t_guards_passed num sub absf ltb zero sev pre ebefore eafter post sel (set_offset o 0) t s0);
      [apply body_offset_ignored|exact Hmm| |reflexivity].
    unfold s0. cbn [Linker.seeded l_core Linker.seed_comp Linker.with_cvals c_desc c_st status]. exact G.
  Qed.

  (* what `seeded` is, container by container *)
  Theorem seeded_core ids p q s :
    l_core (seeded ids p q s) = with_cvals num (l_core s) (copy_endo num zero (c_desc (l_core s)) (vals_of (c_st (l_core s))) p q) /\
    l_log (seeded ids p q s) = l_log s.
  Proof. split; reflexivity. Qed.
  (* an unselected submodel is not seeded *)
  Theorem seeded_unselected ids p q s i id c :
    nth_error (l_subs s) i = Some (id, c) -> selected ids id = false -> nth_error (l_subs (seeded ids p q s)) i = Some (id, c).
  Proof. intros Hn Hs. cbn [Linker.seeded l_subs]. apply seed_subs_unselected; assumption. Qed.
  (* a selected submodel (listed once) is: endogenous rows at p copied from q, nothing else *)
  Lemma seed_subs_selected p q id c : forall ids subs,
    NoDup ids -> In id ids -> find_sub num id subs = Some c ->
    find_sub num id (seed_subs num zero ids p q subs) = Some (seed_comp num zero c p q).
  Proof.
    induction ids as [|a r IH]; intros subs Hnd Hi Hf; [destruct Hi|]. inversion Hnd as [|? ? Hna Hnd']; subst.
    cbn [Linker.seed_subs]. destruct Hi as [->|Hi].
    - rewrite Hf.
      assert (Hrest : forall subs', find_sub num id subs' = Some (seed_comp num zero c p q) ->
                      find_sub num id (seed_subs num zero r p q subs') = Some (seed_comp num zero c p q)).
      { clear - Hna. induction r as [|b r IH]; intros subs' H; cbn [Linker.seed_subs]; [exact H|].
        assert (Hb : b <> id) by (intros ->; apply Hna; left; reflexivity).
        destruct (find_sub num b subs') as [x|]; apply IH; try (intros Hx; apply Hna; right; exact Hx); [|exact H].
        rewrite find_put_other by (intros E; apply Hb; symmetry; exact E). exact H. }
      apply Hrest. rewrite find_put_same, Hf. reflexivity.
    - assert (Hne : id <> a) by (intros ->; contradiction).
      destruct (find_sub num a subs) as [x|]; apply IH; try assumption.
      rewrite find_put_other by exact Hne. exact Hf.
  Qed.
  Theorem seeded_selected ids p q s id c :
    NoDup ids -> In id ids -> find_sub num id (l_subs s) = Some c ->
    find_sub num id (l_subs (seeded ids p q s)) = Some (seed_comp num zero c p q).
  Proof. intros. cbn [Linker.seeded l_subs]. apply seed_subs_selected; assumption. Qed.

  (* ---- solve(): the guard, and the fold of solve_t over the periods ---- *)
  Theorem linker_solve_min_gt_max sel o ps s :
    max_iter o < min_iter o -> solve sel o ps s = (s, inl (LExn ValueError)).
  Proof. intros H. unfold Linker.linker_solve_M. replace (max_iter o <? min_iter o) with true by lia. reflexivity. Qed.

  Lemma solve_fold_acc sel o : forall ps s acc,
    solve_fold sel o ps s acc =
    match solve_fold sel o ps s [] with
    | (s', inr bs) => (s', inr (rev acc ++ bs))
    | (s', inl e) => (s', inl e)
    end.
  Proof.
    induction ps as [|t r IH]; intros s acc; cbn [Linker.solve_fold].
    - cbn [rev]. rewrite app_nil_r. reflexivity.
    - destruct (solve_t sel o t s) as [s' [b|e]]; [|reflexivity].
      rewrite (IH s' (b :: acc)), (IH s' [b]).
      destruct (solve_fold sel o r s' []) as [s'' [e|bs]]; [reflexivity|].
      cbn [rev app]. rewrite <- app_assoc. reflexivity.
  Qed.

  (* one solve_t per period, in order, each on the state the previous one left; the first exception stops the fold
     and surfaces unchanged; the flags are the solve_t return values *)
  Theorem linker_solve_cons sel o t ps s :
    min_iter o <= max_iter o ->
    solve sel o (t :: ps) s =
    match solve_t sel o t s with
    | (s', LRet b) => match solve sel o ps s' with
                      | (s'', inr bs) => (s'', inr (b :: bs))
                      | (s'', inl e) => (s'', inl e)
                      end
    | (s', LRaise e) => (s', inl e)
    end.
  Proof.
    intros H. unfold Linker.linker_solve_M. replace (max_iter o <? min_iter o) with false by lia.
    cbn [Linker.solve_fold]. destruct (solve_t sel o t s) as [s' [b|e]]; [|reflexivity].
    rewrite solve_fold_acc. destruct (solve_fold sel o ps s' []) as [s'' [e|bs]]; reflexivity.
  Qed.

  Theorem linker_solve_nil sel o s : min_iter o <= max_iter o -> solve sel o [] s = (s, inr []).
  Proof. intros H. unfold Linker.linker_solve_M. replace (max_iter o <? min_iter o) with false by lia. reflexivity. Qed.
End LOffset.

(* ======================= the constructor ======================= *)
Lemma zlist_eqb_eq : forall a b, zlist_eqb a b = true <-> a = b.
Proof.
  induction a as [|x a IH]; intros [|y b]; cbn [zlist_eqb]; split; intros H; try reflexivity; try discriminate.
  - apply andb_true_iff in H as [H1 H2]. apply Z.eqb_eq in H1. apply IH in H2. congruence.
  - inversion H; subst. rewrite Z.eqb_refl. cbn [andb]. apply IH. reflexivity.
Qed.

Lemma elem_ne_false x y : elem_ne x y = false <-> x = y.
Proof.
  unfold elem_ne. rewrite negb_false_iff, andb_true_iff, Nat.eqb_eq, Z.eqb_eq. destruct x, y; cbn [fst snd].
  split; [intros [-> ->]; reflexivity|intros H; inversion H; split; reflexivity].
Qed.

Lemma any_ne_false : forall a b, length a = length b -> (any_ne a b = false <-> a = b).
Proof.
  induction a as [|x a IH]; intros [|y b] Hl; cbn [length] in Hl; try discriminate; cbn [any_ne].
  - split; reflexivity.
  - rewrite orb_false_iff, elem_ne_false, IH by lia. split; [intros [-> ->]; reflexivity|intros H; inversion H; split; reflexivity].
Qed.

(* The span test as coded (length, then element by element over the zip) decides exactly: "the two spans yield the same
   sequence of elements" — for every pair of container kinds, no exception. *)
Theorem spans_differ_spec a b : spans_differ a b = false <-> span_elems a = span_elems b.
Proof.
  unfold spans_differ. rewrite orb_false_iff, negb_false_iff, Nat.eqb_eq. split.
  - intros [Hl Ha]. apply any_ne_false; [unfold span_elems; rewrite !map_length; exact Hl|exact Ha].
  - intros E. assert (Hl : length (sp_labels a) = length (sp_labels b)).
    { apply (f_equal (@length _)) in E. unfold span_elems in E. rewrite !map_length in E. exact E. }
    split; [exact Hl|]. apply any_ne_false; [unfold span_elems; rewrite !map_length; exact Hl|exact E].
Qed.

(* the same sequence of elements = the same labels, and (unless both spans are empty) elements of the same class:
   integers (list / tuple / range / ndarray / Index — these may be mixed freely), Periods, or Timestamps *)
Lemma span_elems_eq a b :
  span_elems a = span_elems b <->
  sp_labels a = sp_labels b /\ (sp_labels a = [] \/ elt_class (sp_kind a) = elt_class (sp_kind b)).
Proof.
  unfold span_elems. generalize (elt_class (sp_kind a)) (elt_class (sp_kind b)). intros ca cb.
  generalize (sp_labels a) (sp_labels b). induction l as [|x l IH]; intros [|y l']; cbn [map]; split; try discriminate.
  - intros _. split; [reflexivity|left; reflexivity].
  - reflexivity.
  - intros [H _]. discriminate.
  - intros [H _]. discriminate.
  - intros H. inversion H; subst. split; [|right; reflexivity].
    f_equal. apply IH in H3 as [E _]. exact E.
  - intros [H [H0|H0]]; [discriminate|]. inversion H; subst. reflexivity.
Qed.

Lemma fold_max_spec : forall l a,
  let m := fold_left Z.max l a in a <= m /\ Forall (fun x => x <= m) l /\ In m (a :: l).
Proof.
  induction l as [|x l IH]; intros a; cbn [fold_left].
  - split; [lia|]. split; [constructor|left; reflexivity].
  - destruct (IH (Z.max a x)) as (H1 & H2 & H3). split; [lia|]. split; [constructor; [lia|exact H2]|].
    destruct H3 as [H3|H3]; [|right; right; exact H3].
    rewrite <- H3. destruct (Z.max_spec a x) as [[_ E]|[_ E]]; rewrite E; [right; left|left]; reflexivity.
Qed.

Lemma ctor_loop_accepts base : forall rest lg ld,
  (forall ic, In ic rest -> spans_differ (si_span (snd ic)) base = false) ->
  ctor_loop base rest lg ld =
  Ret (fold_left Z.max (map (fun ic => si_LAGS (snd ic)) rest) lg, fold_left Z.max (map (fun ic => si_LEADS (snd ic)) rest) ld).
Proof.
  induction rest as [|[i c] r IH]; intros lg ld H; cbn [ctor_loop map fold_left]; [reflexivity|].
  pose proof (H (i, c) (or_introl eq_refl)) as Hc. cbn [snd] in Hc. rewrite Hc. apply IH. intros ic Hi. apply H. right. exact Hi.
Qed.

Lemma ctor_loop_rejects base : forall rest lg ld,
  (exists ic, In ic rest /\ spans_differ (si_span (snd ic)) base = true) ->
  ctor_loop base rest lg ld = Raise InitialisationError.
Proof.
  induction rest as [|[i c] r IH]; intros lg ld (ic & Hi & Hne); [destruct Hi|]. cbn [ctor_loop].
  destruct (spans_differ (si_span c) base) eqn:Hb; [reflexivity|].
  apply IH. destruct Hi as [<-|Hi]; [cbn [snd] in Hne; congruence|]. exists ic. split; assumption.
Qed.

(* Submodels whose spans differ — in length or in any position, whatever the container kinds — are rejected with
   InitialisationError (since fix ee9fcdf there is no kind of span for which the test itself fails). *)
Theorem ctor_rejects_differing_spans id0 b rest :
  (exists ic, In ic rest /\ span_elems (si_span (snd ic)) <> span_elems (si_span b)) ->
  linker_ctor_M ((id0, b) :: rest) None = Raise InitialisationError.
Proof.
  intros (ic & Hi & Hne). cbn [linker_ctor_M]. rewrite ctor_loop_rejects; [reflexivity|].
  exists ic. split; [exact Hi|]. destruct (spans_differ (si_span (snd ic)) (si_span b)) eqn:E; [reflexivity|].
  apply spans_differ_spec in E. contradiction.
Qed.

(* spelled out: a different number of periods, or a different label at some position *)
Corollary ctor_rejects_differing_labels id0 b rest :
  (exists ic, In ic rest /\ sp_labels (si_span (snd ic)) <> sp_labels (si_span b)) ->
  linker_ctor_M ((id0, b) :: rest) None = Raise InitialisationError.
Proof.
  intros (ic & Hi & Hne). apply ctor_rejects_differing_spans. exists ic. split; [exact Hi|].
  intros E. apply span_elems_eq in E as [E _]. contradiction.
Qed.

(* Identical spans of ANY kind (list, tuple, range, NumPy array, pandas Index / PeriodIndex / DatetimeIndex — and mixed
   integer-labelled kinds, e.g. a list and a range with equal elements) are accepted; the linker takes the first
   submodel's span and the LARGEST class-level LAGS / LEADS.  Replaces the refutation that held before fix ee9fcdf. *)
Theorem lags_leads_are_maxima id0 b rest :
  (forall ic, In ic rest -> span_elems (si_span (snd ic)) = span_elems (si_span b)) ->
  exists L D, linker_ctor_M ((id0, b) :: rest) None = Ret (si_span b, L, D) /\
    (forall ic, In ic ((id0, b) :: rest) -> si_LAGS (snd ic) <= L) /\
    (exists ic, In ic ((id0, b) :: rest) /\ si_LAGS (snd ic) = L) /\
    (forall ic, In ic ((id0, b) :: rest) -> si_LEADS (snd ic) <= D) /\
    (exists ic, In ic ((id0, b) :: rest) /\ si_LEADS (snd ic) = D).
Proof.
  intros H0. assert (H : forall ic, In ic rest -> spans_differ (si_span (snd ic)) (si_span b) = false).
  { intros ic Hi. apply spans_differ_spec. apply H0. exact Hi. }
  cbn [linker_ctor_M]. rewrite (ctor_loop_accepts _ _ _ _ H).
  set (ls := map (fun ic : sid * subinfo => si_LAGS (snd ic)) rest).
  set (ds := map (fun ic : sid * subinfo => si_LEADS (snd ic)) rest).
  destruct (fold_max_spec ls (si_LAGS b)) as (A1 & A2 & A3). destruct (fold_max_spec ds (si_LEADS b)) as (B1 & B2 & B3).
  eexists. eexists. split; [reflexivity|]. rewrite Forall_forall in A2, B2.
  assert (In_map : forall (f : sid * subinfo -> Z) z, In z (f (id0, b) :: map f rest) -> exists ic, In ic ((id0, b) :: rest) /\ f ic = z).
  { intros f z [Hz|Hz]; [exists (id0, b); split; [left; reflexivity|exact Hz]|].
    apply in_map_iff in Hz as (ic & E & Hi). exists ic. split; [right; exact Hi|exact E]. }
  repeat split.
  - intros ic [<-|Hi]; [exact A1|]. apply A2. unfold ls. apply in_map_iff. exists ic. split; [reflexivity|exact Hi].
  - apply (In_map (fun ic => si_LAGS (snd ic))). exact A3.
  - intros ic [<-|Hi]; [exact B1|]. apply B2. unfold ds. apply in_map_iff. exists ic. split; [reflexivity|exact Hi].
  - apply (In_map (fun ic => si_LEADS (snd ic))). exact B3.
Qed.

(* in particular: every submodel carrying literally the same span value, of whatever kind *)
Corollary ctor_accepts_identical_spans_any_kind id0 b rest :
  (forall ic, In ic rest -> si_span (snd ic) = si_span b) ->
  exists L D, linker_ctor_M ((id0, b) :: rest) None = Ret (si_span b, L, D).
Proof.
  intros H. destruct (lags_leads_are_maxima id0 b rest) as (L0 & D0 & E & _); [|eauto].
  intros ic Hi. rewrite (H ic Hi). reflexivity.
Qed.

(* the constructor decides: accepted iff every later submodel yields the first one's sequence of elements *)
Theorem ctor_accepts_iff id0 b rest :
  (exists r, linker_ctor_M ((id0, b) :: rest) None = Ret r) <->
  (forall ic, In ic rest -> span_elems (si_span (snd ic)) = span_elems (si_span b)).
Proof.
  split.
  - intros [r Hr] ic Hi.
    destruct (spans_differ (si_span (snd ic)) (si_span b)) eqn:E; [|apply spans_differ_spec; exact E].
    cbn [linker_ctor_M] in Hr. rewrite ctor_loop_rejects in Hr; [discriminate|]. exists ic. split; assumption.
  - intros H. destruct (lags_leads_are_maxima id0 b rest H) as (L0 & D0 & E & _). eauto.
Qed.

(* no submodels: lags = leads = 0, span as given (default: empty) *)
Theorem ctor_empty span : linker_ctor_M [] span = Ret (match span with Some sp => sp | None => mkSpan SList [] end, 0, 0).
Proof. reflexivity. Qed.

(* fix f5ef8bd: a linker whose own name is the identifier of one of its submodels is refused with DuplicateNameError — before
   the span= test and before the spans are compared; any other name leaves the constructor as described above *)
Theorem init_rejects_name_clash name subs span : In name (map fst subs) -> linker_init_M name subs span = Raise DuplicateNameError.
Proof.
  intros H. unfold linker_init_M. replace (existsb (Nat.eqb name) (map fst subs)) with true; [reflexivity|].
  symmetry. apply existsb_exists. exists name. split; [exact H|apply Nat.eqb_refl].
Qed.
Theorem init_without_clash name subs span : ~ In name (map fst subs) -> linker_init_M name subs span = linker_ctor_M subs span.
Proof.
  intros H. unfold linker_init_M. replace (existsb (Nat.eqb name) (map fst subs)) with false; [reflexivity|].
  symmetry. apply not_true_is_false. intros E. apply existsb_exists in E as (x & Hx & Ex). apply Nat.eqb_eq in Ex. subst. contradiction.
Qed.

(* ======================= single model wrapped in a linker  vs  the model itself ======================= *)
Definition lout_of (r : outcome bool) : lout :=
  match r with Ret b => LRet b | Raise e => LRaise (LExn e) end.

Lemma find_first_ext f g : forall n k,
  (forall i, (k <= i < k + n)%nat -> f i = g i) -> find_first f k n = find_first g k n.
Proof.
  induction n as [|n IH]; intros k H; cbn [find_first]; [reflexivity|].
  rewrite (H k) by lia. destruct (g k); [reflexivity|]. apply IH. intros i Hi. apply H. lia.
Qed.

Section Single.
  Variable num : Type.
  Variables (sub : num -> num -> num) (absf : num -> num) (ltb : num -> num -> bool)
            (isfin : num -> bool) (zero : num).
  Variable sev : sid -> hook num.      (* the model's _evaluate as it behaves when the linker calls it *)
  Variable ev : hook num.              (* the model's _evaluate as it behaves inside BaseModel.solve_t *)

  (* "adds no equations": the linker's hooks do nothing; the model's own solve_t_before / solve_t_after (which a
     linker never calls) do nothing either *)
  Definition id_hook : hook num := fun _ _ _ _ v => (v, None).
  Definition id_lhook : lhook num := fun _ _ _ _ _ jv => (jv, None).

  Notation lsolve := (linker_solve_t_body num sub absf ltb zero sev id_lhook id_lhook id_lhook id_lhook).
  Notation lsolveM := (linker_solve_t_M num sub absf ltb zero sev id_lhook id_lhook id_lhook id_lhook).
  Notation msolve := (solve_t_M num sub absf ltb isfin zero ev id_hook id_hook).
  Notation iter_step := (iter_step num sev id_lhook id_lhook).
  Notation run_hook := (run_hook num).
  Notation lst_after := (lst_after num sev id_lhook id_lhook).
  Notation lconvk := (lconvk num sub absf ltb zero sev id_lhook id_lhook).
  Notation st_after := (st_after num ev).

  Variables (d : mdesc) (o : opts num) (t : Z) (p : nat) (id : sid).
  (* the linker's own container: no check variable *)
  Variables (cd : mdesc) (cv : vals num) (cs : list st) (ci : list Z) (cl : list event).
  (* the model *)
  Variables (mv : vals num) (ms : list st) (mi : list Z) (ml : list event).
  Variable lg : list levent.
  Hypothesis Hcheck : check cd = [].
  Hypothesis Hcs : py_pos (length cs) t = Some p.
  Hypothesis Hci : length ci = length cs.
  Hypothesis Hms : py_pos (length ms) t = Some p.
  Hypothesis Hmi : length mi = length ms.
  Hypothesis Hid : id <> us_id.         (* the model is not keyed '_' (its check values would replace the linker's own) *)

  Definition core1 : comp num := mkComp cd (mkState cv cs ci cl).
  Definition m0 : mstate num := mkState mv ms mi ml.
  Definition S1 (v : vals num) (st' : list st) (it : list Z) (lg' : list levent) : lstate num :=
    mkL core1 [(id, mkComp d (mkState v st' it ml))] lg'.

  Lemma run_id_hook ids k e s : run_hook id_lhook ids o t k e s = (put_jv num s (jv_of num s) (l_log s ++ [e]), None).
  Proof. reflexivity. Qed.
  Lemma put_jv_S1 v st' it lg' lg'' : put_jv num (S1 v st' it lg') (jv_of num (S1 v st' it lg')) lg'' = S1 v st' it lg''.
  Proof. reflexivity. Qed.

  Lemma Hmi_pos : py_pos (length mi) t = Some p.
  Proof. rewrite Hmi. exact Hms. Qed.
  Lemma Hci_pos : py_pos (length ci) t = Some p.
  Proof. rewrite Hci. exact Hcs. Qed.

  Lemma bump_iter_S1 v st' x :
    bump_iter num (mkComp d (mkState v st' (upd p x mi) ml)) t = Some (mkComp d (mkState v st' (upd p (x + 1) mi) ml)).
  Proof.
    unfold Linker.bump_iter, Linker.set_iter. cbn [c_st iters c_desc vals_of status log].
    assert (H' : py_pos (length (upd p x mi)) t = Some p) by (rewrite upd_length; exact Hmi_pos).
    rewrite (py_get_pos _ t p H'), nth_error_upd_eq by (eapply py_pos_lt; exact Hmi_pos).
    rewrite (py_set_pos _ t p _ H'), upd_upd. reflexivity.
  Qed.

  Lemma iter_step_S1 k v v' x lg' :
    sev id t (errors o) (catch_first o) k v = (v', None) ->
    iter_step [id] o t k (S1 v ms (upd p x mi) lg') =
    (S1 v' ms (upd p (x + 1) mi) (lg' ++ iter_events [id] t k), None).
  Proof.
    intros Hs. unfold Linker.iter_step. rewrite run_id_hook, put_jv_S1.
    cbn [Linker.eval_subs S1 l_subs Linker.find_sub]. rewrite Nat.eqb_refl. cbn [c_st vals_of]. rewrite Hs.
    unfold Linker.with_cvals. cbn [c_desc c_st status iters log vals_of]. rewrite bump_iter_S1.
    cbn [S1 l_core l_log Linker.put_sub]. rewrite Nat.eqb_refl.
    change (mkL core1 [(id, mkComp d (mkState v' ms (upd p (x + 1) mi) ml))] ((lg' ++ [LBefore t k]) ++ [LSub id t k]))
      with (S1 v' ms (upd p (x + 1) mi) ((lg' ++ [LBefore t k]) ++ [LSub id t k])).
    rewrite run_id_hook, put_jv_S1. unfold iter_events. cbn [l_log S1 map app]. rewrite <- !app_assoc. reflexivity.
  Qed.

  Lemma gcv_S1 v it lg' :
    get_check_values num zero [id] t (S1 v ms it lg') = inl [[]; get_check num zero d v p].
  Proof.
    unfold Linker.get_check_values, Linker.comp_check.
    replace (us_shadow num [id] (S1 v ms it lg')) with false.
    2:{ unfold Linker.us_shadow, selected. cbn [existsb]. replace (Nat.eqb us_id id) with false; [reflexivity|].
        symmetry. apply Nat.eqb_neq. intros E. apply Hid. symmetry. exact E. }
    cbn [S1 l_core l_subs core1 c_desc c_st status vals_of].
    rewrite Hcheck. cbn [Linker.subs_check]. unfold selected. cbn [existsb]. rewrite Nat.eqb_refl. cbn [orb].
    unfold Linker.comp_check. cbn [c_desc c_st status vals_of]. rewrite Hms.
    destruct (check d) eqn:E; [|reflexivity]. unfold get_check. rewrite E. reflexivity.
  Qed.

  Section Run.
    Hypothesis Hmm : min_iter o <= max_iter o.
    Hypothesis Hmax : 0 <= max_iter o.
    Hypothesis Hfeas : feasible d (length ms) p = true.
    Hypothesis Hoff : offset o = 0.
    Let N := Z.to_nat (max_iter o).
    Let c0 := get_check num zero d mv p.
    (* the model's own premises (C02's finite regime) *)
    Hypothesis Hev : forall i, (1 <= i <= N)%nat -> snd (evk num ev o t i (st_after o t mv (i - 1))) = None.
    Hypothesis Hfin : forall i, (i <= N)%nat -> all_finite num isfin (chkseq num zero ev d o t p c0 mv i) = true.
    (* under the linker's warning filter the evaluation behaves as it does under the model's, on the states visited *)
    Hypothesis Hagree : forall i, (1 <= i <= N)%nat ->
      sev id t (errors o) (catch_first o) i (st_after o t mv (i - 1)) = ev t (errors o) (catch_first o) i (st_after o t mv (i - 1)).

    Let s1 := S1 mv ms (upd p 0 mi) (lg ++ [LPre t]).
    Let lc0 : list (list num) := [[]; c0].

    Lemma sev_step i : (1 <= i <= N)%nat ->
      sev id t (errors o) (catch_first o) i (st_after o t mv (i - 1)) = (st_after o t mv i, None).
    Proof.
      intros Hi. rewrite (Hagree i Hi). specialize (Hev i Hi). unfold evk in Hev.
      destruct i as [|i]; [lia|]. replace (S i - 1)%nat with i in * by lia. cbn [SolverFacts.st_after]. unfold evk.
      destruct (ev t (errors o) (catch_first o) (S i) (st_after o t mv i)) as [v' r]. cbn [snd] in Hev. subst r. reflexivity.
    Qed.

    Lemma lst_after_S1 : forall j, (j <= N)%nat ->
      lst_after [id] o t s1 j =
      S1 (st_after o t mv j) ms (upd p (Z.of_nat j) mi) ((lg ++ [LPre t]) ++ flat_map (iter_events [id] t) (seq 1 j))
      /\ quiet_upto num sev id_lhook id_lhook [id] o t s1 j.
    Proof.
      induction j as [|j IH]; intros Hj.
      - split; [|intros i Hi; lia]. cbn [LinkerFacts2.lst_after SolverFacts.st_after seq flat_map Z.of_nat]. rewrite app_nil_r. reflexivity.
      - destruct IH as [E Q]; [lia|].
        assert (Hstep : iter_step [id] o t (S j) (lst_after [id] o t s1 j) =
                        (S1 (st_after o t mv (S j)) ms (upd p (Z.of_nat (S j)) mi)
                            ((lg ++ [LPre t]) ++ flat_map (iter_events [id] t) (seq 1 (S j))), None)).
        { rewrite E. rewrite (iter_step_S1 (S j) _ (st_after o t mv (S j))).
          - rewrite seq_S, flat_map_app. cbn [flat_map Nat.add]. rewrite app_nil_r, <- !app_assoc.
            replace (Z.of_nat j + 1) with (Z.of_nat (S j)) by lia. reflexivity.
          - pose proof (sev_step (S j)) as H. replace (S j - 1)%nat with j in H by lia. apply H. lia. }
        split.
        + cbn [LinkerFacts2.lst_after]. rewrite Hstep. reflexivity.
        + intros i Hi. destruct (Nat.eq_dec i (S j)) as [->|Hne].
          * replace (S j - 1)%nat with j by lia. rewrite Hstep. reflexivity.
          * apply Q. lia.
    Qed.

    Lemma lchk_S1 j : (j <= N)%nat ->
      lchk num zero sev id_lhook id_lhook [id] o t lc0 s1 j = [[]; chkseq num zero ev d o t p c0 mv j].
    Proof.
      intros Hj. destruct j as [|j]; [reflexivity|]. cbn [LinkerFacts2.lchk]. unfold gcv_or_nil.
      destruct (lst_after_S1 (S j) Hj) as [E _]. rewrite E, gcv_S1. reflexivity.
    Qed.

    Lemma lconvk_S1 k : (1 <= k <= N)%nat ->
      lconvk [id] o t lc0 s1 k = convk num sub absf ltb zero ev d o t p c0 mv k.
    Proof.
      intros Hk. unfold LinkerFacts2.lconvk, convk. rewrite !lchk_S1 by lia.
      cbn [Linker.conv_all conv]. rewrite andb_true_r. reflexivity.
    Qed.

    Lemma lfinish_S1 v it lg' x k :
      lfinish num o [id] t (LLDone (S1 v ms it lg') x k) =
      (mkL (mkComp cd (mkState cv (upd p x cs) (upd p (Z.of_nat k) ci) cl))
           [(id, mkComp d (mkState v (upd p x ms) it ml))] lg',
       if st_eqb x Failed && fail_raise o then LRaise (LExn NonConvergenceError) else LRet (st_eqb x Solved)).
    Proof.
      unfold S1, core1. cbn [Linker.lfinish l_core l_subs l_log]. unfold Linker.set_status. cbn [c_st status c_desc vals_of iters log].
      rewrite (py_set_pos cs t p x Hcs). unfold Linker.set_iter. cbn [c_st status c_desc vals_of iters log].
      rewrite (py_set_pos ci t p _ Hci_pos). cbn [Linker.stamp_subs Linker.find_sub]. rewrite Nat.eqb_refl.
      unfold Linker.set_status. cbn [c_st status c_desc vals_of iters log]. rewrite (py_set_pos ms t p x Hms).
      cbn [Linker.put_sub]. rewrite Nat.eqb_refl. destruct (st_eqb x Failed && fail_raise o); reflexivity.
    Qed.

    (* A linker that wraps one model and adds no equations solves it to the same status, iteration count and values
       as BaseModel.solve_t on that model, and returns / raises the same — PROVIDED: min_iter <= max_iter (the linker
       has no such guard), t leaves room for the model's lags and leads (no feasibility guard in the linker),
       offset = 0 (ignored by the linker), every check vector finite (the linker has no error policy), no evaluation
       raises (the model wraps exceptions in SolutionError and records 'E', the linker lets them through), and the
       evaluation does not depend on the warning filter in force (Hagree). *)
    Theorem single_model_body_eq_model sel :
      sel = None \/ sel = Some [id] ->
      let rm := msolve d o t m0 in
      let rl := lsolve sel o t (mkL core1 [(id, mkComp d m0)] lg) in
      snd rl = lout_of (snd rm) /\
      l_subs (fst rl) = [(id, mkComp d (mkState (vals_of (fst rm)) (status (fst rm)) (iters (fst rm)) ml))] /\
      status (c_st (l_core (fst rl))) = upd p (nth p (status (fst rm)) Unsolved) cs /\
      iters (c_st (l_core (fst rl))) = upd p (nth p (iters (fst rm)) 0) ci.
    Proof.
      intros Hsel rm rl.
      (* the model, by C02's theorem *)
      assert (HM : rm = msolve d o t m0) by reflexivity.
      rewrite (solve_t_finite_spec num sub absf ltb isfin zero ev id_hook id_hook d o t m0 p mv Hmm Hmax) in HM;
        try assumption; try reflexivity.
      cbn [m0 status iters vals_of log] in HM. fold N c0 in HM.
      (* the linker, by the quiet-regime equation *)
      assert (Hids : sel_ids num sel (mkL core1 [(id, mkComp d m0)] lg) = [id]) by (destruct Hsel as [->| ->]; reflexivity).
      assert (HL : rl = lsolve sel o t (mkL core1 [(id, mkComp d m0)] lg)) by reflexivity.
      rewrite (solve_t_quiet_spec num sub absf ltb zero sev id_lhook id_lhook id_lhook id_lhook sel o t _ lc0
                 [(id, mkComp d (mkState mv ms (upd p 0 mi) ml))] s1) in HL.
      2:{ rewrite Hids. exact (gcv_S1 mv mi lg). }
      2:{ rewrite Hids. cbn [l_subs Linker.zero_iters Linker.find_sub]. rewrite Nat.eqb_refl.
          unfold Linker.set_iter. cbn [m0 c_st iters status vals_of log c_desc]. rewrite (py_set_pos mi t p 0 Hmi_pos).
          cbn [Linker.put_sub]. rewrite Nat.eqb_refl. reflexivity. }
      2:{ rewrite Hids. reflexivity. }
      2:{ rewrite Hids. apply (lst_after_S1 N). lia. }
      rewrite Hids in HL. fold N in HL.
      rewrite (find_first_ext (lconvk [id] o t lc0 s1) (convk num sub absf ltb zero ev d o t p c0 mv)) in HL
        by (intros i Hi; apply lconvk_S1; lia).
      destruct (find_first (convk num sub absf ltb zero ev d o t p c0 mv) 1 N) as [k0|] eqn:EF.
      - apply find_first_some in EF as (Hr & _ & _).
        destruct (lst_after_S1 k0) as [E _]; [lia|]. rewrite E, run_id_hook, put_jv_S1, lfinish_S1 in HL.
        unfold afterk, id_hook in HM. rewrite HM, HL. cbn [fst snd st_eqb andb lout_of l_subs l_core c_st status iters vals_of].
        repeat split.
        + rewrite nth_upd_eq by (eapply py_pos_lt; exact Hms). reflexivity.
        + rewrite nth_upd_eq by (rewrite Hmi; eapply py_pos_lt; exact Hms). reflexivity.
      - destruct (lst_after_S1 N) as [E _]; [lia|]. rewrite E, lfinish_S1 in HL.
        rewrite HM, HL. cbn [fst snd st_eqb andb lout_of l_subs l_core c_st status iters vals_of].
        replace (Z.of_nat N) with (max_iter o) by lia. repeat split.
        + destruct (fail_raise o); reflexivity.
        + rewrite nth_upd_eq by (eapply py_pos_lt; exact Hms). reflexivity.
        + rewrite nth_upd_eq by (rewrite Hmi; eapply py_pos_lt; exact Hms). reflexivity.
    Qed.
  End Run.

  (* ---- the call as made, guards included (fixes 97423a0, a0fbb5c): no premise on min_iter / max_iter order or on the
          feasibility of t any more.  What __init__ establishes for a linker over this one model: the linker's lags /
          leads are the model's and the spans have the same length. ---- *)
  Theorem single_model_linker_eq_model sel :
    lags cd = lags d -> leads cd = leads d -> length cs = length ms ->
    (min_iter o <= max_iter o -> 0 <= max_iter o) ->
    offset o = 0 ->
    (forall i, (1 <= i <= Z.to_nat (max_iter o))%nat -> snd (evk num ev o t i (st_after o t mv (i - 1))) = None) ->
    (forall i, (i <= Z.to_nat (max_iter o))%nat ->
       all_finite num isfin (chkseq num zero ev d o t p (get_check num zero d mv p) mv i) = true) ->
    (forall i, (1 <= i <= Z.to_nat (max_iter o))%nat ->
       sev id t (errors o) (catch_first o) i (st_after o t mv (i - 1)) = ev t (errors o) (catch_first o) i (st_after o t mv (i - 1))) ->
    sel = None \/ sel = Some [id] ->
    let rm := msolve d o t m0 in
    let rl := lsolveM sel o t (mkL core1 [(id, mkComp d m0)] lg) in
    let rejected := (max_iter o <? min_iter o) || negb (feasible d (length ms) p) in
    snd rl = lout_of (snd rm) /\
    l_subs (fst rl) = [(id, mkComp d (mkState (vals_of (fst rm)) (status (fst rm)) (iters (fst rm)) ml))] /\
    status (c_st (l_core (fst rl))) = (if rejected then cs else upd p (nth p (status (fst rm)) Unsolved) cs) /\
    iters (c_st (l_core (fst rl))) = (if rejected then ci else upd p (nth p (iters (fst rm)) 0) ci) /\
    (rejected = true -> fst rl = mkL core1 [(id, mkComp d m0)] lg /\ fst rm = m0 /\
                        snd rm = Raise (if max_iter o <? min_iter o then ValueError else IndexError)).
  Proof.
    intros Hlg Hld Hlen Hmax Hoff Hev Hfin Hagree Hsel rm rl rejected.
    assert (Hg : linker_infeasible cd (length cs) t = negb (feasible d (length ms) p)).
    { rewrite (linker_infeasible_pos cd (length cs) t p Hcs). unfold feasible. rewrite Hlg, Hld, Hlen. reflexivity. }
    subst rm rl rejected. unfold Linker.linker_solve_t_M, Solver.solve_t_M.
    rewrite (linker_seed_offset0 num zero _ o t _ Hoff).
    cbn [l_core core1 c_desc c_st status m0]. rewrite Hg, Hms.
    destruct (max_iter o <? min_iter o) eqn:Emm.
    - cbn [orb fst snd lout_of l_subs l_core core1 c_st status iters vals_of m0]. repeat split.
    - destruct (feasible d (length ms) p) eqn:Ef; cbn [negb orb].
      + (* both guards passed: the body, under the premises of the finite regime *)
        assert (Hmm : min_iter o <= max_iter o) by lia.
        pose proof (single_model_body_eq_model Hmm (Hmax Hmm) Ef Hoff Hev Hfin Hagree sel Hsel) as HB.
        cbv zeta in HB. unfold Solver.solve_t_M in HB. cbn [status m0] in HB. rewrite Emm, Hms, Ef in HB. cbn [negb] in HB.
        destruct HB as (B1 & B2 & B3 & B4). split; [exact B1|]. split; [exact B2|]. split; [exact B3|]. split; [exact B4|discriminate].
      + cbn [fst snd lout_of l_subs l_core core1 c_st status iters vals_of m0]. repeat split.
  Qed.
End Single.
