(* LinkerFacts6.v — the theorems about one solve_t call restated for the call AS MADE (Linker.linker_solve_t_M = the
   min_iter > max_iter guard, the feasibility guard, then the body the earlier files reason about): the hypothesis
   theorems gain the two premises "both guards passed"; the every-path theorems hold unconditionally because a guard
   that fires returns the state untouched. *)
From Coq Require Import ZArith List Bool Lia Arith.
Import ListNotations.
Require Import PyBase Solver SolverFacts Linker LinkerFacts LinkerFacts2 LinkerFacts3 LinkerFacts4.
Open Scope Z_scope.

Theorem unknown_id_KeyError_M :
  forall (num : Type) (sub : num -> num -> num) (absf : num -> num) (ltb : num -> num -> bool) (zero : num)
         (sev : sid -> hook num) (pre ebefore eafter post : lhook num)
         (sel : option (list sid)) (o : opts num) (t : Z) (s : lstate num)
         (before : list sid) (bad : sid) (after : list sid) (cur : list (list num)) (subs1 : list (sid * comp num)),
    forall (s_call : lstate num),                      (* the state solve_t is called on *)
    min_iter o <= max_iter o ->                        (* both guards passed: not rejected with ValueError ... *)
    linker_infeasible (c_desc (l_core s_call)) (length (status (c_st (l_core s_call)))) t = false ->     (* ... nor with IndexError *)
    (* s = the state after the offset seeding (s = s_call when offset = 0; Linker.seeded otherwise) *)
    linker_seed num zero (sel_ids num sel s_call) o t s_call = (s, None) ->
    sel_ids num sel s = before ++ bad :: after ->
    find_sub num bad (l_subs s) = None ->
    get_check_values num zero (sel_ids num sel s) t s = inl cur ->
    zero_iters num before t (l_subs s) = (subs1, None) ->
    linker_solve_t_M num sub absf ltb zero sev pre ebefore eafter post sel o t s_call
    = (mkL (l_core s) subs1 (l_log s), LRaise (LExn KeyError)).
Proof.
  intros num sub absf ltb zero sev pre ebefore eafter post.
  intros.
  repeat match goal with x := _ |- _ => subst x end.
  rewrite (linker_solve_t_seeded num sub absf ltb zero sev pre ebefore eafter post sel o t s_call s H H0 H1).
  eapply unknown_id_KeyError; eassumption.
Qed.

Theorem solve_t_quiet_spec_M :
  forall (num : Type) (sub : num -> num -> num) (absf : num -> num) (ltb : num -> num -> bool) (zero : num)
         (sev : sid -> hook num) (pre ebefore eafter post : lhook num)
         (sel : option (list sid)) (o : opts num) (t : Z) (s : lstate num)
         (c0 : list (list num)) (subs1 : list (sid * comp num)) (s1 : lstate num),
    forall (s_call : lstate num),                      (* the state solve_t is called on *)
    min_iter o <= max_iter o ->                        (* both guards passed: not rejected with ValueError ... *)
    linker_infeasible (c_desc (l_core s_call)) (length (status (c_st (l_core s_call)))) t = false ->     (* ... nor with IndexError *)
    (* s = the state after the offset seeding (s = s_call when offset = 0; Linker.seeded otherwise) *)
    linker_seed num zero (sel_ids num sel s_call) o t s_call = (s, None) ->
    let ids := sel_ids num sel s in
    let N := Z.to_nat (max_iter o) in
    get_check_values num zero ids t s = inl c0 ->
    zero_iters num ids t (l_subs s) = (subs1, None) ->
    run_hook num pre ids o t 0%nat (LPre t) (mkL (l_core s) subs1 (l_log s)) = (s1, None) ->
    quiet_upto num sev ebefore eafter ids o t s1 N ->
    linker_solve_t_M num sub absf ltb zero sev pre ebefore eafter post sel o t s_call =
    lfinish num o ids t
      (match find_first (lconvk num sub absf ltb zero sev ebefore eafter ids o t c0 s1) 1 N with
       | Some k0 => match run_hook num post ids o t k0 (LPost t k0) (lst_after num sev ebefore eafter ids o t s1 k0) with
                    | (s2, Some e) => LLRaise s2 e
                    | (s2, None) => LLDone s2 Solved k0
                    end
       | None => LLDone (lst_after num sev ebefore eafter ids o t s1 N) Failed N
       end).
Proof.
  intros num sub absf ltb zero sev pre ebefore eafter post.
  intros.
  repeat match goal with x := _ |- _ => subst x end.
  rewrite (linker_solve_t_seeded num sub absf ltb zero sev pre ebefore eafter post sel o t s_call s H H0 H1).
  eapply solve_t_quiet_spec; eassumption.
Qed.

Theorem linker_event_order_M :
  forall (num : Type) (sub : num -> num -> num) (absf : num -> num) (ltb : num -> num -> bool) (zero : num)
         (sev : sid -> hook num) (pre ebefore eafter post : lhook num)
         (sel : option (list sid)) (o : opts num) (t : Z) (s : lstate num)
         (c0 : list (list num)) (subs1 : list (sid * comp num)) (s1 : lstate num),
    forall (s_call : lstate num),                      (* the state solve_t is called on *)
    min_iter o <= max_iter o ->                        (* both guards passed: not rejected with ValueError ... *)
    linker_infeasible (c_desc (l_core s_call)) (length (status (c_st (l_core s_call)))) t = false ->     (* ... nor with IndexError *)
    (* s = the state after the offset seeding (s = s_call when offset = 0; Linker.seeded otherwise) *)
    linker_seed num zero (sel_ids num sel s_call) o t s_call = (s, None) ->
    let ids := sel_ids num sel s in
    let N := Z.to_nat (max_iter o) in
    get_check_values num zero ids t s = inl c0 ->
    zero_iters num ids t (l_subs s) = (subs1, None) ->
    run_hook num pre ids o t 0%nat (LPre t) (mkL (l_core s) subs1 (l_log s)) = (s1, None) ->
    quiet_upto num sev ebefore eafter ids o t s1 N ->
    l_log (fst (linker_solve_t_M num sub absf ltb zero sev pre ebefore eafter post sel o t s_call)) =
    l_log s ++ [LPre t] ++
    match find_first (lconvk num sub absf ltb zero sev ebefore eafter ids o t c0 s1) 1 N with
    | Some k0 => flat_map (iter_events ids t) (seq 1 k0) ++ [LPost t k0]
    | None => flat_map (iter_events ids t) (seq 1 N)
    end.
Proof.
  intros num sub absf ltb zero sev pre ebefore eafter post.
  intros.
  repeat match goal with x := _ |- _ => subst x end.
  rewrite (linker_solve_t_seeded num sub absf ltb zero sev pre ebefore eafter post sel o t s_call s H H0 H1).
  eapply linker_event_order; eassumption.
Qed.

Theorem linker_converges_at_least_k_M :
  forall (num : Type) (sub : num -> num -> num) (absf : num -> num) (ltb : num -> num -> bool) (zero : num)
         (sev : sid -> hook num) (pre ebefore eafter post : lhook num)
         (sel : option (list sid)) (o : opts num) (t : Z) (p : nat) (s : lstate num)
         (subs1 : list (sid * comp num)) (s1 : lstate num) (k0 : nat),
    forall (s_call : lstate num),                      (* the state solve_t is called on *)
    min_iter o <= max_iter o ->                        (* both guards passed: not rejected with ValueError ... *)
    linker_infeasible (c_desc (l_core s_call)) (length (status (c_st (l_core s_call)))) t = false ->     (* ... nor with IndexError *)
    (* s = the state after the offset seeding (s = s_call when offset = 0; Linker.seeded otherwise) *)
    linker_seed num zero (sel_ids num sel s_call) o t s_call = (s, None) ->
    let ids := sel_ids num sel s in
    let N := Z.to_nat (max_iter o) in
    let c0 := check_vec num zero ids p s in
    wf num t p s ->
    zero_iters num ids t (l_subs s) = (subs1, None) ->
    run_hook num pre ids o t 0%nat (LPre t) (mkL (l_core s) subs1 (l_log s)) = (s1, None) ->
    quiet_upto num sev ebefore eafter ids o t s1 N ->
    (forall k s', snd (run_hook num post ids o t k (LPost t k) s') = None) ->
    (1 <= k0 <= N)%nat -> lconvk num sub absf ltb zero sev ebefore eafter ids o t c0 s1 k0 = true ->
    (forall j, (1 <= j < k0)%nat -> lconvk num sub absf ltb zero sev ebefore eafter ids o t c0 s1 j = false) ->
    let r := linker_solve_t_M num sub absf ltb zero sev pre ebefore eafter post sel o t s_call in
    let s2 := fst (run_hook num post ids o t k0 (LPost t k0) (lst_after num sev ebefore eafter ids o t s1 k0)) in
    snd r = LRet true /\
    status (c_st (l_core (fst r))) = upd p Solved (status (c_st (l_core s))) /\
    iters (c_st (l_core (fst r))) = upd p (Z.of_nat k0) (iters (c_st (l_core s))) /\
    vals_of (c_st (l_core (fst r))) = vals_of (c_st (l_core s2)) /\
    (forall id, vview num id (l_subs (fst r)) = vview num id (l_subs s2)) /\
    l_log (fst r) = l_log s ++ [LPre t] ++ flat_map (iter_events ids t) (seq 1 k0) ++ [LPost t k0] /\
    (forall id c, find_sub num id (l_subs s) = Some c ->
       exists c', find_sub num id (l_subs (fst r)) = Some c' /\
         status (c_st c') = (if selected ids id then upd p Solved (status (c_st c)) else status (c_st c)) /\
         iters (c_st c') = (if selected ids id then upd p (Z.of_nat (k0 * cnt id ids)) (iters (c_st c)) else iters (c_st c))).
Proof.
  intros num sub absf ltb zero sev pre ebefore eafter post.
  intros.
  repeat match goal with x := _ |- _ => subst x end.
  rewrite (linker_solve_t_seeded num sub absf ltb zero sev pre ebefore eafter post sel o t s_call s H H0 H1).
  eapply linker_converges_at_least_k; eassumption.
Qed.

Theorem linker_fails_when_no_k_M :
  forall (num : Type) (sub : num -> num -> num) (absf : num -> num) (ltb : num -> num -> bool) (zero : num)
         (sev : sid -> hook num) (pre ebefore eafter post : lhook num)
         (sel : option (list sid)) (o : opts num) (t : Z) (p : nat) (s : lstate num)
         (subs1 : list (sid * comp num)) (s1 : lstate num),
    forall (s_call : lstate num),                      (* the state solve_t is called on *)
    min_iter o <= max_iter o ->                        (* both guards passed: not rejected with ValueError ... *)
    linker_infeasible (c_desc (l_core s_call)) (length (status (c_st (l_core s_call)))) t = false ->     (* ... nor with IndexError *)
    (* s = the state after the offset seeding (s = s_call when offset = 0; Linker.seeded otherwise) *)
    linker_seed num zero (sel_ids num sel s_call) o t s_call = (s, None) ->
    let ids := sel_ids num sel s in
    let N := Z.to_nat (max_iter o) in
    let c0 := check_vec num zero ids p s in
    wf num t p s ->
    zero_iters num ids t (l_subs s) = (subs1, None) ->
    run_hook num pre ids o t 0%nat (LPre t) (mkL (l_core s) subs1 (l_log s)) = (s1, None) ->
    quiet_upto num sev ebefore eafter ids o t s1 N ->
    (forall j, (1 <= j <= N)%nat -> lconvk num sub absf ltb zero sev ebefore eafter ids o t c0 s1 j = false) ->
    let r := linker_solve_t_M num sub absf ltb zero sev pre ebefore eafter post sel o t s_call in
    let s2 := lst_after num sev ebefore eafter ids o t s1 N in
    snd r = (if fail_raise o then LRaise (LExn NonConvergenceError) else LRet false) /\
    status (c_st (l_core (fst r))) = upd p Failed (status (c_st (l_core s))) /\
    iters (c_st (l_core (fst r))) = upd p (Z.of_nat N) (iters (c_st (l_core s))) /\
    vals_of (c_st (l_core (fst r))) = vals_of (c_st (l_core s2)) /\
    (forall id, vview num id (l_subs (fst r)) = vview num id (l_subs s2)) /\
    l_log (fst r) = l_log s ++ [LPre t] ++ flat_map (iter_events ids t) (seq 1 N) /\
    (forall id c, find_sub num id (l_subs s) = Some c ->
       exists c', find_sub num id (l_subs (fst r)) = Some c' /\
         status (c_st c') = (if selected ids id then upd p Failed (status (c_st c)) else status (c_st c)) /\
         iters (c_st c') = (if selected ids id then upd p (Z.of_nat (N * cnt id ids)) (iters (c_st c)) else iters (c_st c))).
Proof.
  intros num sub absf ltb zero sev pre ebefore eafter post.
  intros.
  repeat match goal with x := _ |- _ => subst x end.
  rewrite (linker_solve_t_seeded num sub absf ltb zero sev pre ebefore eafter post sel o t s_call s H H0 H1).
  eapply linker_fails_when_no_k; eassumption.
Qed.

Theorem linker_status_stamped_M :
  forall (num : Type) (sub : num -> num -> num) (absf : num -> num) (ltb : num -> num -> bool) (zero : num)
         (sev : sid -> hook num) (pre ebefore eafter post : lhook num)
         (sel : option (list sid)) (o : opts num) (t : Z) (p : nat) (s : lstate num)
         (subs1 : list (sid * comp num)) (s1 : lstate num),
    forall (s_call : lstate num),                      (* the state solve_t is called on *)
    min_iter o <= max_iter o ->                        (* both guards passed: not rejected with ValueError ... *)
    linker_infeasible (c_desc (l_core s_call)) (length (status (c_st (l_core s_call)))) t = false ->     (* ... nor with IndexError *)
    (* s = the state after the offset seeding (s = s_call when offset = 0; Linker.seeded otherwise) *)
    linker_seed num zero (sel_ids num sel s_call) o t s_call = (s, None) ->
    let ids := sel_ids num sel s in
    let N := Z.to_nat (max_iter o) in
    wf num t p s ->
    zero_iters num ids t (l_subs s) = (subs1, None) ->
    run_hook num pre ids o t 0%nat (LPre t) (mkL (l_core s) subs1 (l_log s)) = (s1, None) ->
    quiet_upto num sev ebefore eafter ids o t s1 N ->
    (forall k s', snd (run_hook num post ids o t k (LPost t k) s') = None) ->
    let r := linker_solve_t_M num sub absf ltb zero sev pre ebefore eafter post sel o t s_call in
    exists x k,
      nth_error (status (c_st (l_core (fst r)))) p = Some x /\
      nth_error (iters (c_st (l_core (fst r)))) p = Some (Z.of_nat k) /\
      (x = Solved \/ x = Failed) /\ (snd r = LRet true <-> x = Solved) /\
      forall id, In id ids ->
        exists c', find_sub num id (l_subs (fst r)) = Some c' /\
          nth_error (status (c_st c')) p = Some x /\
          nth_error (iters (c_st c')) p = Some (Z.of_nat (k * cnt id ids)) /\
          (NoDup ids -> nth_error (iters (c_st c')) p = nth_error (iters (c_st (l_core (fst r)))) p).
Proof.
  intros num sub absf ltb zero sev pre ebefore eafter post.
  intros.
  repeat match goal with x := _ |- _ => subst x end.
  rewrite (linker_solve_t_seeded num sub absf ltb zero sev pre ebefore eafter post sel o t s_call s H H0 H1).
  eapply linker_status_stamped; eassumption.
Qed.

Theorem linker_maxiter0_M :
  forall (num : Type) (sub : num -> num -> num) (absf : num -> num) (ltb : num -> num -> bool) (zero : num)
         (sev : sid -> hook num) (pre ebefore eafter post : lhook num)
         (sel : option (list sid)) (o : opts num) (t : Z) (p : nat) (s : lstate num)
         (subs1 : list (sid * comp num)) (s1 : lstate num),
    forall (s_call : lstate num),                      (* the state solve_t is called on *)
    min_iter o <= max_iter o ->                        (* both guards passed: not rejected with ValueError ... *)
    linker_infeasible (c_desc (l_core s_call)) (length (status (c_st (l_core s_call)))) t = false ->     (* ... nor with IndexError *)
    (* s = the state after the offset seeding (s = s_call when offset = 0; Linker.seeded otherwise) *)
    linker_seed num zero (sel_ids num sel s_call) o t s_call = (s, None) ->
    let ids := sel_ids num sel s in
    max_iter o <= 0 -> wf num t p s ->
    zero_iters num ids t (l_subs s) = (subs1, None) ->
    run_hook num pre ids o t 0%nat (LPre t) (mkL (l_core s) subs1 (l_log s)) = (s1, None) ->
    let r := linker_solve_t_M num sub absf ltb zero sev pre ebefore eafter post sel o t s_call in
    snd r = (if fail_raise o then LRaise (LExn NonConvergenceError) else LRet false) /\
    status (c_st (l_core (fst r))) = upd p Failed (status (c_st (l_core s))) /\
    iters (c_st (l_core (fst r))) = upd p 0 (iters (c_st (l_core s))) /\
    l_log (fst r) = l_log s ++ [LPre t] /\
    (forall id c, find_sub num id (l_subs s) = Some c ->
       exists c', find_sub num id (l_subs (fst r)) = Some c' /\
         status (c_st c') = (if selected ids id then upd p Failed (status (c_st c)) else status (c_st c)) /\
         iters (c_st c') = (if selected ids id then upd p 0 (iters (c_st c)) else iters (c_st c))).
Proof.
  intros num sub absf ltb zero sev pre ebefore eafter post.
  intros.
  repeat match goal with x := _ |- _ => subst x end.
  rewrite (linker_solve_t_seeded num sub absf ltb zero sev pre ebefore eafter post sel o t s_call s H H0 H1).
  eapply linker_maxiter0; eassumption.
Qed.

Theorem solved_iff_all_moved_lt_tol_M :
  forall (num : Type) (sub : num -> num -> num) (absf : num -> num) (ltb : num -> num -> bool) (zero : num)
         (sev : sid -> hook num) (pre ebefore eafter post : lhook num)
         (sel : option (list sid)) (o : opts num) (t : Z) (p : nat) (s : lstate num)
         (subs1 : list (sid * comp num)) (s1 : lstate num),
    forall (s_call : lstate num),                      (* the state solve_t is called on *)
    min_iter o <= max_iter o ->                        (* both guards passed: not rejected with ValueError ... *)
    linker_infeasible (c_desc (l_core s_call)) (length (status (c_st (l_core s_call)))) t = false ->     (* ... nor with IndexError *)
    (* s = the state after the offset seeding (s = s_call when offset = 0; Linker.seeded otherwise) *)
    linker_seed num zero (sel_ids num sel s_call) o t s_call = (s, None) ->
    let ids := sel_ids num sel s in
    let N := Z.to_nat (max_iter o) in
    wf num t p s ->
    zero_iters num ids t (l_subs s) = (subs1, None) ->
    run_hook num pre ids o t 0%nat (LPre t) (mkL (l_core s) subs1 (l_log s)) = (s1, None) ->
    quiet_upto num sev ebefore eafter ids o t s1 N ->
    (forall k s', snd (run_hook num post ids o t k (LPost t k) s') = None) ->
    let cv := fun k : nat => match k with
                             | O => check_vec num zero ids p s
                             | S _ => check_vec num zero ids p (lst_after num sev ebefore eafter ids o t s1 k)
                             end in
    let qualifies := fun k : nat =>
      (1 <= k <= N)%nat /\ min_iter o <= Z.of_nat k /\
      Forall2 (Forall2 (fun c q : num => ltb (absf (sub c q)) (tol o) = true)) (cv k) (cv (k - 1)%nat) in
    let r := linker_solve_t_M num sub absf ltb zero sev pre ebefore eafter post sel o t s_call in
    (snd r = LRet true <-> exists k, qualifies k) /\
    (forall k, qualifies k -> (forall j, (j < k)%nat -> ~ qualifies j) ->
       snd r = LRet true /\
       nth_error (status (c_st (l_core (fst r)))) p = Some Solved /\
       nth_error (iters (c_st (l_core (fst r)))) p = Some (Z.of_nat k)) /\
    ((forall k, ~ qualifies k) ->
       snd r = (if fail_raise o then LRaise (LExn NonConvergenceError) else LRet false) /\
       nth_error (status (c_st (l_core (fst r)))) p = Some Failed /\
       nth_error (iters (c_st (l_core (fst r)))) p = Some (Z.of_nat N)).
Proof.
  intros num sub absf ltb zero sev pre ebefore eafter post.
  intros.
  repeat match goal with x := _ |- _ => subst x end.
  rewrite (linker_solve_t_seeded num sub absf ltb zero sev pre ebefore eafter post sel o t s_call s H H0 H1).
  eapply solved_iff_all_moved_lt_tol; eassumption.
Qed.


(* ---------------- every path: a guard that fires changes nothing, so the body's invariants carry over ---------------- *)
Section LEveryPath.
  Variable num : Type.
  Variables (sub : num -> num -> num) (absf : num -> num) (ltb : num -> num -> bool) (zero : num).
  Variable sev : sid -> hook num.
  Variables (pre ebefore eafter post : lhook num).
  Notation solve_t := (linker_solve_t_M num sub absf ltb zero sev pre ebefore eafter post).
  Notation cases := (linker_solve_t_cases num sub absf ltb zero sev pre ebefore eafter post).

  Theorem solve_t_preserves_shape_M sel o t s : srel num (sel_ids num sel s) s (fst (solve_t sel o t s)).
  Proof.
    destruct (cases sel o t s) as [(e & _ & E)|(s0 & _ & _ & ES & E)]; rewrite E; [apply srel_refl|].
    eapply srel_trans; [eapply linker_seed_srel; exact ES|].
    rewrite <- (linker_seed_sel_ids num zero sel _ o t s s0 ES). apply solve_t_preserves_shape.
  Qed.

  Theorem unselected_never_evaluated_M sel o t s id :
    selected (sel_ids num sel s) id = false ->
    exists evs, l_log (fst (solve_t sel o t s)) = l_log s ++ evs /\ forall t' k, ~ In (LSub id t' k) evs.
  Proof.
    intros Hun. destruct (solve_t_preserves_shape_M sel o t s) as (_ & _ & evs & Hl & HF).
    exists evs. split; [exact Hl|]. intros t' k Hin.
    rewrite Forall_forall in HF. specialize (HF _ Hin). cbn [ev_ok] in HF. congruence.
  Qed.

  Theorem unselected_not_restamped_M sel o t s i id c :
    nth_error (l_subs s) i = Some (id, c) -> selected (sel_ids num sel s) id = false ->
    exists v, nth_error (l_subs (fst (solve_t sel o t s))) i = Some (id, with_cvals num c v).
  Proof.
    intros Hn Hs.
    destruct (cases sel o t s) as [(e & _ & E)|(s0 & _ & _ & ES & E)]; rewrite E.
    - exists (vals_of (c_st c)). rewrite with_cvals_eta. exact Hn.
    - eapply unselected_not_restamped; [eapply linker_seed_unselected; eauto|].
      rewrite (linker_seed_sel_ids num zero sel _ o t s s0 ES). exact Hs.
  Qed.

  (* ... and, when no hook writes to it, untouched altogether — the offset seeding does not touch it either *)
  Theorem unselected_untouched_M sel o t s i id c :
    nth_error (l_subs s) i = Some (id, c) -> selected (sel_ids num sel s) id = false ->
    hook_keeps num i pre -> hook_keeps num i ebefore -> hook_keeps num i eafter -> hook_keeps num i post ->
    nth_error (l_subs (fst (solve_t sel o t s))) i = Some (id, c).
  Proof.
    intros Hn Hs K1 K2 K3 K4.
    destruct (cases sel o t s) as [(e & _ & E)|(s0 & _ & _ & ES & E)]; rewrite E; [exact Hn|].
    apply unselected_untouched; try assumption; [eapply linker_seed_unselected; eauto|].
    rewrite (linker_seed_sel_ids num zero sel _ o t s s0 ES). exact Hs.
  Qed.
End LEveryPath.

(* ---------------- what the feasibility guard buys: room for EVERY submodel ---------------- *)
(* A linker as __init__ leaves it carries lags / leads at least as long as each submodel's (they are the maxima,
   LinkerFacts3.lags_leads_are_maxima) over series of one common length.  Then a period that passes the linker's guard
   has every submodel's own lags behind it and leads ahead of it inside the span: no submodel equation evaluated by the
   call reads a wrapped-around index — which is what fix a0fbb5c is for. *)
Theorem guard_passed_fits_every_submodel (num : Type) (s : lstate num) (t : Z) (p : nat) :
  let n := length (status (c_st (l_core s))) in
  py_pos n t = Some p ->
  linker_infeasible (c_desc (l_core s)) n t = false ->
  (forall ic, In ic (l_subs s) -> (lags (c_desc (snd ic)) <= lags (c_desc (l_core s)))%nat /\
                                  (leads (c_desc (snd ic)) <= leads (c_desc (l_core s)))%nat) ->
  forall ic, In ic (l_subs s) -> feasible (c_desc (snd ic)) n p = true.
Proof.
  intros n Hp Hg Hmax ic Hi. rewrite (linker_infeasible_pos _ _ _ _ Hp) in Hg. apply negb_false_iff in Hg.
  unfold feasible in *. apply andb_true_iff in Hg as [G1 G2]. apply Nat.leb_le in G1. apply Nat.ltb_lt in G2.
  destruct (Hmax ic Hi) as [M1 M2]. apply andb_true_iff. split; [apply Nat.leb_le|apply Nat.ltb_lt]; lia.
Qed.
