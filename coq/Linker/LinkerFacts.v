(* LinkerFacts.v — invariants of the linker model that hold on EVERY path (whatever the hooks and the
   submodels do, whether or not anything raises): what a call of solve_t can never change.
   For every number type, every submodel oracle and every hook. *)
From Coq Require Import ZArith List Bool Lia.
Import ListNotations.
Require Import PyBase Solver Linker.
Open Scope Z_scope.

Lemma selected_cons_false ids a id : selected (a :: ids) id = false -> id <> a /\ selected ids id = false.
Proof.
  unfold selected. cbn [existsb]. intros H. apply orb_false_iff in H as [H1 H2].
  split; [|exact H2]. intros ->. rewrite Nat.eqb_refl in H1. discriminate.
Qed.

Lemma selected_in ids id : In id ids -> selected ids id = true.
Proof. intros H. unfold selected. apply existsb_exists. exists id. split; [exact H|apply Nat.eqb_refl]. Qed.

Lemma selected_true_in ids id : selected ids id = true -> In id ids.
Proof.
  unfold selected. intros H. apply existsb_exists in H as (x & Hx & E). apply Nat.eqb_eq in E. subst. exact Hx.
Qed.

Section LFacts.
  Variable num : Type.
  Variables (sub : num -> num -> num) (absf : num -> num) (ltb : num -> num -> bool) (zero : num).
  Variable sev : sid -> hook num.
  Variables (pre ebefore eafter post : lhook num).

  Notation comp := (comp num).
  Notation lstate := (lstate num).
  Notation vals := (vals num).
  Notation lhook := (lhook num).
  Notation find_sub := (find_sub num).
  Notation put_sub := (put_sub num).
  Notation put_sub_vals := (put_sub_vals num).
  Notation with_cvals := (with_cvals num).
  Notation set_iter := (set_iter num).
  Notation bump_iter := (bump_iter num).
  Notation set_status := (set_status num).
  Notation zero_iters := (zero_iters num).
  Notation stamp_subs := (stamp_subs num).
  Notation run_hook := (run_hook num).
  Notation eval_subs := (eval_subs num sev).
  Notation iter_step := (iter_step num sev ebefore eafter).
  Notation lloop := (lloop num sub absf ltb zero sev ebefore eafter post).
  Notation lfinish := (lfinish num).
  Notation get_check_values := (get_check_values num zero).
  Notation subs_check := (subs_check num zero).
  Notation comp_check := (comp_check num zero).
  Notation solve_t := (linker_solve_t_body num sub absf ltb zero sev pre ebefore eafter post).

  (* ---------------- dictionary lemmas ---------------- *)
  Lemma find_put_same id c' l :
    find_sub id (put_sub id c' l) = match find_sub id l with Some _ => Some c' | None => None end.
  Proof.
    induction l as [|[i c] r IH]; cbn [Linker.find_sub Linker.put_sub]; [reflexivity|].
    destruct (Nat.eqb id i) eqn:E; cbn [Linker.find_sub]; rewrite E; [reflexivity|exact IH].
  Qed.

  Lemma find_put_other id id' c' l : id' <> id -> find_sub id' (put_sub id c' l) = find_sub id' l.
  Proof.
    intros Hne. induction l as [|[i c] r IH]; cbn [Linker.find_sub Linker.put_sub]; [reflexivity|].
    destruct (Nat.eqb id i) eqn:E; cbn [Linker.find_sub].
    - apply Nat.eqb_eq in E. subst i. replace (Nat.eqb id' id) with false; [reflexivity|].
      symmetry. apply Nat.eqb_neq. exact Hne.
    - destruct (Nat.eqb id' i); [reflexivity|exact IH].
  Qed.

  Lemma keys_put id c' l : map fst (put_sub id c' l) = map fst l.
  Proof.
    induction l as [|[i c] r IH]; cbn [Linker.put_sub map]; [reflexivity|].
    destruct (Nat.eqb id i); cbn [map fst]; [reflexivity|rewrite IH; reflexivity].
  Qed.

  Lemma keys_put_vals l : forall vs, map fst (put_sub_vals l vs) = map fst l.
  Proof.
    induction l as [|[i c] r IH]; intros [|v vs]; cbn [Linker.put_sub_vals map fst]; try reflexivity.
    rewrite IH. reflexivity.
  Qed.

  Lemma with_cvals_eta (c : comp) : with_cvals c (vals_of (c_st c)) = c.
  Proof. destruct c as [d [v s i g]]. reflexivity. Qed.

  Lemma find_put_vals id l : forall vs,
    match find_sub id l with
    | Some c => exists v, find_sub id (put_sub_vals l vs) = Some (with_cvals c v)
    | None => find_sub id (put_sub_vals l vs) = None
    end.
  Proof.
    induction l as [|[i c] r IH]; intros vs; [destruct vs; reflexivity|].
    destruct vs as [|v vs].
    - cbn [Linker.put_sub_vals]. destruct (find_sub id ((i, c) :: r)) as [x|]; [|reflexivity].
      exists (vals_of (c_st x)). rewrite with_cvals_eta. reflexivity.
    - cbn [Linker.put_sub_vals Linker.find_sub]. destruct (Nat.eqb id i); [exists v; reflexivity|apply IH].
  Qed.

  Lemma with_cvals_twice (c : comp) v v' : with_cvals (with_cvals c v) v' = with_cvals c v'.
  Proof. reflexivity. Qed.

  (* ---------------- shape: what no path of solve_t changes ---------------- *)
  (* descriptor (check / endogenous lists, lags, leads), series lengths, and the container's private log *)
  Definition crel (c c' : comp) : Prop :=
    c_desc c' = c_desc c /\ log (c_st c') = log (c_st c) /\
    length (status (c_st c')) = length (status (c_st c)) /\
    length (iters (c_st c')) = length (iters (c_st c)).
  Definition prel (a b : sid * comp) : Prop := fst a = fst b /\ crel (snd a) (snd b).

  (* the events a call appends: every evaluation event names a selected submodel *)
  Definition ev_ok (ids : list sid) (e : levent) : Prop :=
    match e with LSub id _ _ => selected ids id = true | _ => True end.
  Definition log_ext (ids : list sid) (s s' : lstate) : Prop :=
    exists evs, l_log s' = l_log s ++ evs /\ Forall (ev_ok ids) evs.

  Definition srel (ids : list sid) (s s' : lstate) : Prop :=
    crel (l_core s) (l_core s') /\ Forall2 prel (l_subs s) (l_subs s') /\ log_ext ids s s'.

  Lemma crel_refl c : crel c c.
  Proof. repeat split. Qed.
  Lemma crel_trans a b c : crel a b -> crel b c -> crel a c.
  Proof. intros (A1 & A2 & A3 & A4) (B1 & B2 & B3 & B4). repeat split; congruence. Qed.
  Lemma crel_with_cvals c v : crel c (with_cvals c v).
  Proof. repeat split. Qed.
  Lemma crel_set_iter c t x c' : set_iter c t x = Some c' -> crel c c'.
  Proof.
    unfold Linker.set_iter, py_set. destruct (py_pos _ t); [|discriminate]. intros H; inversion H; subst; clear H.
    repeat split. cbn [c_st iters]. apply upd_length.
  Qed.
  Lemma crel_set_status c t x c' : set_status c t x = Some c' -> crel c c'.
  Proof.
    unfold Linker.set_status, py_set. destruct (py_pos _ t); [|discriminate]. intros H; inversion H; subst; clear H.
    repeat split. cbn [c_st status]. apply upd_length.
  Qed.
  Lemma crel_bump c t c' : bump_iter c t = Some c' -> crel c c'.
  Proof. unfold Linker.bump_iter. destruct (py_get _ t); [|discriminate]. apply crel_set_iter. Qed.

  Lemma F2_refl l : Forall2 prel l l.
  Proof. induction l; constructor; auto. split; [reflexivity|apply crel_refl]. Qed.
  Lemma F2_trans a : forall b c, Forall2 prel a b -> Forall2 prel b c -> Forall2 prel a c.
  Proof.
    induction a as [|x a IH]; intros b c H1 H2; inversion H1; subst; inversion H2; subst; constructor.
    - destruct H3 as [E1 R1]. destruct H4 as [E2 R2]. split; [congruence|eapply crel_trans; eauto].
    - eapply IH; eauto.
  Qed.
  Lemma F2_put_sub id c c' l : find_sub id l = Some c -> crel c c' -> Forall2 prel l (put_sub id c' l).
  Proof.
    intros Hf Hr. induction l as [|[i x] r IH]; cbn [Linker.find_sub Linker.put_sub] in *; [constructor|].
    destruct (Nat.eqb id i).
    - inversion Hf; subst. constructor; [split; [reflexivity|exact Hr]|apply F2_refl].
    - constructor; [split; [reflexivity|apply crel_refl]|apply IH; exact Hf].
  Qed.
  Lemma F2_put_vals l : forall vs, Forall2 prel l (put_sub_vals l vs).
  Proof.
    induction l as [|[i x] r IH]; intros [|v vs]; cbn [Linker.put_sub_vals]; try apply F2_refl.
    constructor; [split; [reflexivity|apply crel_with_cvals]|apply IH].
  Qed.
  Lemma F2_keys a b : Forall2 prel a b -> map fst a = map fst b.
  Proof. induction 1 as [|x y a b [E _] _ IH]; cbn [map]; [reflexivity|rewrite E, IH; reflexivity]. Qed.
  Lemma F2_find a b id : Forall2 prel a b ->
    match find_sub id a, find_sub id b with
    | Some c, Some c' => crel c c'
    | None, None => True
    | _, _ => False
    end.
  Proof.
    induction 1 as [|[i x] [j y] a b [E R] _ IH]; cbn [Linker.find_sub]; [exact I|].
    cbn [fst snd] in E, R. subst j. destruct (Nat.eqb id i); [exact R|exact IH].
  Qed.

  Lemma log_ext_eq ids s s' : l_log s' = l_log s -> log_ext ids s s'.
  Proof. intros H. exists []. rewrite app_nil_r. split; [exact H|constructor]. Qed.
  Lemma log_ext_refl ids s : log_ext ids s s.
  Proof. apply log_ext_eq. reflexivity. Qed.
  Lemma log_ext_trans ids a b c : log_ext ids a b -> log_ext ids b c -> log_ext ids a c.
  Proof.
    intros (e1 & H1 & F1) (e2 & H2 & F2). exists (e1 ++ e2). split.
    - rewrite H2, H1, app_assoc. reflexivity.
    - apply Forall_app. split; assumption.
  Qed.

  Lemma srel_refl ids s : srel ids s s.
  Proof. split; [apply crel_refl|split; [apply F2_refl|apply log_ext_eq; reflexivity]]. Qed.
  Lemma srel_trans ids a b c : srel ids a b -> srel ids b c -> srel ids a c.
  Proof.
    intros (A1 & A2 & A3) (B1 & B2 & B3). split; [eapply crel_trans; eauto|].
    split; [eapply F2_trans; eauto|eapply log_ext_trans; eauto].
  Qed.

  Lemma zero_iters_F2 t : forall ids subs, Forall2 prel subs (fst (zero_iters ids t subs)).
  Proof.
    induction ids as [|id r IH]; intros subs; cbn [Linker.zero_iters fst]; [apply F2_refl|].
    destruct (find_sub id subs) as [c|] eqn:Ef; [|apply F2_refl].
    destruct (set_iter c t 0) as [c'|] eqn:Es; [|apply F2_refl].
    eapply F2_trans; [|apply IH]. eapply F2_put_sub; eauto. eapply crel_set_iter; eauto.
  Qed.

  Lemma stamp_subs_F2 t x : forall ids subs, Forall2 prel subs (fst (stamp_subs ids t x subs)).
  Proof.
    induction ids as [|id r IH]; intros subs; cbn [Linker.stamp_subs fst]; [apply F2_refl|].
    destruct (find_sub id subs) as [c|] eqn:Ef; [|apply F2_refl].
    destruct (set_status c t x) as [c'|] eqn:Es; [|apply F2_refl].
    eapply F2_trans; [|apply IH]. eapply F2_put_sub; eauto. eapply crel_set_status; eauto.
  Qed.

  Lemma run_hook_srel (h : lhook) ids ids' o t k e s :
    ev_ok ids e -> srel ids s (fst (run_hook h ids' o t k e s)).
  Proof.
    intros He. unfold Linker.run_hook. destruct (h t ids' (errors o) (catch_first o) k _) as [jv r]. cbn [fst].
    unfold put_jv. split; [apply crel_with_cvals|]. split; [apply F2_put_vals|].
    exists [e]. split; [reflexivity|]. constructor; [exact He|constructor].
  Qed.

  Lemma eval_subs_srel ids o t k : forall ids' s,
    (forall x, In x ids' -> selected ids x = true) -> srel ids s (fst (eval_subs o t k ids' s)).
  Proof.
    induction ids' as [|id r IH]; intros s Hin; cbn [Linker.eval_subs]; [apply srel_refl|].
    destruct (find_sub id (l_subs s)) as [c|] eqn:Ef; [|apply srel_refl].
    assert (Hsel : selected ids id = true) by (apply Hin; left; reflexivity).
    assert (Hlog : forall subs', log_ext ids s (mkL (l_core s) subs' (l_log s ++ [LSub id t k]))).
    { intros subs'. exists [LSub id t k]. split; [reflexivity|]. constructor; [exact Hsel|constructor]. }
    destruct (sev id t (errors o) (catch_first o) k (vals_of (c_st c))) as [v' [e|]].
    - cbn [fst]. split; [apply crel_refl|]. split; [|apply Hlog].
      eapply F2_put_sub; eauto. apply crel_with_cvals.
    - destruct (bump_iter (with_cvals c v') t) as [c2|] eqn:Eb.
      + eapply srel_trans; [|apply IH; intros x Hx; apply Hin; right; exact Hx].
        split; [apply crel_refl|]. split; [|apply Hlog].
        eapply F2_put_sub; eauto. eapply crel_trans; [apply crel_with_cvals|eapply crel_bump; eauto].
      + cbn [fst]. split; [apply crel_refl|]. split; [|apply Hlog].
        eapply F2_put_sub; eauto. apply crel_with_cvals.
  Qed.

  Lemma iter_step_srel ids o t k s : srel ids s (fst (iter_step ids o t k s)).
  Proof.
    unfold Linker.iter_step.
    pose proof (run_hook_srel ebefore ids ids o t k (LBefore t k) s I) as H1.
    destruct (run_hook ebefore ids o t k (LBefore t k) s) as [s1 [e|]]; cbn [fst] in *; [exact H1|].
    pose proof (eval_subs_srel ids o t k ids s1 (selected_in ids)) as H2.
    destruct (eval_subs o t k ids s1) as [s2 [e|]]; cbn [fst] in *; [eapply srel_trans; eauto|].
    eapply srel_trans; [exact H1|]. eapply srel_trans; [exact H2|]. apply run_hook_srel. exact I.
  Qed.

  Definition llres_state (r : llres num) : lstate := match r with LLDone s _ _ => s | LLRaise s _ => s end.

  Lemma lloop_srel ids o t : forall n k s cur, srel ids s (llres_state (lloop ids o t n k s cur)).
  Proof.
    induction n as [|n IH]; intros k s cur; cbn [Linker.lloop llres_state]; [apply srel_refl|].
    pose proof (iter_step_srel ids o t k s) as H1.
    destruct (iter_step ids o t k s) as [s1 [e|]]; cbn [fst llres_state] in *; [exact H1|].
    destruct (Linker.get_check_values num zero ids t s1) as [cur'|e]; cbn [llres_state]; [|exact H1].
    destruct (Z.of_nat k <? min_iter o); [eapply srel_trans; [exact H1|apply IH]|].
    destruct (conv_all num sub absf ltb (tol o) cur' cur); [|eapply srel_trans; [exact H1|apply IH]].
    pose proof (run_hook_srel post ids ids o t k (LPost t k) s1 I) as H2.
    destruct (run_hook post ids o t k (LPost t k) s1) as [s2 [e|]]; cbn [fst llres_state] in *;
      eapply srel_trans; eauto.
  Qed.

  Lemma lfinish_srel ids o t r : srel ids (llres_state r) (fst (lfinish o ids t r)).
  Proof.
    destruct r as [s x k|s e]; cbn [Linker.lfinish llres_state fst]; [|apply srel_refl].
    destruct (set_status (l_core s) t x) as [c1|] eqn:E1; [|apply srel_refl].
    destruct (set_iter c1 t (Z.of_nat k)) as [c2|] eqn:E2.
    - pose proof (stamp_subs_F2 t x ids (l_subs s)) as HF.
      assert (Hc : crel (l_core s) c2) by (eapply crel_trans; [eapply crel_set_status|eapply crel_set_iter]; eauto).
      destruct (stamp_subs ids t x (l_subs s)) as [subs' [e|]]; cbn [fst] in *.
      + split; [exact Hc|]. split; [exact HF|apply log_ext_eq; reflexivity].
      + destruct (st_eqb x Failed && fail_raise o); cbn [fst]; (split; [exact Hc|]; split; [exact HF|apply log_ext_eq; reflexivity]).
    - cbn [fst]. split; [eapply crel_set_status; eauto|]. split; [apply F2_refl|apply log_ext_eq; reflexivity].
  Qed.

  (* Whatever happens, a solve_t call keeps: the submodel keys and their order, every descriptor, every series
     length, and appends to the log only events whose evaluation entries name selected submodels. *)
  Theorem solve_t_preserves_shape sel o t s :
    srel (sel_ids num sel s) s (fst (solve_t sel o t s)).
  Proof.
    unfold Linker.linker_solve_t_body. set (ids := sel_ids num sel s).
    destruct (Linker.get_check_values num zero ids t s) as [cur|e]; [|apply srel_refl].
    pose proof (zero_iters_F2 t ids (l_subs s)) as HZ.
    destruct (zero_iters ids t (l_subs s)) as [subs1 [e|]]; cbn [fst] in *.
    - split; [apply crel_refl|]. split; [exact HZ|apply log_ext_eq; reflexivity].
    - assert (H0 : srel ids s (mkL (l_core s) subs1 (l_log s))).
      { split; [apply crel_refl|]. split; [exact HZ|apply log_ext_eq; reflexivity]. }
      pose proof (run_hook_srel pre ids ids o t 0%nat (LPre t) (mkL (l_core s) subs1 (l_log s)) I) as H1.
      destruct (run_hook pre ids o t 0%nat (LPre t) (mkL (l_core s) subs1 (l_log s))) as [s1 [e|]]; cbn [fst] in *.
      + eapply srel_trans; eauto.
      + eapply srel_trans; [exact H0|]. eapply srel_trans; [exact H1|].
        eapply srel_trans; [apply lloop_srel|apply lfinish_srel].
  Qed.

  Corollary solve_t_keys sel o t s : map fst (l_subs (fst (solve_t sel o t s))) = map fst (l_subs s).
  Proof. symmetry. apply F2_keys. apply (solve_t_preserves_shape sel o t s). Qed.

  (* never evaluated: no evaluation event of an unselected submodel is ever appended *)
  Corollary unselected_never_evaluated sel o t s id :
    selected (sel_ids num sel s) id = false ->
    exists evs, l_log (fst (solve_t sel o t s)) = l_log s ++ evs /\
                forall t' k, ~ In (LSub id t' k) evs.
  Proof.
    intros Hun. destruct (solve_t_preserves_shape sel o t s) as (_ & _ & evs & Hl & HF).
    exists evs. split; [exact Hl|]. intros t' k Hin.
    rewrite Forall_forall in HF. specialize (HF _ Hin). cbn [ev_ok] in HF. congruence.
  Qed.

  (* ---------------- unselected submodels: position by position ---------------- *)
  (* a hook preserves property Q of the values held at position i of the submodel list *)
  Definition hook_pres (i : nat) (Q : vals -> Prop) (h : lhook) : Prop :=
    forall t ids em cf k jv v v',
      nth_error (snd jv) i = Some v -> Q v ->
      nth_error (snd (fst (h t ids em cf k jv))) i = Some v' -> Q v'.
  (* special case: the hook does not write the values at position i *)
  Definition hook_keeps (i : nat) (h : lhook) : Prop :=
    forall t ids em cf k jv, nth_error (snd (fst (h t ids em cf k jv))) i = nth_error (snd jv) i.

  Lemma nth_put_sub_other id' c' : forall l i k x,
    nth_error l i = Some (k, x) -> k <> id' -> nth_error (put_sub id' c' l) i = Some (k, x).
  Proof.
    induction l as [|[j y] r IH]; intros [|i] k x H Hne; cbn [Linker.put_sub nth_error] in *; try discriminate.
    - inversion H; subst. replace (Nat.eqb id' k) with false; [reflexivity|].
      symmetry. apply Nat.eqb_neq. congruence.
    - destruct (Nat.eqb id' j); cbn [nth_error]; [exact H|]. apply IH; assumption.
  Qed.

  Lemma nth_put_vals : forall l vs i k x,
    nth_error l i = Some (k, x) ->
    nth_error (put_sub_vals l vs) i = Some (k, match nth_error vs i with Some v' => with_cvals x v' | None => x end).
  Proof.
    induction l as [|[j y] r IH]; intros [|v vs] [|i] k x H; cbn [Linker.put_sub_vals nth_error] in *; try discriminate; try exact H.
    - inversion H; subst. reflexivity.
    - apply IH. exact H.
  Qed.

  Section Keep.
    Variables (i : nat) (id : sid) (c : comp) (Q : vals -> Prop).
    Hypotheses (Hpre : hook_pres i Q pre) (Hbef : hook_pres i Q ebefore)
               (Haft : hook_pres i Q eafter) (Hpost : hook_pres i Q post).

    (* position i still holds key id and container c, up to values that satisfy Q *)
    Definition kept (l : list (sid * comp)) : Prop := exists v, nth_error l i = Some (id, with_cvals c v) /\ Q v.

    Lemma kept_put_sub id' c' l : id <> id' -> kept l -> kept (put_sub id' c' l).
    Proof. intros Hne (v & Hn & Hq). exists v. split; [|exact Hq]. apply nth_put_sub_other; assumption. Qed.

    Lemma run_hook_kept (h : lhook) ids o t k e s :
      hook_pres i Q h -> kept (l_subs s) -> kept (l_subs (fst (run_hook h ids o t k e s))).
    Proof.
      intros Hh (v & Hn & Hq). unfold Linker.run_hook.
      destruct (h t ids (errors o) (catch_first o) k (jv_of num s)) as [jv r] eqn:Eh. cbn [fst]. unfold put_jv, kept. cbn [l_subs].
      rewrite (nth_put_vals _ (snd jv) _ _ _ Hn).
      destruct (nth_error (snd jv) i) as [v'|] eqn:Ev.
      - exists v'. split; [reflexivity|].
        assert (Hj : nth_error (snd (jv_of num s)) i = Some v).
        { unfold jv_of. cbn [snd]. rewrite nth_error_map, Hn. reflexivity. }
        eapply (Hh t ids (errors o) (catch_first o) k (jv_of num s) v v' Hj Hq). rewrite Eh. exact Ev.
      - exists v. split; [reflexivity|exact Hq].
    Qed.

    Lemma zero_iters_kept t : forall ids subs,
      selected ids id = false -> kept subs -> kept (fst (zero_iters ids t subs)).
    Proof.
      induction ids as [|a r IH]; intros subs Hs Hk; cbn [Linker.zero_iters fst]; [exact Hk|].
      apply selected_cons_false in Hs as [Hne Hs].
      destruct (find_sub a subs) as [x|]; [|exact Hk].
      destruct (set_iter x t 0) as [x'|]; [|exact Hk].
      apply IH; [exact Hs|]. apply kept_put_sub; assumption.
    Qed.

    Lemma stamp_subs_kept t x : forall ids subs,
      selected ids id = false -> kept subs -> kept (fst (stamp_subs ids t x subs)).
    Proof.
      induction ids as [|a r IH]; intros subs Hs Hk; cbn [Linker.stamp_subs fst]; [exact Hk|].
      apply selected_cons_false in Hs as [Hne Hs].
      destruct (find_sub a subs) as [y|]; [|exact Hk].
      destruct (set_status y t x) as [y'|]; [|exact Hk].
      apply IH; [exact Hs|]. apply kept_put_sub; assumption.
    Qed.

    Lemma eval_subs_kept o t k : forall ids s,
      selected ids id = false -> kept (l_subs s) -> kept (l_subs (fst (eval_subs o t k ids s))).
    Proof.
      induction ids as [|a r IH]; intros s Hs Hk; cbn [Linker.eval_subs]; [exact Hk|].
      apply selected_cons_false in Hs as [Hne Hs].
      destruct (find_sub a (l_subs s)) as [x|]; [|exact Hk].
      destruct (sev a t (errors o) (catch_first o) k (vals_of (c_st x))) as [v' [e|]].
      - cbn [fst l_subs]. apply kept_put_sub; assumption.
      - destruct (bump_iter (with_cvals x v') t) as [c2|].
        + apply IH; [exact Hs|]. cbn [l_subs]. apply kept_put_sub; assumption.
        + cbn [fst l_subs]. apply kept_put_sub; assumption.
    Qed.

    Lemma iter_step_kept ids o t k s :
      selected ids id = false -> kept (l_subs s) -> kept (l_subs (fst (iter_step ids o t k s))).
    Proof.
      intros Hs Hk. unfold Linker.iter_step.
      pose proof (run_hook_kept ebefore ids o t k (LBefore t k) s Hbef Hk) as H1.
      destruct (run_hook ebefore ids o t k (LBefore t k) s) as [s1 [e|]]; cbn [fst] in *; [exact H1|].
      pose proof (eval_subs_kept o t k ids s1 Hs H1) as H2.
      destruct (eval_subs o t k ids s1) as [s2 [e|]]; cbn [fst] in *; [exact H2|].
      apply run_hook_kept; assumption.
    Qed.

    Lemma lloop_kept ids o t : forall n k s cur,
      selected ids id = false -> kept (l_subs s) -> kept (l_subs (llres_state (lloop ids o t n k s cur))).
    Proof.
      induction n as [|n IH]; intros k s cur Hs Hk; cbn [Linker.lloop llres_state]; [exact Hk|].
      pose proof (iter_step_kept ids o t k s Hs Hk) as H1.
      destruct (iter_step ids o t k s) as [s1 [e|]]; cbn [fst llres_state] in *; [exact H1|].
      destruct (Linker.get_check_values num zero ids t s1) as [cur'|e]; cbn [llres_state]; [|exact H1].
      destruct (Z.of_nat k <? min_iter o); [apply IH; assumption|].
      destruct (conv_all num sub absf ltb (tol o) cur' cur); [|apply IH; assumption].
      pose proof (run_hook_kept post ids o t k (LPost t k) s1 Hpost H1) as H2.
      destruct (run_hook post ids o t k (LPost t k) s1) as [s2 [e|]]; cbn [fst llres_state] in *; exact H2.
    Qed.

    Lemma lfinish_kept ids o t r :
      selected ids id = false -> kept (l_subs (llres_state r)) -> kept (l_subs (fst (lfinish o ids t r))).
    Proof.
      intros Hs Hk. destruct r as [s x k|s e]; cbn [Linker.lfinish llres_state fst] in *; [|exact Hk].
      destruct (set_status (l_core s) t x) as [c1|]; [|exact Hk].
      destruct (set_iter c1 t (Z.of_nat k)) as [c2|]; [|exact Hk].
      pose proof (stamp_subs_kept t x ids (l_subs s) Hs Hk) as H1.
      destruct (stamp_subs ids t x (l_subs s)) as [subs' [e|]]; cbn [fst] in *; [exact H1|].
      destruct (st_eqb x Failed && fail_raise o); exact H1.
    Qed.

    Lemma solve_t_kept sel o t s :
      selected (sel_ids num sel s) id = false -> kept (l_subs s) -> kept (l_subs (fst (solve_t sel o t s))).
    Proof.
      intros Hs Hk. unfold Linker.linker_solve_t_body. set (ids := sel_ids num sel s) in *.
      destruct (Linker.get_check_values num zero ids t s) as [cur|e]; [|exact Hk].
      pose proof (zero_iters_kept t ids (l_subs s) Hs Hk) as HZ.
      destruct (zero_iters ids t (l_subs s)) as [subs1 [e|]]; cbn [fst] in *; [exact HZ|].
      pose proof (run_hook_kept pre ids o t 0%nat (LPre t) (mkL (l_core s) subs1 (l_log s)) Hpre HZ) as H1.
      destruct (run_hook pre ids o t 0%nat (LPre t) (mkL (l_core s) subs1 (l_log s))) as [s1 [e|]]; cbn [fst] in *; [exact H1|].
      apply lfinish_kept; [exact Hs|]. apply lloop_kept; assumption.
    Qed.
  End Keep.

  (* An unselected submodel is never re-stamped: on every path (normal return, NonConvergenceError, KeyError for
     a later unknown id, an exception out of a hook or a submodel) its status series, its iteration counters, its
     descriptor and its private log are exactly what they were; only a hook can have written its values. *)
  Theorem unselected_not_restamped sel o t s i id c :
    nth_error (l_subs s) i = Some (id, c) -> selected (sel_ids num sel s) id = false ->
    exists v, nth_error (l_subs (fst (solve_t sel o t s))) i = Some (id, with_cvals c v).
  Proof.
    intros Hn Hs.
    destruct (solve_t_kept i id c (fun _ => True)) with (sel := sel) (o := o) (t := t) (s := s) as (v & Hv & _);
      try (intros ? ? ? ? ? ? ? ? ? ? ?; exact I); try exact Hs.
    - exists (vals_of (c_st c)). rewrite with_cvals_eta. split; [exact Hn|exact I].
    - exists v. exact Hv.
  Qed.

  (* ... and if no hook writes to it, it is untouched altogether *)
  Theorem unselected_untouched sel o t s i id c :
    nth_error (l_subs s) i = Some (id, c) -> selected (sel_ids num sel s) id = false ->
    hook_keeps i pre -> hook_keeps i ebefore -> hook_keeps i eafter -> hook_keeps i post ->
    nth_error (l_subs (fst (solve_t sel o t s))) i = Some (id, c).
  Proof.
    intros Hn Hs K1 K2 K3 K4.
    assert (HP : forall h, hook_keeps i h -> hook_pres i (fun v => v = vals_of (c_st c)) h).
    { intros h Hk t' ids em cf k jv v v' Hv Hq Hv'. rewrite Hk, Hv in Hv'. congruence. }
    destruct (solve_t_kept i id c (fun v => v = vals_of (c_st c)) (HP _ K1) (HP _ K2) (HP _ K3) (HP _ K4) sel o t s Hs)
      as (v & Hv & Hq).
    - exists (vals_of (c_st c)). rewrite with_cvals_eta. split; [exact Hn|reflexivity].
    - rewrite Hv, Hq, with_cvals_eta. reflexivity.
  Qed.

  (* ---------------- the offset seeding (fix 6298cba) writes values only ---------------- *)
  Notation seed_comp := (seed_comp num zero).
  Notation seed_subs := (seed_subs num zero).
  Notation seeded := (seeded num zero).
  Notation linker_seed := (linker_seed num zero).

  Lemma seed_subs_F2 p q : forall ids subs, Forall2 prel subs (seed_subs ids p q subs).
  Proof.
    induction ids as [|id r IH]; intros subs; cbn [Linker.seed_subs]; [apply F2_refl|].
    destruct (find_sub id subs) as [c|] eqn:Ef; [|apply IH].
    eapply F2_trans; [|apply IH]. eapply F2_put_sub; eauto. apply crel_with_cvals.
  Qed.
  Lemma seeded_srel ids' ids p q s : srel ids' s (seeded ids p q s).
  Proof. split; [apply crel_with_cvals|]. split; [apply seed_subs_F2|apply log_ext_eq; reflexivity]. Qed.

  (* a successful seeding either changed nothing (offset = 0, or nothing to write) or produced `seeded` *)
  Lemma linker_seed_spec ids o t s s0 :
    linker_seed ids o t s = (s0, None) -> s0 = s \/ exists p q, s0 = seeded ids p q s.
  Proof.
    unfold Linker.linker_seed. destruct (offset o =? 0); [intros H; inversion H; left; reflexivity|].
    destruct (_ || _); [discriminate|]. destruct (existsb _ ids); [discriminate|].
    destruct (py_pos _ t) as [p|].
    - intros H; inversion H. right. eauto.
    - destruct (has_endo num ids s); [discriminate|]. intros H; inversion H; left; reflexivity.
  Qed.
  (* a failed seeding leaves the state alone *)
  Lemma linker_seed_error ids o t s s' e : linker_seed ids o t s = (s', Some e) -> s' = s /\ (e = IndexError \/ e = KeyError).
  Proof.
    unfold Linker.linker_seed. destruct (offset o =? 0); [discriminate|].
    destruct (_ || _); [intros H; inversion H; auto|]. destruct (existsb _ ids); [intros H; inversion H; auto|].
    destruct (py_pos _ t) as [p|]; [discriminate|]. destruct (has_endo num ids s); [intros H; inversion H; auto|discriminate].
  Qed.
  Lemma linker_seed_srel ids' ids o t s s0 : linker_seed ids o t s = (s0, None) -> srel ids' s s0.
  Proof. intros H. destruct (linker_seed_spec _ _ _ _ _ H) as [->|(p & q & ->)]; [apply srel_refl|apply seeded_srel]. Qed.
  Lemma linker_seed_sel_ids sel ids o t s s0 : linker_seed ids o t s = (s0, None) -> sel_ids num sel s0 = sel_ids num sel s.
  Proof.
    intros H. destruct sel; [reflexivity|]. cbn [Linker.sel_ids]. symmetry. apply F2_keys.
    apply (linker_seed_srel [] ids o t s s0 H).
  Qed.

  Lemma seed_subs_unselected p q i id c : forall ids subs,
    nth_error subs i = Some (id, c) -> selected ids id = false -> nth_error (seed_subs ids p q subs) i = Some (id, c).
  Proof.
    induction ids as [|a r IH]; intros subs Hn Hs; cbn [Linker.seed_subs]; [exact Hn|].
    apply selected_cons_false in Hs as [Hne Hs].
    destruct (find_sub a subs) as [x|]; [|apply IH; assumption].
    apply IH; [|exact Hs]. apply nth_put_sub_other; [exact Hn|exact Hne].
  Qed.
  (* an unselected submodel is not seeded: its entry is literally the same *)
  Lemma linker_seed_unselected ids o t s s0 i id c :
    linker_seed ids o t s = (s0, None) -> nth_error (l_subs s) i = Some (id, c) -> selected ids id = false ->
    nth_error (l_subs s0) i = Some (id, c).
  Proof.
    intros H Hn Hs. destruct (linker_seed_spec _ _ _ _ _ H) as [->|(p & q & ->)]; [exact Hn|].
    cbn [Linker.seeded l_subs]. apply seed_subs_unselected; assumption.
  Qed.

  (* ---------------- unknown identifier ---------------- *)
  (* the counters zeroed before the KeyError: exactly those of the identifiers listed before the unknown one *)
  Lemma zero_iters_app t : forall a b subs,
    zero_iters (a ++ b) t subs =
    match zero_iters a t subs with
    | (subs1, Some e) => (subs1, Some e)
    | (subs1, None) => zero_iters b t subs1
    end.
  Proof.
    induction a as [|x a IH]; intros b subs; cbn [app Linker.zero_iters]; [reflexivity|].
    destruct (find_sub x subs) as [c|]; [|reflexivity].
    destruct (set_iter c t 0) as [c'|]; [|reflexivity]. apply IH.
  Qed.

  Lemma find_zero_iters_none t bad : forall ids subs,
    find_sub bad subs = None -> find_sub bad (fst (zero_iters ids t subs)) = None.
  Proof.
    intros ids subs H. pose proof (F2_find _ _ bad (zero_iters_F2 t ids subs)) as HF. rewrite H in HF.
    destruct (find_sub bad (fst (zero_iters ids t subs))); [contradiction|reflexivity].
  Qed.

  Theorem unknown_id_KeyError sel o t s before bad after cur subs1 :
    sel_ids num sel s = before ++ bad :: after ->
    find_sub bad (l_subs s) = None ->
    get_check_values (sel_ids num sel s) t s = inl cur ->          (* t lies inside the span *)
    zero_iters before t (l_subs s) = (subs1, None) ->              (* the identifiers before it are all known *)
    solve_t sel o t s = (mkL (l_core s) subs1 (l_log s), LRaise (LExn KeyError)).
  Proof.
    intros Hids Hbad Hcur Hz. unfold Linker.linker_solve_t_body. rewrite Hcur, Hids, zero_iters_app, Hz.
    cbn [Linker.zero_iters].
    pose proof (find_zero_iters_none t bad before (l_subs s) Hbad) as Hn. rewrite Hz in Hn. cbn [fst] in Hn.
    rewrite Hn. reflexivity.
  Qed.

End LFacts.
