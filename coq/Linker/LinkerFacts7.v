(* LinkerFacts7.v — the last clause of C08 for solve() over a RANGE of periods: a linker that wraps a single model and adds
   no equations, solved over the positions ps, goes through the same statuses, iteration counts, values, flags and — if a
   period raises — the same exception at the same period as that model solved directly, period by period
   (SolverMixin.solve = guard + one solve_t per period; the model's `log` field is trace instrumentation of the Coq model,
   not Python state, so the direct run is taken over (values, status, iterations)). *)
From Coq Require Import ZArith List Bool Lia Arith.
Import ListNotations.
Require Import PyBase Solver SolverFacts Linker LinkerFacts LinkerFacts2 LinkerFacts3 LinkerFacts4 LinkerFacts6.
Open Scope Z_scope.

Section SingleRange.
  Variable num : Type.
  Variables (sub : num -> num -> num) (absf : num -> num) (ltb : num -> num -> bool) (isfin : num -> bool) (zero : num).
  Variable sev : sid -> hook num.      (* the model's _evaluate as it behaves when the linker calls it *)
  Variable ev : hook num.              (* the model's _evaluate as it behaves inside BaseModel.solve_t *)
  Variables (d : mdesc) (o : opts num) (id : sid) (cd : mdesc) (ml0 : list event) (n : nat).
  Variable sel : option (list sid).

  Notation msolve := (solve_t_M num sub absf ltb isfin zero ev (id_hook num) (id_hook num) d o).
  Notation lsolve := (linker_solve_t_M num sub absf ltb zero sev (id_lhook num) (id_lhook num) (id_lhook num) (id_lhook num) sel o).
  Notation lfold := (solve_fold num sub absf ltb zero sev (id_lhook num) (id_lhook num) (id_lhook num) (id_lhook num) sel o).
  Notation lsolve_all := (linker_solve_M num sub absf ltb zero sev (id_lhook num) (id_lhook num) (id_lhook num) (id_lhook num) sel o).

  (* the Python state of the model: values, status, iterations (the trace field is reset to ml0) *)
  Definition relog (m : mstate num) : mstate num := mkState (vals_of m) (status m) (iters m) ml0.

  (* the model solved directly over the positions ps: one solve_t per period, the first exception ends the run *)
  Fixpoint direct_fold (ps : list Z) (m : mstate num) (acc : list bool) : mstate num * (exn + list bool) :=
    match ps with
    | [] => (m, inr (rev acc))
    | t :: r => match msolve t m with
                | (m', Ret b) => direct_fold r (relog m') (b :: acc)
                | (m', Raise e) => (relog m', inl e)
                end
    end.
  Definition direct_solve (ps : list Z) (m : mstate num) : mstate num * (exn + list bool) :=
    if max_iter o <? min_iter o then (m, inl ValueError) else direct_fold ps m [].

  (* the linker: its own container (no check variable; any values cv) around the one model *)
  Definition Lk (cv : vals num) (cs : list st) (ci : list Z) (cl : list event) (m : mstate num) (lg : list levent) : lstate num :=
    mkL (mkComp cd (mkState cv cs ci cl)) [(id, mkComp d m)] lg.

  (* the finite, exception-free regime at period t from the model state m (the premises of single_model_linker_eq_model) *)
  Definition step_ok (t : Z) (m : mstate num) : Prop :=
    exists p, py_pos n t = Some p /\ length (status m) = n /\ length (iters m) = n /\
      (min_iter o <= max_iter o -> 0 <= max_iter o) /\
      (forall i, (1 <= i <= Z.to_nat (max_iter o))%nat -> snd (evk num ev o t i (st_after num ev o t (vals_of m) (i - 1))) = None) /\
      (forall i, (i <= Z.to_nat (max_iter o))%nat ->
         all_finite num isfin (chkseq num zero ev d o t p (get_check num zero d (vals_of m) p) (vals_of m) i) = true) /\
      (forall i, (1 <= i <= Z.to_nat (max_iter o))%nat ->
         sev id t (errors o) (catch_first o) i (st_after num ev o t (vals_of m) (i - 1))
         = ev t (errors o) (catch_first o) i (st_after num ev o t (vals_of m) (i - 1))).
  (* ... along the whole direct run *)
  Fixpoint regime (ps : list Z) (m : mstate num) : Prop :=
    match ps with
    | [] => True
    | t :: r => step_ok t m /\ (forall m' b, msolve t m = (m', Ret b) -> regime r (relog m'))
    end.

  Definition lift (r : exn + list bool) : lexn + list bool := match r with inl e => inl (LExn e) | inr bs => inr bs end.

  Hypothesis Hcheck : check cd = [].                       (* the linker adds no check variable *)
  Hypothesis Hlags : lags cd = lags d.                     (* what __init__ computes for a linker over this one model *)
  Hypothesis Hleads : leads cd = leads d.
  Hypothesis Hoff : offset o = 0.                          (* ignored by the linker: finding #8 *)
  Hypothesis Hsel : sel = None \/ sel = Some [id].
  Hypothesis Hid : id <> us_id.                            (* the model is not keyed '_' *)

  Lemma fold_agrees : forall ps cv cs ci cl mv ms mi lg acc,
    length cs = n -> length ci = n -> regime ps (mkState mv ms mi ml0) ->
    exists cv' cs' ci' cl' lg',
      lfold ps (Lk cv cs ci cl (mkState mv ms mi ml0) lg) acc
      = (Lk cv' cs' ci' cl' (fst (direct_fold ps (mkState mv ms mi ml0) acc)) lg', lift (snd (direct_fold ps (mkState mv ms mi ml0) acc))).
  Proof.
    induction ps as [|t r IH]; intros cv cs ci cl mv ms mi lg acc Hcs Hci Hreg.
    - cbn [Linker.solve_fold direct_fold fst snd lift]. eauto 10.
    - cbn [regime] in Hreg. destruct Hreg as [(p & Hp & Hms & Hmi & Hmax & Hev & Hfin & Hagree) Hnext].
      cbn [status iters vals_of] in Hms, Hmi, Hev, Hfin, Hagree.
      assert (Hpc : py_pos (length cs) t = Some p) by (rewrite Hcs; exact Hp).
      assert (Hpm : py_pos (length ms) t = Some p) by (rewrite Hms; exact Hp).
      pose proof (single_model_linker_eq_model num sub absf ltb isfin zero sev ev d o t p id cd cv cs ci cl mv ms mi ml0 lg
                    Hcheck Hpc (eq_trans Hci (eq_sym Hcs)) Hpm (eq_trans Hmi (eq_sym Hms)) Hid sel Hlags Hleads (eq_trans Hcs (eq_sym Hms))
                    Hmax Hoff Hev Hfin Hagree Hsel) as HS.
      cbv zeta in HS. unfold m0, core1 in HS. fold (Lk cv cs ci cl (mkState mv ms mi ml0) lg) in HS.
      destruct HS as (S1 & S2 & S3 & S4 & _).
      (* shape of the linker's state after the call *)
      pose proof (solve_t_preserves_shape_M num sub absf ltb zero sev (id_lhook num) (id_lhook num) (id_lhook num) (id_lhook num)
                    sel o t (Lk cv cs ci cl (mkState mv ms mi ml0) lg)) as ((D & _) & _).
      cbn [Linker.solve_fold direct_fold].
      destruct (lsolve t (Lk cv cs ci cl (mkState mv ms mi ml0) lg)) as [L' rl] eqn:EL.
      destruct (msolve t (mkState mv ms mi ml0)) as [m' rm] eqn:EM.
      cbn [fst snd] in S1, S2, S3, S4, D.
      destruct L' as [[cd' [cv' cs' ci' cl']] subs' lg']. cbn [l_core l_subs c_desc c_st status iters] in S2, S3, S4, D.
      cbn [Lk l_core c_desc] in D. subst cd' subs'.
      assert (Hcs' : length cs' = n).
      { rewrite S3. destruct ((max_iter o <? min_iter o) || negb (feasible d (length ms) p)); [exact Hcs|rewrite upd_length; exact Hcs]. }
      assert (Hci' : length ci' = n).
      { rewrite S4. destruct ((max_iter o <? min_iter o) || negb (feasible d (length ms) p)); [exact Hci|rewrite upd_length; exact Hci]. }
      destruct rm as [b|e]; cbn [lout_of] in S1; subst rl.
      + specialize (Hnext m' b eq_refl). unfold relog in Hnext |- *.
        destruct (IH cv' cs' ci' cl' (vals_of m') (status m') (iters m') lg' (b :: acc) Hcs' Hci' Hnext) as (a1 & a2 & a3 & a4 & a5 & E).
        exists a1, a2, a3, a4, a5. exact E.
      + cbn [fst snd lift]. exists cv', cs', ci', cl', lg'. reflexivity.
  Qed.

  (* THE RANGE FORM OF THE LAST CLAUSE.  Whatever the list of positions (any order, repeats, infeasible or out-of-order
     periods included — a rejected period stops both runs with the same exception): *)
  Theorem single_model_linker_solve_eq_model_solve ps cv cs ci cl mv ms mi lg :
    length cs = n -> length ci = n -> regime ps (mkState mv ms mi ml0) ->
    let rm := direct_solve ps (mkState mv ms mi ml0) in
    let rl := lsolve_all ps (Lk cv cs ci cl (mkState mv ms mi ml0) lg) in
    snd rl = lift (snd rm) /\                               (* the same flags, or the same exception *)
    l_subs (fst rl) = [(id, mkComp d (fst rm))].            (* the same values, statuses, iteration counts *)
  Proof.
    intros Hcs Hci Hreg rm rl. subst rm rl. unfold Linker.linker_solve_M, direct_solve.
    destruct (max_iter o <? min_iter o); [split; reflexivity|].
    destruct (fold_agrees ps cv cs ci cl mv ms mi lg [] Hcs Hci Hreg) as (a1 & a2 & a3 & a4 & a5 & E).
    rewrite E. split; reflexivity.
  Qed.
End SingleRange.
