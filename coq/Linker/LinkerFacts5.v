(* LinkerFacts5.v — solve(start=, end=) over label ranges (LinkerRange.linker_solve_span_M), tied to the constructor:
   the default range runs from the longest lag to the last period that leaves room for the longest lead, so every
   visited period has enough lags and leads for EVERY submodel; label errors change nothing; periods outside the
   range are left alone; acceptance by the constructor implies equal spans. *)
From Coq Require Import ZArith List Bool Lia Arith.
Import ListNotations.
Require Import PyBase Solver SolverFacts SolveAll SolveAllFacts Linker LinkerFacts LinkerFacts2 LinkerFacts3 LinkerFacts4 LinkerRange.
Open Scope Z_scope.

(* positions a .. b inclusive, in order ([] when b < a) *)
Definition positions (a b : nat) : list Z := map Z.of_nat (seq a (S b - a)).

Lemma in_positions a b t : In t (positions a b) <-> exists i, (a <= i <= b)%nat /\ t = Z.of_nat i.
Proof.
  unfold positions. rewrite in_map_iff. split.
  - intros (i & E & Hi). apply in_seq in Hi. exists i. split; [lia|congruence].
  - intros (i & Hi & E). exists i. split; [congruence|]. apply in_seq. lia.
Qed.

Lemma map_fst_combine {A B} : forall (l1 : list A) (l2 : list B), (length l1 <= length l2)%nat -> map fst (combine l1 l2) = l1.
Proof.
  induction l1 as [|x l1 IH]; intros [|y l2] H; cbn [combine map fst length] in *; try reflexivity; [lia|].
  rewrite IH by lia. reflexivity.
Qed.

Lemma periods_fst {L} (span : list L) a b : (b < length span)%nat -> map fst (periods L span a b) = positions a b.
Proof.
  intros Hb. unfold periods, positions. apply map_fst_combine.
  rewrite map_length, seq_length, firstn_length, skipn_length. lia.
Qed.

(* ---------------- the constructor, read backwards: acceptance implies equal spans and maximal lags / leads ---------------- *)
Theorem ctor_accept_inv id0 b rest sp lg ld :
  linker_ctor_M ((id0, b) :: rest) None = Ret (sp, lg, ld) ->
  sp = si_span b /\
  (forall ic, In ic rest -> span_elems (si_span (snd ic)) = span_elems (si_span b)) /\
  (forall ic, In ic ((id0, b) :: rest) -> si_LAGS (snd ic) <= lg) /\
  (exists ic, In ic ((id0, b) :: rest) /\ si_LAGS (snd ic) = lg) /\
  (forall ic, In ic ((id0, b) :: rest) -> si_LEADS (snd ic) <= ld) /\
  (exists ic, In ic ((id0, b) :: rest) /\ si_LEADS (snd ic) = ld).
Proof.
  intros H.
  assert (Hne : forall ic, In ic rest -> span_elems (si_span (snd ic)) = span_elems (si_span b)).
  { apply (ctor_accepts_iff id0 b rest). eauto. }
  destruct (lags_leads_are_maxima id0 b rest Hne) as (L0 & D0 & E & A1 & A2 & A3 & A4).
  rewrite E in H. inversion H; subst. repeat split; assumption.
Qed.

(* A linker exists only if every submodel has exactly the first submodel's period labels, position by position — and,
   unless the spans are empty, elements of the same class (integers / Periods / Timestamps) — whatever the containers *)
Theorem ctor_accepts_only_equal_spans id0 b rest sp lg ld :
  linker_ctor_M ((id0, b) :: rest) None = Ret (sp, lg, ld) ->
  forall ic, In ic rest ->
  sp_labels (si_span (snd ic)) = sp_labels (si_span b) /\
  (sp_labels (si_span (snd ic)) = [] \/ elt_class (sp_kind (si_span (snd ic))) = elt_class (sp_kind (si_span b))).
Proof.
  intros H ic Hi. destruct (ctor_accept_inv _ _ _ _ _ _ H) as (_ & Hne & _).
  apply span_elems_eq. apply Hne. exact Hi.
Qed.

(* ======================= solve(start=, end=) ======================= *)
Section LRange.
  Variable num : Type.
  Variables (sub : num -> num -> num) (absf : num -> num) (ltb : num -> num -> bool) (zero : num).
  Variable sev : sid -> hook num.
  Variables (pre ebefore eafter post : lhook num).
  Variable L : Type.
  Variable locate : L -> locres.

  Notation lstate := (lstate num).
  Notation solve_span := (linker_solve_span_M num sub absf ltb zero sev pre ebefore eafter post L locate).
  Notation solve := (linker_solve_M num sub absf ltb zero sev pre ebefore eafter post).
  Notation solve_fold := (solve_fold num sub absf ltb zero sev pre ebefore eafter post).
  Notation ldesc := (fun x y : nat => mkDesc [] [] x y).

  (* the guard comes first and changes nothing *)
  Theorem linker_solve_span_min_gt_max lg ld span start end_ sel o s :
    max_iter o < min_iter o -> solve_span lg ld span start end_ sel o s = (s, inl (LExn ValueError)).
  Proof. intros H. unfold linker_solve_span_M. replace (max_iter o <? min_iter o) with true by lia. reflexivity. Qed.

  (* an empty span: SolutionError from iter_periods, nothing changes *)
  Theorem linker_solve_span_empty lg ld start end_ sel o s :
    min_iter o <= max_iter o -> solve_span lg ld [] start end_ sel o s = (s, inl (LExn (SolutionError None))).
  Proof. intros H. unfold linker_solve_span_M. replace (max_iter o <? min_iter o) with false by lia. reflexivity. Qed.

  (* a start / end label the span does not hold: KeyError before any period is solved, nothing changes (the start is
     settled before the end is looked at — iter_periods since fix 7cd6323) *)
  Theorem linker_solve_span_unknown_start lg ld span x end_ sel o s :
    min_iter o <= max_iter o -> span <> [] -> locate x = LFail ->
    solve_span lg ld span (Some x) end_ sel o s = (s, inl (LExn KeyError)).
  Proof.
    intros H Hne Hx. unfold linker_solve_span_M, iter_periods_M. replace (max_iter o <? min_iter o) with false by lia.
    destruct span as [|y span]; [contradiction|]. cbn [length Nat.eqb]. rewrite Hx. reflexivity.
  Qed.

  Theorem linker_solve_span_unknown_end lg ld span start y sel o s :
    min_iter o <= max_iter o -> span <> [] -> locate y = LFail ->
    match start with None => (lg < length span)%nat | Some x => locate x <> LFail end ->
    solve_span lg ld span start (Some y) sel o s = (s, inl (LExn KeyError)).
  Proof.
    intros H Hne Hy Hst. unfold linker_solve_span_M, iter_periods_M. replace (max_iter o <? min_iter o) with false by lia.
    destruct span as [|z span]; [contradiction|]. cbn [length Nat.eqb lags].
    destruct start as [x|].
    - destruct (locate x) eqn:Ex; [| |contradiction]; cbv zeta; rewrite Hy; reflexivity.
    - replace (S (length span) <=? lg)%nat with false by (symmetry; apply Nat.leb_gt; cbn [length] in Hst; lia).
      cbv zeta. rewrite Hy. reflexivity.
  Qed.

  (* default start when the linker's lags reach the end of the span: IndexError (span[self.lags] does not exist), nothing changes *)
  Theorem linker_solve_span_default_start_outside lg ld span end_ sel o s :
    min_iter o <= max_iter o -> span <> [] -> (length span <= lg)%nat ->
    solve_span lg ld span None end_ sel o s = (s, inl (LExn IndexError)).
  Proof.
    intros H Hne Hl. unfold linker_solve_span_M, iter_periods_M. replace (max_iter o <? min_iter o) with false by lia.
    destruct span as [|z span]; [contradiction|]. cbn [length Nat.eqb lags].
    replace (S (length span) <=? lg)%nat with true by (symmetry; apply Nat.leb_le; cbn [length] in Hl; lia). reflexivity.
  Qed.

  (* solve(start, end) = the guard, then ONE solve_t per position from `start` to `end` inclusive, in span order, each
     on the state the previous one left (Linker.linker_solve_M = the fold, LinkerFacts3.linker_solve_cons); the
     returned triple lists those positions with their labels *)
  Theorem linker_solve_span_eq_fold lg ld span start end_ sel o s a b :
    min_iter o <= max_iter o -> locate_ok L locate span ->
    resolves_start L (ldesc lg ld) span start a -> resolves_end L (ldesc lg ld) span end_ b ->
    solve_span lg ld span start end_ sel o s =
    match solve sel o (positions a b) s with
    | (s', inl e) => (s', inl e)
    | (s', inr bs) => (s', inr ((S b - a)%nat, combine (map (fun tl => (snd tl, fst tl)) (periods L span a b)) bs))
    end.
  Proof.
    intros Hmm Hok Hs He. unfold linker_solve_span_M, Linker.linker_solve_M.
    replace (max_iter o <? min_iter o) with false by lia.
    rewrite (iter_periods_resolved L locate _ span start end_ a b Hok Hs He).
    rewrite periods_fst by (eapply resolves_end_lt; exact He). reflexivity.
  Qed.

  (* ... and every period outside [start, end] keeps its status / iteration entries, on the linker and on every
     submodel, however the run ends *)
  Theorem linker_solve_span_outside_untouched lg ld span start end_ sel o s a b :
    min_iter o <= max_iter o -> locate_ok L locate span ->
    resolves_start L (ldesc lg ld) span start a -> resolves_end L (ldesc lg ld) span end_ b ->
    sfrs num (positions a b) s (fst (solve_span lg ld span start end_ sel o s)).
  Proof.
    intros Hmm Hok Hs He. rewrite (linker_solve_span_eq_fold lg ld span start end_ sel o s a b Hmm Hok Hs He).
    pose proof (solve_other_periods_untouched num sub absf ltb zero sev pre ebefore eafter post sel o (positions a b) s) as H.
    destruct (solve sel o (positions a b) s) as [s' [e|bs]]; exact H.
  Qed.

  Lemma only_in_positions {A} a b (l l' : list A) q :
    only_in (positions a b) l l' -> (q < a \/ b < q)%nat -> nth_error l' q = nth_error l q.
  Proof.
    intros [_ H] Hq. apply H. intros t Ht. apply in_positions in Ht as (i & Hi & ->).
    unfold py_pos. destruct ((Z.of_nat i <? - Z.of_nat (length l)) || (Z.of_nat (length l) <=? Z.of_nat i)); [discriminate|].
    replace (Z.of_nat i <? 0) with false by lia. rewrite Nat2Z.id. intros E. inversion E. lia.
  Qed.

  Corollary linker_solve_span_outside_untouched_core lg ld span start end_ sel o s a b q :
    min_iter o <= max_iter o -> locate_ok L locate span ->
    resolves_start L (ldesc lg ld) span start a -> resolves_end L (ldesc lg ld) span end_ b ->
    (q < a \/ b < q)%nat ->
    let s' := fst (solve_span lg ld span start end_ sel o s) in
    nth_error (status (c_st (l_core s'))) q = nth_error (status (c_st (l_core s))) q /\
    nth_error (iters (c_st (l_core s'))) q = nth_error (iters (c_st (l_core s))) q /\
    Forall2 (fun x y => fst x = fst y /\
                        nth_error (status (c_st (snd y))) q = nth_error (status (c_st (snd x))) q /\
                        nth_error (iters (c_st (snd y))) q = nth_error (iters (c_st (snd x))) q) (l_subs s) (l_subs s').
  Proof.
    intros Hmm Hok Hs He Hq s'.
    destruct (linker_solve_span_outside_untouched lg ld span start end_ sel o s a b Hmm Hok Hs He) as [[C1 C2] F].
    fold s' in C1, C2, F. split; [eapply only_in_positions; eauto|]. split; [eapply only_in_positions; eauto|].
    induction F as [|x y l l' [E [D1 D2]] _ IH]; constructor; [|exact IH].
    split; [exact E|]. split; eapply only_in_positions; eauto.
  Qed.
End LRange.

(* ======================= constructor + default range ======================= *)
(* A linker built over submodels with (non-negative) class-level LAGS / LEADS and solved with the default start / end
   visits exactly the positions from the LONGEST lag to n - 1 - the LONGEST lead; at each of them EVERY submodel has
   its own lags behind it and its own leads ahead of it inside the span. *)
Theorem default_range_fits_every_submodel (subs : list (sid * subinfo)) labels lg ld a b :
  subs <> [] ->
  ctor_lags_leads subs None = Ret (labels, lg, ld) ->
  (forall ic, In ic subs -> 0 <= si_LAGS (snd ic) /\ 0 <= si_LEADS (snd ic)) ->
  resolves_start Z (mkDesc [] [] lg ld) labels None a -> resolves_end Z (mkDesc [] [] lg ld) labels None b ->
  a = lg /\ (b + ld + 1 = length labels)%nat /\
  forall t, In t (positions a b) -> forall ic, In ic subs ->
    si_LAGS (snd ic) <= t /\ t + si_LEADS (snd ic) < Z.of_nat (length labels).
Proof.
  intros Hne Hc Hnn [Ha _] Hb. cbn [lags] in Ha. cbn [resolves_end leads] in Hb.
  split; [exact Ha|]. split; [exact Hb|].
  intros t Ht ic Hi. apply in_positions in Ht as (i & Hir & ->).
  destruct subs as [|[id0 b0] rest]; [contradiction|].
  unfold ctor_lags_leads in Hc. destruct (linker_ctor_M ((id0, b0) :: rest) None) as [[[sp L0] D0]|e] eqn:E; [|discriminate].
  inversion Hc; subst. destruct (ctor_accept_inv _ _ _ _ _ _ E) as (_ & _ & A1 & _ & A3 & _).
  specialize (A1 ic Hi). specialize (A3 ic Hi). destruct (Hnn ic Hi) as [N1 N2]. lia.
Qed.

(* ======================= solve(): failure containment; errors= is only handed down ======================= *)
Section LContain.
  Variable num : Type.
  Variables (sub : num -> num -> num) (absf : num -> num) (ltb : num -> num -> bool) (zero : num).
  Variable sev : sid -> hook num.
  Variables (pre ebefore eafter post : lhook num).

  Notation lstate := (lstate num).
  Notation solve_t := (linker_solve_t_M num sub absf ltb zero sev pre ebefore eafter post).
  Notation solve := (linker_solve_M num sub absf ltb zero sev pre ebefore eafter post).

  (* If the periods ps1 solve (each returning its flag) and the next period t raises — NonConvergenceError under
     failures='raise', KeyError, IndexError, or whatever a hook / submodel raised — then solve() surfaces that exception
     unchanged, the periods after t are never attempted, and the state is the one the periods ps1 left, changed only by
     the aborted call at t: every status / iteration entry of the linker and of EVERY submodel at a position other than
     t's — in particular the stamps of the earlier periods — is exactly what solving ps1 alone leaves. *)
  Theorem linker_solve_failure_containment sel o t ps2 : forall ps1 s s1 bs s2 e,
    min_iter o <= max_iter o ->
    solve sel o ps1 s = (s1, inr bs) ->
    solve_t sel o t s1 = (s2, LRaise e) ->
    solve sel o (ps1 ++ t :: ps2) s = (s2, inl e) /\ sfr num t s1 s2.
  Proof.
    induction ps1 as [|a r IH]; intros s s1 bs s2 e Hmm H1 H2.
    - rewrite (linker_solve_nil num sub absf ltb zero sev pre ebefore eafter post sel o s Hmm) in H1. inversion H1; subst.
      cbn [app]. rewrite (linker_solve_cons num sub absf ltb zero sev pre ebefore eafter post sel o t ps2 s1 Hmm), H2.
      split; [reflexivity|].
      pose proof (solve_t_other_periods_untouched_M num sub absf ltb zero sev pre ebefore eafter post sel o t s1) as F.
      rewrite H2 in F. exact F.
    - rewrite (linker_solve_cons num sub absf ltb zero sev pre ebefore eafter post sel o a r s Hmm) in H1.
      cbn [app]. rewrite (linker_solve_cons num sub absf ltb zero sev pre ebefore eafter post sel o a (r ++ t :: ps2) s Hmm).
      destruct (solve_t sel o a s) as [s' [b|e']]; [|discriminate].
      destruct (solve sel o r s') as [s'' [e'|bs']] eqn:Er; [discriminate|]. inversion H1; subst.
      destruct (IH s' s1 bs' s2 e Hmm Er H2) as [E F]. rewrite E. split; [reflexivity|exact F].
  Qed.

  (* ---- errors= / catch_first_error: the linker itself never looks at them ---- *)
  Definition set_errors (o : opts num) (em : errmode) (cf : bool) : opts num :=
    mkOpts (min_iter o) (max_iter o) (tol o) (offset o) (fail_raise o) em cf.
End LContain.

Section LErrors.
  Variable num : Type.
  Variables (sub : num -> num -> num) (absf : num -> num) (ltb : num -> num -> bool) (zero : num).
  Variable sev : sid -> hook num.
  Variables (pre ebefore eafter post : lhook num).
  (* the submodels' _evaluate and the four hooks do not react to errors= / catch_first_error *)
  Hypothesis Hsev : forall id t em cf em' cf' k v, sev id t em cf k v = sev id t em' cf' k v.
  Hypothesis Hpre : forall t ids em cf em' cf' k jv, pre t ids em cf k jv = pre t ids em' cf' k jv.
  Hypothesis Hbef : forall t ids em cf em' cf' k jv, ebefore t ids em cf k jv = ebefore t ids em' cf' k jv.
  Hypothesis Haft : forall t ids em cf em' cf' k jv, eafter t ids em cf k jv = eafter t ids em' cf' k jv.
  Hypothesis Hpost : forall t ids em cf em' cf' k jv, post t ids em cf k jv = post t ids em' cf' k jv.

  Notation run_hook := (run_hook num).
  Notation eval_subs := (eval_subs num sev).
  Notation iter_step := (iter_step num sev ebefore eafter).
  Notation lloop := (lloop num sub absf ltb zero sev ebefore eafter post).
  Notation solve_t := (linker_solve_t_M num sub absf ltb zero sev pre ebefore eafter post).
  Notation set_errors := (set_errors num).

  Lemma run_hook_set_errors (h : lhook num) ids o em cf t k e s :
    (forall t ids em cf em' cf' k jv, h t ids em cf k jv = h t ids em' cf' k jv) ->
    run_hook h ids (set_errors o em cf) t k e s = run_hook h ids o t k e s.
  Proof. intros Hh. unfold Linker.run_hook. cbn [errors catch_first set_errors]. rewrite (Hh t ids em cf (errors o) (catch_first o)). reflexivity. Qed.

  Lemma eval_subs_set_errors o em cf t k : forall ids s, eval_subs (set_errors o em cf) t k ids s = eval_subs o t k ids s.
  Proof.
    induction ids as [|a r IH]; intros s; cbn [Linker.eval_subs]; [reflexivity|].
    destruct (find_sub num a (l_subs s)) as [c|]; [|reflexivity].
    cbn [errors catch_first set_errors]. rewrite (Hsev a t em cf (errors o) (catch_first o)).
    destruct (sev a t (errors o) (catch_first o) k (vals_of (c_st c))) as [v' [e|]]; [reflexivity|].
    destruct (bump_iter num (with_cvals num c v') t); [apply IH|reflexivity].
  Qed.

  Lemma iter_step_set_errors ids o em cf t k s : iter_step ids (set_errors o em cf) t k s = iter_step ids o t k s.
  Proof.
    unfold Linker.iter_step. rewrite (run_hook_set_errors ebefore) by exact Hbef.
    destruct (run_hook ebefore ids o t k (LBefore t k) s) as [s1 [e|]]; [reflexivity|].
    rewrite eval_subs_set_errors. destruct (eval_subs o t k ids s1) as [s2 [e|]]; [reflexivity|].
    apply run_hook_set_errors. exact Haft.
  Qed.

  Lemma lloop_set_errors ids o em cf t : forall n k s cur, lloop ids (set_errors o em cf) t n k s cur = lloop ids o t n k s cur.
  Proof.
    induction n as [|n IH]; intros k s cur; cbn [Linker.lloop]; [reflexivity|].
    rewrite iter_step_set_errors. destruct (iter_step ids o t k s) as [s1 [e|]]; [reflexivity|].
    destruct (get_check_values num zero ids t s1) as [cur'|e]; [|reflexivity].
    change (min_iter (set_errors o em cf)) with (min_iter o). change (tol (set_errors o em cf)) with (tol o).
    rewrite (run_hook_set_errors post) by exact Hpost. rewrite !IH. reflexivity.
  Qed.

  (* errors= and catch_first_error reach a solve_t call ONLY as arguments handed down to the hooks and to each selected
     submodel's _evaluate: if those do not react to them, every policy ('raise', 'skip', 'ignore', 'replace', anything)
     and either flag give the same run — same values, same statuses ('.' / 'F' only), same counts, same outcome.
     Non-finite check values are simply compared: there is no 'E' / 'S' stamping and no replacement by the linker. *)
  Lemma body_errors_only_handed_down sel o em cf t s :
    linker_solve_t_body num sub absf ltb zero sev pre ebefore eafter post sel (set_errors o em cf) t s
    = linker_solve_t_body num sub absf ltb zero sev pre ebefore eafter post sel o t s.
  Proof.
    unfold Linker.linker_solve_t_body. destruct (get_check_values num zero (sel_ids num sel s) t s) as [cur|e]; [|reflexivity].
    destruct (zero_iters num (sel_ids num sel s) t (l_subs s)) as [subs1 [e|]]; [reflexivity|].
    rewrite (run_hook_set_errors pre) by exact Hpre. destruct (run_hook pre _ o t 0%nat (LPre t) _) as [s1 [e|]]; [reflexivity|].
    change (max_iter (set_errors o em cf)) with (max_iter o). rewrite lloop_set_errors.
    destruct (lloop _ o t _ 1%nat s1 cur) as [s2 st k|s2 e]; reflexivity.
  Qed.
  Theorem linker_errors_only_handed_down sel o em cf t s : solve_t sel (set_errors o em cf) t s = solve_t sel o t s.
  Proof.
    unfold Linker.linker_solve_t_M. change (max_iter (set_errors o em cf)) with (max_iter o).
    change (min_iter (set_errors o em cf)) with (min_iter o).
    change (linker_seed num zero (sel_ids num sel s) (set_errors o em cf) t s) with (linker_seed num zero (sel_ids num sel s) o t s).
    destruct (max_iter o <? min_iter o); [reflexivity|]. destruct (linker_infeasible _ _ t); [reflexivity|].
    destruct (linker_seed num zero (sel_ids num sel s) o t s) as [s0 [e|]]; [reflexivity|apply body_errors_only_handed_down].
  Qed.
End LErrors.
