(* LinkerFacts5.v — solve(start=, end=) over label ranges (LinkerRange.linker_solve_span_M), tied to the constructor:
   the default range runs from the longest lag to the last period that leaves room for the longest lead, so every
   visited period has enough lags and leads for EVERY submodel; label errors change nothing; periods outside the
   range are left alone; acceptance by the constructor implies equal spans. *)
From Coq Require Import ZArith List Bool Lia Arith.
Import ListNotations.
Require Import PyBase Solver SolverFacts SolveAll SolveAllFacts Linker LinkerFacts LinkerFacts2 LinkerFacts3 LinkerFacts4 LinkerRange.
Open Scope Z_scope.

(* positions a .. b inclusive, in order ([] when b < a) *)
Definition positions (a b : nat) : list Z := map Z.of_nat (seq a (S b - a)).

Lemma in_positions a b t : In t (positions a b) <-> exists i, (a <= i <= b)%nat /\ t = Z.of_nat i.
Proof.
  unfold positions. rewrite in_map_iff. split.
  - intros (i & E & Hi). apply in_seq in Hi. exists i. split; [lia|congruence].
  - intros (i & Hi & E). exists i. split; [congruence|]. apply in_seq. lia.
Qed.

Lemma map_fst_combine {A B} : forall (l1 : list A) (l2 : list B), (length l1 <= length l2)%nat -> map fst (combine l1 l2) = l1.
Proof.
  induction l1 as [|x l1 IH]; intros [|y l2] H; cbn [combine map fst length] in *; try reflexivity; [lia|].
  rewrite IH by lia. reflexivity.
Qed.

Lemma periods_fst {L} (span : list L) a b : (b < length span)%nat -> map fst (periods L span a b) = positions a b.
Proof.
  intros Hb. unfold periods, positions. apply map_fst_combine.
  rewrite map_length, seq_length, firstn_length, skipn_length. lia.
Qed.

(* ---------------- the constructor, read backwards: acceptance implies equal spans and maximal lags / leads ---------------- *)
Lemma ctor_loop_ret_inv base : forall rest lg ld x,
  ctor_loop base rest lg ld = Ret x -> forall ic, In ic rest -> span_ne (si_span (snd ic)) base = Ret false.
Proof.
  induction rest as [|[i c] r IH]; intros lg ld x H ic Hi; [destruct Hi|]. cbn [ctor_loop] in H.
  destruct (span_ne (si_span c) base) as [[|]|e] eqn:E; try discriminate.
  destruct Hi as [<-|Hi]; [exact E|]. eapply IH; eauto.
Qed.

Theorem ctor_accept_inv id0 b rest sp lg ld :
  linker_ctor_M ((id0, b) :: rest) None = Ret (sp, lg, ld) ->
  sp = si_span b /\
  (forall ic, In ic rest -> span_ne (si_span (snd ic)) (si_span b) = Ret false) /\
  (forall ic, In ic ((id0, b) :: rest) -> si_LAGS (snd ic) <= lg) /\
  (exists ic, In ic ((id0, b) :: rest) /\ si_LAGS (snd ic) = lg) /\
  (forall ic, In ic ((id0, b) :: rest) -> si_LEADS (snd ic) <= ld) /\
  (exists ic, In ic ((id0, b) :: rest) /\ si_LEADS (snd ic) = ld).
Proof.
  intros H.
  assert (Hne : forall ic, In ic rest -> span_ne (si_span (snd ic)) (si_span b) = Ret false).
  { cbn [linker_ctor_M] in H. destruct (ctor_loop (si_span b) rest (si_LAGS b) (si_LEADS b)) as [x|e] eqn:E; [|discriminate].
    eapply ctor_loop_ret_inv; eauto. }
  destruct (lags_leads_are_maxima id0 b rest Hne) as (L0 & D0 & E & A1 & A2 & A3 & A4).
  rewrite E in H. inversion H; subst. repeat split; assumption.
Qed.

(* A linker over list / range spans exists only if every submodel has exactly the first submodel's period labels *)
Theorem ctor_accepts_only_equal_spans id0 b rest sp lg ld :
  linker_ctor_M ((id0, b) :: rest) None = Ret (sp, lg, ld) ->
  forall ic, In ic rest -> sp_kind (si_span (snd ic)) <> SArray -> sp_kind (si_span b) <> SArray ->
  sp_labels (si_span (snd ic)) = sp_labels (si_span b).
Proof.
  intros H ic Hi Hk Hkb. destruct (ctor_accept_inv _ _ _ _ _ _ H) as (_ & Hne & _).
  specialize (Hne ic Hi). unfold span_ne in Hne.
  destruct (sp_kind (si_span (snd ic))) eqn:Ka, (sp_kind (si_span b)) eqn:Kb; try congruence; try discriminate;
    inversion Hne as [E]; apply negb_false_iff in E; apply zlist_eqb_eq in E; exact E.
Qed.

(* ======================= solve(start=, end=) ======================= *)
Section LRange.
  Variable num : Type.
  Variables (sub : num -> num -> num) (absf : num -> num) (ltb : num -> num -> bool) (zero : num).
  Variable sev : sid -> hook num.
  Variables (pre ebefore eafter post : lhook num).
  Variable L : Type.
  Variable locate : L -> locres.

  Notation lstate := (lstate num).
  Notation solve_span := (linker_solve_span_M num sub absf ltb zero sev pre ebefore eafter post L locate).
  Notation solve := (linker_solve_M num sub absf ltb zero sev pre ebefore eafter post).
  Notation solve_fold := (solve_fold num sub absf ltb zero sev pre ebefore eafter post).
  Notation ldesc := (fun x y : nat => mkDesc [] [] x y).

  (* the guard comes first and changes nothing *)
  Theorem linker_solve_span_min_gt_max lg ld span start end_ sel o s :
    max_iter o < min_iter o -> solve_span lg ld span start end_ sel o s = (s, inl (LExn ValueError)).
  Proof. intros H. unfold linker_solve_span_M. replace (max_iter o <? min_iter o) with true by lia. reflexivity. Qed.

  (* an empty span: SolutionError from iter_periods, nothing changes *)
  Theorem linker_solve_span_empty lg ld start end_ sel o s :
    min_iter o <= max_iter o -> solve_span lg ld [] start end_ sel o s = (s, inl (LExn (SolutionError None))).
  Proof. intros H. unfold linker_solve_span_M. replace (max_iter o <? min_iter o) with false by lia. reflexivity. Qed.

  (* a start / end label the span does not hold: KeyError before any period is solved, nothing changes *)
  Theorem linker_solve_span_unknown_start lg ld span x end_ sel o s :
    min_iter o <= max_iter o -> span <> [] -> locate x = LFail ->
    (end_ <> None \/ (ld < length span)%nat) ->
    solve_span lg ld span (Some x) end_ sel o s = (s, inl (LExn KeyError)).
  Proof.
    intros H Hne Hx He. unfold linker_solve_span_M, iter_periods_M. replace (max_iter o <? min_iter o) with false by lia.
    destruct span as [|y span]; [contradiction|]. cbn [length Nat.eqb].
    assert (Hen : exists en, match end_ with Some z => Some z | None => py_get (y :: span) (-1 - Z.of_nat (leads (ldesc lg ld))) end = Some en).
    { destruct end_ as [z|]; [eauto|]. destruct He as [He|He]; [contradiction|]. cbn [leads].
      unfold py_get. rewrite py_pos_neg by (cbn [length] in *; lia).
      destruct (nth_error (y :: span) (Z.to_nat (-1 - Z.of_nat ld + Z.of_nat (length (y :: span))))) eqn:E; [eauto|].
      apply nth_error_None in E. cbn [length] in *. lia. }
    destruct Hen as [en Hen]. rewrite Hen, Hx. reflexivity.
  Qed.

  Theorem linker_solve_span_unknown_end lg ld span start y sel o s st :
    min_iter o <= max_iter o -> span <> [] -> locate y = LFail ->
    match start with Some x => Some x | None => py_get span (Z.of_nat lg) end = Some st ->
    solve_span lg ld span start (Some y) sel o s = (s, inl (LExn KeyError)).
  Proof.
    intros H Hne Hy Hst. unfold linker_solve_span_M, iter_periods_M. replace (max_iter o <? min_iter o) with false by lia.
    destruct span as [|z span]; [contradiction|]. cbn [length Nat.eqb lags]. rewrite Hst, Hy.
    destruct (locate st); reflexivity.
  Qed.

  (* solve(start, end) = the guard, then ONE solve_t per position from `start` to `end` inclusive, in span order, each
     on the state the previous one left (Linker.linker_solve_M = the fold, LinkerFacts3.linker_solve_cons); the
     returned triple lists those positions with their labels *)
  Theorem linker_solve_span_eq_fold lg ld span start end_ sel o s a b :
    min_iter o <= max_iter o -> locate_ok L locate span ->
    resolves_start L (ldesc lg ld) span start a -> resolves_end L (ldesc lg ld) span end_ b ->
    solve_span lg ld span start end_ sel o s =
    match solve sel o (positions a b) s with
    | (s', inl e) => (s', inl e)
    | (s', inr bs) => (s', inr ((S b - a)%nat, combine (map (fun tl => (snd tl, fst tl)) (periods L span a b)) bs))
    end.
  Proof.
    intros Hmm Hok Hs He. unfold linker_solve_span_M, Linker.linker_solve_M.
    replace (max_iter o <? min_iter o) with false by lia.
    rewrite (iter_periods_resolved L locate _ span start end_ a b Hok Hs He).
    rewrite periods_fst by (eapply resolves_end_lt; exact He). reflexivity.
  Qed.

  (* ... and every period outside [start, end] keeps its status / iteration entries, on the linker and on every
     submodel, however the run ends *)
  Theorem linker_solve_span_outside_untouched lg ld span start end_ sel o s a b :
    min_iter o <= max_iter o -> locate_ok L locate span ->
    resolves_start L (ldesc lg ld) span start a -> resolves_end L (ldesc lg ld) span end_ b ->
    sfrs num (positions a b) s (fst (solve_span lg ld span start end_ sel o s)).
  Proof.
    intros Hmm Hok Hs He. rewrite (linker_solve_span_eq_fold lg ld span start end_ sel o s a b Hmm Hok Hs He).
    pose proof (solve_other_periods_untouched num sub absf ltb zero sev pre ebefore eafter post sel o (positions a b) s) as H.
    destruct (solve sel o (positions a b) s) as [s' [e|bs]]; exact H.
  Qed.

  Lemma only_in_positions {A} a b (l l' : list A) q :
    only_in (positions a b) l l' -> (q < a \/ b < q)%nat -> nth_error l' q = nth_error l q.
  Proof.
    intros [_ H] Hq. apply H. intros t Ht. apply in_positions in Ht as (i & Hi & ->).
    unfold py_pos. destruct ((Z.of_nat i <? - Z.of_nat (length l)) || (Z.of_nat (length l) <=? Z.of_nat i)); [discriminate|].
    replace (Z.of_nat i <? 0) with false by lia. rewrite Nat2Z.id. intros E. inversion E. lia.
  Qed.

  Corollary linker_solve_span_outside_untouched_core lg ld span start end_ sel o s a b q :
    min_iter o <= max_iter o -> locate_ok L locate span ->
    resolves_start L (ldesc lg ld) span start a -> resolves_end L (ldesc lg ld) span end_ b ->
    (q < a \/ b < q)%nat ->
    let s' := fst (solve_span lg ld span start end_ sel o s) in
    nth_error (status (c_st (l_core s'))) q = nth_error (status (c_st (l_core s))) q /\
    nth_error (iters (c_st (l_core s'))) q = nth_error (iters (c_st (l_core s))) q /\
    Forall2 (fun x y => fst x = fst y /\
                        nth_error (status (c_st (snd y))) q = nth_error (status (c_st (snd x))) q /\
                        nth_error (iters (c_st (snd y))) q = nth_error (iters (c_st (snd x))) q) (l_subs s) (l_subs s').
  Proof.
    intros Hmm Hok Hs He Hq s'.
    destruct (linker_solve_span_outside_untouched lg ld span start end_ sel o s a b Hmm Hok Hs He) as [[C1 C2] F].
    fold s' in C1, C2, F. split; [eapply only_in_positions; eauto|]. split; [eapply only_in_positions; eauto|].
    induction F as [|x y l l' [E [D1 D2]] _ IH]; constructor; [|exact IH].
    split; [exact E|]. split; eapply only_in_positions; eauto.
  Qed.
End LRange.

(* ======================= constructor + default range ======================= *)
(* A linker built over submodels with (non-negative) class-level LAGS / LEADS and solved with the default start / end
   visits exactly the positions from the LONGEST lag to n - 1 - the LONGEST lead; at each of them EVERY submodel has
   its own lags behind it and its own leads ahead of it inside the span. *)
Theorem default_range_fits_every_submodel (subs : list (sid * subinfo)) labels lg ld a b :
  subs <> [] ->
  ctor_lags_leads subs None = Ret (labels, lg, ld) ->
  (forall ic, In ic subs -> 0 <= si_LAGS (snd ic) /\ 0 <= si_LEADS (snd ic)) ->
  resolves_start Z (mkDesc [] [] lg ld) labels None a -> resolves_end Z (mkDesc [] [] lg ld) labels None b ->
  a = lg /\ (b + ld + 1 = length labels)%nat /\
  forall t, In t (positions a b) -> forall ic, In ic subs ->
    si_LAGS (snd ic) <= t /\ t + si_LEADS (snd ic) < Z.of_nat (length labels).
Proof.
  intros Hne Hc Hnn [Ha _] Hb. cbn [lags] in Ha. cbn [resolves_end leads] in Hb.
  split; [exact Ha|]. split; [exact Hb|].
  intros t Ht ic Hi. apply in_positions in Ht as (i & Hir & ->).
  destruct subs as [|[id0 b0] rest]; [contradiction|].
  unfold ctor_lags_leads in Hc. destruct (linker_ctor_M ((id0, b0) :: rest) None) as [[[sp L0] D0]|e] eqn:E; [|discriminate].
  inversion Hc; subst. destruct (ctor_accept_inv _ _ _ _ _ _ E) as (_ & _ & A1 & _ & A3 & _).
  specialize (A1 ic Hi). specialize (A3 ic Hi). destruct (Hnn ic Hi) as [N1 N2]. lia.
Qed.
