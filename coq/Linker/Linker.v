(* Linker.v — executable model of BaseLinker.__init__ / solve_t / evaluate_t / solve
   (fsic/core/linkers.py:36-129, 224-346, 424-529, 579-595).  Definitions only.
   Generic in the number type: no fact of arithmetic is used by any theorem about this file.
   Like BaseModel.solve_t the linker rejects min_iter > max_iter (fix 97423a0) and a period without room for its
   lags / leads (fix a0fbb5c) and honours `offset` (fix 6298cba); unlike it, it has no error policy (non-finite values
   are simply compared) and wraps no exception: all of that is mirrored here as it stands. *)
From Coq Require Import ZArith List Bool.
Import ListNotations.
Require Import PyBase Solver.
Open Scope Z_scope.

Definition sid := nat.                       (* submodel identifiers (dictionary keys) *)
(* the identifier '_': get_check_values files the LINKER's own check values under the key '_' in the same dictionary as the
   submodels' (keyed by their ids), so a selected submodel whose id is '_' overwrites the linker's entry (kept finding
   convergence|submodel-id-underscore-shadows-linker; fix f5ef8bd only refuses an id equal to the linker's NAME) *)
Definition us_id : sid := 4001%nat.

Inductive levent : Type :=
| LPre (t : Z)                               (* linker.solve_t_before *)
| LBefore (t : Z) (k : nat)                  (* linker.evaluate_t_before, iteration k *)
| LSub (id : sid) (t : Z) (k : nat)          (* submodels[id]._evaluate, iteration k *)
| LAfter (t : Z) (k : nat)                   (* linker.evaluate_t_after *)
| LPost (t : Z) (k : nat).                   (* linker.solve_t_after *)

(* what a linker call can raise: a class the linker code raises itself (or NumPy indexing does), or
   whatever a user hook / a submodel's _evaluate raised — the linker wraps nothing *)
Inductive lexn : Type := LExn (e : exn) | LUser (c : Z).
Inductive lout : Type := LRet (b : bool) | LRaise (e : lexn).

Section Linker.
  Variable num : Type.
  Variables (sub : num -> num -> num) (absf : num -> num) (ltb : num -> num -> bool) (zero : num).

  Notation vals := (vals num).
  Notation mstate := (mstate num).
  Notation opts := (opts num).

  (* one container: the linker's own core, or a submodel *)
  Record comp := mkComp { c_desc : mdesc; c_st : mstate }.
  Record lstate := mkL { l_core : comp; l_subs : list (sid * comp);   (* insertion order of the dict *)
                         l_log : list levent }.

  (* the values a linker hook can see and write: the core's and every submodel's, in insertion order *)
  Definition jvals := (vals * list vals)%type.
  (* hook: t, submodels=, errors, catch_first_error, iteration, values -> new values, tag of a raised exception *)
  Definition lhook := Z -> list sid -> errmode -> bool -> nat -> jvals -> jvals * option Z.

  Variable sev : sid -> hook num.                 (* submodels[id]._evaluate *)
  Variables (pre ebefore eafter post : lhook).    (* solve_t_before, evaluate_t_before, evaluate_t_after, solve_t_after *)

  (* ---- dictionary access ---- *)
  Fixpoint find_sub (id : sid) (l : list (sid * comp)) : option comp :=
    match l with [] => None | (i, c) :: r => if Nat.eqb id i then Some c else find_sub id r end.
  Fixpoint put_sub (id : sid) (c' : comp) (l : list (sid * comp)) : list (sid * comp) :=
    match l with [] => [] | (i, c) :: r => if Nat.eqb id i then (i, c') :: r else (i, c) :: put_sub id c' r end.
  Definition selected (ids : list sid) (id : sid) : bool := existsb (Nat.eqb id) ids.   (* `k in submodels` *)

  (* ---- component updates ---- *)
  Definition with_cvals (c : comp) (v : vals) : comp :=
    mkComp (c_desc c) (mkState v (status (c_st c)) (iters (c_st c)) (log (c_st c))).
  Definition set_iter (c : comp) (t : Z) (x : Z) : option comp :=           (* c.iterations[t] = x *)
    match py_set (iters (c_st c)) t x with
    | Some l => Some (mkComp (c_desc c) (mkState (vals_of (c_st c)) (status (c_st c)) l (log (c_st c))))
    | None => None end.
  Definition bump_iter (c : comp) (t : Z) : option comp :=                  (* c.iterations[t] += 1 *)
    match py_get (iters (c_st c)) t with Some x => set_iter c t (x + 1) | None => None end.
  Definition set_status (c : comp) (t : Z) (x : st) : option comp :=        (* c.status[t] = x *)
    match py_set (status (c_st c)) t x with
    | Some l => Some (mkComp (c_desc c) (mkState (vals_of (c_st c)) l (iters (c_st c)) (log (c_st c))))
    | None => None end.

  (* ---- get_check_values(): '_' first, then every submodel in insertion order whose key is `in submodels` ---- *)
  Definition comp_check (c : comp) (t : Z) : list num + exn :=
    match check (c_desc c) with
    | [] => inl []
    | _ => match py_pos (length (status (c_st c))) t with
           | Some p => inl (get_check num zero (c_desc c) (vals_of (c_st c)) p)
           | None => inr IndexError          (* NumPy: index out of bounds *)
           end
    end.
  Fixpoint subs_check (ids : list sid) (t : Z) (l : list (sid * comp)) : list (list num) + exn :=
    match l with
    | [] => inl []
    | (id, c) :: r =>
        if selected ids id then
          match comp_check c t with
          | inr e => inr e
          | inl x => match subs_check ids t r with inr e => inr e | inl xs => inl (x :: xs) end
          end
        else subs_check ids t r
    end.
  (* a selected submodel is keyed '_': its entry replaces the linker's own in the dictionary of check values *)
  Definition us_shadow (ids : list sid) (s : lstate) : bool :=
    selected ids us_id && existsb (fun ic => Nat.eqb (fst ic) us_id) (l_subs s).
  (* (the dictionary keeps the '_' key in first place; the order of the vectors is immaterial to conv_all as long as the
     current and the previous values are listed alike, so the submodels' vectors are left in insertion order here) *)
  Definition get_check_values (ids : list sid) (t : Z) (s : lstate) : list (list num) + exn :=
    match comp_check (l_core s) t with
    | inr e => inr e
    | inl x => match subs_check ids t (l_subs s) with
               | inr e => inr e
               | inl xs => inl (if us_shadow ids s then xs else x :: xs)
               end
    end.

  (* all(np.all(np.abs(current[k] - previous[k]) < tol) for k in current) *)
  Fixpoint conv_all (tl : num) (cur prev : list (list num)) : bool :=
    match cur, prev with
    | c :: cs, p :: ps => conv num sub absf ltb tl c p && conv_all tl cs ps
    | _, _ => true
    end.

  (* ---- for name in submodels: submodel = self.submodels[name] (KeyError); submodel.iterations[t] = 0 ---- *)
  Fixpoint zero_iters (ids : list sid) (t : Z) (subs : list (sid * comp)) : list (sid * comp) * option exn :=
    match ids with
    | [] => (subs, None)
    | id :: r =>
        match find_sub id subs with
        | None => (subs, Some KeyError)                (* earlier ids have already been zeroed *)
        | Some c => match set_iter c t 0 with
                    | None => (subs, Some IndexError)
                    | Some c' => zero_iters r t (put_sub id c' subs)
                    end
        end
    end.

  (* ---- hooks ---- *)
  Definition jv_of (s : lstate) : jvals :=
    (vals_of (c_st (l_core s)), map (fun ic => vals_of (c_st (snd ic))) (l_subs s)).
  Fixpoint put_sub_vals (subs : list (sid * comp)) (vs : list vals) : list (sid * comp) :=
    match subs, vs with
    | (id, c) :: r, v :: vr => (id, with_cvals c v) :: put_sub_vals r vr
    | _, _ => subs
    end.
  Definition put_jv (s : lstate) (jv : jvals) (lg : list levent) : lstate :=
    mkL (with_cvals (l_core s) (fst jv)) (put_sub_vals (l_subs s) (snd jv)) lg.
  Definition run_hook (h : lhook) (ids : list sid) (o : opts) (t : Z) (k : nat) (e : levent) (s : lstate)
    : lstate * option lexn :=
    match h t ids (errors o) (catch_first o) k (jv_of s) with
    | (jv, r) => (put_jv s jv (l_log s ++ [e]), match r with Some c => Some (LUser c) | None => None end)
    end.

  (* ---- evaluate_t: one _evaluate per listed id, in list order, then iterations[t] += 1 ---- *)
  Fixpoint eval_subs (o : opts) (t : Z) (k : nat) (ids : list sid) (s : lstate) : lstate * option lexn :=
    match ids with
    | [] => (s, None)
    | id :: r =>
        match find_sub id (l_subs s) with
        | None => (s, Some (LExn KeyError))
        | Some c =>
            let lg := l_log s ++ [LSub id t k] in
            match sev id t (errors o) (catch_first o) k (vals_of (c_st c)) with
            | (v', Some e) => (mkL (l_core s) (put_sub id (with_cvals c v') (l_subs s)) lg, Some (LUser e))
            | (v', None) =>
                let c1 := with_cvals c v' in
                match bump_iter c1 t with
                | None => (mkL (l_core s) (put_sub id c1 (l_subs s)) lg, Some (LExn IndexError))
                | Some c2 => eval_subs o t k r (mkL (l_core s) (put_sub id c2 (l_subs s)) lg)
                end
            end
        end
    end.

  (* one linker iteration: evaluate_t_before, evaluate_t, evaluate_t_after *)
  Definition iter_step (ids : list sid) (o : opts) (t : Z) (k : nat) (s : lstate) : lstate * option lexn :=
    match run_hook ebefore ids o t k (LBefore t k) s with
    | (s1, Some e) => (s1, Some e)
    | (s1, None) =>
        match eval_subs o t k ids s1 with
        | (s2, Some e) => (s2, Some e)
        | (s2, None) => run_hook eafter ids o t k (LAfter t k) s2
        end
    end.

  Inductive llres : Type :=
  | LLDone (s : lstate) (x : st) (k : nat)
  | LLRaise (s : lstate) (e : lexn).

  (* for iteration in range(k, k + n): ... else: FAILED.   n = iterations left *)
  Fixpoint lloop (ids : list sid) (o : opts) (t : Z) (n k : nat) (s : lstate) (cur : list (list num)) : llres :=
    match n with
    | O => LLDone s Failed (k - 1)
    | S n' =>
        let prev := cur in
        match iter_step ids o t k s with
        | (s1, Some e) => LLRaise s1 e
        | (s1, None) =>
            match get_check_values ids t s1 with
            | inr e => LLRaise s1 (LExn e)
            | inl cur' =>
                if Z.of_nat k <? min_iter o then lloop ids o t n' (S k) s1 cur'
                else if conv_all (tol o) cur' prev then
                  match run_hook post ids o t k (LPost t k) s1 with
                  | (s2, Some e) => LLRaise s2 e
                  | (s2, None) => LLDone s2 Solved k
                  end
                else lloop ids o t n' (S k) s1 cur'
            end
        end
    end.

  (* for name in submodels: self.submodels[name].status[t] = status *)
  Fixpoint stamp_subs (ids : list sid) (t : Z) (x : st) (subs : list (sid * comp)) : list (sid * comp) * option exn :=
    match ids with
    | [] => (subs, None)
    | id :: r =>
        match find_sub id subs with
        | None => (subs, Some KeyError)
        | Some c => match set_status c t x with
                    | None => (subs, Some IndexError)
                    | Some c' => stamp_subs r t x (put_sub id c' subs)
                    end
        end
    end.

  (* self.status[t] = status; self.iterations[t] = iteration; stamp the submodels; NonConvergenceError; return *)
  Definition lfinish (o : opts) (ids : list sid) (t : Z) (r : llres) : lstate * lout :=
    match r with
    | LLRaise s e => (s, LRaise e)
    | LLDone s x k =>
        match set_status (l_core s) t x with
        | None => (s, LRaise (LExn IndexError))
        | Some c1 =>
            match set_iter c1 t (Z.of_nat k) with
            | None => (mkL c1 (l_subs s) (l_log s), LRaise (LExn IndexError))
            | Some c2 =>
                match stamp_subs ids t x (l_subs s) with
                | (subs', Some e) => (mkL c2 subs' (l_log s), LRaise (LExn e))
                | (subs', None) =>
                    let s' := mkL c2 subs' (l_log s) in
                    if st_eqb x Failed && fail_raise o then (s', LRaise (LExn NonConvergenceError))
                    else (s', LRet (st_eqb x Solved))
                end
            end
        end
    end.

  Definition sel_ids (sel : option (list sid)) (s : lstate) : list sid :=
    match sel with None => map fst (l_subs s) | Some l => l end.     (* default: every key, insertion order *)

  (* BaseLinker.solve_t after its two guards and after the offset seeding (this part never reads `offset o`). *)
  Definition linker_solve_t_body (sel : option (list sid)) (o : opts) (t : Z) (s : lstate) : lstate * lout :=
    let ids := sel_ids sel s in
    match get_check_values ids t s with              (* current_values, taken before zeroing and the pre-hook *)
    | inr e => (s, LRaise (LExn e))
    | inl cur =>
        match zero_iters ids t (l_subs s) with
        | (subs1, Some e) => (mkL (l_core s) subs1 (l_log s), LRaise (LExn e))
        | (subs1, None) =>
            match run_hook pre ids o t 0%nat (LPre t) (mkL (l_core s) subs1 (l_log s)) with
            | (s1, Some e) => (s1, LRaise e)
            | (s1, None) => lfinish o ids t (lloop ids o t (Z.to_nat (max_iter o)) 1%nat s1 cur)
            end
        end
    end.

  (* the feasibility guard (fix a0fbb5c): t_check = t (+ len(span) if negative);
       0 <= t_check < self.lags  or  len(span) - self.leads <= t_check < len(span)  ->  IndexError.
     self.lags / self.leads are the linker's INSTANCE attributes (set by __init__ to the longest LAGS / LEADS of the
     submodels): the lags / leads fields of the core's descriptor; len(self.span) = the length of the core's series.
     A t outside the span passes this test (and fails later, reading the check values). *)
  Definition linker_infeasible (d : mdesc) (n : nat) (t : Z) : bool :=
    let tc := if t <? 0 then t + Z.of_nat n else t in
    ((0 <=? tc) && (tc <? Z.of_nat (lags d))) || ((Z.of_nat n - Z.of_nat (leads d) <=? tc) && (tc <? Z.of_nat n)).

  (* ---- offset (fix 6298cba): `if offset:` — t_check + offset outside the span -> IndexError; every listed id must be a
     submodel (KeyError) before anything is written; then the endogenous rows of the linker's own core, and of every listed
     submodel in the order listed, take their period-t value from period t + offset.  All containers share the core's span
     length (the constructor enforces equal spans).  A t outside the span that got past the feasibility guard fails at the
     first write (IndexError) — if there is any endogenous row to write. ---- *)
  Definition seed_comp (c : comp) (p q : nat) : comp := with_cvals c (copy_endo num zero (c_desc c) (vals_of (c_st c)) p q).
  Fixpoint seed_subs (ids : list sid) (p q : nat) (subs : list (sid * comp)) : list (sid * comp) :=
    match ids with
    | [] => subs
    | id :: r => match find_sub id subs with
                 | Some c => seed_subs r p q (put_sub id (seed_comp c p q) subs)
                 | None => seed_subs r p q subs
                 end
    end.
  Definition seeded (ids : list sid) (p q : nat) (s : lstate) : lstate :=
    mkL (seed_comp (l_core s) p q) (seed_subs ids p q (l_subs s)) (l_log s).
  Definition has_endo (ids : list sid) (s : lstate) : bool :=
    negb (match endo (c_desc (l_core s)) with [] => true | _ => false end) ||
    existsb (fun id => match find_sub id (l_subs s) with
                       | Some c => negb (match endo (c_desc c) with [] => true | _ => false end)
                       | None => false end) ids.
  Definition linker_seed (ids : list sid) (o : opts) (t : Z) (s : lstate) : lstate * option exn :=
    if offset o =? 0 then (s, None) else
    let n := length (status (c_st (l_core s))) in
    let tc := if t <? 0 then t + Z.of_nat n else t in
    let qz := tc + offset o in
    if (qz <? 0) || (Z.of_nat n <=? qz) then (s, Some IndexError) else
    if existsb (fun id => match find_sub id (l_subs s) with None => true | Some _ => false end) ids then (s, Some KeyError) else
    match py_pos n t with
    | None => if has_endo ids s then (s, Some IndexError) else (s, None)
    | Some p => (seeded ids p (Z.to_nat qz) s, None)
    end.

  (* BaseLinker.solve_t: min_iter > max_iter -> ValueError (fix 97423a0), then the feasibility guard -> IndexError
     (fix a0fbb5c) — both before the selection is looked at and before anything is written — then the offset seeding
     (fix 6298cba), then the body on the seeded state *)
  Definition linker_solve_t_M (sel : option (list sid)) (o : opts) (t : Z) (s : lstate) : lstate * lout :=
    if max_iter o <? min_iter o then (s, LRaise (LExn ValueError))
    else if linker_infeasible (c_desc (l_core s)) (length (status (c_st (l_core s)))) t then (s, LRaise (LExn IndexError))
    else match linker_seed (sel_ids sel s) o t s with
         | (_, Some e) => (s, LRaise (LExn e))
         | (s0, None) => linker_solve_t_body sel o t s0
         end.

  (* BaseLinker.solve over the positions delivered by iter_periods (computed before the first solve):
     the only min_iter>max_iter guard of the linker lives here *)
  Fixpoint solve_fold (sel : option (list sid)) (o : opts) (ps : list Z) (s : lstate) (acc : list bool)
    : lstate * (lexn + list bool) :=
    match ps with
    | [] => (s, inr (rev acc))
    | t :: r => match linker_solve_t_M sel o t s with
                | (s', LRet b) => solve_fold sel o r s' (b :: acc)
                | (s', LRaise e) => (s', inl e)
                end
    end.
  Definition linker_solve_M (sel : option (list sid)) (o : opts) (ps : list Z) (s : lstate)
    : lstate * (lexn + list bool) :=
    if max_iter o <? min_iter o then (s, inl (LExn ValueError)) else solve_fold sel o ps s [].

End Linker.

(* ---------------- BaseLinker.__init__: span test and longest lags / leads ---------------- *)
(* A span is a container of period labels.  Labels are modelled as integers; what Python compares element by element is
   the ELEMENT the container yields: a built-in / NumPy integer (list, tuple, range, ndarray, pandas Index — equal as
   soon as the numbers are), a pandas Period (PeriodIndex) or a pandas Timestamp (DatetimeIndex).  Elements of different
   classes are never equal (`Period('2000') != 2000` is True, no exception). *)
Inductive spankind : Type := SList | STuple | SRange | SArray | SIndex | SPeriodIndex | SDatetimeIndex.
Record pspan := mkSpan { sp_kind : spankind; sp_labels : list Z }.
Record subinfo := mkSub { si_span : pspan; si_LAGS : Z; si_LEADS : Z }.     (* class-level LAGS / LEADS *)

Fixpoint zlist_eqb (a b : list Z) : bool :=
  match a, b with [], [] => true | x :: a', y :: b' => Z.eqb x y && zlist_eqb a' b' | _, _ => false end.

Definition elt_class (k : spankind) : nat :=
  match k with SPeriodIndex => 1 | SDatetimeIndex => 2 | _ => 0 end.
(* the sequence of elements iterating over the span yields: (class, number) *)
Definition span_elems (a : pspan) : list (nat * Z) := map (fun z => (elt_class (sp_kind a), z)) (sp_labels a).

Definition elem_ne (x y : nat * Z) : bool := negb (Nat.eqb (fst x) (fst y) && Z.eqb (snd x) (snd y)).     (* x != y *)
(* any(x != y for x, y in zip(a, b)) *)
Fixpoint any_ne (a b : list (nat * Z)) : bool :=
  match a, b with x :: a', y :: b' => elem_ne x y || any_ne a' b' | _, _ => false end.

(* since fix ee9fcdf:  len(comparator.span) != len(base.span) or any(x != y for x, y in zip(comparator.span, base.span))
   — defined for every container kind (before, `comparator.span != base.span` had no truth value for arrays / indexes) *)
Definition spans_differ (a b : pspan) : bool :=
  negb (Nat.eqb (length (sp_labels a)) (length (sp_labels b))) || any_ne (span_elems a) (span_elems b).

(* for id_ in identifiers: span test, then lags = max(lags, LAGS), leads = max(leads, LEADS) *)
Fixpoint ctor_loop (base : pspan) (rest : list (sid * subinfo)) (lg ld : Z) : outcome (Z * Z) :=
  match rest with
  | [] => Ret (lg, ld)
  | (_, c) :: r =>
      if spans_differ (si_span c) base then Raise InitialisationError
      else ctor_loop base r (Z.max lg (si_LAGS c)) (Z.max ld (si_LEADS c))
  end.

(* the constructor past the name test: returns (span, lags, leads) of the new linker *)
Definition linker_ctor_M (subs : list (sid * subinfo)) (span : option pspan) : outcome (pspan * Z * Z) :=
  match subs with
  | [] => Ret (match span with Some sp => sp | None => mkSpan SList [] end, 0, 0)
  | (_, b) :: rest =>
      match span with
      | Some _ => Raise NotImplementedError
      | None => match ctor_loop (si_span b) rest (si_LAGS b) (si_LEADS b) with
                | Raise e => Raise e
                | Ret (lg, ld) => Ret (si_span b, lg, ld)
                end
      end
  end.

(* since fix f5ef8bd: `if name in submodels: raise DuplicateNameError` — first of all (before the span= test and the span
   comparison).  `name` = the linker's own name (default '_'), modelled as an identifier like the submodels' keys. *)
Definition linker_init_M (name : sid) (subs : list (sid * subinfo)) (span : option pspan) : outcome (pspan * Z * Z) :=
  if existsb (Nat.eqb name) (map fst subs) then Raise DuplicateNameError else linker_ctor_M subs span.

Arguments mkComp {num}. Arguments c_desc {num}. Arguments c_st {num}.
Arguments mkL {num}. Arguments l_core {num}. Arguments l_subs {num}. Arguments l_log {num}.
Arguments LLDone {num}. Arguments LLRaise {num}.
