(* LinkerRange.v — BaseLinker.solve(start=, end=) as called: the min_iter > max_iter guard, SolverMixin.iter_periods
   (fsic/core/interfaces.py:280-318, model Solver/SolveAll.iter_periods_M) evaluated with the LINKER's lags / leads
   (the instance attributes copied from LAGS / LEADS, which BaseLinker.__init__ computed as the maxima over the
   submodels), then one solve_t per (index, label) pair (fsic/core/linkers.py:315-346).  Definitions only. *)
From Coq Require Import ZArith List Bool.
Import ListNotations.
Require Import PyBase Solver SolveAll Linker.
Open Scope Z_scope.

Section LinkerRange.
  Variable num : Type.
  Variables (sub : num -> num -> num) (absf : num -> num) (ltb : num -> num -> bool) (zero : num).
  Variable sev : sid -> hook num.
  Variables (pre ebefore eafter post : lhook num).
  Variable L : Type.                       (* period labels *)
  Variable locate : L -> locres.           (* self._locate_period_in_span *)

  (* what solve() returns: len(period_iter) (the length of the three lists) and their filled entries
     (label, index, solved), in order *)
  Definition span_result : Type := (nat * list (L * Z * bool))%type.

  Definition linker_solve_span_M (lags leads : nat) (span : list L) (start end_ : option L)
                                 (sel : option (list sid)) (o : opts num) (s : lstate num)
    : lstate num * (lexn + span_result) :=
    if max_iter o <? min_iter o then (s, inl (LExn ValueError)) else
    match iter_periods_M L locate (mkDesc [] [] lags leads) span start end_ with
    | Raise e => (s, inl (LExn e))
    | Ret (len, ps) =>
        match solve_fold num sub absf ltb zero sev pre ebefore eafter post sel o (map fst ps) s [] with
        | (s', inl e) => (s', inl e)
        | (s', inr bs) => (s', inr (len, combine (map (fun tl => (snd tl, fst tl)) ps) bs))
        end
    end.
End LinkerRange.

(* construction followed by solve(): the linker's lags / leads are whatever __init__ computed from the submodels *)
Definition ctor_lags_leads (subs : list (sid * subinfo)) (span : option pspan) : outcome (list Z * nat * nat) :=
  match linker_ctor_M subs span with
  | Raise e => Raise e
  | Ret (sp, lg, ld) => Ret (sp_labels sp, Z.to_nat lg, Z.to_nat ld)
  end.
