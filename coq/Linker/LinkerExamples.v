(* LinkerExamples.v — concrete float instances: non-vacuity of the hypotheses of the C08 theorems, and the
   witnesses of the refutations / exclusions (closed computations checked by the kernel). *)
From Coq Require Import PrimFloat ZArith List Bool Lia.
Import ListNotations.
Require Import PyBase Solver SolverFacts SolverF Linker LinkerFacts LinkerFacts2 LinkerFacts3 LinkerF.
Open Scope Z_scope.

Definition U3 : list st := [Unsolved; Unsolved; Unsolved].
Definition tolf : float := 0x1.b7cdfd9d7bdbbp-34%float.      (* 1e-10 *)
Definition lx_opts (mn mx : Z) : fopts := mkOpts mn mx tolf 0 true ERaise true.
Definition lx_opts_off (off : Z) : fopts := mkOpts 0 6 tolf off true ERaise true.

(* A: V0 is the check variable, V1 an endogenous variable no script writes (10, 11, 12 over the three periods);
   B: one check variable, LAGS 1, LEADS 1; the linker's own core: one check variable L0 *)
Definition lx_dA : mdesc := mkDesc [0%nat] [0%nat; 1%nat] 0 0.
Definition lx_mA : fstate := mkState [[0%float; 0%float; 0%float]; [10%float; 11%float; 12%float]] U3 [-1; -1; -1] [].
Definition lx_A : fcomp := mkComp lx_dA lx_mA.
Definition lx_B : fcomp := mkComp (mkDesc [0%nat] [0%nat] 1 1) (mkState [[0%float; 0%float; 0%float]] U3 [-1; -1; -1] []).
Definition lx_core : fcomp := mkComp (mkDesc [0%nat] [0%nat] 1 1) (mkState [[0%float; 0%float; 0%float]] U3 [-1; -1; -1] []).
Definition lx_state : flstate := mkL lx_core [(0%nat, lx_A); (1%nat, lx_B)] [].

Definition lx_scA : scripts :=
  [(1%nat, mkPS [] [[ASet 0 1%float]; [ASet 0 1.5%float]; [ASet 0 1.5%float]; [ASet 0 1.5%float]; [ASet 0 1.5%float]] [])].
Definition lx_scB : scripts :=
  [(1%nat, mkPS [] [[ASet 0 2%float]; [ASet 0 2%float]; [ASet 0 2.5%float]; [ASet 0 2.5%float]; [ASet 0 2.5%float]] [])].
Definition lx_ss : subscripts := [(0%nat, lx_scA); (1%nat, lx_scB)].
(* cross-link: after every iteration the linker sets L0 = 0.5 * B.V0 *)
Definition lx_hs : lscripts := [(1%nat, mkLS [] [] (repeat [LAAffine 0 0 0.5%float 2 0 0%float] 6) [])].

Definition lx_run (sel : option (list sid)) (o : fopts) : flstate * lout := f_linker_solve_t lx_ss lx_hs sel o 1 lx_state.

(* A settles at iteration 3, B and (through the cross-link) the linker's own variable at iteration 4: solved at 4 *)
Example lx_converges_at_4 :
  let r := lx_run None (lx_opts 0 6) in
  snd r = LRet true /\
  status (c_st (l_core (fst r))) = [Unsolved; Solved; Unsolved] /\ iters (c_st (l_core (fst r))) = [-1; 4; -1] /\
  map (fun ic => (fst ic, status (c_st (snd ic)), iters (c_st (snd ic)))) (l_subs (fst r))
    = [(0%nat, [Unsolved; Solved; Unsolved], [-1; 4; -1]); (1%nat, [Unsolved; Solved; Unsolved], [-1; 4; -1])] /\
  l_log (fst r) = [LPre 1] ++ flat_map (iter_events [0%nat; 1%nat] 1) (seq 1 4) ++ [LPost 1 4].
Proof. vm_compute. repeat split. Qed.

(* only A selected: B is neither evaluated nor stamped and keeps every value; solved at 3 *)
Example lx_subset_leaves_B_alone :
  let r := lx_run (Some [0%nat]) (lx_opts 0 6) in
  snd r = LRet true /\ iters (c_st (l_core (fst r))) = [-1; 3; -1] /\
  nth_error (l_subs (fst r)) 1 = Some (1%nat, lx_B) /\
  l_log (fst r) = [LPre 1] ++ flat_map (iter_events [0%nat] 1) (seq 1 3) ++ [LPost 1 3].
Proof. vm_compute. repeat split. Qed.

(* selection order is evaluation order *)
Example lx_order_follows_selection :
  l_log (fst (lx_run (Some [1%nat; 0%nat]) (lx_opts 0 1)))
  = [LPre 1; LBefore 1 1; LSub 1%nat 1 1; LSub 0%nat 1 1; LAfter 1 1].
Proof. vm_compute. reflexivity. Qed.

(* unknown id in second place: KeyError; A's counter has already been zeroed, B's has not; no hook ran *)
Example lx_unknown_id :
  lx_run (Some [0%nat; 7%nat; 1%nat]) (lx_opts 0 6)
  = (mkL lx_core [(0%nat, mkComp lx_dA (mkState (vals_of lx_mA) U3 [-1; 0; -1] [])); (1%nat, lx_B)] [], LRaise (LExn KeyError)).
Proof. vm_compute. reflexivity. Qed.

(* a submodel listed twice is evaluated twice per iteration: its counter reads 2k, the linker's k
   (why linker_status_stamped equates the counters only for duplicate-free selections) *)
Example lx_duplicate_selection_counts_twice :
  let r := lx_run (Some [0%nat; 0%nat]) (lx_opts 0 6) in
  snd r = LRet true /\ iters (c_st (l_core (fst r))) = [-1; 3; -1] /\
  map (fun ic => iters (c_st (snd ic))) (l_subs (fst r)) = [[-1; 6; -1]; [-1; -1; -1]].
Proof. vm_compute. repeat split. Qed.

(* max_iter = 0 (after fix b545cbb): pre-hook only, 'F', 0 iterations, NonConvergenceError under failures='raise' *)
Example lx_maxiter0 :
  let r := lx_run None (lx_opts 0 0) in
  snd r = LRaise (LExn NonConvergenceError) /\
  status (c_st (l_core (fst r))) = [Unsolved; Failed; Unsolved] /\ iters (c_st (l_core (fst r))) = [-1; 0; -1] /\
  map (fun ic => (status (c_st (snd ic)), iters (c_st (snd ic)))) (l_subs (fst r))
    = [([Unsolved; Failed; Unsolved], [-1; 0; -1]); ([Unsolved; Failed; Unsolved], [-1; 0; -1])] /\
  l_log (fst r) = [LPre 1].
Proof. vm_compute. repeat split. Qed.

(* min_iter > max_iter (after fix 97423a0): ValueError, nothing changed *)
Example lx_min_gt_max :
  lx_run None (mkOpts 3 2 tolf 0 false ERaise true) = (lx_state, LRaise (LExn ValueError)).
Proof. vm_compute. reflexivity. Qed.
(* a period without room for the linker's lags (1) / leads (1) (after fix a0fbb5c): IndexError, nothing changed — even
   with an unknown id in the selection and min_iter = max_iter *)
Example lx_infeasible_period :
  f_linker_solve_t lx_ss lx_hs None (lx_opts 0 6) 0 lx_state = (lx_state, LRaise (LExn IndexError)) /\
  f_linker_solve_t lx_ss lx_hs (Some [7%nat]) (lx_opts 2 2) (-1) lx_state = (lx_state, LRaise (LExn IndexError)) /\
  snd (f_linker_solve_t lx_ss lx_hs (Some [7%nat]) (lx_opts 2 2) 1 lx_state) = LRaise (LExn KeyError).
Proof. vm_compute. repeat split. Qed.

(* strictness (after fix 5fcbff4): a move of exactly tol is not convergence, a move just below it is *)
Definition lx_tol_scripts (x : float) : subscripts := [(0%nat, [(1%nat, mkPS [] [[ASet 0 x]; [ASet 0 0%float]; [ASet 0 0%float]] [])])].
Example lx_move_exactly_tol_not_converged :
  iters (c_st (l_core (fst (f_linker_solve_t (lx_tol_scripts tolf) [] None (lx_opts 0 6) 1 lx_state)))) = [-1; 3; -1] /\
  iters (c_st (l_core (fst (f_linker_solve_t (lx_tol_scripts 0x1.b7cdfd9d7bdbap-34%float) [] None (lx_opts 0 6) 1 lx_state)))) = [-1; 1; -1].
Proof. vm_compute. split; reflexivity. Qed.
(* ... and a move of 1e-6 under tol = 1e-10 is not convergence (it was, while the test read diff**2 < tol) *)
Example lx_move_1e6_not_converged :
  iters (c_st (l_core (fst (f_linker_solve_t (lx_tol_scripts 0x1.0c6f7a0b5ed8dp-20%float) [] None (lx_opts 0 6) 1 lx_state)))) = [-1; 3; -1].
Proof. vm_compute. reflexivity. Qed.

(* ---------------- the hypotheses of linker_converges_at_least_k are satisfiable (k0 = 4) ---------------- *)
Definition lx_ids : list sid := [0%nat; 1%nat].
Definition lx_subs1 : list (sid * fcomp) := Eval vm_compute in fst (zero_iters float lx_ids 1 (l_subs lx_state)).
Definition lx_s1 : flstate :=
  Eval vm_compute in fst (run_hook float (ls_hpre 3 lx_hs) lx_ids (lx_opts 0 6) 1 0%nat (LPre 1) (mkL (l_core lx_state) lx_subs1 [])).

Example lx_hypotheses_satisfiable :
  let o := lx_opts 0 6 in let t := 1 in let p := 1%nat in let s := lx_state in
  let sev := ls_sev 3 lx_ss in let eb := ls_hbefore 3 lx_hs in let ea := ls_hafter 3 lx_hs in
  let c0 := check_vec float fzero lx_ids p s in
  sel_ids float None s = lx_ids /\
  wf float t p s /\
  zero_iters float lx_ids t (l_subs s) = (lx_subs1, None) /\
  run_hook float (ls_hpre 3 lx_hs) lx_ids o t 0%nat (LPre t) (mkL (l_core s) lx_subs1 (l_log s)) = (lx_s1, None) /\
  quiet_upto float sev eb ea lx_ids o t lx_s1 6 /\
  (forall k s', snd (run_hook float (ls_hpost 3 lx_hs) lx_ids o t k (LPost t k) s') = None) /\
  lconvk float PrimFloat.sub PrimFloat.abs PrimFloat.ltb fzero sev eb ea lx_ids o t c0 lx_s1 4 = true /\
  (forall j, (1 <= j < 4)%nat -> lconvk float PrimFloat.sub PrimFloat.abs PrimFloat.ltb fzero sev eb ea lx_ids o t c0 lx_s1 j = false).
Proof.
  cbv zeta. split; [reflexivity|]. split.
  { split; [split; reflexivity|]. split; [repeat constructor|]. repeat constructor; cbn; discriminate. }
  split; [vm_compute; reflexivity|]. split; [vm_compute; reflexivity|]. split.
  { intros i Hi. destruct i as [|[|[|[|[|[|[|i]]]]]]]; try lia; vm_compute; reflexivity. }
  split; [intros k s'; reflexivity|]. split; [vm_compute; reflexivity|].
  intros j Hj. destruct j as [|[|[|[|j]]]]; try lia; vm_compute; reflexivity.
Qed.

(* ---------------- offset (honoured since fix 6298cba) ---------------- *)
(* offset = -1 at period 1: A's endogenous V1 — which no script writes — takes the value 10 of period 0 (it kept its own 11
   while the linker ignored the argument); the run is the offset-free run from the seeded state *)
Example lx_offset_seeds :
  let r := lx_run None (lx_opts_off (-1)) in
  snd r = LRet true /\
  map (fun ic => nth 1 (nth 1 (vals_of (c_st (snd ic))) []) 0%float) (l_subs (fst r)) = [10%float; 0%float] /\
  fst r = fst (f_linker_solve_t lx_ss lx_hs None (lx_opts 0 6) 1 (Linker.seeded float fzero [0%nat; 1%nat] 1 0 lx_state)).
Proof. vm_compute. repeat split. Qed.
(* only A selected: B is not seeded (nor evaluated, nor stamped) *)
Example lx_offset_unselected_not_seeded :
  nth_error (l_subs (Linker.seeded float fzero [0%nat] 1 0 lx_state)) 1 = Some (1%nat, lx_B) /\
  nth_error (l_subs (fst (lx_run (Some [0%nat]) (lx_opts_off (-1))))) 1 = Some (1%nat, lx_B).
Proof. vm_compute. split; reflexivity. Qed.
(* an offset pointing outside the span: IndexError, nothing changed (it was accepted before the fix) *)
Example lx_offset_out_of_span :
  lx_run None (lx_opts_off (-5)) = (lx_state, LRaise (LExn IndexError)) /\
  lx_run None (lx_opts_off 2) = (lx_state, LRaise (LExn IndexError)).
Proof. vm_compute. split; reflexivity. Qed.

(* ---------------- constructor ---------------- *)
Example lx_ctor_maxima :
  linker_ctor_M [(0%nat, mkSub (mkSpan SList [5; 6; 7]) 1 0); (1%nat, mkSub (mkSpan SList [5; 6; 7]) 0 3);
                 (2%nat, mkSub (mkSpan SList [5; 6; 7]) 2 1)] None
  = Ret (mkSpan SList [5; 6; 7], 2, 3).
Proof. reflexivity. Qed.
Example lx_ctor_differing :
  linker_ctor_M [(0%nat, mkSub (mkSpan SList [5; 6; 7]) 1 0); (1%nat, mkSub (mkSpan SList [5; 6; 8]) 0 3)] None
  = Raise InitialisationError.
Proof. reflexivity. Qed.
(* since fix ee9fcdf: identical NumPy-array spans are accepted (they raised ValueError before) ... *)
Example lx_ctor_array_spans_accepted :
  linker_ctor_M [(0%nat, mkSub (mkSpan SArray [1; 2]) 0 1); (1%nat, mkSub (mkSpan SArray [1; 2]) 2 0)] None
  = Ret (mkSpan SArray [1; 2], 2, 1).
Proof. reflexivity. Qed.
(* ... and so are PeriodIndex spans, and a list next to a range / an array / an Index with equal elements
   (before the fix `[5, 6, 7] != range(5, 8)` was True: rejected) — the linker keeps the FIRST submodel's container *)
Example lx_ctor_mixed_integer_kinds_accepted :
  linker_ctor_M [(0%nat, mkSub (mkSpan SList [5; 6; 7]) 0 0); (1%nat, mkSub (mkSpan SRange [5; 6; 7]) 1 0);
                 (2%nat, mkSub (mkSpan SArray [5; 6; 7]) 0 2); (3%nat, mkSub (mkSpan SIndex [5; 6; 7]) 0 0);
                 (4%nat, mkSub (mkSpan STuple [5; 6; 7]) 0 0)] None
  = Ret (mkSpan SList [5; 6; 7], 1, 2) /\
  linker_ctor_M [(0%nat, mkSub (mkSpan SPeriodIndex [2000; 2001]) 0 0); (1%nat, mkSub (mkSpan SPeriodIndex [2000; 2001]) 0 0)] None
  = Ret (mkSpan SPeriodIndex [2000; 2001], 0, 0).
Proof. split; reflexivity. Qed.
(* same numbers, different element classes (integers vs Periods vs Timestamps): differing spans; empty spans of any kinds: equal *)
Example lx_ctor_element_classes :
  linker_ctor_M [(0%nat, mkSub (mkSpan SList [2000; 2001]) 0 0); (1%nat, mkSub (mkSpan SPeriodIndex [2000; 2001]) 0 0)] None
  = Raise InitialisationError /\
  linker_ctor_M [(0%nat, mkSub (mkSpan SPeriodIndex [2000]) 0 0); (1%nat, mkSub (mkSpan SDatetimeIndex [2000]) 0 0)] None
  = Raise InitialisationError /\
  linker_ctor_M [(0%nat, mkSub (mkSpan SArray [2000; 2001]) 0 0); (1%nat, mkSub (mkSpan SArray [2000; 2002]) 0 0)] None
  = Raise InitialisationError /\
  linker_ctor_M [(0%nat, mkSub (mkSpan SIndex [2000; 2001]) 0 0); (1%nat, mkSub (mkSpan SIndex [2000]) 0 0)] None
  = Raise InitialisationError /\
  linker_ctor_M [(0%nat, mkSub (mkSpan SList []) 0 0); (1%nat, mkSub (mkSpan SDatetimeIndex []) 0 0)] None
  = Ret (mkSpan SList [], 0, 0).
Proof. repeat split. Qed.

(* ---------------- one model in a linker vs the model itself ---------------- *)
Definition lx_single (d : mdesc) : flstate := mkL (mkComp (mkDesc [] [] 0 0) (mkState [] U3 [-1; -1; -1] [])) [(0%nat, mkComp d lx_mA)] [].
Definition lx_lrun (sc : scripts) (d : mdesc) (o : fopts) := f_linker_solve_t [(0%nat, sc)] [] (Some [0%nat]) o 1 (lx_single d).
Definition lx_mrun (sc : scripts) (d : mdesc) (o : fopts) := f_solve_t sc d o 1 lx_mA.

(* inside the premises: identical status, iteration count, values, return value *)
Example lx_single_agrees :
  let rl := lx_lrun lx_scA lx_dA (lx_opts 0 6) in let rm := lx_mrun lx_scA lx_dA (lx_opts 0 6) in
  snd rl = lout_of (snd rm) /\
  map (fun ic => (vals_of (c_st (snd ic)), status (c_st (snd ic)), iters (c_st (snd ic)))) (l_subs (fst rl))
    = [(vals_of (fst rm), status (fst rm), iters (fst rm))] /\
  iters (fst rm) = [-1; 3; -1].
Proof. vm_compute. repeat split. Qed.

Example lx_single_hypotheses_satisfiable :
  let o := lx_opts 0 6 in let t := 1 in let p := 1%nat in
  let sev := ls_sev 3 [(0%nat, lx_scA)] in let ev := s_ev 3 lx_scA in
  let mv := vals_of lx_mA in let c0 := get_check float fzero lx_dA mv p in
  min_iter o <= max_iter o /\ 0 <= max_iter o /\ feasible lx_dA 3 p = true /\ offset o = 0 /\
  py_pos 3 t = Some p /\
  (forall i, (1 <= i <= 6)%nat -> snd (evk float ev o t i (st_after float ev o t mv (i - 1))) = None) /\
  (forall i, (i <= 6)%nat -> all_finite float fisfin (chkseq float fzero ev lx_dA o t p c0 mv i) = true) /\
  (forall i, (1 <= i <= 6)%nat -> sev 0%nat t (errors o) (catch_first o) i (st_after float ev o t mv (i - 1))
                                = ev t (errors o) (catch_first o) i (st_after float ev o t mv (i - 1))).
Proof.
  cbv zeta. repeat split; try (vm_compute; congruence).
  - intros i Hi. destruct i as [|[|[|[|[|[|[|i]]]]]]]; try lia; vm_compute; reflexivity.
  - intros i Hi. destruct i as [|[|[|[|[|[|[|i]]]]]]]; try lia; vm_compute; reflexivity.
  - intros i Hi. destruct i as [|[|[|[|[|[|[|i]]]]]]]; try lia; vm_compute; reflexivity.
Qed.

(* the two guards (fixes 97423a0, a0fbb5c) make linker and model agree where they used to differ: *)
(* min_iter > max_iter: ValueError from both, nothing changed *)
Example lx_single_agrees_min_gt_max :
  lx_mrun lx_scA lx_dA (lx_opts 3 2) = (lx_mA, Raise ValueError) /\
  snd (lx_lrun lx_scA lx_dA (lx_opts 3 2)) = LRaise (LExn ValueError) /\
  map snd (l_subs (fst (lx_lrun lx_scA lx_dA (lx_opts 3 2)))) = [mkComp lx_dA lx_mA].
Proof. vm_compute. repeat split. Qed.
(* a period without room for the model's lags: IndexError from both, nothing changed *)
Example lx_single_agrees_infeasible :
  lx_mrun lx_scA (mkDesc [0%nat] [0%nat] 2 0) (lx_opts 0 6) = (lx_mA, Raise IndexError) /\
  snd (lx_lrun lx_scA (mkDesc [0%nat] [0%nat] 2 0) (lx_opts 0 6)) = LRaise (LExn IndexError) /\
  map snd (l_subs (fst (lx_lrun lx_scA (mkDesc [0%nat] [0%nat] 2 0) (lx_opts 0 6)))) = [mkComp (mkDesc [0%nat] [0%nat] 2 0) lx_mA].
Proof. vm_compute. repeat split. Qed.
(* outside the remaining premises the two differ — one witness per premise *)
(* an exception inside _evaluate: SolutionError(cause) and 'E' from the model; the bare exception, nothing stamped, from the linker *)
Definition lx_sc_raise : scripts := [(1%nat, mkPS [] [[ASet 0 1%float]; [ARaise 12]] [])].
Example lx_single_differs_exception :
  let rm := lx_mrun lx_sc_raise lx_dA (lx_opts 0 6) in let rl := lx_lrun lx_sc_raise lx_dA (lx_opts 0 6) in
  snd rm = Raise (SolutionError (Some 12)) /\ status (fst rm) = [Unsolved; ErrorSt; Unsolved] /\
  snd rl = LRaise (LUser 12) /\ map (fun ic => status (c_st (snd ic))) (l_subs (fst rl)) = [U3].
Proof. vm_compute. repeat split. Qed.
(* a numerical warning under errors='raise', catch_first_error=True: an error for the model, unseen by the linker *)
Definition lx_sc_warn : scripts := [(1%nat, mkPS [] [[AWarnSet 0 1%float]; [ASet 0 1%float]] [])].
Example lx_single_differs_warning :
  snd (lx_mrun lx_sc_warn lx_dA (lx_opts 0 6)) = Raise (SolutionError (Some 1)) /\
  snd (lx_lrun lx_sc_warn lx_dA (lx_opts 0 6)) = LRet true.
Proof. vm_compute. split; reflexivity. Qed.
(* a NaN: 'E' + SolutionError under errors='raise' from the model; the linker has no error policy, iterates on and solves *)
Definition lx_sc_nan : scripts := [(1%nat, mkPS [] [[ASet 0 nan]; [ASet 0 1%float]; [ASet 0 1%float]] [])].
Example lx_single_differs_nan :
  snd (lx_mrun lx_sc_nan lx_dA (lx_opts 0 6)) = Raise (SolutionError None) /\
  snd (lx_lrun lx_sc_nan lx_dA (lx_opts 0 6)) = LRet true.
Proof. vm_compute. split; reflexivity. Qed.
(* offset: honoured by both since fix 6298cba (V1 seeded from t-1) *)
Example lx_single_agrees_offset :
  nth 1 (nth 1 (vals_of (fst (lx_mrun lx_scA lx_dA (lx_opts_off (-1))))) []) 0%float = 10%float /\
  map (fun ic => nth 1 (nth 1 (vals_of (c_st (snd ic))) []) 0%float) (l_subs (fst (lx_lrun lx_scA lx_dA (lx_opts_off (-1))))) = [10%float] /\
  snd (lx_mrun lx_scA lx_dA (lx_opts_off (-5))) = Raise IndexError /\ snd (lx_lrun lx_scA lx_dA (lx_opts_off (-5))) = LRaise (LExn IndexError).
Proof. vm_compute. repeat split. Qed.
