(* LinkerFacts2.v — what linker solve_t computes when no hook and no submodel raises: the iteration at which
   it stops, the status and iteration counts it stamps, the order of events.  For every number type (NaNs and
   infinities included: the linker has no error policy, a non-finite move is simply "not < tol"), every submodel
   oracle and every hook. *)
From Coq Require Import ZArith List Bool Lia Arith.
Import ListNotations.
Require Import PyBase Solver SolverFacts Linker LinkerFacts.
Open Scope Z_scope.

(* ---- the three stores the linker makes into status / iterations series, at list level ---- *)
Definition zero_l (t : Z) (l : list Z) : list Z := match py_set l t 0 with Some l' => l' | None => l end.
Definition bump_l (t : Z) (l : list Z) : list Z :=
  match py_get l t with
  | Some x => match py_set l t (x + 1) with Some l' => l' | None => l end
  | None => l
  end.
Definition stamp_l (t : Z) (x : st) (l : list st) : list st := match py_set l t x with Some l' => l' | None => l end.

Fixpoint iter_n {A} (n : nat) (f : A -> A) (x : A) : A := match n with O => x | S n' => iter_n n' f (f x) end.
(* number of times id is listed in a selection *)
Fixpoint cnt (id : sid) (l : list sid) : nat :=
  match l with [] => O | a :: r => if Nat.eqb a id then S (cnt id r) else cnt id r end.

Lemma iter_n_add {A} (f : A -> A) a : forall b x, iter_n (a + b) f x = iter_n b f (iter_n a f x).
Proof. induction a as [|a IH]; intros b x; cbn [Nat.add iter_n]; [reflexivity|apply IH]. Qed.

Lemma upd_upd {A} (x y : A) : forall l i, upd i x (upd i y l) = upd i x l.
Proof. induction l as [|a l IH]; intros [|i]; cbn [upd]; try reflexivity. rewrite IH. reflexivity. Qed.

Lemma py_set_pos {A} (l : list A) t p x : py_pos (length l) t = Some p -> py_set l t x = Some (upd p x l).
Proof. intros H. unfold py_set. rewrite H. reflexivity. Qed.
Lemma py_get_pos {A} (l : list A) t p : py_pos (length l) t = Some p -> py_get l t = nth_error l p.
Proof. intros H. unfold py_get. rewrite H. reflexivity. Qed.

Lemma zero_l_pos l t p : py_pos (length l) t = Some p -> zero_l t l = upd p 0 l.
Proof. intros H. unfold zero_l. rewrite (py_set_pos l t p 0 H). reflexivity. Qed.
Lemma stamp_l_pos l t p x : py_pos (length l) t = Some p -> stamp_l t x l = upd p x l.
Proof. intros H. unfold stamp_l. rewrite (py_set_pos l t p x H). reflexivity. Qed.
Lemma zero_l_idem t l : zero_l t (zero_l t l) = zero_l t l.
Proof.
  destruct (py_pos (length l) t) as [p|] eqn:E.
  - rewrite (zero_l_pos l t p E). rewrite (zero_l_pos (upd p 0 l) t p) by (rewrite upd_length; exact E). apply upd_upd.
  - assert (H : zero_l t l = l) by (unfold zero_l, py_set; rewrite E; reflexivity). rewrite !H. reflexivity.
Qed.
Lemma stamp_l_idem t x l : stamp_l t x (stamp_l t x l) = stamp_l t x l.
Proof.
  destruct (py_pos (length l) t) as [p|] eqn:E.
  - rewrite (stamp_l_pos l t p x E). rewrite (stamp_l_pos (upd p x l) t p) by (rewrite upd_length; exact E). apply upd_upd.
  - assert (H : stamp_l t x l = l) by (unfold stamp_l, py_set; rewrite E; reflexivity). rewrite !H. reflexivity.
Qed.
Lemma bump_l_upd l t p x : py_pos (length l) t = Some p -> bump_l t (upd p x l) = upd p (x + 1) l.
Proof.
  intros H. assert (H' : py_pos (length (upd p x l)) t = Some p) by (rewrite upd_length; exact H).
  unfold bump_l. rewrite (py_get_pos _ t p H').
  rewrite nth_error_upd_eq by (eapply py_pos_lt; eauto). rewrite (py_set_pos _ t p _ H'). apply upd_upd.
Qed.
Lemma iter_bump_upd l t p : py_pos (length l) t = Some p ->
  forall m x, iter_n m (bump_l t) (upd p x l) = upd p (x + Z.of_nat m) l.
Proof.
  intros H. induction m as [|m IH]; intros x; cbn [iter_n].
  - rewrite Z.add_0_r. reflexivity.
  - rewrite (bump_l_upd l t p x H), IH. f_equal. lia.
Qed.

Lemma cnt_unselected ids id : selected ids id = false -> cnt id ids = 0%nat.
Proof.
  induction ids as [|a r IH]; intros H; cbn [cnt]; [reflexivity|].
  apply selected_cons_false in H as [Hne Hs]. replace (Nat.eqb a id) with false; [apply IH; exact Hs|].
  symmetry. apply Nat.eqb_neq. congruence.
Qed.
Lemma cnt_not_in ids id : ~ In id ids -> cnt id ids = 0%nat.
Proof.
  induction ids as [|a r IH]; intros H; cbn [cnt]; [reflexivity|].
  replace (Nat.eqb a id) with false; [apply IH; intros Hi; apply H; right; exact Hi|].
  symmetry. apply Nat.eqb_neq. intros ->. apply H. left. reflexivity.
Qed.
Lemma cnt_nodup ids id : NoDup ids -> In id ids -> cnt id ids = 1%nat.
Proof.
  induction 1 as [|a r Hn Hd IH]; intros Hi; [destruct Hi|]. cbn [cnt]. destruct Hi as [->|Hi].
  - rewrite Nat.eqb_refl. rewrite cnt_not_in by exact Hn. reflexivity.
  - replace (Nat.eqb a id) with false; [apply IH; exact Hi|]. symmetry. apply Nat.eqb_neq. intros ->. contradiction.
Qed.

Section LSpec.
  Variable num : Type.
  Variables (sub : num -> num -> num) (absf : num -> num) (ltb : num -> num -> bool) (zero : num).
  Variable sev : sid -> hook num.
  Variables (pre ebefore eafter post : lhook num).

  Notation comp := (comp num).
  Notation lstate := (lstate num).
  Notation vals := (vals num).
  Notation lhook := (lhook num).
  Notation find_sub := (find_sub num).
  Notation put_sub := (put_sub num).
  Notation put_sub_vals := (put_sub_vals num).
  Notation with_cvals := (with_cvals num).
  Notation set_iter := (set_iter num).
  Notation bump_iter := (bump_iter num).
  Notation set_status := (set_status num).
  Notation zero_iters := (zero_iters num).
  Notation stamp_subs := (stamp_subs num).
  Notation run_hook := (run_hook num).
  Notation eval_subs := (eval_subs num sev).
  Notation iter_step := (iter_step num sev ebefore eafter).
  Notation lloop := (lloop num sub absf ltb zero sev ebefore eafter post).
  Notation lfinish := (lfinish num).
  Notation get_check_values := (get_check_values num zero).
  Notation subs_check := (subs_check num zero).
  Notation comp_check := (comp_check num zero).
  Notation conv_all := (conv_all num sub absf ltb).
  Notation solve_t := (linker_solve_t_body num sub absf ltb zero sev pre ebefore eafter post).
  Notation crel := (crel num).
  Notation srel := (srel num).
  Notation prel := (prel num).

  (* ---------------- per-identifier view of status / iterations, and of the values ---------------- *)
  Definition view (id : sid) (l : list (sid * comp)) : option (list st * list Z) :=
    option_map (fun c => (status (c_st c), iters (c_st c))) (find_sub id l).
  Definition vview (id : sid) (l : list (sid * comp)) : option vals :=
    option_map (fun c => vals_of (c_st c)) (find_sub id l).

  Lemma view_put_same id c c' l :
    find_sub id l = Some c -> view id (put_sub id c' l) = Some (status (c_st c'), iters (c_st c')).
  Proof. intros H. unfold view. rewrite find_put_same, H. reflexivity. Qed.
  Lemma view_put_other id id' c' l : id' <> id -> view id' (put_sub id c' l) = view id' l.
  Proof. intros H. unfold view. rewrite find_put_other by exact H. reflexivity. Qed.
  Lemma view_put_vals id l vs : view id (put_sub_vals l vs) = view id l.
  Proof.
    unfold view. pose proof (find_put_vals num id l vs) as H. destruct (find_sub id l) as [c|].
    - destruct H as [v Hv]. rewrite Hv. reflexivity.
    - rewrite H. reflexivity.
  Qed.
  Lemma vview_put_same id c c' l : find_sub id l = Some c -> vview id (put_sub id c' l) = Some (vals_of (c_st c')).
  Proof. intros H. unfold vview. rewrite find_put_same, H. reflexivity. Qed.
  Lemma vview_put_other id id' c' l : id' <> id -> vview id' (put_sub id c' l) = vview id' l.
  Proof. intros H. unfold vview. rewrite find_put_other by exact H. reflexivity. Qed.

  (* ---------------- hooks ---------------- *)
  Lemma run_hook_log h ids o t k e s : l_log (fst (run_hook h ids o t k e s)) = l_log s ++ [e].
  Proof. unfold Linker.run_hook. destruct (h t ids (errors o) (catch_first o) k (jv_of num s)) as [jv r]. reflexivity. Qed.
  Lemma run_hook_view h ids o t k e s id : view id (l_subs (fst (run_hook h ids o t k e s))) = view id (l_subs s).
  Proof.
    unfold Linker.run_hook. destruct (h t ids (errors o) (catch_first o) k (jv_of num s)) as [jv r].
    cbn [fst]. unfold put_jv. cbn [l_subs]. apply view_put_vals.
  Qed.
  Lemma run_hook_core h ids o t k e s :
    status (c_st (l_core (fst (run_hook h ids o t k e s)))) = status (c_st (l_core s)) /\
    iters (c_st (l_core (fst (run_hook h ids o t k e s)))) = iters (c_st (l_core s)).
  Proof.
    unfold Linker.run_hook. destruct (h t ids (errors o) (catch_first o) k (jv_of num s)) as [jv r].
    cbn [fst]. unfold put_jv. cbn [l_core]. split; reflexivity.
  Qed.

  (* ---------------- evaluate_t when nothing raises ---------------- *)
  Lemma bump_iter_spec c t c2 : bump_iter c t = Some c2 ->
    status (c_st c2) = status (c_st c) /\ iters (c_st c2) = bump_l t (iters (c_st c)) /\ vals_of (c_st c2) = vals_of (c_st c).
  Proof.
    unfold Linker.bump_iter, Linker.set_iter, bump_l. destruct (py_get (iters (c_st c)) t) as [x|]; [|discriminate].
    destruct (py_set (iters (c_st c)) t (x + 1)) as [l|]; [|discriminate]. intros H; inversion H; subst. repeat split.
  Qed.

  Lemma eval_subs_quiet o t k id : forall ids s s',
    eval_subs o t k ids s = (s', None) ->
    l_core s' = l_core s /\ l_log s' = l_log s ++ map (fun a => LSub a t k) ids /\
    view id (l_subs s') = option_map (fun si => (fst si, iter_n (cnt id ids) (bump_l t) (snd si))) (view id (l_subs s)).
  Proof.
    induction ids as [|a r IH]; intros s s' H; cbn [Linker.eval_subs] in H.
    - inversion H; subst. cbn [map cnt iter_n]. rewrite app_nil_r. repeat split.
      destruct (view id (l_subs s')) as [[x y]|]; reflexivity.
    - destruct (find_sub a (l_subs s)) as [c|] eqn:Ef; [|discriminate].
      destruct (sev a t (errors o) (catch_first o) k (vals_of (c_st c))) as [v' [e|]]; [discriminate|].
      destruct (bump_iter (with_cvals c v') t) as [c2|] eqn:Eb; [|discriminate].
      apply IH in H as (Hc & Hl & Hv). cbn [l_core l_log l_subs] in Hc, Hl, Hv.
      split; [exact Hc|]. split; [rewrite Hl; cbn [map]; rewrite <- app_assoc; reflexivity|].
      rewrite Hv. cbn [cnt]. apply bump_iter_spec in Eb as (Es & Ei & _). cbn [Linker.with_cvals c_st status iters] in Es, Ei.
      destruct (Nat.eqb a id) eqn:E.
      + apply Nat.eqb_eq in E. subst a. rewrite (view_put_same id c c2 _ Ef). unfold view. rewrite Ef.
        cbn [option_map fst snd iter_n]. rewrite Es, Ei. reflexivity.
      + apply Nat.eqb_neq in E. rewrite view_put_other by congruence. reflexivity.
  Qed.

  Definition iter_events (ids : list sid) (t : Z) (k : nat) : list levent :=
    LBefore t k :: map (fun a => LSub a t k) ids ++ [LAfter t k].

  Lemma iter_step_quiet ids o t k s s' id :
    iter_step ids o t k s = (s', None) ->
    status (c_st (l_core s')) = status (c_st (l_core s)) /\ iters (c_st (l_core s')) = iters (c_st (l_core s)) /\
    l_log s' = l_log s ++ iter_events ids t k /\
    view id (l_subs s') = option_map (fun si => (fst si, iter_n (cnt id ids) (bump_l t) (snd si))) (view id (l_subs s)).
  Proof.
    unfold Linker.iter_step. intros H.
    pose proof (run_hook_log ebefore ids o t k (LBefore t k) s) as L1.
    pose proof (run_hook_view ebefore ids o t k (LBefore t k) s id) as V1.
    pose proof (run_hook_core ebefore ids o t k (LBefore t k) s) as [C1 C1'].
    destruct (run_hook ebefore ids o t k (LBefore t k) s) as [s1 [e|]]; [discriminate|]. cbn [fst] in L1, V1, C1, C1'.
    destruct (eval_subs o t k ids s1) as [s2 [e|]] eqn:E2; [discriminate|].
    apply (eval_subs_quiet o t k id) in E2 as (Hc & Hl & Hv).
    pose proof (run_hook_log eafter ids o t k (LAfter t k) s2) as L3.
    pose proof (run_hook_view eafter ids o t k (LAfter t k) s2 id) as V3.
    pose proof (run_hook_core eafter ids o t k (LAfter t k) s2) as [C3 C3'].
    destruct (run_hook eafter ids o t k (LAfter t k) s2) as [s3 r3]. cbn [fst] in L3, V3, C3, C3'.
    inversion H; subst s3 r3. rewrite C3, C3', Hc, V3, Hv, V1, L3, Hl, L1. repeat split; try assumption.
    unfold iter_events. cbn [app]. rewrite <- !app_assoc. reflexivity.
  Qed.

  (* ---------------- one call: the sequence of states and check vectors ---------------- *)
  Section OneCall.
    Variables (ids : list sid) (o : opts num) (t : Z).
    Variable c0 : list (list num).      (* check values taken before the counters are zeroed and the pre-hook runs *)
    Variable s1 : lstate.               (* state after the pre-hook *)

    (* state after j complete iterations *)
    Fixpoint lst_after (j : nat) : lstate :=
      match j with O => s1 | S j' => fst (iter_step ids o t (S j') (lst_after j')) end.
    Definition gcv_or_nil (s : lstate) : list (list num) :=
      match get_check_values ids t s with inl x => x | inr _ => [] end.
    (* check values after j iterations: '_' first, then every selected submodel in insertion order *)
    Definition lchk (j : nat) : list (list num) := match j with O => c0 | S _ => gcv_or_nil (lst_after j) end.
    (* iteration k is at or beyond min_iter and EVERY entry of EVERY container moved by < tol since iteration k-1 *)
    Definition lconvk (k : nat) : bool :=
      (min_iter o <=? Z.of_nat k) && conv_all (tol o) (lchk k) (lchk (k - 1)).
    Definition quiet_upto (n : nat) : Prop :=
      forall i, (1 <= i <= n)%nat -> snd (iter_step ids o t i (lst_after (i - 1))) = None.

    Lemma lloop_spec : forall n j,
      (forall i, (j < i <= j + n)%nat -> snd (iter_step ids o t i (lst_after (i - 1))) = None) ->
      (forall i, (j < i <= j + n)%nat -> exists x, get_check_values ids t (lst_after i) = inl x) ->
      lloop ids o t n (S j) (lst_after j) (lchk j) =
      match find_first lconvk (S j) n with
      | Some k0 => match run_hook post ids o t k0 (LPost t k0) (lst_after k0) with
                   | (s2, Some e) => LLRaise s2 e
                   | (s2, None) => LLDone s2 Solved k0
                   end
      | None => LLDone (lst_after (j + n)) Failed (j + n)
      end.
    Proof.
      induction n as [|n IH]; intros j Hq Hg.
      - cbn [Linker.lloop find_first]. rewrite Nat.add_0_r. replace (S j - 1)%nat with j by lia. reflexivity.
      - cbn [Linker.lloop find_first].
        assert (Hs : snd (iter_step ids o t (S j) (lst_after j)) = None).
        { specialize (Hq (S j)). replace (S j - 1)%nat with j in Hq by lia. apply Hq. lia. }
        destruct (Hg (S j)) as [x Hx]; [lia|].
        assert (Hc : lchk (S j) = x) by (cbn [lchk]; unfold gcv_or_nil; rewrite Hx; reflexivity).
        cbn [lst_after] in Hx.
        destruct (iter_step ids o t (S j) (lst_after j)) as [s' r] eqn:E. cbn [snd] in Hs. subst r. cbn [fst] in Hx.
        assert (Hs' : s' = lst_after (S j)) by (cbn [lst_after]; rewrite E; reflexivity).
        rewrite Hx. rewrite <- Hc. unfold lconvk at 1. replace (S j - 1)%nat with j by lia.
        destruct (Z.of_nat (S j) <? min_iter o) eqn:Emin.
        + replace (min_iter o <=? Z.of_nat (S j)) with false by lia. cbn [andb]. rewrite Hs'. rewrite IH.
          * replace (S j + n)%nat with (j + S n)%nat by lia. reflexivity.
          * intros i Hi. apply Hq. lia.
          * intros i Hi. apply Hg. lia.
        + replace (min_iter o <=? Z.of_nat (S j)) with true by lia. cbn [andb].
          destruct (conv_all (tol o) (lchk (S j)) (lchk j)) eqn:Ec.
          * rewrite Hs'. reflexivity.
          * rewrite Hs'. rewrite IH.
            -- replace (S j + n)%nat with (j + S n)%nat by lia. reflexivity.
            -- intros i Hi. apply Hq. lia.
            -- intros i Hi. apply Hg. lia.
    Qed.

    Lemma lst_after_srel : forall j, srel ids s1 (lst_after j).
    Proof.
      induction j as [|j IH]; cbn [lst_after]; [apply srel_refl|].
      eapply srel_trans; [exact IH|]. apply iter_step_srel.
    Qed.

    Lemma lst_after_quiet id : forall j, quiet_upto j ->
      status (c_st (l_core (lst_after j))) = status (c_st (l_core s1)) /\
      iters (c_st (l_core (lst_after j))) = iters (c_st (l_core s1)) /\
      l_log (lst_after j) = l_log s1 ++ flat_map (iter_events ids t) (seq 1 j) /\
      view id (l_subs (lst_after j)) =
        option_map (fun si => (fst si, iter_n (j * cnt id ids) (bump_l t) (snd si))) (view id (l_subs s1)).
    Proof.
      induction j as [|j IH]; intros Hq.
      - cbn [lst_after seq flat_map Nat.mul iter_n]. rewrite app_nil_r. repeat split.
        destruct (view id (l_subs s1)) as [[x y]|]; reflexivity.
      - destruct IH as (I1 & I2 & I3 & I4); [intros i Hi; apply Hq; lia|].
        assert (Hs : snd (iter_step ids o t (S j) (lst_after j)) = None).
        { specialize (Hq (S j)). replace (S j - 1)%nat with j in Hq by lia. apply Hq. lia. }
        cbn [lst_after]. destruct (iter_step ids o t (S j) (lst_after j)) as [s' r] eqn:E. cbn [snd] in Hs. subst r.
        cbn [fst]. apply (iter_step_quiet ids o t (S j) (lst_after j) s' id) in E as (A1 & A2 & A3 & A4).
        rewrite A1, A2, A3, A4, I1, I2, I3, I4. repeat split.
        + rewrite seq_S, flat_map_app. cbn [flat_map Nat.add]. rewrite app_nil_r, <- app_assoc. reflexivity.
        + destruct (view id (l_subs s1)) as [[x y]|]; cbn [option_map fst snd]; [|reflexivity].
          rewrite <- iter_n_add. replace (S j * cnt id ids)%nat with (j * cnt id ids + cnt id ids)%nat by lia. reflexivity.
    Qed.
  End OneCall.

  (* ---------------- well-formed linkers: one span length, t inside it ---------------- *)
  (* (the constructor enforces equal spans; status and iterations are series over the span) *)
  Definition comp_ok (t : Z) (p : nat) (c : comp) : Prop :=
    py_pos (length (status (c_st c))) t = Some p /\ length (iters (c_st c)) = length (status (c_st c)).
  Definition subs_ok (t : Z) (p : nat) (l : list (sid * comp)) : Prop := Forall (fun ic => comp_ok t p (snd ic)) l.
  (* no submodel is keyed '_' (Linker.us_id): otherwise its check values replace the linker's own in get_check_values *)
  Definition no_us (l : list (sid * comp)) : Prop := Forall (fun ic => fst ic <> us_id) l.
  Definition wf (t : Z) (p : nat) (s : lstate) : Prop := comp_ok t p (l_core s) /\ subs_ok t p (l_subs s) /\ no_us (l_subs s).
  Definition known (ids : list sid) (l : list (sid * comp)) : Prop := forall id, In id ids -> find_sub id l <> None.

  Lemma comp_ok_crel t p c c' : crel c c' -> comp_ok t p c -> comp_ok t p c'.
  Proof. intros (_ & _ & H3 & H4) [H1 H2]. split; [rewrite H3; exact H1|congruence]. Qed.
  Lemma subs_ok_F2 t p l l' : Forall2 prel l l' -> subs_ok t p l -> subs_ok t p l'.
  Proof.
    induction 1 as [|a b l l' [_ R] _ IH]; intros H; [constructor|]. inversion H; subst.
    constructor; [eapply comp_ok_crel; eauto|apply IH; assumption].
  Qed.
  Lemma wf_srel ids t p s s' : srel ids s s' -> wf t p s -> wf t p s'.
  Proof.
    intros (R1 & R2 & _) (H1 & H2 & H3). split; [eapply comp_ok_crel; eauto|]. split; [eapply subs_ok_F2; eauto|].
    clear - R2 H3. induction R2 as [|a b l l' [E _] _ IH]; [constructor|]. inversion H3 as [|? ? Ha Hl]; subst.
    constructor; [rewrite <- E; exact Ha|apply IH; exact Hl].
  Qed.
  Lemma no_us_shadow ids s : no_us (l_subs s) -> us_shadow num ids s = false.
  Proof.
    intros H. unfold Linker.us_shadow. apply andb_false_iff. right. apply not_true_is_false. intros E.
    apply existsb_exists in E as (ic & Hi & Hk). apply Nat.eqb_eq in Hk. unfold no_us in H. rewrite Forall_forall in H. exact (H ic Hi Hk).
  Qed.
  Lemma known_F2 ids l l' : Forall2 prel l l' -> known ids l -> known ids l'.
  Proof.
    intros HF Hk id Hi. specialize (Hk id Hi). pose proof (F2_find num l l' id HF) as H.
    destruct (find_sub id l); [|contradiction]. destruct (find_sub id l'); [discriminate|contradiction].
  Qed.
  Lemma find_sub_ok t p id l c : subs_ok t p l -> find_sub id l = Some c -> comp_ok t p c.
  Proof.
    induction 1 as [|[i x] r Hx _ IH]; cbn [Linker.find_sub]; [discriminate|].
    destruct (Nat.eqb id i); [intros H; inversion H; subst; exact Hx|exact IH].
  Qed.

  (* the check values read under wf: one vector per container, '_' first, selected submodels in insertion order *)
  Definition check_of (p : nat) (c : comp) : list num := get_check num zero (c_desc c) (vals_of (c_st c)) p.
  Definition check_vec (ids : list sid) (p : nat) (s : lstate) : list (list num) :=
    check_of p (l_core s) :: map (fun ic => check_of p (snd ic)) (filter (fun ic => selected ids (fst ic)) (l_subs s)).

  Lemma comp_check_ok t p c : comp_ok t p c -> comp_check c t = inl (check_of p c).
  Proof.
    intros [Hp _]. unfold Linker.comp_check, check_of. rewrite Hp.
    destruct (check (c_desc c)) eqn:E; [|reflexivity]. unfold get_check. rewrite E. reflexivity.
  Qed.
  Lemma gcv_wf ids t p s : wf t p s -> get_check_values ids t s = inl (check_vec ids p s).
  Proof.
    intros (Hc & Hs & Hnu). unfold Linker.get_check_values, check_vec. rewrite (comp_check_ok t p _ Hc), (no_us_shadow ids s Hnu).
    clear Hnu.
    assert (H : subs_check ids t (l_subs s) =
                inl (map (fun ic => check_of p (snd ic)) (filter (fun ic => selected ids (fst ic)) (l_subs s)))).
    { induction Hs as [|[i x] r Hx _ IH]; cbn [Linker.subs_check filter map fst snd]; [reflexivity|].
      cbn [snd] in Hx. destruct (selected ids i); [|exact IH].
      rewrite (comp_check_ok t p _ Hx), IH. reflexivity. }
    rewrite H. reflexivity.
  Qed.

  Lemma set_iter_ok t p c x : comp_ok t p c ->
    set_iter c t x = Some (mkComp (c_desc c) (mkState (vals_of (c_st c)) (status (c_st c)) (upd p x (iters (c_st c))) (log (c_st c)))).
  Proof.
    intros [Hp Hl]. unfold Linker.set_iter. rewrite (py_set_pos _ t p x); [reflexivity|]. rewrite Hl. exact Hp.
  Qed.
  Lemma set_status_ok t p c x : comp_ok t p c ->
    set_status c t x = Some (mkComp (c_desc c) (mkState (vals_of (c_st c)) (upd p x (status (c_st c))) (iters (c_st c)) (log (c_st c)))).
  Proof. intros [Hp Hl]. unfold Linker.set_status. rewrite (py_set_pos _ t p x Hp). reflexivity. Qed.

  Lemma known_put ids a c' l : known ids l -> known ids (put_sub a c' l).
  Proof.
    intros Hk id Hi. specialize (Hk id Hi). destruct (Nat.eq_dec id a) as [->|Hne].
    - rewrite find_put_same. destruct (find_sub a l); [discriminate|contradiction].
    - rewrite find_put_other by exact Hne. exact Hk.
  Qed.

  (* ---- zeroing the counters ---- *)
  Lemma zero_iters_ok t p : forall ids subs, subs_ok t p subs -> known ids subs ->
    exists subs1, zero_iters ids t subs = (subs1, None).
  Proof.
    induction ids as [|a r IH]; intros subs Hok Hk; cbn [Linker.zero_iters]; [eexists; reflexivity|].
    destruct (find_sub a subs) as [c|] eqn:Ef; [|exfalso; apply (Hk a); [left; reflexivity|exact Ef]].
    rewrite (set_iter_ok t p c 0 (find_sub_ok t p a subs c Hok Ef)). apply IH.
    - eapply subs_ok_F2; [|exact Hok]. eapply F2_put_sub; [exact Ef|]. repeat split. cbn [c_st iters]. apply upd_length.
    - apply known_put. intros id Hi. apply Hk. right. exact Hi.
  Qed.

  Lemma zero_iters_known t : forall ids subs subs1, zero_iters ids t subs = (subs1, None) -> known ids subs.
  Proof.
    induction ids as [|a r IH]; intros subs subs1 H id Hi; [destruct Hi|]. cbn [Linker.zero_iters] in H.
    destruct (find_sub a subs) as [c|] eqn:Ef; [|discriminate].
    destruct (set_iter c t 0) as [c'|]; [|discriminate].
    destruct Hi as [->|Hi]; [rewrite Ef; discriminate|].
    specialize (IH _ _ H id Hi). destruct (Nat.eq_dec id a) as [->|Hne]; [rewrite Ef; discriminate|].
    rewrite find_put_other in IH by exact Hne. exact IH.
  Qed.

  Lemma selected_cons ids a id : selected (a :: ids) id = Nat.eqb id a || selected ids id.
  Proof. reflexivity. Qed.

  Lemma zero_iters_view t id : forall ids subs subs1, zero_iters ids t subs = (subs1, None) ->
    view id subs1 = option_map (fun si => (fst si, if selected ids id then zero_l t (snd si) else snd si)) (view id subs)
    /\ vview id subs1 = vview id subs.
  Proof.
    induction ids as [|a r IH]; intros subs subs1 H; cbn [Linker.zero_iters] in H.
    - inversion H; subst. split; [|reflexivity]. destruct (view id subs1) as [[x y]|]; reflexivity.
    - destruct (find_sub a subs) as [c|] eqn:Ef; [|discriminate].
      destruct (set_iter c t 0) as [c'|] eqn:Es; [|discriminate].
      apply IH in H as [Hv Hvv]. rewrite Hv, Hvv. rewrite selected_cons.
      assert (Hc' : status (c_st c') = status (c_st c) /\ iters (c_st c') = zero_l t (iters (c_st c)) /\ vals_of (c_st c') = vals_of (c_st c)).
      { unfold Linker.set_iter in Es. unfold zero_l. destruct (py_set (iters (c_st c)) t 0); [|discriminate].
        inversion Es; subst. repeat split. }
      destruct Hc' as (E1 & E2 & E3).
      destruct (Nat.eqb id a) eqn:E.
      + apply Nat.eqb_eq in E. subst a. rewrite (view_put_same id c c' _ Ef), (vview_put_same id c c' _ Ef).
        unfold view, vview. rewrite Ef. cbn [option_map fst snd orb]. rewrite E1, E2, E3. split; [|reflexivity].
        destruct (selected r id); [rewrite zero_l_idem|]; reflexivity.
      + apply Nat.eqb_neq in E. rewrite view_put_other, vview_put_other by exact E. split; reflexivity.
  Qed.

  (* ---- stamping the submodels ---- *)
  Lemma stamp_subs_ok t p x : forall ids subs, subs_ok t p subs -> known ids subs ->
    exists subs', stamp_subs ids t x subs = (subs', None).
  Proof.
    induction ids as [|a r IH]; intros subs Hok Hk; cbn [Linker.stamp_subs]; [eexists; reflexivity|].
    destruct (find_sub a subs) as [c|] eqn:Ef; [|exfalso; apply (Hk a); [left; reflexivity|exact Ef]].
    rewrite (set_status_ok t p c x (find_sub_ok t p a subs c Hok Ef)). apply IH.
    - eapply subs_ok_F2; [|exact Hok]. eapply F2_put_sub; [exact Ef|]. repeat split. cbn [c_st status]. apply upd_length.
    - apply known_put. intros id Hi. apply Hk. right. exact Hi.
  Qed.

  Lemma stamp_subs_view t x id : forall ids subs subs', stamp_subs ids t x subs = (subs', None) ->
    view id subs' = option_map (fun si => (if selected ids id then stamp_l t x (fst si) else fst si, snd si)) (view id subs)
    /\ vview id subs' = vview id subs.
  Proof.
    induction ids as [|a r IH]; intros subs subs' H; cbn [Linker.stamp_subs] in H.
    - inversion H; subst. split; [|reflexivity]. destruct (view id subs') as [[u v]|]; reflexivity.
    - destruct (find_sub a subs) as [c|] eqn:Ef; [|discriminate].
      destruct (set_status c t x) as [c'|] eqn:Es; [|discriminate].
      apply IH in H as [Hv Hvv]. rewrite Hv, Hvv. rewrite selected_cons.
      assert (Hc' : status (c_st c') = stamp_l t x (status (c_st c)) /\ iters (c_st c') = iters (c_st c) /\ vals_of (c_st c') = vals_of (c_st c)).
      { unfold Linker.set_status in Es. unfold stamp_l. destruct (py_set (status (c_st c)) t x); [|discriminate].
        inversion Es; subst. repeat split. }
      destruct Hc' as (E1 & E2 & E3).
      destruct (Nat.eqb id a) eqn:E.
      + apply Nat.eqb_eq in E. subst a. rewrite (view_put_same id c c' _ Ef), (vview_put_same id c c' _ Ef).
        unfold view, vview. rewrite Ef. cbn [option_map fst snd orb]. rewrite E1, E2, E3. split; [|reflexivity].
        destruct (selected r id); [rewrite stamp_l_idem|]; reflexivity.
      + apply Nat.eqb_neq in E. rewrite view_put_other, vview_put_other by exact E. split; reflexivity.
  Qed.

  (* ---- the final bookkeeping ---- *)
  Lemma lfinish_done o ids t p s x k :
    wf t p s -> known ids (l_subs s) ->
    exists s',
      lfinish o ids t (LLDone s x k) =
        (s', if st_eqb x Failed && fail_raise o then LRaise (LExn NonConvergenceError) else LRet (st_eqb x Solved)) /\
      status (c_st (l_core s')) = upd p x (status (c_st (l_core s))) /\
      iters (c_st (l_core s')) = upd p (Z.of_nat k) (iters (c_st (l_core s))) /\
      vals_of (c_st (l_core s')) = vals_of (c_st (l_core s)) /\
      l_log s' = l_log s /\
      (forall id, view id (l_subs s') =
                  option_map (fun si => (if selected ids id then stamp_l t x (fst si) else fst si, snd si)) (view id (l_subs s))) /\
      (forall id, vview id (l_subs s') = vview id (l_subs s)).
  Proof.
    intros (Hc & Hs & _) Hk. cbn [Linker.lfinish]. rewrite (set_status_ok t p _ x Hc).
    match goal with |- context [set_iter ?c1 t ?v] => assert (Hc1 : comp_ok t p c1) end.
    { destruct Hc as [H1 H2]. split; cbn [c_st status iters]; rewrite upd_length; assumption. }
    rewrite (set_iter_ok t p _ (Z.of_nat k) Hc1). cbn [c_desc c_st vals_of status iters log].
    destruct (stamp_subs_ok t p x ids (l_subs s) Hs Hk) as [subs' Hst]. rewrite Hst.
    eexists. split.
    - destruct (st_eqb x Failed && fail_raise o); reflexivity.
    - cbn [l_core l_subs l_log c_st status iters vals_of]. repeat split.
      + intros id. apply (stamp_subs_view t x id ids _ _ Hst).
      + intros id. apply (stamp_subs_view t x id ids _ _ Hst).
  Qed.

  (* ================= the call as a whole, when nothing raises ================= *)
  Theorem solve_t_quiet_spec sel o t s c0 subs1 s1 :
    let ids := sel_ids num sel s in
    let N := Z.to_nat (max_iter o) in
    get_check_values ids t s = inl c0 ->
    zero_iters ids t (l_subs s) = (subs1, None) ->
    run_hook pre ids o t 0%nat (LPre t) (mkL (l_core s) subs1 (l_log s)) = (s1, None) ->
    quiet_upto ids o t s1 N ->
    solve_t sel o t s =
    lfinish o ids t
      (match find_first (lconvk ids o t c0 s1) 1 N with
       | Some k0 => match run_hook post ids o t k0 (LPost t k0) (lst_after ids o t s1 k0) with
                    | (s2, Some e) => LLRaise s2 e
                    | (s2, None) => LLDone s2 Solved k0
                    end
       | None => LLDone (lst_after ids o t s1 N) Failed N
       end).
  Proof.
    intros ids N Hc Hz Hp Hq. unfold Linker.linker_solve_t_body. fold ids. rewrite Hc, Hz, Hp. fold N.
    pose proof (lloop_spec ids o t c0 s1 N 0) as HL. cbn [lst_after lchk Nat.add] in HL. rewrite HL; [reflexivity| |].
    - intros i Hi. apply Hq. lia.
    - intros i Hi.
      assert (R : srel ids s (lst_after ids o t s1 i)).
      { eapply srel_trans; [|apply lst_after_srel].
        pose proof (run_hook_srel num pre ids ids o t 0%nat (LPre t) (mkL (l_core s) subs1 (l_log s)) I) as R1.
        rewrite Hp in R1. cbn [fst] in R1. eapply srel_trans; [|exact R1].
        split; [apply crel_refl|]. split; [|apply log_ext_eq; reflexivity].
        pose proof (zero_iters_F2 num t ids (l_subs s)) as HF. rewrite Hz in HF. exact HF. }
      clear - R Hc. destruct R as (R1 & R2 & _).
      (* success of get_check_values depends only on descriptors and series lengths *)
      assert (CC : forall c c', crel c c' -> forall x, comp_check c t = inl x -> exists x', comp_check c' t = inl x').
      { intros c c' (D & _ & L & _) x. unfold Linker.comp_check. rewrite D, L.
        destruct (check (c_desc c)); [eauto|]. destruct (py_pos _ t); [eauto|discriminate]. }
      unfold Linker.get_check_values in *.
      destruct (comp_check (l_core s) t) as [x0|] eqn:E0; [|discriminate].
      destruct (CC _ _ R1 _ E0) as [x0' E0']. rewrite E0'.
      destruct (subs_check ids t (l_subs s)) as [xs|] eqn:Es; [|discriminate]. clear Hc E0 E0'.
      assert (SS : exists xs', subs_check ids t (l_subs (lst_after ids o t s1 i)) = inl xs').
      { revert xs Es. induction R2 as [|[a ca] [b cb] l l' [Ek Rc] _ IH]; intros xs Es; cbn [Linker.subs_check] in *; [eauto|].
        cbn [fst snd] in Ek, Rc. subst b. destruct (selected ids a).
        - destruct (comp_check ca t) as [y|] eqn:Ey; [|discriminate].
          destruct (CC _ _ Rc _ Ey) as [y' Ey']. rewrite Ey'.
          destruct (subs_check ids t l) as [ys|] eqn:Eys; [|discriminate].
          destruct (IH _ eq_refl) as [ys' Eys']. rewrite Eys'. eauto.
        - eapply IH; eauto. }
      destruct SS as [xs' Exs']. rewrite Exs'. eauto.
  Qed.

  (* the state a quiet call ends in, for either way the loop can end *)
  Lemma quiet_final sel o t p s subs1 s1 s2 x k :
    let ids := sel_ids num sel s in
    wf t p s ->
    zero_iters ids t (l_subs s) = (subs1, None) ->
    run_hook pre ids o t 0%nat (LPre t) (mkL (l_core s) subs1 (l_log s)) = (s1, None) ->
    srel ids s1 s2 ->
    status (c_st (l_core s2)) = status (c_st (l_core s1)) -> iters (c_st (l_core s2)) = iters (c_st (l_core s1)) ->
    (forall id, view id (l_subs s2) =
                option_map (fun si => (fst si, iter_n (k * cnt id ids) (bump_l t) (snd si))) (view id (l_subs s1))) ->
    exists s',
      lfinish o ids t (LLDone s2 x k) =
        (s', if st_eqb x Failed && fail_raise o then LRaise (LExn NonConvergenceError) else LRet (st_eqb x Solved)) /\
      status (c_st (l_core s')) = upd p x (status (c_st (l_core s))) /\
      iters (c_st (l_core s')) = upd p (Z.of_nat k) (iters (c_st (l_core s))) /\
      vals_of (c_st (l_core s')) = vals_of (c_st (l_core s2)) /\
      l_log s' = l_log s2 /\
      (forall id, vview id (l_subs s') = vview id (l_subs s2)) /\
      (forall id c, find_sub id (l_subs s) = Some c ->
         exists c', find_sub id (l_subs s') = Some c' /\
           status (c_st c') = (if selected ids id then upd p x (status (c_st c)) else status (c_st c)) /\
           iters (c_st c') = (if selected ids id then upd p (Z.of_nat (k * cnt id ids)) (iters (c_st c)) else iters (c_st c))).
  Proof.
    intros ids Hwf Hz Hp R12 Cs Ci Hv.
    assert (R01 : srel ids s s1).
    { pose proof (run_hook_srel num pre ids ids o t 0%nat (LPre t) (mkL (l_core s) subs1 (l_log s)) I) as R1.
      rewrite Hp in R1. cbn [fst] in R1. eapply srel_trans; [|exact R1].
      split; [apply crel_refl|]. split; [|apply log_ext_eq; reflexivity].
      pose proof (zero_iters_F2 num t ids (l_subs s)) as HF. rewrite Hz in HF. exact HF. }
    assert (R02 : srel ids s s2) by (eapply srel_trans; eauto).
    pose proof (wf_srel ids t p s s2 R02 Hwf) as Hwf2.
    assert (Hk2 : known ids (l_subs s2)).
    { destruct R02 as (_ & F & _). eapply known_F2; [exact F|]. eapply zero_iters_known; eauto. }
    destruct (lfinish_done o ids t p s2 x k Hwf2 Hk2) as (s' & E & A1 & A2 & A3 & A4 & A5 & A6).
    exists s'. split; [exact E|].
    pose proof (run_hook_core pre ids o t 0%nat (LPre t) (mkL (l_core s) subs1 (l_log s))) as [P1 P2].
    rewrite Hp in P1, P2. cbn [fst l_core] in P1, P2.
    split; [rewrite A1, Cs, P1; reflexivity|]. split; [rewrite A2, Ci, P2; reflexivity|].
    split; [exact A3|]. split; [exact A4|]. split; [exact A6|].
    intros id c Hf.
    pose proof (run_hook_view pre ids o t 0%nat (LPre t) (mkL (l_core s) subs1 (l_log s)) id) as V1.
    rewrite Hp in V1. cbn [fst l_subs] in V1.
    destruct (zero_iters_view t id ids _ _ Hz) as [V0 _].
    specialize (A5 id). rewrite (Hv id), V1, V0 in A5. unfold view in A5 at 2. rewrite Hf in A5.
    cbn [option_map fst snd] in A5. unfold view in A5.
    destruct (find_sub id (l_subs s')) as [c'|]; [|discriminate]. exists c'. split; [reflexivity|].
    cbn [option_map] in A5. inversion A5 as [[B1 B2]]. clear A5.
    destruct Hwf as (_ & Hsub & _). destruct (find_sub_ok t p id _ c Hsub Hf) as [Hp1 Hp2].
    destruct (selected ids id) eqn:Es.
    - split; [rewrite B1; apply stamp_l_pos; exact Hp1|].
      assert (Hpi : py_pos (length (iters (c_st c))) t = Some p) by (rewrite Hp2; exact Hp1).
      rewrite B2, (zero_l_pos _ t p Hpi), (iter_bump_upd _ t p Hpi), Z.add_0_l. reflexivity.
    - split; [exact B1|]. rewrite B2, (cnt_unselected ids id Es), Nat.mul_0_r. reflexivity.
  Qed.

  (* Stops at the LEAST k in [max 1 min_iter, max_iter] at which every check variable of the linker and of every
     selected submodel moved by strictly less than tol: returns True, stamps '.', k on the linker, '.' on every
     selected submodel whose counter reads k times the number of times it is listed; one pre-hook, k complete
     iterations (before, submodels in selection order, after), one post-hook. *)
  Theorem linker_converges_at_least_k sel o t p s subs1 s1 k0 :
    let ids := sel_ids num sel s in
    let N := Z.to_nat (max_iter o) in
    let c0 := check_vec ids p s in
    wf t p s ->
    zero_iters ids t (l_subs s) = (subs1, None) ->
    run_hook pre ids o t 0%nat (LPre t) (mkL (l_core s) subs1 (l_log s)) = (s1, None) ->
    quiet_upto ids o t s1 N ->
    (forall k s', snd (run_hook post ids o t k (LPost t k) s') = None) ->
    (1 <= k0 <= N)%nat -> lconvk ids o t c0 s1 k0 = true ->
    (forall j, (1 <= j < k0)%nat -> lconvk ids o t c0 s1 j = false) ->
    let r := solve_t sel o t s in
    let s2 := fst (run_hook post ids o t k0 (LPost t k0) (lst_after ids o t s1 k0)) in
    snd r = LRet true /\
    status (c_st (l_core (fst r))) = upd p Solved (status (c_st (l_core s))) /\
    iters (c_st (l_core (fst r))) = upd p (Z.of_nat k0) (iters (c_st (l_core s))) /\
    vals_of (c_st (l_core (fst r))) = vals_of (c_st (l_core s2)) /\
    (forall id, vview id (l_subs (fst r)) = vview id (l_subs s2)) /\
    l_log (fst r) = l_log s ++ [LPre t] ++ flat_map (iter_events ids t) (seq 1 k0) ++ [LPost t k0] /\
    (forall id c, find_sub id (l_subs s) = Some c ->
       exists c', find_sub id (l_subs (fst r)) = Some c' /\
         status (c_st c') = (if selected ids id then upd p Solved (status (c_st c)) else status (c_st c)) /\
         iters (c_st c') = (if selected ids id then upd p (Z.of_nat (k0 * cnt id ids)) (iters (c_st c)) else iters (c_st c))).
  Proof.
    intros ids N c0 Hwf Hz Hp Hq Hpost Hk0 Hconv Hleast r s2.
    assert (EF : find_first (lconvk ids o t c0 s1) 1 N = Some k0).
    { apply find_first_some. repeat split; try lia; auto. }
    pose proof (solve_t_quiet_spec sel o t s c0 subs1 s1 (gcv_wf ids t p s Hwf) Hz Hp Hq) as HS.
    cbv zeta in HS. fold ids N in HS. rewrite EF in HS.
    specialize (Hpost k0 (lst_after ids o t s1 k0)).
    pose proof (run_hook_log post ids o t k0 (LPost t k0) (lst_after ids o t s1 k0)) as PL.
    pose proof (run_hook_core post ids o t k0 (LPost t k0) (lst_after ids o t s1 k0)) as [PC1 PC2].
    pose proof (run_hook_srel num post ids ids o t k0 (LPost t k0) (lst_after ids o t s1 k0) I) as PR.
    assert (PV : forall id, view id (l_subs s2) = view id (l_subs (lst_after ids o t s1 k0))) by (intros id; apply run_hook_view).
    fold s2 in PL, PC1, PC2, PR. subst r.
    destruct (run_hook post ids o t k0 (LPost t k0) (lst_after ids o t s1 k0)) as [s2' r2] eqn:E2.
    cbn [snd] in Hpost. subst r2. cbn [fst] in s2. subst s2.
    assert (Hq0 : quiet_upto ids o t s1 k0) by (intros i Hi; apply Hq; lia).
    destruct (quiet_final sel o t p s subs1 s1 s2' Solved k0 Hwf Hz Hp) as (s' & E & A1 & A2 & A3 & A4 & A5 & A6).
    - eapply srel_trans; [apply lst_after_srel|exact PR].
    - rewrite PC1. apply (lst_after_quiet ids o t s1 0%nat k0 Hq0).
    - rewrite PC2. apply (lst_after_quiet ids o t s1 0%nat k0 Hq0).
    - intros id. rewrite PV. apply (lst_after_quiet ids o t s1 id k0 Hq0).
    - rewrite HS. fold ids in E. rewrite E. cbn [fst snd st_eqb andb].
      split; [reflexivity|]. split; [exact A1|]. split; [exact A2|]. split; [exact A3|]. split; [exact A5|].
      split; [|exact A6].
      rewrite A4, PL. destruct (lst_after_quiet ids o t s1 0%nat k0 Hq0) as (_ & _ & L & _). rewrite L.
      pose proof (run_hook_log pre ids o t 0%nat (LPre t) (mkL (l_core s) subs1 (l_log s))) as L0.
      rewrite Hp in L0. cbn [fst l_log] in L0. rewrite L0. rewrite <- !app_assoc. reflexivity.
  Qed.

  (* No k in [max 1 min_iter, max_iter] qualifies (in particular: max_iter <= 0, or min_iter > max_iter — the linker's
     solve_t has no guard for that): max_iter complete iterations, no post-hook, 'F' and max_iter stamped,
     NonConvergenceError iff failures='raise', otherwise False. *)
  Theorem linker_fails_when_no_k sel o t p s subs1 s1 :
    let ids := sel_ids num sel s in
    let N := Z.to_nat (max_iter o) in
    let c0 := check_vec ids p s in
    wf t p s ->
    zero_iters ids t (l_subs s) = (subs1, None) ->
    run_hook pre ids o t 0%nat (LPre t) (mkL (l_core s) subs1 (l_log s)) = (s1, None) ->
    quiet_upto ids o t s1 N ->
    (forall j, (1 <= j <= N)%nat -> lconvk ids o t c0 s1 j = false) ->
    let r := solve_t sel o t s in
    let s2 := lst_after ids o t s1 N in
    snd r = (if fail_raise o then LRaise (LExn NonConvergenceError) else LRet false) /\
    status (c_st (l_core (fst r))) = upd p Failed (status (c_st (l_core s))) /\
    iters (c_st (l_core (fst r))) = upd p (Z.of_nat N) (iters (c_st (l_core s))) /\
    vals_of (c_st (l_core (fst r))) = vals_of (c_st (l_core s2)) /\
    (forall id, vview id (l_subs (fst r)) = vview id (l_subs s2)) /\
    l_log (fst r) = l_log s ++ [LPre t] ++ flat_map (iter_events ids t) (seq 1 N) /\
    (forall id c, find_sub id (l_subs s) = Some c ->
       exists c', find_sub id (l_subs (fst r)) = Some c' /\
         status (c_st c') = (if selected ids id then upd p Failed (status (c_st c)) else status (c_st c)) /\
         iters (c_st c') = (if selected ids id then upd p (Z.of_nat (N * cnt id ids)) (iters (c_st c)) else iters (c_st c))).
  Proof.
    intros ids N c0 Hwf Hz Hp Hq Hnone r s2.
    assert (EF : find_first (lconvk ids o t c0 s1) 1 N = None).
    { apply find_first_none. intros j Hj. apply Hnone. lia. }
    pose proof (solve_t_quiet_spec sel o t s c0 subs1 s1 (gcv_wf ids t p s Hwf) Hz Hp Hq) as HS.
    cbv zeta in HS. fold ids N in HS. rewrite EF in HS. subst r.
    destruct (quiet_final sel o t p s subs1 s1 s2 Failed N Hwf Hz Hp) as (s' & E & A1 & A2 & A3 & A4 & A5 & A6).
    - apply lst_after_srel.
    - apply (lst_after_quiet ids o t s1 0%nat N Hq).
    - apply (lst_after_quiet ids o t s1 0%nat N Hq).
    - intros id. apply (lst_after_quiet ids o t s1 id N Hq).
    - rewrite HS. fold ids in E. fold s2. rewrite E. cbn [fst snd st_eqb andb].
      split; [destruct (fail_raise o); reflexivity|]. split; [exact A1|]. split; [exact A2|]. split; [exact A3|].
      split; [exact A5|]. split; [|exact A6].
      rewrite A4. destruct (lst_after_quiet ids o t s1 0%nat N Hq) as (_ & _ & L & _). unfold s2. rewrite L.
      pose proof (run_hook_log pre ids o t 0%nat (LPre t) (mkL (l_core s) subs1 (l_log s))) as L0.
      rewrite Hp in L0. cbn [fst l_log] in L0. rewrite L0. rewrite <- !app_assoc. reflexivity.
  Qed.

  (* ---- order of events, whichever way the loop ends (and even if the post-hook or the final stamping raises) ---- *)
  Lemma lfinish_log o ids t r : l_log (fst (lfinish o ids t r)) = l_log (llres_state num r).
  Proof.
    destruct r as [s x k|s e]; cbn [Linker.lfinish llres_state fst]; [|reflexivity].
    destruct (set_status (l_core s) t x) as [c1|]; [|reflexivity].
    destruct (set_iter c1 t (Z.of_nat k)) as [c2|]; [|reflexivity].
    destruct (stamp_subs ids t x (l_subs s)) as [subs' [e|]]; [reflexivity|].
    destruct (st_eqb x Failed && fail_raise o); reflexivity.
  Qed.

  (* one pre-hook; then per iteration k = 1, 2, ...: Before_k, one evaluation of every listed submodel in the order
     listed, After_k; the post-hook once, right after the converging iteration, and only then *)
  Theorem linker_event_order sel o t s c0 subs1 s1 :
    let ids := sel_ids num sel s in
    let N := Z.to_nat (max_iter o) in
    get_check_values ids t s = inl c0 ->
    zero_iters ids t (l_subs s) = (subs1, None) ->
    run_hook pre ids o t 0%nat (LPre t) (mkL (l_core s) subs1 (l_log s)) = (s1, None) ->
    quiet_upto ids o t s1 N ->
    l_log (fst (solve_t sel o t s)) =
    l_log s ++ [LPre t] ++
    match find_first (lconvk ids o t c0 s1) 1 N with
    | Some k0 => flat_map (iter_events ids t) (seq 1 k0) ++ [LPost t k0]
    | None => flat_map (iter_events ids t) (seq 1 N)
    end.
  Proof.
    intros ids N Hc Hz Hp Hq. rewrite (solve_t_quiet_spec sel o t s c0 subs1 s1 Hc Hz Hp Hq). fold ids N.
    rewrite lfinish_log.
    pose proof (run_hook_log pre ids o t 0%nat (LPre t) (mkL (l_core s) subs1 (l_log s))) as L0.
    rewrite Hp in L0. cbn [fst l_log] in L0.
    destruct (find_first (lconvk ids o t c0 s1) 1 N) as [k0|] eqn:EF.
    - apply find_first_some in EF as (Hr & _ & _).
      assert (Hq0 : quiet_upto ids o t s1 k0) by (intros i Hi; apply Hq; lia).
      pose proof (run_hook_log post ids o t k0 (LPost t k0) (lst_after ids o t s1 k0)) as PL.
      destruct (run_hook post ids o t k0 (LPost t k0) (lst_after ids o t s1 k0)) as [s2 [e|]]; cbn [fst llres_state] in *;
        rewrite PL; destruct (lst_after_quiet ids o t s1 0%nat k0 Hq0) as (_ & _ & L & _); rewrite L, L0, <- !app_assoc; reflexivity.
    - cbn [llres_state]. destruct (lst_after_quiet ids o t s1 0%nat N Hq) as (_ & _ & L & _). rewrite L, L0, <- !app_assoc. reflexivity.
  Qed.

  (* ---- the same status on the linker and on every selected submodel; equal iteration counts ---- *)
  Theorem linker_status_stamped sel o t p s subs1 s1 :
    let ids := sel_ids num sel s in
    let N := Z.to_nat (max_iter o) in
    wf t p s ->
    zero_iters ids t (l_subs s) = (subs1, None) ->
    run_hook pre ids o t 0%nat (LPre t) (mkL (l_core s) subs1 (l_log s)) = (s1, None) ->
    quiet_upto ids o t s1 N ->
    (forall k s', snd (run_hook post ids o t k (LPost t k) s') = None) ->
    let r := solve_t sel o t s in
    exists x k,
      nth_error (status (c_st (l_core (fst r)))) p = Some x /\
      nth_error (iters (c_st (l_core (fst r)))) p = Some (Z.of_nat k) /\
      (x = Solved \/ x = Failed) /\ (snd r = LRet true <-> x = Solved) /\
      forall id, In id ids ->
        exists c', find_sub id (l_subs (fst r)) = Some c' /\
          nth_error (status (c_st c')) p = Some x /\
          (* the submodel's counter = the linker's, times the number of times the submodel is listed *)
          nth_error (iters (c_st c')) p = Some (Z.of_nat (k * cnt id ids)) /\
          (NoDup ids -> nth_error (iters (c_st c')) p = nth_error (iters (c_st (l_core (fst r)))) p).
  Proof.
    intros ids N Hwf Hz Hp Hq Hpost r.
    pose proof (zero_iters_known t ids _ _ Hz) as Hknown.
    assert (Hlt : forall c, comp_ok t p c -> (p < length (status (c_st c)))%nat /\ (p < length (iters (c_st c)))%nat).
    { intros c [H1 H2]. pose proof (py_pos_lt _ _ _ H1). lia. }
    assert (Fin : forall x k,
      status (c_st (l_core (fst r))) = upd p x (status (c_st (l_core s))) ->
      iters (c_st (l_core (fst r))) = upd p (Z.of_nat k) (iters (c_st (l_core s))) ->
      (forall id c, find_sub id (l_subs s) = Some c ->
         exists c', find_sub id (l_subs (fst r)) = Some c' /\
           status (c_st c') = (if selected ids id then upd p x (status (c_st c)) else status (c_st c)) /\
           iters (c_st c') = (if selected ids id then upd p (Z.of_nat (k * cnt id ids)) (iters (c_st c)) else iters (c_st c))) ->
      nth_error (status (c_st (l_core (fst r)))) p = Some x /\
      nth_error (iters (c_st (l_core (fst r)))) p = Some (Z.of_nat k) /\
      forall id, In id ids ->
        exists c', find_sub id (l_subs (fst r)) = Some c' /\
          nth_error (status (c_st c')) p = Some x /\
          nth_error (iters (c_st c')) p = Some (Z.of_nat (k * cnt id ids)) /\
          (NoDup ids -> nth_error (iters (c_st c')) p = nth_error (iters (c_st (l_core (fst r)))) p)).
    { intros x k E1 E2 E3. destruct Hwf as (Hc & Hs & _). destruct (Hlt _ Hc) as [L1 L2].
      rewrite E1, E2. split; [apply nth_error_upd_eq; exact L1|]. split; [apply nth_error_upd_eq; exact L2|].
      intros id Hi. destruct (find_sub id (l_subs s)) as [c|] eqn:Ef; [|exfalso; apply (Hknown id Hi); exact Ef].
      destruct (E3 id c Ef) as (c' & F & S1 & S2). exists c'. split; [exact F|].
      rewrite (selected_in ids id Hi) in S1, S2. destruct (Hlt _ (find_sub_ok t p id _ c Hs Ef)) as [M1 M2].
      rewrite S1, S2. split; [apply nth_error_upd_eq; exact M1|]. split; [apply nth_error_upd_eq; exact M2|].
      intros Hnd. rewrite (cnt_nodup ids id Hnd Hi), Nat.mul_1_r. rewrite !nth_error_upd_eq by assumption. reflexivity. }
    destruct (find_first (lconvk ids o t (check_vec ids p s) s1) 1 N) as [k0|] eqn:EF.
    - apply find_first_some in EF as (Hr & Hcv & Hleast).
      destruct (linker_converges_at_least_k sel o t p s subs1 s1 k0 Hwf Hz Hp Hq Hpost) as (R & A1 & A2 & _ & _ & _ & A6);
        [lia|exact Hcv|intros j Hj; apply Hleast; lia|].
      exists Solved, k0. destruct (Fin Solved k0 A1 A2 A6) as (F1 & F2 & F3).
      split; [exact F1|]. split; [exact F2|]. split; [left; reflexivity|]. split; [|exact F3].
      fold r in R. rewrite R. split; reflexivity.
    - assert (Hnone : forall j, (1 <= j <= N)%nat -> lconvk ids o t (check_vec ids p s) s1 j = false).
      { intros j Hj. eapply find_first_none in EF; [exact EF|lia]. }
      destruct (linker_fails_when_no_k sel o t p s subs1 s1 Hwf Hz Hp Hq Hnone) as (R & A1 & A2 & _ & _ & _ & A6).
      exists Failed, N. destruct (Fin Failed N A1 A2 A6) as (F1 & F2 & F3).
      split; [exact F1|]. split; [exact F2|]. split; [right; reflexivity|]. split; [|exact F3].
      fold r in R. rewrite R. split; [destruct (fail_raise o); discriminate|discriminate].
  Qed.

  (* ---- max_iter <= 0 (after fix b545cbb): no iteration, no post-hook, 'F' and 0 iterations ---- *)
  Corollary linker_maxiter0 sel o t p s subs1 s1 :
    let ids := sel_ids num sel s in
    max_iter o <= 0 -> wf t p s ->
    zero_iters ids t (l_subs s) = (subs1, None) ->
    run_hook pre ids o t 0%nat (LPre t) (mkL (l_core s) subs1 (l_log s)) = (s1, None) ->
    let r := solve_t sel o t s in
    snd r = (if fail_raise o then LRaise (LExn NonConvergenceError) else LRet false) /\
    status (c_st (l_core (fst r))) = upd p Failed (status (c_st (l_core s))) /\
    iters (c_st (l_core (fst r))) = upd p 0 (iters (c_st (l_core s))) /\
    l_log (fst r) = l_log s ++ [LPre t] /\
    (forall id c, find_sub id (l_subs s) = Some c ->
       exists c', find_sub id (l_subs (fst r)) = Some c' /\
         status (c_st c') = (if selected ids id then upd p Failed (status (c_st c)) else status (c_st c)) /\
         iters (c_st c') = (if selected ids id then upd p 0 (iters (c_st c)) else iters (c_st c))).
  Proof.
    intros ids Hmax Hwf Hz Hp r.
    assert (HN : Z.to_nat (max_iter o) = 0%nat) by lia.
    destruct (linker_fails_when_no_k sel o t p s subs1 s1 Hwf Hz Hp) as (R & A1 & A2 & _ & _ & A5 & A6).
    - intros i Hi. fold ids in Hi. lia.
    - intros j Hj. lia.
    - fold ids in A5, A6. rewrite HN in A2, A5, A6. cbn [seq flat_map Nat.mul Z.of_nat] in A2, A5, A6. rewrite app_nil_r in A5.
      split; [exact R|]. split; [exact A1|]. split; [exact A2|]. split; [exact A5|exact A6].
  Qed.

  (* ---- min_iter > max_iter: solve_t has no guard (only solve() has one): the period can never be declared solved ---- *)
  Corollary linker_min_gt_max_never_solved sel o t p s subs1 s1 :
    let ids := sel_ids num sel s in
    max_iter o < min_iter o -> wf t p s ->
    zero_iters ids t (l_subs s) = (subs1, None) ->
    run_hook pre ids o t 0%nat (LPre t) (mkL (l_core s) subs1 (l_log s)) = (s1, None) ->
    quiet_upto ids o t s1 (Z.to_nat (max_iter o)) ->
    let r := solve_t sel o t s in
    snd r = (if fail_raise o then LRaise (LExn NonConvergenceError) else LRet false) /\
    status (c_st (l_core (fst r))) = upd p Failed (status (c_st (l_core s))).
  Proof.
    intros ids Hlt Hwf Hz Hp Hq r.
    destruct (linker_fails_when_no_k sel o t p s subs1 s1 Hwf Hz Hp Hq) as (R & A1 & _).
    - intros j Hj. unfold lconvk. replace (min_iter o <=? Z.of_nat j) with false by lia. reflexivity.
    - split; assumption.
  Qed.

End LSpec.
