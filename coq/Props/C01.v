(* Props/C01.v — the audited surface for property C01:
   "the generated model evaluates exactly the equations written in the script".
   Statements only; every proof is `exact <lemma>`; Print Assumptions under each.

   Part A (text level)     what the two strings that parse_equation attaches to the left-hand symbols ARE, for every
                           statement text; Term.code / Term.__str__ case by case.
   Part A2 (lexing)        how term_re lexes the documented syntax, for ALL names; scan_render: every well-formed flat
                           token sequence (any length / nesting / layout) is lexed into exactly its tokens; so the code
                           of every such statement that parse_equation accepts is the rendering of its token list.
   Part A3                 how a statement enters the class text (Model.CODE).
   Part B (semantic level) for the arithmetic subset: which cells the statements of a script name (exactly the series
                           terms written, at the lag / lead written), in which order they run (symbol order), and what one
                           pass does with them (frame, accesses, Gauss-Seidel, locality) — for every arithmetic.
   Part C                  refutation witnesses: the genuine defects of the current code the model mirrors.
   Tie to the code: K_parse / K_text / K_pyast / K_tie / K_code / K_eval of harness/props/C01.py.
   Trusted, only observed through K_pyast / K_eval: CPython's reading and evaluation of the generated code text.  The model
   reads the SCRIPT's tokens with Python's precedences (C01_print_parse: for every ARITHMETIC tree — literals, series, + - * / **, unary minus,
   abs, max, min, np.exp, np.log; conditional expressions EIf are NOT covered: the precedence of comparisons / not / and / or /
   if-else rests on the instance C01_conditional_instance, the fuel and reads theorems of the p_test layer, and K_pyast — its
   minimally parenthesised print is read back as that tree) and accepts a script only when every statement is read back identically from its CODE text by
   the model's own code lexer (C01_accepted_script_is_read_back_from_its_code; C01_code_statement_tie: every statement
   whose items are `tight`, a local decidable condition, is — the token-wise rendering provably preserves it); that CPython reads the code text as that
   lexer + parser do is checked case by case against its `ast`.  NumPy float64 arithmetic = the kernel's binary64, libm
   exp / log / ** (oracle table).
   Reading guide: theorems whose statement merely unfolds a definition of the model (C01_template_is_normalised_items,
   C01_format_fills_positionally, C01_pass_gauss_seidel, C01_pass_is_gauss_seidel_fold, C01_statement_effect,
   C01_code_agrees_sound / _complete, the `*_instance` / `*_refuted` witnesses, the fuel lemmas) establish no clause of the
   property by themselves; C01_code_statement_tie ties the code text to the MODEL's code lexer (lex_code), not to CPython; the clauses are carried by  C01_generated_code_is_rendered_statement /
   C01_endogenous_symbols_carry_the_rendered_statement (what the text is),  C01_scan_render and Part A2 (how it is lexed),
   C01_reads_exactly_the_written_terms, C01_print_parse (what a statement denotes),
   C01_statements_in_symbol_order, C01_pass_* , C01_feasible_period_reads_at_written_offsets (what a pass does).
   Scope limits, stated once: (a) Part B is all-or-nothing per script — one statement outside the arithmetic / conditional
   subset puts the whole script outside program_of_script (no per-statement opaque steps: Eval.stmt has none, and a frame
   claim for an unknown statement would be an assumption, not a theorem); K_text / K_parse / K_code still cover such scripts
   statement by statement.  (b) `aligned` (no term match spanning the first `=`) is a guard of the text-level theorem only;
   its failure (`Y[a=b] = X`, C01_match_spanning_equals_refuted) makes parse_equation fail or produce symbols no model
   evaluates, and is not recorded as a finding of C01.  (d) the semantic theorems speak about scripts every statement of which is ONE assignment
   of the subset: parse_model also accepts `Y = Z = X`, `Y = X; Z = 1`, `Y == X`, `Z = (yield)`, `Y = np .sqrt(X)` and rewrites a
   name inside a quoted string — all outside program_of_script, all kept findings with `_refuted` witnesses (Part C) and an
   oracle clause on CPython's ast of the real code.  (c) in the well-formed token lists of Part A2 the comparisons
   `<` / `<=` are the token SLt, whose side condition is that no <error> term starts there (C01_lex_less_than). *)
From Coq Require Import String Ascii List Bool Arith ZArith PrimFloat.
Import ListNotations.
Require Import Generated PyBase PyStr Lex Format Symbols Split Merge ParseEq ParseModel Solver SolverF Eval EvalFacts EvalF.
Require Import CodeGen CodeGenF CodeGenFacts CodeGenFacts2 CodeGenFacts3 CodeGenFacts4 CodeGenFacts5 CodeGenFacts6 CodeGenFacts7 CodeGenFacts8 CodeGenFacts9 CodeGenFacts10 CodeGenFacts11 CodeGenFacts12 CodeGenFacts13 CodeGenFacts14 CodeGenFacts15 LexFacts CodeGenLexFacts CodeGenSrc CodeGenSrcFacts CodeGenSrcFacts2 CodeGenBlock CodeGenBlockFacts CodeGenExamples.
Open Scope string_scope.

(* ======================= Part A: the generated text ======================= *)

(* str.format, the right-to-left span replacement and the three regex substitutions amount to this: the template
   is the whitespace-normalised item list with "{}" for every match … *)
Theorem C01_template_is_normalised_items eq :
  template eq = template_of (norm_items (scan_items eq)).
Proof. exact (template_is_norm_items eq). Qed.
Print Assumptions C01_template_is_normalised_items.

(* … formatting a brace-free template fills the placeholders positionally, copying every other character … *)
Theorem C01_format_fills_positionally l args :
  gaps_brace_free l = true ->
  py_format (template_of l) args = match fill_items l args with Some s => FOk s | None => FFail end.
Proof. exact (py_format_fill l args). Qed.
Print Assumptions C01_format_fills_positionally.

(* … so, for EVERY statement text that parse_equation accepts (not a backticked verbatim line; no match of term_re
   spanning the first `=`; no brace outside a match): the symbols are those of the per-equation loop run with
       equation = the normalised items with every match rendered by Term.__str__
       code     = the normalised items with every match rendered by Term.code,  every other character verbatim *)
Theorem C01_generated_code_is_rendered_statement eq syms :
  parse_equation_M eq = POk syms ->
  is_blank eq = false -> head_is "`" eq && last_is "`" eq = false ->
  aligned eq -> gaps_brace_free (scan_items eq) = true ->
  exists terms std code,
    parse_equation_terms eq = Ret terms /\
    equation_text eq = Some std /\ code_text eq = Some code /\
    equation_symbols std code terms = Ret syms.
Proof. exact (parse_equation_code_spec eq syms). Qed.
Print Assumptions C01_generated_code_is_rendered_statement.

(* … and these two strings are attached, as a pair, to EVERY symbol of the statement that ends up ENDOGENOUS and to
   nobody else (whatever the regenerated Type enum order is): Symbol.code IS code_text, Symbol.equation IS equation_text *)
Theorem C01_endogenous_symbols_carry_the_rendered_statement eq syms :
  parse_equation_M eq = POk syms ->
  is_blank eq = false -> head_is "`" eq && last_is "`" eq = false ->
  aligned eq -> gaps_brace_free (scan_items eq) = true ->
  exists std code,
    equation_text eq = Some std /\ code_text eq = Some code /\
    Forall (fun s => ((sequation s = None /\ scode s = None) \/ (sequation s = Some std /\ scode s = Some code)) /\
                     (stype s = TEndogenous -> sequation s = Some std /\ scode s = Some code)) syms.
Proof. exact (endogenous_symbols_carry_code_text eq syms). Qed.
Print Assumptions C01_endogenous_symbols_carry_the_rendered_statement.

(* whole model: the code attached to ANY symbol of the merged list of an accepted script is the code parse_equation
   returned for one of the script's statements — the cross-equation merge never edits, mixes or invents a code string
   (with or without the syntax check, whatever the check oracle answers) … *)
Theorem C01_model_code_provenance chk cs script syms x c :
  parse_model_M chk cs script = POk syms -> In x syms -> scode x = Some c ->
  exists st L y, In st (fst (split_M script)) /\ parse_equation_M st = POk L /\ In y L /\ scode y = Some c.
Proof. exact (model_code_provenance chk cs script syms x c). Qed.
Print Assumptions C01_model_code_provenance.
(* … so it IS the rendering of THE statement it came from (the one whose parse_equation result carries it — not just some
   statement of the script) whenever that statement meets the guard of the text-level theorem *)
Theorem C01_model_code_is_rendered_statement chk cs script syms x c :
  parse_model_M chk cs script = POk syms -> In x syms -> scode x = Some c ->
  exists st L y, In st (fst (split_M script)) /\ parse_equation_M st = POk L /\ In y L /\ scode y = Some c /\
    (is_blank st = false -> head_is "`" st && last_is "`" st = false -> aligned st -> gaps_brace_free (scan_items st) = true ->
     code_text st = Some c).
Proof. exact (model_code_is_rendered_statement chk cs script syms x c). Qed.
Print Assumptions C01_model_code_is_rendered_statement.
Theorem C01_model_code_instance :
  exists syms, parse_model_nocheck scriptC = POk syms /\
    map scode (filter emits syms) = [Some "self._Y[t] = 2*self._X[t-1] + self._a[t]"; Some "self._X[t] = -self._Y[t]*self._Y[t]/4";
                                     Some "self._Z[t] = max(self._W[t], self._Y[t]) - self._e[t]"].
Proof. exact scriptC_codes. Qed.
Print Assumptions C01_model_code_instance.

(* whole model: whatever script parse_model accepts, every VARIABLE / {PARAMETER} / <ERROR> term of every one of its
   statements has its name in NAMES = ENDOGENOUS + EXOGENOUS + PARAMETERS + ERRORS of the merged symbol list: every
   `self._NAME[…]` the generated code reads or writes is a declared series (a name that is also used as a function, in the same
   statement or in another one, makes Symbol.combine raise SymbolError — the repair of finding #19) *)
Theorem C01_every_series_term_is_declared chk cs script syms st terms t :
  parse_model_M chk cs script = POk syms ->
  In st (fst (split_M script)) -> is_blank st = false -> head_is "`" st && last_is "`" st = false ->
  parse_equation_terms st = Ret terms -> In t terms -> declarable (ttype t) = true ->
  In (tname t) (names_of syms).
Proof. exact (every_series_term_declared chk cs script syms st terms t). Qed.
Print Assumptions C01_every_series_term_is_declared.
Theorem C01_function_and_series_name_rejected :
  parse_model_nocheck "Y = exp + exp(X)" = PErr SymbolError /\
  parse_model_nocheck "Y = log(log[-1])" = PErr SymbolError /\
  parse_model_nocheck ("Y = exp(X)" ++ lf ++ "Z = exp") = PErr SymbolError /\
  (exists syms, parse_model_nocheck "Y = exp(X) + exp(Z)" = POk syms /\ names_of syms = ["Y"; "X"; "Z"]).
Proof. exact function_and_series_name_rejected. Qed.
Print Assumptions C01_function_and_series_name_rejected.

(* the whitespace normalisation neither drops, adds nor reorders a match *)
Theorem C01_normalisation_keeps_matches l : matches_of (norm_items l) = matches_of l.
Proof. exact (matches_norm l). Qed.
Print Assumptions C01_normalisation_keeps_matches.

(* … nor can it merge two tokens or split one: the token sequence of the normalised items — what equation_text and
   code_text render — is the token sequence of the script as written, for EVERY item list; so the normalised equation,
   the code and the script denote the same statement *)
Theorem C01_normalisation_preserves_tokens l : lex_items LNone (norm_items l) = lex_items LNone l.
Proof. exact (lex_norm l). Qed.
Print Assumptions C01_normalisation_preserves_tokens.
Theorem C01_normalised_text_denotes_same_statement row eq :
  stmt_of_tokens row (lex_items LNone (norm_items (scan_items eq))) = stmt_of_equation row eq.
Proof. exact (normalised_statement_same row eq). Qed.
Print Assumptions C01_normalised_text_denotes_same_statement.

(* Term.code / Term.__str__ : a VARIABLE, {PARAMETER} or <ERROR> with integer index k — all three alike — is the
   series access self._NAME[t] / [t+k] / [t-k] (offset_text), NAME[t…] in the normalised equation *)
Theorem C01_series_rendering m k :
  is_series (mkind m) = true -> mk_index (mindex m) = Ret (IInt k) ->
  code_of_match m = Some ("self._" ++ mname m ++ offset_text k) /\
  str_of_match m = Some (mname m ++ offset_text k).
Proof. exact (render_series m k). Qed.
Print Assumptions C01_series_rendering.

(* no index written = the current period *)
Theorem C01_no_index_is_current_period m :
  is_series (mkind m) = true -> mindex m = None ->
  code_of_match m = Some ("self._" ++ mname m ++ "[t]") /\ str_of_match m = Some (mname m ++ "[t]").
Proof. exact (render_series_no_index m). Qed.
Print Assumptions C01_no_index_is_current_period.

(* an index text int() accepts (sign, inner blanks, several digits) is that integer … *)
Theorem C01_integer_index i z :
  quoted_by "'" i || quoted_by """" i = false -> quoted_by "`" i = false -> py_int i = Some z ->
  mk_index (Some i) = Ret (IInt z).
Proof. exact (int_index i z). Qed.
Print Assumptions C01_integer_index.

(* … rendered with the sign the script wrote: a lead as [t+k], a lag as [t-k] *)
Theorem C01_lead_rendering z : (0 < z)%Z -> offset_text z = "[t+" ++ string_of_Z z ++ "]".
Proof. exact (offset_lead z). Qed.
Print Assumptions C01_lead_rendering.
Theorem C01_lag_rendering z : (z < 0)%Z -> offset_text z = "[t" ++ string_of_Z z ++ "]".
Proof. exact (offset_lag z). Qed.
Print Assumptions C01_lag_rendering.

(* … and the rendered text determines the offset: two different integers never render alike *)
Theorem C01_offset_text_determines_offset a b : offset_text a = offset_text b -> a = b.
Proof. exact (offset_text_injective a b). Qed.
Print Assumptions C01_offset_text_determines_offset.

(* function names go through replacement_function_names and nothing else … *)
Theorem C01_function_rendering m :
  mkind m = KFunction ->
  code_of_match m = Some (match assoc_s (mname m) replacement_function_names with Some v => v | None => mname m end) /\
  str_of_match m = Some (mname m).
Proof. exact (render_function m). Qed.
Print Assumptions C01_function_rendering.

(* … which (regenerated from the source on every check) maps exp, log, max, min to their numeric implementations … *)
Theorem C01_replacement_table :
  replacement_function_names = [("exp", "np.exp"); ("log", "np.log"); ("max", "max"); ("min", "min")].
Proof. exact replacement_table_is. Qed.
Print Assumptions C01_replacement_table.

(* … and leaves every namespaced function alone *)
Theorem C01_namespaced_function_untouched f :
  has_char "." f = true -> assoc_s f replacement_function_names = None.
Proof. exact (namespaced_untouched f). Qed.
Print Assumptions C01_namespaced_function_untouched.

(* keywords are copied *)
Theorem C01_keyword_untouched m :
  mkind m = KKeyword -> In (mname m) KW ->
  code_of_match m = Some (mname m) /\ str_of_match m = Some (mname m).
Proof. exact (render_keyword m). Qed.
Print Assumptions C01_keyword_untouched.

(* a backticked fragment is copied without its backticks *)
Theorem C01_verbatim_untouched m :
  mkind m = KVerbatim -> mindex m = None ->
  code_of_match m = Some (strip_by (fun c => Ascii.eqb c "`") (mname m)) /\ str_of_match m = Some (mname m).
Proof. exact (render_verbatim m). Qed.
Print Assumptions C01_verbatim_untouched.

(* the hypotheses above are satisfiable by a statement containing every trap of the property (keyword-prefixed names,
   a two-digit lag, a signed lead with inner blanks, { p } and < e > with blanks, a function followed by a blank,
   a namespaced function, a verbatim fragment, an explicit [0], a left-hand lead) *)
Theorem C01_instance :
  is_blank eqA = false /\ head_is "`" eqA && last_is "`" eqA = false /\ text_guard eqA = true.
Proof. exact eqA_guard. Qed.
Print Assumptions C01_instance.
Theorem C01_instance_code :
  code_text eqA = Some "self._Yd[t+1] = self._alpha_1[t]*np.exp(self._is_open[t-12]) + min(self._Pin[t+2],1.5)/self._e[t] - self._not_X[t]**2 + np.sqrt(self._in_[t]) + self.k" /\
  equation_text eqA = Some "Yd[t+1] = alpha_1[t]*exp(is_open[t-12]) + min(Pin[t+2],1.5)/e[t] - not_X[t]**2 + np.sqrt(in_[t]) + `self.k`".
Proof. exact eqA_code. Qed.
Print Assumptions C01_instance_code.

(* ======================= Part A2: how term_re lexes the documented syntax, for ALL names ======================= *)

(* an identifier that is no keyword (is_open, Pin, not_X, in_, expo … included: only `In name KW` is excluded), followed by
   something that neither continues it nor opens an index nor (after blanks) a call, is ONE variable without index —
   whatever the regenerated keyword list is, and also directly after a word character (no \b in the source) *)
Theorem C01_lex_variable pw name rest :
  ident name = true -> ~ In name KW -> var_follow rest = true ->
  match_here pw (name ++ rest) = Some (mkMatch KVariable name None (String.length name)).
Proof. exact (match_here_variable pw name rest). Qed.
Print Assumptions C01_lex_variable.

(* NAME[body]: the index is the text up to the first `]`, blanks stripped (signs, several digits, inner blanks) *)
Theorem C01_lex_variable_indexed pw name body rest :
  ident name = true -> ~ In name KW ->
  has_char "]" body = false -> has_nl (re_strip body) = false ->
  match_here pw (name ++ String "[" (body ++ String "]" rest))
  = Some (mkMatch KVariable name (Some (re_strip body)) (String.length name + (2 + String.length body))).
Proof. exact (match_here_variable_indexed pw name body rest). Qed.
Print Assumptions C01_lex_variable_indexed.

(* { NAME } and < NAME > with any inner blanks, followed by the optional index group *)
Theorem C01_lex_parameter pw w1 name w2 after :
  ident name = true -> all_chars is_space w1 = true -> all_chars is_space w2 = true ->
  match_here pw (String "{" (w1 ++ name ++ w2 ++ String "}" after))
  = Some (with_index KParameter name (2 + String.length w1 + String.length name + String.length w2) after).
Proof. exact (match_here_parameter pw w1 name w2 after). Qed.
Print Assumptions C01_lex_parameter.
Theorem C01_lex_error pw w1 name w2 after :
  ident name = true -> all_chars is_space w1 = true -> all_chars is_space w2 = true ->
  match_here pw (String "<" (w1 ++ name ++ w2 ++ String ">" after))
  = Some (with_index KError name (2 + String.length w1 + String.length name + String.length w2) after).
Proof. exact (match_here_error pw w1 name w2 after). Qed.
Print Assumptions C01_lex_error.

(* NAME blanks ( : a function, the blanks swallowed (so `exp (` becomes `np.exp(`) *)
Theorem C01_lex_function pw name ws rest :
  ident name = true -> ~ In name KW -> all_chars is_space ws = true ->
  match_here pw (name ++ ws ++ String "(" rest)
  = Some (mkMatch KFunction name None (String.length name + String.length ws)).
Proof. exact (match_here_function pw name ws rest). Qed.
Print Assumptions C01_lex_function.

(* … also when the name is namespaced (np.sqrt, a.b.c): first segment an identifier that is no keyword, then any run of
   [_A-Za-z0-9.]; such a name is never in the replacement table (C01_namespaced_function_untouched) *)
Theorem C01_lex_function_namespaced pw name ws rest :
  fname name = true -> all_chars is_space ws = true ->
  match_here pw (name ++ ws ++ String "(" rest)
  = Some (mkMatch KFunction name None (String.length name + String.length ws)).
Proof. exact (match_here_function_dotted pw name ws rest). Qed.
Print Assumptions C01_lex_function_namespaced.

(* a Python keyword between non-word characters (and not followed by an index bracket) is ONE keyword match … *)
Theorem C01_lex_keyword k rest :
  In k KW -> head_ok (fun c => negb (is_word c)) rest = true ->
  head_ok (fun c => negb (Ascii.eqb c "[")) (skip_ws rest) = true ->
  match_here false (k ++ rest) = Some (mkMatch KKeyword k None (String.length k)).
Proof. exact (match_here_keyword k rest). Qed.
Print Assumptions C01_lex_keyword.

(* … and a backticked fragment (no backtick or newline inside) is ONE verbatim match, whatever it contains *)
Theorem C01_lex_verbatim pw c b rest :
  Ascii.eqb c nl = false -> has_char "`" (String c b) = false -> has_nl (String c b) = false ->
  match_here pw (String "`" (String c b ++ String "`" rest))
  = Some (mkMatch KVerbatim (String "`" (String c b ++ "`")) None (2 + String.length (String c b))).
Proof. exact (match_here_verbatim pw c b rest). Qed.
Print Assumptions C01_lex_verbatim.

(* scan_render: on the text of EVERY well-formed flat token sequence — gaps (blanks, newlines, numerals, operators,
   parentheses, commas), NAME, NAME[body], { NAME }[body]?, < NAME >[body]?, f blanks (, keywords, backticked
   fragments — of any length and nesting,
   term_re.finditer returns exactly the tokens' matches at their positions and copies every other character *)
Theorem C01_scan_render ts : wf ts = true -> scan_items (render ts) = items_of 0 ts.
Proof. exact (scan_render ts). Qed.
Print Assumptions C01_scan_render.

(* hence the matches, the two output strings and the statement denoted are functions of the token list alone *)
Theorem C01_matches_of_rendered_statement ts : wf ts = true -> matches_of (scan_items (render ts)) = src_matches ts.
Proof. exact (matches_render ts). Qed.
Print Assumptions C01_matches_of_rendered_statement.
Theorem C01_code_of_rendered_statement ts : wf ts = true ->
  code_text (render ts) = render_items code_of_match (norm_items (items_of 0 ts)) /\
  equation_text (render ts) = render_items str_of_match (norm_items (items_of 0 ts)).
Proof. exact (code_text_render ts). Qed.
Print Assumptions C01_code_of_rendered_statement.
Theorem C01_statement_of_rendered_statement row ts : wf ts = true ->
  stmt_of_equation row (render ts) = stmt_of_tokens row (lex_items LNone (items_of 0 ts)).
Proof. exact (stmt_render row ts). Qed.
Print Assumptions C01_statement_of_rendered_statement.

(* for a well-formed statement `left … = … right` whose first `=` lies in a gap and whose gaps contain no `}` the two
   side conditions of C01_generated_code_is_rendered_statement hold … *)
Theorem C01_rendered_statement_guards ts1 g1 g2 ts2 :
  let ts := (ts1 ++ SGap (g1 ++ String "=" g2) :: ts2)%list in
  wf ts = true -> no_rbrace ts = true -> has_char "=" (render ts1 ++ g1) = false ->
  aligned (render ts) /\ gaps_brace_free (scan_items (render ts)) = true.
Proof. exact (statement_guards ts1 g1 g2 ts2). Qed.
Print Assumptions C01_rendered_statement_guards.

(* … so whenever parse_equation accepts its text, every ENDOGENOUS symbol carries exactly the rendering of the token
   list: each term by Term.code / Term.__str__, every gap character copied (modulo the whitespace normalisation) *)
Theorem C01_rendered_statement_code ts1 g1 g2 ts2 syms :
  let ts := (ts1 ++ SGap (g1 ++ String "=" g2) :: ts2)%list in
  wf ts = true -> no_rbrace ts = true -> has_char "=" (render ts1 ++ g1) = false ->
  head_is "`" (render ts) = false ->
  parse_equation_M (render ts) = POk syms ->
  exists std code,
    render_items str_of_match (norm_items (items_of 0 ts)) = Some std /\
    render_items code_of_match (norm_items (items_of 0 ts)) = Some code /\
    Forall (fun s => ((sequation s = None /\ scode s = None) \/ (sequation s = Some std /\ scode s = Some code)) /\
                     (stype s = TEndogenous -> sequation s = Some std /\ scode s = Some code)) syms.
Proof. exact (rendered_statement_spec ts1 g1 g2 ts2 syms). Qed.
Print Assumptions C01_rendered_statement_code.

(* wf is satisfiable by a two-line statement with keyword-prefixed names, a function-name prefix (expo), signed,
   two-digit and blank-padded indexes, { p }, < e >, `exp (`, an explicit [0] and a left-hand lead *)
Theorem C01_wf_instance :
  wf tsA = true /\
  render tsA = "Yd[1] = { alpha_1 }*exp (  is_open[-12] ) + min( Pin[ +2 ],1.5 )/< e > - not_X**2 + 3*{p}[-1] + (" ++ lf ++ "   in_[0]-expo)".
Proof. exact tsA_wf. Qed.
Print Assumptions C01_wf_instance.
Theorem C01_wf_instance_shape :
  tsA = ([SVar "Yd" (Some "1")] ++ SGap (" " ++ String "=" " ") :: tl (tl tsA))%list /\
  no_rbrace tsA = true /\ has_char "=" (render [SVar "Yd" (Some "1")] ++ " ") = false /\
  head_is "`" (render tsA) = false /\
  exists syms, parse_equation_M (render tsA) = POk syms.
Proof. exact tsA_shape. Qed.
Print Assumptions C01_wf_instance_shape.
Theorem C01_wf_instance_keywords_verbatim :
  wf tsB = true /\ render tsB = "C = ({a}*X[-1]) if not is_open > 0 and Pin else `np.pi` * np.sqrt (W[1])" /\
  code_text (render tsB) = Some "self._C[t] = (self._a[t]*self._X[t-1]) if not self._is_open[t] > 0 and self._Pin[t] else np.pi * np.sqrt(self._W[t+1])".
Proof. exact tsB_wf. Qed.
Print Assumptions C01_wf_instance_keywords_verbatim.
(* `<` is the one operator character at which a term CAN start (an <error> term): where term_re's  < NAME >  alternative
   does not match, nothing starts there and the character is copied — the comparisons `<` and `<=` of well-formed token
   lists (SLt; side condition lt_free, decided by the regex model itself) … *)
Theorem C01_lex_less_than pw r :
  try_bracketed "<" ">" KError (String "<" r) = None -> match_here pw (String "<" r) = None.
Proof. exact (match_here_lt pw r). Qed.
Print Assumptions C01_lex_less_than.
(* … an instance with both; and `A < X > 0`, which is NOT well-formed: term_re reads `< X >` as an error term, the code is
   `self._A[t] self._X[t] 0` (a SyntaxError when compiled: fails loudly) *)
Theorem C01_wf_instance_comparisons :
  wf tsD = true /\ render tsD = "Y = A if A < X[-1] and {p}<=2 else 0" /\
  code_text (render tsD) = Some "self._Y[t] = self._A[t] if self._A[t] < self._X[t-1] and self._p[t]<=2 else 0" /\
  code_agrees (row_of ["Y"; "A"; "X"; "p"]) (render tsD) = true /\
  lt_free " X[-1] and" = true /\ lt_free "=2 " = true /\ lt_free " X > 0" = false /\
  wf [SVar "Y" None; SGap " = 1 "; SKw "if"; SGap " "; SVar "A" None; SGap " "; SLt ""; SGap " "; SVar "X" None; SGap " > 0 ";
      SKw "else"; SGap " 2"] = false /\
  code_text "Y = 1 if A < X > 0 else 2" = Some "self._Y[t] = 1 if self._A[t] self._X[t] 0 else 2".
Proof. exact tsD_wf. Qed.
Print Assumptions C01_wf_instance_comparisons.
Theorem C01_wf_instance_code :
  code_text (render tsA) = Some "self._Yd[t+1] = self._alpha_1[t]*np.exp(self._is_open[t-12]) + min(self._Pin[t+2],1.5)/self._e[t] - self._not_X[t]**2 + 3*self._p[t-1] + (self._in_[t]-self._expo[t])".
Proof. exact tsA_code. Qed.
Print Assumptions C01_wf_instance_code.

(* ======================= Part A3: into the class text (Model.CODE) ======================= *)

(* default_converter + textwrap.indent put a one-line statement (every ENDOGENOUS symbol's) into the `{equations}` block
   unchanged, on its own line, eight blanks in, after its normalised equation as a comment *)
Theorem C01_statement_enters_class_text_unchanged equation code :
  equation <> "" -> no_sep equation = true -> no_sep code = true -> is_blank code = false ->
  indent8 (default_converter equation code) = prefix8 ++ "# " ++ equation ++ nl_s ++ prefix8 ++ code.
Proof. exact (one_line_statement_in_class_text equation code). Qed.
Print Assumptions C01_statement_enters_class_text_unchanged.
(* the same for ANY statement given by the lines of its normalised equation and of its code — a multi-line verbatim
   block included: every equation line as a comment, then every code line, each indented by eight blanks (all-whitespace
   lines kept as they are), in order; no line dropped, added or edited *)
Theorem C01_statement_lines_enter_class_text_unchanged elines clines :
  forallb no_sep elines = true -> elines <> [] -> last elines "x" <> "" -> forallb no_sep clines = true -> clines <> [] ->
  indent8 (default_converter (join_nl elines) (join_nl clines))
  = join_nl (map line8 (map (fun x => "# " ++ x) elines ++ clines)).
Proof. exact (statement_lines_in_class_text elines clines). Qed.
Print Assumptions C01_statement_lines_enter_class_text_unchanged.
Theorem C01_verbatim_block_instance :
  indent8 (default_converter (join_nl ["```"; "x = 1"; ""; "if x:"; "    y = 2"; "```"]) (join_nl ["x = 1"; ""; "if x:"; "    y = 2"]))
  = join_nl ["        # ```"; "        # x = 1"; "        # "; "        # if x:"; "        #     y = 2"; "        # ```";
             "        x = 1"; ""; "        if x:"; "            y = 2"].
Proof. exact verbatim_block_instance. Qed.
Print Assumptions C01_verbatim_block_instance.
Theorem C01_verbatim_statement_order_instance :
  block_of_script ("`self._W[t] = self._Y[t] * 2.0`" ++ nl_s ++ "Y = X + 1" ++ nl_s ++ "Z = Y * W")
  = Some (join_nl ["        # Y[t] = X[t] + 1"; "        self._Y[t] = self._X[t] + 1"; "";
                   "        # Z[t] = Y[t] * W[t]"; "        self._Z[t] = self._Y[t] * self._W[t]"; "";
                   "        # `self._W[t] = self._Y[t] * 2.0`"; "        self._W[t] = self._Y[t] * 2.0"]).
Proof. exact verbatim_statement_order. Qed.
Print Assumptions C01_verbatim_statement_order_instance.
Theorem C01_class_text_instance :
  indent8 (default_converter "Y[t] = X[t-1]" "self._Y[t] = self._X[t-1]")
  = "        # Y[t] = X[t-1]" ++ nl_s ++ "        self._Y[t] = self._X[t-1]".
Proof. exact one_line_instance. Qed.
Print Assumptions C01_class_text_instance.

(* ======================= Part B: what the statements compute ======================= *)

(* the tree parser (Python's precedences) neither drops, duplicates nor reorders a series term *)
Theorem C01_tree_keeps_terms row fuel ts e rest :
  p_expr row fuel ts = Some (e, rest) ->
  tok_reads row ts = (somes (expr_reads string e) ++ tok_reads row rest)%list.
Proof. exact (tree_reads row fuel ts e rest). Qed.
Print Assumptions C01_tree_keeps_terms.

(* the fuel of the (totalised) tree parser only limits, never changes, its result … *)
Theorem C01_tree_fuel_monotone row f f' ts r :
  f <= f' -> p_expr row f ts = Some r -> p_expr row f' ts = Some r.
Proof. exact (tree_fuel_monotone row f f' ts r). Qed.
Print Assumptions C01_tree_fuel_monotone.
(* … and the fuel the model uses is always enough: whatever ANY amount of fuel can parse, tree_fuel parses, to the same
   tree — a statement is never declared outside the subset, and never given another meaning, for lack of fuel *)
Theorem C01_tree_fuel_suffices row f ts e rest :
  p_expr row f ts = Some (e, rest) -> p_expr row (tree_fuel ts) ts = Some (e, rest).
Proof. exact (tree_fuel_suffices row f ts e rest). Qed.
Print Assumptions C01_tree_fuel_suffices.

(* the same for the parser of conditions and conditional expressions *)
Theorem C01_test_fuel_monotone row f f' ts r :
  f <= f' -> p_test row f ts = Some r -> p_test row f' ts = Some r.
Proof. exact (test_fuel_monotone row f f' ts r). Qed.
Print Assumptions C01_test_fuel_monotone.
Theorem C01_test_fuel_suffices row f ts st rest :
  p_test row f ts = Some (st, rest) -> p_test row (test_fuel ts) ts = Some (st, rest).
Proof. exact (test_fuel_suffices row f ts st rest). Qed.
Print Assumptions C01_test_fuel_suffices.

(* THE SHAPE OF THE TREE (precedence and associativity), for ALL trees.  `pr row nm lvl e` prints an arithmetic tree with
   the minimal parentheses of Python's grammar: + - left-associative (level 0), * / left-associative (level 1), unary minus
   (level 2) binding tighter than * / and looser than **, ** (level 3) with an atom as base and a unary-minus-level exponent
   (so right-associative), literals / series / calls / parenthesised expressions (level 4).  Reading the printed tokens gives
   back exactly the tree — for every tree of literals, series, + - * / **, unary minus, abs, max, min, np.exp, np.log … *)
Theorem C01_print_parse row nm e rest :
  printable row nm e -> follow0 rest ->
  p_expr row (tree_fuel (pr nm 0 e ++ rest)) (pr nm 0 e ++ rest) = Some (e, rest).
Proof. exact (print_parse row nm e rest). Qed.
Print Assumptions C01_print_parse.
(* … at statement level: `NAME[k0] = <printed e>` is the assignment of e (integer-literal subtrees folded as CPython does) … *)
Theorem C01_print_parse_statement row nm y i k0 e :
  row y = Some i -> printable row nm e ->
  src_of_tokens row (CRead y k0 :: CAssign :: pr nm 0 e) = Some (y, i, k0, SVal e) /\
  stmt_of_tokens row (CRead y k0 :: CAssign :: pr nm 0 e)
  = (if py_ok (fold_ints e) then Some (y, SAssign i k0 (fold_ints e)) else None).
Proof. exact (print_parse_statement row nm y i k0 e). Qed.
Print Assumptions C01_print_parse_statement.
(* … so two different trees never share a token sequence … *)
Theorem C01_print_injective row nm e1 e2 :
  printable row nm e1 -> printable row nm e2 -> pr nm 0 e1 = pr nm 0 e2 -> e1 = e2.
Proof. exact (pr_injective row nm e1 e2). Qed.
Print Assumptions C01_print_injective.
(* … and these are the token sequences of the trees in question (a, b, c ANY trees; pr adds parentheses around an operand
   only where its level is below the one required):   a - b - c  is (a-b)-c;   a-(b-c) needs the parentheses; *)
Theorem C01_shape_minus_left_assoc nm a b c :
  pr nm 0 (EBin OSub (EBin OSub a b) c) = ((pr nm 0 a ++ CMinus :: pr nm 1 b) ++ CMinus :: pr nm 1 c)%list /\
  pr nm 0 (EBin OSub a (EBin OSub b c)) = (pr nm 0 a ++ CMinus :: CLPar :: (pr nm 0 b ++ CMinus :: pr nm 1 c) ++ [CRPar])%list.
Proof. exact (conj (pr_sub_sub nm a b c) (pr_sub_right nm a b c)). Qed.
Print Assumptions C01_shape_minus_left_assoc.
(*   a / b * c  is (a/b)*c;  a/(b*c) needs the parentheses;  a + b * c  is a+(b*c) *)
Theorem C01_shape_div_left_assoc nm a b c :
  pr nm 0 (EBin OMul (EBin ODiv a b) c) = ((pr nm 1 a ++ CSlash :: pr nm 2 b) ++ CStar :: pr nm 2 c)%list /\
  pr nm 0 (EBin ODiv a (EBin OMul b c)) = (pr nm 1 a ++ CSlash :: CLPar :: (pr nm 1 b ++ CStar :: pr nm 2 c) ++ [CRPar])%list /\
  pr nm 0 (EBin OAdd a (EBin OMul b c)) = (pr nm 0 a ++ CPlus :: pr nm 1 b ++ CStar :: pr nm 2 c)%list.
Proof. exact (conj (pr_div_mul nm a b c) (conj (pr_div_right nm a b c) (pr_add_mul nm a b c))). Qed.
Print Assumptions C01_shape_div_left_assoc.
(*   -a ** b  is -(a**b);  (-a)**b needs the parentheses;  a ** -b  is a**(-b);  a ** b ** c  is a**(b**c);  (a**b)**c needs
     the parentheses;  -a * b  is (-a)*b;  a * -b  is a*(-b) *)
Theorem C01_shape_power_and_unary_minus nm a b c :
  pr nm 0 (ENeg (EBin OPow a b)) = (CMinus :: pr nm 4 a ++ CPow :: pr nm 2 b)%list /\
  pr nm 0 (EBin OPow (ENeg a) b) = ((CLPar :: (CMinus :: pr nm 2 a) ++ [CRPar]) ++ CPow :: pr nm 2 b)%list /\
  pr nm 0 (EBin OPow a (ENeg b)) = (pr nm 4 a ++ CPow :: CMinus :: pr nm 2 b)%list /\
  pr nm 0 (EBin OPow a (EBin OPow b c)) = (pr nm 4 a ++ CPow :: pr nm 4 b ++ CPow :: pr nm 2 c)%list /\
  pr nm 0 (EBin OPow (EBin OPow a b) c) = ((CLPar :: (pr nm 4 a ++ CPow :: pr nm 2 b) ++ [CRPar]) ++ CPow :: pr nm 2 c)%list /\
  pr nm 0 (EBin OMul (ENeg a) b) = ((CMinus :: pr nm 2 a) ++ CStar :: pr nm 2 b)%list /\
  pr nm 0 (EBin OMul a (ENeg b)) = (pr nm 1 a ++ CStar :: CMinus :: pr nm 2 b)%list.
Proof. exact (conj (pr_neg_pow nm a b) (conj (pr_pow_neg_base nm a b) (conj (pr_pow_neg_exponent nm a b) (conj (pr_pow_pow nm a b c)
        (conj (pr_pow_left nm a b c) (conj (pr_neg_mul nm a b) (pr_mul_neg nm a b))))))). Qed.
Print Assumptions C01_shape_power_and_unary_minus.

(* operations CPython performs on Python numbers with another outcome than the float operation (division by a literal zero:
   ZeroDivisionError; a power of two literals: OverflowError, complex or a huge int; an integer literal no float can hold:
   OverflowError; + - * or a comparison of Python ints beyond 2^53: exact instead of rounded) are outside the subset: every
   accepted statement is py_ok — no division whose operands may both be Python numbers unless the divisor is a literal with a
   non-zero digit among its first 300 characters, no power whose operands may both be Python numbers, no integer literal of more
   than 300 digits, no + - * / comparison of two Python-int expressions that fold_ints left unfolded (C01_python_number_holes) *)
Theorem C01_accepted_statement_has_no_python_number_trap row ts y i k0 e :
  stmt_of_tokens row ts = Some (y, SAssign i k0 e) -> py_ok e = true.
Proof. exact (stmt_of_tokens_py_ok row ts y i k0 e). Qed.
Print Assumptions C01_accepted_statement_has_no_python_number_trap.
Theorem C01_python_number_holes :
  stmt_of_equation (row_of ["Y"; "X"]) "Y = X + 9007199254740993 * 3" = None /\
  stmt_of_equation (row_of ["Y"; "X"]) "Y = X + 3 * 3" = Some ("Y", SAssign 0 0%Z (EBin OAdd (ERead 1 0%Z) (ENum "9"))) /\
  py_ok (EBin OMul (ERead 1 0%Z) (ENum (String "1" (string_of_list_ascii (repeat "0"%char 400))))) = false /\
  py_ok (EBin ODiv (ENum "1") (ENum (String "0" (String "." (string_of_list_ascii (repeat "0"%char 400 ++ ["1"%char])))))) = false /\
  py_ok (EBin ODiv (ENum "1") (ENum "0.001")) = true.
Proof. exact python_number_holes. Qed.
Print Assumptions C01_python_number_holes.
Theorem C01_python_number_instance :
  stmt_of_equation (row_of ["Y"; "X"]) "Y = X * (1/0)" = None /\
  stmt_of_equation (row_of ["Y"; "X"]) "Y = X + (-8) ** 0.5" = None /\
  stmt_of_equation (row_of ["Y"; "X"]) "Y = X * 10.0 ** 400" = None /\
  stmt_of_equation (row_of ["Y"; "X"]) "Y = max(1, X) / 0" = None /\
  stmt_of_equation (row_of ["Y"; "X"]) "Y = X / 0 + 1 / 4 + 2 / -3 + X ** 2 + 2 ** X"
  = Some ("Y", SAssign 0 0%Z (EBin OAdd (EBin OAdd (EBin OAdd (EBin OAdd (EBin ODiv (ERead 1 0%Z) (ENum "0")) (EBin ODiv (ENum "1") (ENum "4")))
                                                                  (EBin ODiv (ENum "2") (ENum "-3"))) (EBin OPow (ERead 1 0%Z) (ENum "2")))
                                        (EBin OPow (ENum "2") (ERead 1 0%Z)))).
Proof. exact python_number_operations. Qed.
Print Assumptions C01_python_number_instance.

(* the shapes of comparisons / conditionals the model does not read are FAIL-CLOSED, not misread:
   the arithmetic parser never consumes a comparison operator or if / else / and / or / not — not at the top, not inside
   parentheses, not in the arguments of a call (so a conditional or a comparison nested there is never part of an accepted
   statement) … *)
Theorem C01_arithmetic_consumes_no_comparison_or_keyword row fuel ts e rest :
  p_expr row fuel ts = Some (e, rest) -> exists used, ts = (used ++ rest)%list /\ nox used = true.
Proof. exact (arith_consumes_no_x row fuel ts e rest). Qed.
Print Assumptions C01_arithmetic_consumes_no_comparison_or_keyword.
(* … an accepted right-hand side is plain arithmetic without any such token, or `a if …` with a free of them … *)
Theorem C01_accepted_rhs_shape row y k rhs i k0 st :
  src_of_tokens row (CRead y k :: CAssign :: rhs) = Some (y, i, k0, st) ->
  (exists e, st = SVal e /\ nox rhs = true) \/
  (exists a c b used r, st = SIf a c b /\ rhs = (used ++ CX XIf :: r)%list /\ nox used = true).
Proof. exact (rhs_shape row y k rhs i k0 st). Qed.
Print Assumptions C01_accepted_rhs_shape.
(* … so a comparison used as a value (`Y = X > 1`), `Y = not X`, `Y = X and Z` … denote nothing *)
Theorem C01_comparison_as_value_rejected row y k used x r :
  nox used = true -> x <> XIf ->
  src_of_tokens row (CRead y k :: CAssign :: (used ++ CX x :: r)%list) = None.
Proof. exact (comparison_as_value_rejected row y k used x r). Qed.
Print Assumptions C01_comparison_as_value_rejected.

(* every statement `NAME[k0] = rhs` of the subset: the cell assigned is (row NAME, k0) — a left-hand lead or lag k0 is kept —
   and the series terms of the right-hand side AS WRITTEN (st: value, condition, alternative) are exactly the VARIABLE /
   {PARAMETER} / <ERROR> matches of the statement text, in textual order, each at the index written (0 when none is written):
   no term is lost, none is named at another lag; the expression evaluated reads exactly these terms (as a set: a branch
   shared by `and` / `or` occurs twice in the nesting of conditionals) *)
Theorem C01_reads_exactly_the_written_terms row eq y i k0 e :
  stmt_of_equation row eq = Some (y, SAssign i k0 e) ->
  row y = Some i /\
  exists st, e = fold_ints (denote st) /\
    flat_map (match_read row) (matches_of (scan_items eq)) = somes ((i, k0) :: test_reads st) /\
    (forall xk, In xk (expr_reads string e) <-> In xk (test_reads st)).
Proof. exact (statement_terms_exact row eq y i k0 e). Qed.
Print Assumptions C01_reads_exactly_the_written_terms.
(* … without a conditional expression the evaluation order is the textual order too *)
Theorem C01_reads_in_textual_order_without_conditional row eq y i k0 e e0 :
  stmt_of_equation row eq = Some (y, SAssign i k0 e) ->
  src_of_tokens row (lex_items LNone (scan_items eq)) = Some (y, i, k0, SVal e0) ->
  e = fold_ints e0 /\ flat_map (match_read row) (matches_of (scan_items eq)) = somes ((i, k0) :: expr_reads string e).
Proof. exact (statement_terms_exact_plain row eq y i k0 e e0). Qed.
Print Assumptions C01_reads_in_textual_order_without_conditional.

(* conditional expressions `a if c else b` (c: comparisons joined by not / and / or, Python's precedences): the nesting of
   Eval conditionals that denotes it names exactly the terms of c, a and b *)
Theorem C01_conditional_names_exactly_its_terms c a b xk :
  In xk (expr_reads string (mk_if c a b)) <-> In xk (cond_reads c) \/ In xk (expr_reads string a) \/ In xk (expr_reads string b).
Proof. exact (mk_if_reads c a b xk). Qed.
Print Assumptions C01_conditional_names_exactly_its_terms.
(* folding integer-literal subtrees (CPython computes them on ints: -0 is 0) changes no read *)
Theorem C01_int_folding_keeps_reads (e : sexpr) : expr_reads string (fold_ints e) = expr_reads string e.
Proof. exact (fold_ints_reads e). Qed.
Print Assumptions C01_int_folding_keeps_reads.
Theorem C01_conditional_instance :
  stmt_of_equation (row_of ["Y"; "X"; "C"; "W"]) "Y = X[-1] if C > 0 else W" =
    Some ("Y", SAssign 0 0%Z (EIf CGt (ERead 2 0%Z) (ENum "0") (ERead 1 (-1)%Z) (ERead 3 0%Z))) /\
  src_of_tokens (row_of ["Y"; "X"; "C"; "W"])
      (lex_items LNone (scan_items "Y = X if not C >= 1 and (W < X or X == 2) else W if C != 0 else -X")) =
    Some ("Y", 0, 0%Z,
          SIf (ERead 1 0%Z)
              (SAnd (SNot (SCmp CGe (ERead 2 0%Z) (ENum "1")))
                    (SOr (SCmp CLt (ERead 3 0%Z) (ERead 1 0%Z)) (SCmp CEq (ERead 1 0%Z) (ENum "2"))))
              (SIf (ERead 3 0%Z) (SCmp CNe (ERead 2 0%Z) (ENum "0")) (SVal (ENeg (ERead 1 0%Z))))).
Proof. exact conditional_instance. Qed.
Print Assumptions C01_conditional_instance.

(* the statements of the program are those of the symbols build_model_definition emits, in SYMBOL-LIST order: an ENDOGENOUS
   symbol's comes from a statement of the script whose left-hand name is the symbol's name and writes that name's row; a
   VERBATIM symbol's (a one-line verbatim assignment of the subset) is read off its own code *)
Theorem C01_statements_in_symbol_order syms stmts names prog :
  program_of_symbols syms stmts = Some (names, prog) ->
  names = names_of syms /\
  Forall2 (fun s st => exists i k0 e, st = SAssign i k0 e /\
             ((exists n eq, sname s = Some n /\ In eq stmts /\
                            stmt_of_equation (row_of names) eq = Some (n, st) /\ row_of names n = Some i) \/
              (sname s = None /\ exists c y, scode s = Some c /\
                            stmt_of_code (row_of names) c = Some (y, st) /\ row_of names y = Some i)))
          (filter emits syms) prog.
Proof. exact (program_order syms stmts names prog). Qed.
Print Assumptions C01_statements_in_symbol_order.

(* THE TIE BETWEEN THE CODE TEXT AND THE STATEMENT (review item 1).  Part A says what the code TEXT is; the theorems of
   Part B speak about the statement read from the SCRIPT's tokens.  The link "reading the generated code text gives that
   very statement" is decided per statement (code_agrees: lex_code — the code's own spelling self._NAME[t+K], np.exp, … —
   followed by the same tree parser must return the identical statement), the decision is exact … *)
Theorem C01_code_agrees_sound row eq s :
  code_agrees row eq = true -> stmt_of_equation row eq = Some s ->
  exists c, code_text eq = Some c /\ stmt_of_code row c = stmt_of_equation row eq.
Proof. exact (code_agrees_sound row eq s). Qed.
Print Assumptions C01_code_agrees_sound.
Theorem C01_code_agrees_complete row eq c :
  code_text eq = Some c -> stmt_of_code row c = stmt_of_equation row eq -> code_agrees row eq = true.
Proof. exact (code_agrees_complete row eq c). Qed.
Print Assumptions C01_code_agrees_complete.
(* … and the model used by K_pyast / K_eval (program_of_script_checked; CodeGenF.fprogram_of_script) accepts a script only if
   EVERY statement passes: an accepted script has the program of program_of_script — so every theorem below applies to it —
   and each of its statements IS what is read back from the code text that Part A (and K_text) identify with Symbol.code.
   Whatever token-wise rendering does to a statement (tokens fusing, a spelling changing meaning) it either preserves the
   statement or puts the script outside the subset; K_tie reports every script that program_of_script accepts and this
   rejects.  (The unconditional  code_text eq = Some c -> stmt_of_code row c = stmt_of_equation row eq  is FALSE as a statement
   about token sequences — `not{X}` — ; C01_code_statement_tie below proves it under the local condition tight_statement.) *)
Theorem C01_accepted_script_is_read_back_from_its_code script names prog :
  program_of_script_checked script = Some (names, prog) ->
  program_of_script script = Some (names, prog) /\
  exists syms stmts,
    parse_model_nocheck script = POk syms /\ split_M script = (stmts, None) /\ names = names_of syms /\
    forall eq s, In eq stmts -> head_is "`" eq && last_is "`" eq = false ->
      stmt_of_equation (row_of names) eq = Some s ->
      exists c, code_text eq = Some c /\ stmt_of_code (row_of names) c = stmt_of_equation (row_of names) eq.
Proof. exact (checked_program_tied script names prog). Qed.
Print Assumptions C01_accepted_script_is_read_back_from_its_code.

(* THE TIE AS A THEOREM, for EVERY statement text eq and every row map: if the normalised items of eq are `tight` — a
   decidable, local condition (CodeGen.tight): every character outside the matches is no letter / underscore / newline and
   does not continue a function name or keyword; every match is a series term with an integer index rendered
   self._NAME[t+K], or a function / keyword of the subset rendered as that word, and does not directly follow a digit, a dot,
   a function name or a keyword — then the generated code text is lexed (lex_code) into EXACTLY the token sequence
   lex_items reads from the script, so reading the code gives the very statement the script denotes.  Token-wise rendering
   preserves the statement; the statements where it does not (`not{X}` -> `notself._X[t]`, `2{p}` -> `2self._p[t]`) are
   not tight (C01_tight_instances). *)
Theorem C01_code_text_lexes_to_the_script_tokens eq c :
  code_text eq = Some c -> tight_statement eq = true ->
  lex_code (S (String.length c)) c = lex_items LNone (scan_items eq).
Proof. exact (code_tokens_tie eq c). Qed.
Print Assumptions C01_code_text_lexes_to_the_script_tokens.
Theorem C01_code_statement_tie row eq c :
  code_text eq = Some c -> tight_statement eq = true -> stmt_of_code row c = stmt_of_equation row eq.
Proof. exact (code_statement_tie row eq c). Qed.
Print Assumptions C01_code_statement_tie.
Theorem C01_tight_statement_has_code eq : tight_statement eq = true -> exists c, code_text eq = Some c.
Proof. exact (tight_has_code eq). Qed.
Print Assumptions C01_tight_statement_has_code.
(* the index text of the code is read back as the index: [t] / [t+K] / [t-K] for every integer *)
Theorem C01_code_index_round_trip k rest : code_index (offset_text k ++ rest) = Some (k, rest).
Proof. exact (code_index_offset k rest). Qed.
Print Assumptions C01_code_index_round_trip.
Theorem C01_tight_instances :
  tight_statement "Yd[1] = { alpha_1 }*exp (  is_open[-12] ) + min( Pin[ +2 ],1.5 )/< e > - not_X**2 + 3*{p}[-1]" = true /\
  tight_statement "Y = A if A < X[-1] and {p}<=2 else 0" = true /\
  tight_statement "Y = X if not C >= 1 and (W < X or X == 2) else W if C != 0 else -X" = true /\
  tight_statement "Y = 1 if not {X} > 0 else 2" = true /\
  tight_statement "Y = 1 if not{X} > 0 else 2" = false /\
  tight_statement "Y = 2{p}" = false /\ tight_statement "Y = 2X" = false /\ tight_statement "Y = 1e5" = false /\
  tight_statement "Y = X if.5 else 1" = false /\
  tight_statement "Y = sqrt(X)" = false /\ tight_statement "Y = X['2000']" = false /\ tight_statement "Y = `np.pi` * X" = false.
Proof. exact tight_instances. Qed.
Print Assumptions C01_tight_instances.

Section C01_pass.
  Variable num : Type.
  Variables (add sub mul div pow : num -> num -> num) (neg absf : num -> num).
  Variables (ltb leb eqb : num -> num -> bool).
  Variable zero : num.
  Variable fun1 : nat -> num -> num.           (* np.exp, np.log: any functions *)
  Variable fun2 : nat -> num -> num -> num.
  Variable flagged : list num -> num -> bool.  (* NumPy's floating-point warning predicate: any *)
  Variable lit : string -> num.                (* the value of a literal text: any *)
  Notation eval_expr := (eval_expr num add sub mul div pow neg absf ltb leb eqb zero fun1 fun2 flagged).
  Notation exec_stmt := (exec_stmt num add sub mul div pow neg absf ltb leb eqb zero fun1 fun2 flagged).
  Notation eval_pass := (eval_pass num add sub mul div pow neg absf ltb leb eqb zero fun1 fun2 flagged).

  (* the pass writes nothing except the left-hand cells *)
  Theorem C01_pass_writes_only_lhs_cells script names (p : sprogram) catch t v :
    program_of_script script = Some (names, p) ->
    agree_outside (fun i q => exists k0, In (i, k0) (prog_lhs string p) /\
                                         py_pos (nth i (shape v) 0%nat) (t + k0) = Some q)
                  v (fst (fst (eval_pass catch (program_map string num lit p) t v))).
  Proof. exact (script_pass_frame num add sub mul div pow neg absf ltb leb eqb zero fun1 fun2 flagged lit script names p catch t v). Qed.

  (* every array access of the pass is the read of a series term of the script at t + the written lag / lead, or the
     write of a left-hand cell at t + its written index *)
  Theorem C01_pass_accesses_are_the_written_terms script names (p : sprogram) catch t v :
    program_of_script script = Some (names, p) ->
    Forall (fun a => (exists xk, In xk (prog_reads string p) /\ a = entry (shape v) t false xk) \/
                     (exists xk, In xk (prog_lhs string p) /\ a = entry (shape v) t true xk))
           (snd (eval_pass catch (program_map string num lit p) t v)).
  Proof. exact (script_pass_accesses num add sub mul div pow neg absf ltb leb eqb zero fun1 fun2 flagged lit script names p catch t v). Qed.

  (* at a FEASIBLE period (room for the deepest lag and the furthest lead of the program), on a store with one row of n
     cells per declared series: every access is served inside the span at exactly position + k — the term X[k] reads X
     at the period k away from the one being evaluated, never a wrapped-around cell — and the pass cannot raise IndexError *)
  Theorem C01_feasible_period_reads_at_written_offsets script names (p : sprogram) catch n t pos (v : vals num) :
    program_of_script script = Some (names, p) ->
    length v = length names -> wf_vals n v ->
    py_pos n t = Some pos ->
    (terms_lags (prog_terms string p) <= pos)%nat -> (pos + terms_leads (prog_terms string p) < n)%nat ->
    Forall (fun a => exists x k, In (x, k) (prog_terms string p) /\
                       acc_var a = x /\ acc_req a = (t + k)%Z /\
                       acc_srv a = Some (Z.to_nat (Z.of_nat pos + k)) /\ (0 <= Z.of_nat pos + k < Z.of_nat n)%Z)
           (snd (eval_pass catch (program_map string num lit p) t v)) /\
    (forall v' c lg, eval_pass catch (program_map string num lit p) t v = ((v', Some c), lg) -> c = tag_warning).
  Proof. exact (script_pass_feasible num add sub mul div pow neg absf ltb leb eqb zero fun1 fun2 flagged lit script names p catch n t pos v). Qed.

  (* Gauss-Seidel: the statement after a prefix p1 runs on the store p1 left, the rest on the store it leaves *)
  Theorem C01_pass_gauss_seidel (p1 : sprogram) y k (e : sexpr) (p2 : sprogram) catch t v v1 l1 :
    eval_pass catch (program_map string num lit p1) t v = ((v1, None), l1) ->
    eval_pass catch (program_map string num lit (p1 ++ SAssign y k e :: p2)%list) t v =
    match exec_stmt catch t v1 (SAssign y k (expr_map string num lit e)) with
    | ((v2, None), l2) => let '(r, l3) := eval_pass catch (program_map string num lit p2) t v2 in (r, (l1 ++ l2 ++ l3)%list)
    | (r, l2) => (r, (l1 ++ l2)%list)
    end.
  Proof. exact (script_pass_in_order num add sub mul div pow neg absf ltb leb eqb zero fun1 fun2 flagged lit p1 y k e p2 catch t v v1 l1). Qed.

  (* the pass IS the left fold of "run the next statement on the store reached so far" over the statements in symbol
     order, starting from the store before the pass; the first exception freezes the state *)
  Theorem C01_pass_is_gauss_seidel_fold (p : sprogram) catch t v :
    eval_pass catch (program_map string num lit p) t v =
    fold_left (pass_step num add sub mul div pow neg absf ltb leb eqb zero fun1 fun2 flagged catch t)
              (program_map string num lit p) ((v, None), []).
  Proof. exact (script_pass_is_fold num add sub mul div pow neg absf ltb leb eqb zero fun1 fun2 flagged lit p catch t v). Qed.

  (* a conditional evaluates its comparison and then ONLY the branch taken; the other branch is neither evaluated nor read *)
  Theorem C01_conditional_reads_only_the_branch_taken o (l r a b : sexpr) catch t v x y ll lr :
    eval_expr catch t v (expr_map string num lit l) = (EVal x, ll) ->
    eval_expr catch t v (expr_map string num lit r) = (EVal y, lr) ->
    eval_expr catch t v (expr_map string num lit (EIf o l r a b)) =
    (let '(res, lx) := eval_expr catch t v (expr_map string num lit (if cmp_sem num ltb leb eqb o x y then a else b))
     in (res, (ll ++ lr ++ lx)%list)).
  Proof. exact (conditional_short_circuit num add sub mul div pow neg absf ltb leb eqb zero fun1 fun2 flagged lit o l r a b catch t v x y ll lr). Qed.

  (* `l <o> r and c2` with the comparison false goes straight to the alternative, `l <o> r or c2` with it true straight to the
     value: the second condition is neither evaluated nor read *)
  Theorem C01_and_skips_second_condition o (l r : sexpr) (c2 : scond) (a b : sexpr) catch t v x y ll lr :
    eval_expr catch t v (expr_map string num lit l) = (EVal x, ll) ->
    eval_expr catch t v (expr_map string num lit r) = (EVal y, lr) ->
    cmp_sem num ltb leb eqb o x y = false ->
    eval_expr catch t v (expr_map string num lit (mk_if (SAnd (SCmp o l r) c2) a b)) =
    (let '(res, lx) := eval_expr catch t v (expr_map string num lit b) in (res, (ll ++ lr ++ lx)%list)).
  Proof. exact (and_short_circuit num add sub mul div pow neg absf ltb leb eqb zero fun1 fun2 flagged lit o l r c2 a b catch t v x y ll lr). Qed.
  Theorem C01_or_skips_second_condition o (l r : sexpr) (c2 : scond) (a b : sexpr) catch t v x y ll lr :
    eval_expr catch t v (expr_map string num lit l) = (EVal x, ll) ->
    eval_expr catch t v (expr_map string num lit r) = (EVal y, lr) ->
    cmp_sem num ltb leb eqb o x y = true ->
    eval_expr catch t v (expr_map string num lit (mk_if (SOr (SCmp o l r) c2) a b)) =
    (let '(res, lx) := eval_expr catch t v (expr_map string num lit a) in (res, (ll ++ lr ++ lx)%list)).
  Proof. exact (or_short_circuit num add sub mul div pow neg absf ltb leb eqb zero fun1 fun2 flagged lit o l r c2 a b catch t v x y ll lr). Qed.

  (* one statement: the value of its right-hand side goes into its left-hand cell; nothing else happens *)
  Theorem C01_statement_effect y k (e : sexpr) catch t v x le q :
    eval_expr catch t v (expr_map string num lit e) = (EVal x, le) ->
    py_pos (length (nth y v [])) (t + k) = Some q ->
    exec_stmt catch t v (SAssign y k (expr_map string num lit e))
    = ((set_cell num v y q x, None), (le ++ [Acc true y (t + k) (Some q)])%list).
  Proof. exact (statement_effect num add sub mul div pow neg absf ltb leb eqb zero fun1 fun2 flagged lit y k e catch t v x le q). Qed.

  (* the value assigned depends only on the cells the statement's own terms name *)
  Theorem C01_value_depends_only_on_written_terms (e : sexpr) catch t (v v' : vals num) :
    shape v' = shape v ->
    (forall x k q, In (x, k) (expr_reads string e) -> py_pos (nth x (shape v) 0%nat) (t + k) = Some q ->
                   nth q (nth x v' []) zero = nth q (nth x v []) zero) ->
    eval_expr catch t v' (expr_map string num lit e) = eval_expr catch t v (expr_map string num lit e).
  Proof. exact (script_value_local num add sub mul div pow neg absf ltb leb eqb zero fun1 fun2 flagged lit e catch t v v'). Qed.
End C01_pass.
Print Assumptions C01_pass_writes_only_lhs_cells.
Print Assumptions C01_pass_accesses_are_the_written_terms.
Print Assumptions C01_feasible_period_reads_at_written_offsets.
Print Assumptions C01_pass_gauss_seidel.
Print Assumptions C01_pass_is_gauss_seidel_fold.
Print Assumptions C01_conditional_reads_only_the_branch_taken.
Print Assumptions C01_and_skips_second_condition.
Print Assumptions C01_or_skips_second_condition.
Print Assumptions C01_statement_effect.
Print Assumptions C01_value_depends_only_on_written_terms.

(* a three-statement script whose symbol order differs from its script order, and one pass of it on binary64 *)
Theorem C01_program_instance :
  program_of_script scriptC =
  Some (["Y"; "X"; "Z"; "W"; "a"; "e"],
        [SAssign 0 0%Z (EBin OAdd (EBin OMul (ENum "2") (ERead 1 (-1)%Z)) (ERead 4 0%Z));
         SAssign 1 0%Z (EBin ODiv (EBin OMul (ENeg (ERead 0 0%Z)) (ERead 0 0%Z)) (ENum "4"));
         SAssign 2 0%Z (EBin OSub (EMax (ERead 3 0%Z) (ERead 0 0%Z)) (ERead 5 0%Z))]).
Proof. exact scriptC_program. Qed.
Print Assumptions C01_program_instance.
Theorem C01_feasible_instance :
  match program_of_script scriptC with
  | Some (names, p) => length names = 6 /\ terms_lags (prog_terms string p) = 1 /\ terms_leads (prog_terms string p) = 0 /\
                       py_pos 2 1%Z = Some 1
  | None => False
  end.
Proof. exact scriptC_feasible. Qed.
Print Assumptions C01_feasible_instance.
(* every row the program names is a declared series *)
Theorem C01_program_rows_declared script names (p : sprogram) :
  program_of_script script = Some (names, p) ->
  forall x k, In (x, k) (prog_terms string p) -> (x < length names)%nat.
Proof. exact (program_rows_declared script names p). Qed.
Print Assumptions C01_program_rows_declared.
(* Y = X[-1] if C > 0 else W at t = 1 with C = 2: reads C[1] and X[0], writes Y[1]; W is never touched *)
Theorem C01_conditional_pass_instance :
  match fprogram_of_script "Y = X[-1] if C > 0 else W" with
  | Some (names, p) =>
    names = ["Y"; "X"; "C"; "W"] /\
    f_eval_pass [] false p 1%Z [[0; 0]; [3; 4]; [2; 2]; [7; 7]]%float
    = (([[0; 3]; [3; 4]; [2; 2]; [7; 7]]%float, None),
       [Acc false 2 1%Z (Some 1); Acc false 1 0%Z (Some 0); Acc true 0 1%Z (Some 1)])
  | None => False
  end.
Proof. exact conditional_pass. Qed.
Print Assumptions C01_conditional_pass_instance.
(* leads and lags on the LEFT-hand side: `Y[1] = X[-1] + 1`, `Z[-1] = Y[1]*2` at t = 1 write Y[2] and Z[0] and nothing else *)
Theorem C01_lhs_offset_instance :
  match fprogram_of_script ("Y[1] = X[-1] + 1" ++ lf ++ "Z[-1] = Y[1]*2") with
  | Some (names, p) =>
    names = ["Y"; "Z"; "X"] /\
    f_eval_pass [] false p 1%Z [[0; 0; 0]; [0; 0; 0]; [5; 6; 7]]%float
    = (([[0; 0; 6]; [12; 0; 0]; [5; 6; 7]]%float, None),
       [Acc false 2 0%Z (Some 0); Acc true 0 2%Z (Some 2); Acc false 0 2%Z (Some 2); Acc true 1 0%Z (Some 0)])
  | None => False
  end.
Proof. exact lhs_offset_pass. Qed.
Print Assumptions C01_lhs_offset_instance.
(* a one-line verbatim assignment of the subset is a statement of the program, run where the symbol list puts it *)
Theorem C01_verbatim_statement_program_instance :
  program_of_script ("`self._W[t] = self._Y[t-1] * 2.0 + max(self._Z[t+1], 1)`" ++ lf ++ "Y = X + 1" ++ lf ++ "Z = Y * W")
  = Some (["Y"; "Z"; "X"; "W"],
          [SAssign 0 0%Z (EBin OAdd (ERead 2 0%Z) (ENum "1"));
           SAssign 1 0%Z (EBin OMul (ERead 0 0%Z) (ERead 3 0%Z));
           SAssign 3 0%Z (EBin OAdd (EBin OMul (ERead 0 (-1)%Z) (ENum "2.0")) (EMax (ERead 1 1%Z) (ENum "1")))]) /\
  program_of_script ("`self.k = 3`" ++ lf ++ "Y = X + 1") = None /\
  program_of_script ("```" ++ lf ++ "self._Y[t] = 1" ++ lf ++ "```" ++ lf ++ "Z = X") = None.
Proof. exact verbatim_statement_program. Qed.
Print Assumptions C01_verbatim_statement_program_instance.
Theorem C01_pass_instance :
  match fprogram_of_script scriptC with
  | Some (_, p) =>
    fst (fst (f_eval_pass [] false p 1%Z
                [[0; 0]; [3; 0]; [0; 0]; [5; 5]; [1; 1]; [0.5; 0.5]]%float))
    = [[0; 7]; [3; -12.25]; [0; 6.5]; [5; 5]; [1; 1]; [0.5; 0.5]]%float
  | None => False
  end.
Proof. exact scriptC_pass. Qed.
Print Assumptions C01_pass_instance.

(* ======================= Part C: where the current code breaks the property ======================= *)

(* #20: `Y = X [-1]` — the lag is silently lost; the code subscripts the value X[t] *)
Theorem C01_space_before_index_refuted :
  exists eq syms, parse_equation_M eq = POk syms /\ text_guard eq = true /\
    code_text eq = Some "self._Y[t] = self._X[t] [-1]" /\
    In (mkSymbol (Some "X") TExogenous (Some (IInt 0%Z)) (Some (IInt 0%Z)) None None) syms /\
    stmt_of_equation (fun x => index_of x ["Y"; "X"]) eq = None.
Proof. exact space_before_index_refuted. Qed.
Print Assumptions C01_space_before_index_refuted.

(* `Y = {{a}}` — str.format un-escapes the doubled braces: the parameter disappears from the code *)
Theorem C01_brace_outside_parameter_refuted :
  exists eq syms, parse_equation_M eq = POk syms /\ gaps_brace_free (scan_items eq) = false /\
    code_text eq = Some "self._Y[t] = {self._a[t]}" /\
    In (mkSymbol (Some "Y") TEndogenous (Some (IInt 0%Z)) (Some (IInt 0%Z)) (Some "Y[t] = {}") (Some "self._Y[t] = {}")) syms /\
    In (mkSymbol (Some "a") TParameter (Some (IInt 0%Z)) (Some (IInt 0%Z)) None None) syms.
Proof. exact brace_outside_parameter_refuted. Qed.
Print Assumptions C01_brace_outside_parameter_refuted.

(* (finding #19 — `Y = exp + exp(X)` lost the series exp — is repaired by b45daa1; see C01_every_series_term_is_declared) *)

(* NEW: `Y = _x + 1` — a series name beginning with an underscore: self.__x is name-mangled inside the class body *)
Theorem C01_underscore_name_mangled_refuted :
  exists script syms, parse_model_nocheck script = POk syms /\
    In (mkSymbol (Some "Y") TEndogenous (Some (IInt 0%Z)) (Some (IInt 0%Z)) (Some "Y[t] = _x[t] + 1")
                 (Some "self._Y[t] = self.__x[t] + 1")) syms /\
    names_of syms = ["Y"; "_x"] /\ mangled "_x" = true /\ mangled "_" = false /\ mangled "__x__" = false /\
    program_of_script script = None.
Proof. exact underscore_name_mangled_refuted. Qed.
Print Assumptions C01_underscore_name_mangled_refuted.

(* NEW: `Y = 1 if not{X} > 0 else 2` — a {parameter} / <error> term directly after a keyword: in the code they fuse into one
   identifier (`notself._X[t]`), which compiles and raises NameError when evaluated; with a blank in between all is well *)
Theorem C01_keyword_fused_with_term_refuted :
  exists eq syms, parse_equation_M eq = POk syms /\ text_guard eq = true /\
    code_text eq = Some "self._Y[t] = 1 if notself._X[t] > 0 else 2" /\
    stmt_of_equation (row_of ["Y"; "X"]) eq = None /\
    stmt_of_equation (row_of ["Y"; "X"]) "Y = 1 if not {X} > 0 else 2"
    = Some ("Y", SAssign 0 0%Z (EIf CGt (ERead 1 0%Z) (ENum "0") (ENum "2") (ENum "1"))).
Proof. exact keyword_fused_with_term_refuted. Qed.
Print Assumptions C01_keyword_fused_with_term_refuted.

(* NEW (review 2): accepted statements that are not ONE assignment to the left-hand cell — a chained assignment or a second
   statement after `;` writes a variable classified EXOGENOUS; a comparison `Y == X` has an `=` and makes Y ENDOGENOUS while
   nothing is assigned; a `yield` turns _evaluate into a generator function (no equation runs); a blank inside a dotted
   function name makes its first part a series.  All pass parse_model's syntax check; all are outside the subset. *)
Theorem C01_chained_assignment_refuted :
  (exists syms, parse_model_nocheck "Y = Z = X" = POk syms /\
     map sym_view syms = [(Some "Y", TEndogenous, Some "self._Y[t] = self._Z[t] = self._X[t]"); (Some "Z", TExogenous, None); (Some "X", TExogenous, None)]) /\
  (exists syms, parse_model_nocheck "Y = X; Z = 1" = POk syms /\
     map sym_view syms = [(Some "Y", TEndogenous, Some "self._Y[t] = self._X[t]; self._Z[t] = 1"); (Some "X", TExogenous, None); (Some "Z", TExogenous, None)]) /\
  program_of_script "Y = Z = X" = None /\ program_of_script "Y = X; Z = 1" = None.
Proof. exact chained_assignment_refuted. Qed.
Print Assumptions C01_chained_assignment_refuted.
Theorem C01_comparison_statement_refuted :
  (exists syms, parse_model_nocheck "Y == X" = POk syms /\
     map sym_view syms = [(Some "Y", TEndogenous, Some "self._Y[t] == self._X[t]"); (Some "X", TExogenous, None)]) /\
  program_of_script "Y == X" = None.
Proof. exact comparison_statement_refuted. Qed.
Print Assumptions C01_comparison_statement_refuted.
Theorem C01_yield_statement_refuted :
  (exists syms, parse_model_nocheck ("Z = (yield)" ++ lf ++ "Y = X") = POk syms /\
     map sym_view (filter emits syms) = [(Some "Z", TEndogenous, Some "self._Z[t] = (yield)"); (Some "Y", TEndogenous, Some "self._Y[t] = self._X[t]")]) /\
  program_of_script ("Z = (yield)" ++ lf ++ "Y = X") = None.
Proof. exact yield_statement_refuted. Qed.
Print Assumptions C01_yield_statement_refuted.
Theorem C01_blank_in_dotted_name_refuted :
  (exists syms, parse_model_nocheck "Y = np .sqrt(X)" = POk syms /\
     map sym_view syms = [(Some "Y", TEndogenous, Some "self._Y[t] = self._np[t] .sqrt(self._X[t])"); (Some "np", TExogenous, None);
                          (Some "sqrt", TFunction, None); (Some "X", TExogenous, None)]) /\
  code_text "Y = np.sqrt(X)" = Some "self._Y[t] = np.sqrt(self._X[t])" /\ program_of_script "Y = np .sqrt(X)" = None.
Proof. exact blank_in_dotted_name_refuted. Qed.
Print Assumptions C01_blank_in_dotted_name_refuted.

(* `Y[a=b] = X` — a match spanning the first `=`: terms and placeholders no longer correspond *)
Theorem C01_match_spanning_equals_refuted :
  exists eq syms, parse_equation_M eq = POk syms /\ aligned_b eq = false /\
    In (mkSymbol (Some "Y") TEndogenous (Some (IInt 0%Z)) (Some (IInt 0%Z)) (Some "Y[t] = a[t]") (Some "self._Y[t] = self._a[t]")) syms.
Proof. exact match_spanning_equals_refuted. Qed.
Print Assumptions C01_match_spanning_equals_refuted.
