(* Props/C12.v — the audited surface for property C12 (reindex preserves overlapping periods and fills the rest,
   on a fresh object).  Statements only; every proof is `exact <lemma>`; Print Assumptions under each.

   Clauses WITHOUT a theorem (checked by the direct oracle on the implementation only): "a new object of the same class" (the
   model's state has no class); "the original object is unchanged" (reindex_M is a pure function of the original, so this is true
   of the model by construction, nothing is proved: the oracle snapshots the original's series, span, variable names and public
   attributes before the call and compares after it — also when the call raised — and again after overwriting the result).
   The NaN default of float variables is NumPy's conversion of None: in the theorems it is `cast n DFloat PNone` for an arbitrary
   conversion `cast`; that it is NaN is a fact of the table cast_tbl (C12_cast_tbl_defaults) which the correspondence check validates.
   Kept findings: a NumPy datetime64[ns] array OLD span (span_ok asks obj_stable): KeyError for every requested period that is in the
   old span (C12_arr_datetime64ns_old_span_refuted); a NumPy-array OLD span with a repeated label (span_ok asks NoDup there): the call
   fails with KeyError when that label is requested (C12_dup_arr_old_span_KeyError); list / tuple / range old spans with repeated labels ARE covered
   (first occurrence: old_span_ok holds, C12_dup_list_old_span_covered) — there the oracle checks every label that is not itself
   repeated.  The conversion of an unconvertible fill value (which exception class) and slice-valued locations (text labels on
   Period / Datetime old spans) are K-only.
   Theorems marked [definitional] restate a definition; they document the model and cover no clause by themselves. *)
From Coq Require Import ZArith List Bool String.
Import ListNotations.
Require Import PyBase Generated Locate LocateFacts LocateExamples LocateIndex LocateIndexFacts Reindex ReindexFacts ReindexFacts2 ReindexExamples.
Open Scope Z_scope.
Open Scope list_scope.

Section C12.
  (* external behaviour: pandas' get_loc / __contains__, and the conversion of a fill value to a dtype
     (bool() / int() / str() followed by np.full(n, value, dtype); n is an argument because NumPy converts the
     value only when there is an element to fill) — the theorems hold for every such behaviour *)
  Variable pd_get_loc : list label -> label -> outcome loc.
  Variable pd_contains : list label -> label -> bool.
  Variable cast : nat -> dtype -> pyval -> outcome cell.

  (* ---------- reindex_values + reindex_preserves_meta ----------
     For all old / new spans (any length, permuted, disjoint, repeated labels in the new span), all variables in
     `index` order (status and iterations of a model are ordinary variables here): the result's span is the new span,
     strictness and attribute contents carry over, and variable by variable (same name, same position, same dtype)
     the new series is  [ old[pos p] if p is in the old span else fill  |  p in new span ]  with
     fill = fill_cell dtype (per-variable keyword if given else fill_value) — exactly, for every dtype but object; for an
     object-dtype series up to the identity of the referenced objects (`erase`), which are deep copies since fix 28b2a9a.
     The result's span object is a new object (`fresh`: copy.deepcopy(span), fix af303e7). *)
  Theorem C12_reindex_values (st st' : cst) (new_span : span) (new_id : Z) (fv : pyval) (strict : option bool)
          (fills : list (string * pyval)) (fresh : Z) :
    wf st ->
    old_span_ok pd_get_loc pd_contains (c_span st) (span_labels new_span) ->
    reindex_M pd_get_loc pd_contains cast st new_span new_id fv strict fills fresh = Ret st' ->
    c_span st' = new_span /\ c_span_id st' = fresh /\ c_strict st' = c_strict st
    /\ attrs_view (c_attrs st') = attrs_view (c_attrs st)
    /\ Forall2 (fun a b : string * series cell =>
                  fst b = fst a /\ s_dtype (snd b) = s_dtype (snd a)
                  /\ exists c, fill_cell cast (List.length (span_labels new_span)) (s_dtype (snd a)) (fill_for fills fv (fst a)) = Ret c
                            /\ map erase (s_data (snd b)) =
                               map erase (map (fun p => match pos p (span_labels (c_span st)) with
                                                        | Some q => nth q (s_data (snd a)) c
                                                        | None => c
                                                        end) (span_labels new_span))
                            /\ (s_dtype (snd a) <> DObj ->
                                s_data (snd b) =
                                map (fun p => match pos p (span_labels (c_span st)) with
                                              | Some q => nth q (s_data (snd a)) c
                                              | None => c
                                              end) (span_labels new_span)))
               (c_vars st) (c_vars st').
  Proof. exact (reindex_values pd_get_loc pd_contains cast st st' new_span new_id fv strict fills fresh). Qed.

  (* the hypothesis on the old span holds for list / tuple / range (step <> 0) / duplicate-free NumPy-array spans (ANY new labels,
     also tuples, since fix 35fe7e2) and for pandas indexes whose two oracles answer by membership / position *)
  Theorem C12_old_span_ok (old : span) (labels : list label) :
    span_ok pd_get_loc old ->
    (forall ls, old = SPandas ls -> forall p, In p labels -> pd_contains ls p = is_some (pos p ls)) ->
    old_span_ok pd_get_loc pd_contains old labels.
  Proof. exact (old_span_ok_intro pd_get_loc pd_contains old labels). Qed.

  (* [definitional: fill_for IS this match] fill precedence: per-variable keyword > fill_value; the precedence is USED by
     C12_reindex_values, which is where it covers the clause.  Then the dtype defaults the code supplies for None *)
  Theorem C12_fill_precedence (fills : list (string * pyval)) (fv : pyval) (name : string) :
    fill_for fills fv name = match lookup name fills with Some v => v | None => fv end.
  Proof. exact (fill_precedence fills fv name). Qed.
  Theorem C12_fill_none_defaults :
    forall n,
    fill_cell cast n DBool PNone = Ret (CB false) /\ fill_cell cast n DInt PNone = Ret (CI 0)
    /\ (forall w, fill_cell cast n (DStr w) PNone = Ret (CS "")) /\ fill_cell cast n DFloat PNone = cast n DFloat PNone
    /\ (forall dt v, v <> PNone -> fill_cell cast n dt v = cast n dt v).
  Proof. exact (fill_none_defaults cast). Qed.

  (* ---------- reindex_fresh ---------- *)
  (* the span object, every array and every mutable attribute of the result are newly allocated objects; an object reference in a
     cell of the result is a newly allocated deep copy, or the fill value's — or sits in a series that is not of object dtype
     (NumPy holds references in object arrays only: obj_typed) *)
  Theorem C12_reindex_fresh (st st' : cst) (new_span : span) (new_id : Z) (fv : pyval) (strict : option bool)
          (fills : list (string * pyval)) (fresh : Z) :
    wf st ->
    old_span_ok pd_get_loc pd_contains (c_span st) (span_labels new_span) ->
    reindex_M pd_get_loc pd_contains cast st new_span new_id fv strict fills fresh = Ret st' ->
    (forall id, In id (c_span_id st' :: series_ids (c_vars st') ++ attr_ids (c_attrs st')) -> fresh <= id)
    /\ (forall id, In id (object_ids (c_vars st')) ->
          fresh <= id
          \/ (exists n dt v, cast n dt v = Ret (CO id))
          \/ (exists kv, In kv (c_vars st) /\ s_dtype (snd kv) <> DObj /\ In id (cell_ids (s_data (snd kv))))).
  Proof. exact (reindex_fresh pd_get_loc pd_contains cast st st' new_span new_id fv strict fills fresh). Qed.

  (* an allocator handing out unused identities, fill values that are not objects of the original, references kept in object-dtype
     series only: the result shares NOTHING with the original — not the span object (even when the caller passes the original's
     own span object: new_id is unconstrained), not an array, not a mutable attribute, not an object held in a cell.
     (Before fixes af303e7 / 28b2a9a this needed the guards "the span passed is not the original's" and "no object cells".) *)
  Theorem C12_reindex_shares_nothing (st st' : cst) (new_span : span) (new_id : Z) (fv : pyval) (strict : option bool)
          (fills : list (string * pyval)) (fresh : Z) :
    wf st ->
    old_span_ok pd_get_loc pd_contains (c_span st) (span_labels new_span) ->
    (forall id, In id (ids st) -> id < fresh) ->
    obj_typed st ->
    (forall n dt v id, cast n dt v = Ret (CO id) -> ~ In id (ids st)) ->
    reindex_M pd_get_loc pd_contains cast st new_span new_id fv strict fills fresh = Ret st' ->
    forall id, In id (ids st') -> ~ In id (ids st).
  Proof. exact (reindex_shares_nothing pd_get_loc pd_contains cast st st' new_span new_id fv strict fills fresh). Qed.

  (* ---------- unknown_fill_rejected_only_strict ---------- *)
  Theorem C12_unknown_fill_rejected_strict (st : cst) new_span new_id fv strict fills fresh name v :
    effective_strict st strict = true -> In (name, v) fills -> lookup name (c_vars st) = None ->
    reindex_M pd_get_loc pd_contains cast st new_span new_id fv strict fills fresh = Raise KeyError.
  Proof. exact (unknown_fill_rejected_strict pd_get_loc pd_contains cast st new_span new_id fv strict fills fresh name v). Qed.

  Theorem C12_unknown_fill_ignored_not_strict (st : cst) new_span new_id fv strict fills1 fills2 fresh :
    effective_strict st strict = false ->
    (forall name, mem_name name (c_vars st) = true -> lookup name fills1 = lookup name fills2) ->
    reindex_M pd_get_loc pd_contains cast st new_span new_id fv strict fills1 fresh
    = reindex_M pd_get_loc pd_contains cast st new_span new_id fv strict fills2 fresh.
  Proof. exact (unknown_fill_ignored_not_strict pd_get_loc pd_contains cast st new_span new_id fv strict fills1 fills2 fresh). Qed.

  Theorem C12_known_fills_strict_irrelevant (st : cst) new_span new_id fv fills fresh s1 s2 :
    (forall kv, In kv fills -> mem_name (fst kv) (c_vars st) = true) ->
    reindex_M pd_get_loc pd_contains cast st new_span new_id fv s1 fills fresh
    = reindex_M pd_get_loc pd_contains cast st new_span new_id fv s2 fills fresh.
  Proof. exact (known_fills_strict_irrelevant pd_get_loc pd_contains cast st new_span new_id fv fills fresh s1 s2). Qed.

  (* ---------- models (BaseModel.reindex): the same statement with status '-' / iterations -1 as the defaults of these two
     variables (a keyword overrides them, fill_value never reaches them); every other variable as in the container ---------- *)
  Theorem C12_model_reindex_values (st st' : cst) (new_span : span) (new_id : Z) (fv : pyval) (strict : option bool)
          (fills : list (string * pyval)) (fresh : Z) :
    wf st ->
    old_span_ok pd_get_loc pd_contains (c_span st) (span_labels new_span) ->
    model_reindex_M pd_get_loc pd_contains cast st new_span new_id fv strict fills fresh = Ret st' ->
    c_span st' = new_span /\ c_span_id st' = fresh /\ c_strict st' = c_strict st
    /\ attrs_view (c_attrs st') = attrs_view (c_attrs st)
    /\ Forall2 (fun a b : string * series cell =>
                  fst b = fst a /\ s_dtype (snd b) = s_dtype (snd a)
                  /\ exists c, fill_cell cast (List.length (span_labels new_span)) (s_dtype (snd a))
                                 (if String.eqb (fst a) "status" then match lookup "status" fills with Some v => v | None => PStr "-" end
                                  else if String.eqb (fst a) "iterations" then match lookup "iterations" fills with Some v => v | None => PInt (-1) end
                                  else match lookup (fst a) fills with Some v => v | None => fv end) = Ret c
                            /\ map erase (s_data (snd b)) =
                               map erase (map (fun p => match pos p (span_labels (c_span st)) with
                                                        | Some q => nth q (s_data (snd a)) c
                                                        | None => c
                                                        end) (span_labels new_span))
                            /\ (s_dtype (snd a) <> DObj ->
                                s_data (snd b) =
                                map (fun p => match pos p (span_labels (c_span st)) with
                                              | Some q => nth q (s_data (snd a)) c
                                              | None => c
                                              end) (span_labels new_span)))
               (c_vars st) (c_vars st').
  Proof. exact (model_reindex_values pd_get_loc pd_contains cast st st' new_span new_id fv strict fills fresh). Qed.

  (* ---------- observed by label (the property's observation point: every series of the result vs the original by label):
     reading the result through obj[name, p] — with ANY lookup meeting locate_spec on the new span (C10) — gives for every
     variable and every period p of the new span its old value if p was a period of the old span, else the variable's fill ---------- *)
  Theorem C12_reindex_then_label_get (st st' : cst) (new_span : span) (new_id : Z) (fv : pyval) (strict : option bool)
          (fills : list (string * pyval)) (fresh : Z) (lc' : label -> outcome loc) :
    wf st ->
    old_span_ok pd_get_loc pd_contains (c_span st) (span_labels new_span) ->
    reindex_M pd_get_loc pd_contains cast st new_span new_id fv strict fills fresh = Ret st' ->
    locate_spec (span_labels new_span) lc' ->
    forall name sr, lookup name (c_vars st) = Some sr ->
    exists c, fill_cell cast (List.length (span_labels new_span)) (s_dtype sr) (fill_for fills fv name) = Ret c
      /\ forall p i, pos p (span_labels new_span) = Some i ->
           exists v, get_item_with lc' st' name (KLabel p) = Ret (RScalar v)
             /\ erase v = erase (match pos p (span_labels (c_span st)) with Some q => nth q (s_data sr) c | None => c end)
             /\ (s_dtype sr <> DObj -> v = match pos p (span_labels (c_span st)) with Some q => nth q (s_data sr) c | None => c end).
  Proof. exact (reindex_then_label_get pd_get_loc pd_contains cast st st' new_span new_id fv strict fills fresh lc'). Qed.

  (* reindexing to the same periods in the same order changes no value, dtype or name of any variable, whatever the fill arguments *)
  Theorem C12_reindex_same_labels_identity (st st' : cst) (new_span : span) (new_id : Z) (fv : pyval) (strict : option bool)
          (fills : list (string * pyval)) (fresh : Z) :
    wf st ->
    old_span_ok pd_get_loc pd_contains (c_span st) (span_labels new_span) ->
    span_labels new_span = span_labels (c_span st) -> NoDup (span_labels (c_span st)) ->
    reindex_M pd_get_loc pd_contains cast st new_span new_id fv strict fills fresh = Ret st' ->
    map (fun kv => (fst kv, (s_dtype (snd kv), map erase (s_data (snd kv))))) (c_vars st')
    = map (fun kv => (fst kv, (s_dtype (snd kv), map erase (s_data (snd kv))))) (c_vars st).
  Proof. exact (reindex_same_labels_identity pd_get_loc pd_contains cast st st' new_span new_id fv strict fills fresh). Qed.

  (* the result is well formed again, so reindex calls can be chained; extend (or permute) and come back: if every period of
     the duplicate-free original span occurs in the intermediate span, reindexing there and back restores every variable *)
  Theorem C12_reindex_wf (st st' : cst) (new_span : span) (new_id : Z) (fv : pyval) (strict : option bool)
          (fills : list (string * pyval)) (fresh : Z) :
    wf st -> old_span_ok pd_get_loc pd_contains (c_span st) (span_labels new_span) ->
    reindex_M pd_get_loc pd_contains cast st new_span new_id fv strict fills fresh = Ret st' -> wf st'.
  Proof. exact (reindex_wf pd_get_loc pd_contains cast st st' new_span new_id fv strict fills fresh). Qed.

  Theorem C12_reindex_roundtrip (st st1 st2 : cst) (mid back : span) id1 id2 fv1 fv2 strict1 strict2 fills1 fills2 fresh1 fresh2 :
    wf st ->
    NoDup (span_labels (c_span st)) ->
    (forall p, In p (span_labels (c_span st)) -> In p (span_labels mid)) ->
    span_labels back = span_labels (c_span st) ->
    old_span_ok pd_get_loc pd_contains (c_span st) (span_labels mid) ->
    old_span_ok pd_get_loc pd_contains mid (span_labels back) ->
    reindex_M pd_get_loc pd_contains cast st mid id1 fv1 strict1 fills1 fresh1 = Ret st1 ->
    reindex_M pd_get_loc pd_contains cast st1 back id2 fv2 strict2 fills2 fresh2 = Ret st2 ->
    map (fun kv => (fst kv, (s_dtype (snd kv), map erase (s_data (snd kv))))) (c_vars st2)
    = map (fun kv => (fst kv, (s_dtype (snd kv), map erase (s_data (snd kv))))) (c_vars st).
  Proof. exact (reindex_roundtrip pd_get_loc pd_contains cast st st1 st2 mid back id1 id2 fv1 fv2 strict1 strict2 fills1 fills2 fresh1 fresh2). Qed.

  (* ---------- totality: on a well-formed object with an old span of the supported kinds, nothing but the strict test and
     the conversion of a fill value to its variable's dtype can make reindex fail ---------- *)
  Theorem C12_reindex_succeeds (st : cst) (new_span : span) (new_id : Z) (fv : pyval) (strict : option bool)
          (fills : list (string * pyval)) (fresh : Z) :
    wf st ->
    old_span_ok pd_get_loc pd_contains (c_span st) (span_labels new_span) ->
    (effective_strict st strict = false \/ forall kv, In kv fills -> mem_name (fst kv) (c_vars st) = true) ->
    Forall (fun kv => exists c, fill_cell cast (List.length (span_labels new_span)) (s_dtype (snd kv)) (fill_for fills fv (fst kv)) = Ret c) (c_vars st) ->
    exists st', reindex_M pd_get_loc pd_contains cast st new_span new_id fv strict fills fresh = Ret st'.
  Proof. exact (reindex_succeeds pd_get_loc pd_contains cast st new_span new_id fv strict fills fresh). Qed.

  (* ---------- the pandas mixin (PandasIndexFeaturesMixin.reindex, since fix 2658d81): it calls the core model reindex WITH the fill
     arguments and consults pandas only for variables that have a fill method.  Series.reindex and NumPy's casting assignment are
     oracles (Section variables); K supplies their recorded answers. ---------- *)
  Variable series_reindex : span -> dtype -> list cell -> span -> option string -> pyval -> outcome (list cell).
  Variable assign_cast : dtype -> list cell -> outcome (list cell).

  (* with its DEFAULT pandas arguments the mixin IS the core model reindex with the same fill arguments — whatever pandas would answer
     (formerly refuted: findings #11 and status / iterations keywords) *)
  Theorem C12_pandas_default_is_core (st : cst) (names : list string) (new_span : span) (new_id : Z)
          (fv : pyval) (strict : option bool) (fills : list (string * pyval)) (fresh : Z) :
    pandas_reindex_M pd_get_loc pd_contains cast series_reindex assign_cast st names new_span new_id None fv strict fills [] [] [] [] [] fresh
    = model_reindex_M pd_get_loc pd_contains cast st new_span new_id fv strict fills fresh.
  Proof. exact (pandas_default_is_core pd_get_loc pd_contains cast series_reindex assign_cast st names new_span new_id fv strict fills fresh). Qed.

  (* whatever the oracles answer, the loop leaves span, attributes, strictness, variable order, dtypes and every variable not in
     `names` as the core reindex made them *)
  Theorem C12_pandas_loop_frame orig new_span mf fills fv names r r' :
    pandas_loop series_reindex assign_cast orig new_span mf fills fv names r = Ret r' ->
    c_span r' = c_span r /\ c_span_id r' = c_span_id r /\ c_attrs r' = c_attrs r /\ c_strict r' = c_strict r
    /\ map fst (c_vars r') = map fst (c_vars r)
    /\ map (fun kv => s_dtype (snd kv)) (c_vars r') = map (fun kv => s_dtype (snd kv)) (c_vars r)
    /\ (forall k, in_names k names = false -> lookup k (c_vars r') = lookup k (c_vars r)).
  Proof. exact (pandas_loop_frame series_reindex assign_cast orig new_span mf fills fv names r r'). Qed.

  (* each variable in `names`: without a fill method it is exactly as the core made it; with a method m it holds NumPy's cast (to the
     dtype the core kept) of what Series.reindex answered for m and that variable's fill (per-variable keyword, else fill_value) *)
  Theorem C12_pandas_loop_var orig new_span mf fills fv names r r' :
    NoDup names ->
    pandas_loop series_reindex assign_cast orig new_span mf fills fv names r = Ret r' ->
    forall name, In name names ->
    match mf name with
    | None => lookup name (c_vars r') = lookup name (c_vars r)
    | Some m =>
        exists so sn vals d,
          lookup name (c_vars orig) = Some so /\ lookup name (c_vars r) = Some sn
          /\ series_reindex (c_span orig) (s_dtype so) (s_data so) new_span (Some m) (fill_for fills fv name) = Ret vals
          /\ assign_cast (s_dtype sn) vals = Ret d
          /\ lookup name (c_vars r') = Some (mkSeries (s_dtype sn) (s_id sn) d)
    end.
  Proof. exact (pandas_loop_var series_reindex assign_cast orig new_span mf fills fv names r r'). Qed.

  (* no fill method for any variable: the loop is the identity *)
  Theorem C12_pandas_loop_no_method orig new_span mf fills fv names r :
    (forall name, In name names -> mf name = None) ->
    pandas_loop series_reindex assign_cast orig new_span mf fills fv names r = Ret r.
  Proof. exact (pandas_loop_no_method series_reindex assign_cast orig new_span mf fills fv names r). Qed.

  (* the mixin as a whole, with any arguments: metadata are the core's; every variable outside `names` and every variable without a
     fill method holds its old values at overlapping periods and its own fill (keyword > fill_value > dtype default; '-' / -1 for
     status / iterations) at the new ones *)
  Theorem C12_pandas_reindex_meta (st st' : cst) (names : list string) (new_span : span) (new_id : Z) (method : option string)
          (fv : pyval) (strict : option bool) (fills : list (string * pyval)) (l1 l2 l3 l4 l5 : list string) (fresh : Z) :
    wf st ->
    old_span_ok pd_get_loc pd_contains (c_span st) (span_labels new_span) ->
    NoDup names ->
    pandas_reindex_M pd_get_loc pd_contains cast series_reindex assign_cast st names new_span new_id method fv strict fills l1 l2 l3 l4 l5 fresh = Ret st' ->
    c_span st' = new_span /\ c_span_id st' = fresh /\ c_strict st' = c_strict st
    /\ attrs_view (c_attrs st') = attrs_view (c_attrs st)
    /\ map fst (c_vars st') = map fst (c_vars st)
    /\ map (fun kv => s_dtype (snd kv)) (c_vars st') = map (fun kv => s_dtype (snd kv)) (c_vars st)
    /\ (forall k sr, (in_names k names = false \/ method_for l1 l2 l3 l4 l5 method k = None) -> lookup k (c_vars st) = Some sr ->
          exists sr' c, lookup k (c_vars st') = Some sr' /\ s_dtype sr' = s_dtype sr
            /\ fill_cell cast (List.length (span_labels new_span)) (s_dtype sr)
                 (if String.eqb k "status" then match lookup "status" fills with Some v => v | None => PStr "-" end
                  else if String.eqb k "iterations" then match lookup "iterations" fills with Some v => v | None => PInt (-1) end
                  else match lookup k fills with Some v => v | None => fv end) = Ret c
            /\ map erase (s_data sr') = map erase (map (fun p => match pos p (span_labels (c_span st)) with
                                                                  | Some q => nth q (s_data sr) c
                                                                  | None => c
                                                                  end) (span_labels new_span))
            /\ (s_dtype sr <> DObj ->
                s_data sr' = map (fun p => match pos p (span_labels (c_span st)) with
                                           | Some q => nth q (s_data sr) c
                                           | None => c
                                           end) (span_labels new_span))).
  Proof. exact (pandas_reindex_meta pd_get_loc pd_contains cast series_reindex assign_cast st st' names new_span new_id method fv strict fills l1 l2 l3 l4 l5 fresh). Qed.
End C12.
Print Assumptions C12_reindex_values.
Print Assumptions C12_old_span_ok.
Print Assumptions C12_fill_precedence.
Print Assumptions C12_fill_none_defaults.
Print Assumptions C12_reindex_fresh.
Print Assumptions C12_reindex_shares_nothing.
Print Assumptions C12_unknown_fill_rejected_strict.
Print Assumptions C12_unknown_fill_ignored_not_strict.
Print Assumptions C12_known_fills_strict_irrelevant.
Print Assumptions C12_pandas_loop_frame.
Print Assumptions C12_model_reindex_values.
Print Assumptions C12_reindex_succeeds.
Print Assumptions C12_reindex_wf.
Print Assumptions C12_reindex_roundtrip.
Print Assumptions C12_reindex_same_labels_identity.
Print Assumptions C12_reindex_then_label_get.
Print Assumptions C12_pandas_loop_var.
Print Assumptions C12_pandas_loop_no_method.
Print Assumptions C12_pandas_default_is_core.
Print Assumptions C12_pandas_reindex_meta.

(* [near-definitional: unfolds with_model_defaults; used by C12_model_reindex_values, which covers the clause] models: status '-'
   (SolutionStatus.UNSOLVED.value, regenerated) and iterations -1 unless given; fill_value never reaches them *)
Theorem C12_model_defaults (fills : list (string * pyval)) (fv : pyval) :
  fill_for (with_model_defaults fills) fv "status" = match lookup "status" fills with Some v => v | None => PStr "-" end
  /\ fill_for (with_model_defaults fills) fv "iterations" = match lookup "iterations" fills with Some v => v | None => PInt (-1) end
  /\ (forall name, name <> "status"%string -> name <> "iterations"%string ->
        fill_for (with_model_defaults fills) fv name = fill_for fills fv name).
Proof. exact (model_defaults fills fv). Qed.
Print Assumptions C12_model_defaults.

(* ---------- formerly refuted, now positive (fixes 28b2a9a, af303e7, 2658d81, 35fe7e2): no finding of C12 is left ---------- *)
(* finding #11: with default arguments the mixin's new period holds the dtype defaults, and the call IS the core model reindex *)
Theorem C12_pandas_default_fill_is_core :
  exists st', rx_pandas_result = Ret st'
    /\ map (fun kv => nth 2 (s_data (snd kv)) (CV PNone)) (c_vars st') = [CS "-"; CI (-1); CF FNan; CI 0; CB false; CS ""]
    /\ rx_pandas_result = model_reindex_M no_pandas no_contains cast_tbl rx_pmodel (SRange 2001 1 3) 9 PNone None [] 100.
Proof. exact pandas_default_fill_is_core. Qed.
Print Assumptions C12_pandas_default_fill_is_core.

(* a tuple label of the new span against a NumPy-array old span is a NEW period and gets the fill; the hypotheses of
   C12_reindex_values hold for it (old_span_ok) *)
Theorem C12_arr_tuple_label_is_new_period :
  wf rx_arr_state /\ old_span_ok no_pandas no_contains (c_span rx_arr_state) [LPair 2 3; LPair 2 5; LInt 5]
  /\ option_map (fun s => map (fun kv => s_data (snd kv)) (c_vars s))
                (match reindex_M no_pandas no_contains cast_tbl rx_arr_state (SList [LPair 2 3; LPair 2 5; LInt 5]) 9 PNone None [] 100 with Ret s => Some s | Raise _ => None end)
     = Some [[CF FNan; CF FNan; CF (FNum (-4))]].
Proof. exact reindex_arr_tuple_label_is_new_period. Qed.
Print Assumptions C12_arr_tuple_label_is_new_period.

(* the status / iterations keywords through the mixin are honoured, with and without strict *)
Theorem C12_pandas_status_keyword_honoured :
  forall strict,
  exists st', pandas_reindex_M no_pandas no_contains cast_tbl pd_like_series_reindex np_like_assign_cast
                   rx_pmodel ["Y"; "I"; "B"; "S"]%string (SRange 2001 1 3) 9 None PNone (Some strict) [("status"%string, PStr "F"); ("iterations"%string, PInt 0)] [] [] [] [] [] 100 = Ret st'
    /\ option_map (fun sr => nth 2 (s_data sr) (CV PNone)) (lookup "status" (c_vars st')) = Some (CS "F")
    /\ option_map (fun sr => nth 2 (s_data sr) (CV PNone)) (lookup "iterations" (c_vars st')) = Some (CI 0).
Proof. exact pandas_status_keyword_honoured. Qed.
Print Assumptions C12_pandas_status_keyword_honoured.

(* ---------- pandas PeriodIndex / DatetimeIndex old spans WITHOUT an oracle hypothesis: with the regular-index model of
   get_loc / __contains__ (LocateIndex.v; tied to pandas by the correspondence check) the hypothesis old_span_ok is proved,
   for every start, non-zero step, length, both kinds and every list of new labels ---------- *)
Theorem C12_regular_index_old_span_ok (k : ikind) (a s : Z) (n : nat) (labels : list label) :
  s <> 0 ->
  old_span_ok (fun _ => reg_get_loc k a s n) (fun _ => reg_contains k a s n) (SPandas (reg_labels k a s n)) labels.
Proof. exact (regular_index_old_span_ok k a s n labels). Qed.
Print Assumptions C12_regular_index_old_span_ok.

Theorem C12_regular_index_reindex_values (k : ikind) (a s : Z) (n : nat) (cast : nat -> dtype -> pyval -> outcome cell)
        (st st' : cst) (new_span : span) (new_id : Z) (fv : pyval) (strict : option bool) (fills : list (string * pyval)) (fresh : Z) :
  s <> 0 -> c_span st = SPandas (reg_labels k a s n) -> wf st ->
  reindex_M (fun _ => reg_get_loc k a s n) (fun _ => reg_contains k a s n) cast st new_span new_id fv strict fills fresh = Ret st' ->
  c_span st' = new_span
  /\ Forall2 (fun x y : string * series cell =>
                fst y = fst x /\ s_dtype (snd y) = s_dtype (snd x)
                /\ exists c, fill_cell cast (List.length (span_labels new_span)) (s_dtype (snd x)) (fill_for fills fv (fst x)) = Ret c
                          /\ (s_dtype (snd x) <> DObj ->
                              s_data (snd y) = map (fun p => match pos p (reg_labels k a s n) with
                                                             | Some q => nth q (s_data (snd x)) c
                                                             | None => c
                                                             end) (span_labels new_span)))
             (c_vars st) (c_vars st').
Proof. exact (regular_index_reindex_values k a s n cast st st' new_span new_id fv strict fills fresh). Qed.
Print Assumptions C12_regular_index_reindex_values.

(* [definitional: the model of BaseLinker.reindex IS the constant Raise NotImplementedError] documented as not implemented; the
   property does not quantify over linkers; K checks the class of the exception and that the linker is unchanged *)
Theorem C12_linker_reindex_not_implemented (st : cst) new_span new_id fv strict fills fresh :
  linker_reindex_M st new_span new_id fv strict fills fresh = Raise NotImplementedError.
Proof. exact (linker_reindex_not_implemented st new_span new_id fv strict fills fresh). Qed.
Print Assumptions C12_linker_reindex_not_implemented.

(* ... and for any other pandas index (pd.Index of ints / strs, irregular DatetimeIndex) under the plain model of get_loc /
   __contains__ (position of the label; compared with every recorded pandas answer on duplicate-free indexes) *)
Theorem C12_plain_index_old_span_ok (ls labels : list label) :
  old_span_ok (fun l => plain_get_loc l) (fun l => plain_contains l) (SPandas ls) labels.
Proof. exact (plain_index_old_span_ok ls labels). Qed.
Print Assumptions C12_plain_index_old_span_ok.

(* ---------- repeated labels in the OLD span; the table's dtype defaults ---------- *)
Theorem C12_dup_list_old_span_covered :
  old_span_ok no_pandas no_contains (c_span rx_dup_list) [LInt 1; LInt 2; LInt 3]
  /\ option_map (fun s => map (fun kv => s_data (snd kv)) (c_vars s))
                (match reindex_M no_pandas no_contains cast_tbl rx_dup_list (SList [LInt 1; LInt 2; LInt 3]) 9 PNone None [] 100 with Ret s => Some s | Raise _ => None end)
     = Some [[CF (FNum 2); CF (FNum 4); CF FNan]].
Proof. exact (conj rx_dup_list_old_span_ok rx_dup_list_first_occurrence). Qed.
Print Assumptions C12_dup_list_old_span_covered.

Theorem C12_dup_arr_old_span_KeyError :
  reindex_M no_pandas no_contains cast_tbl (mkC (SArr [LInt 1; LInt 2; LInt 1]) 0 [("F"%string, mkSeries DFloat 1 [CF (FNum 2); CF (FNum 4); CF (FNum 6)])] [] false)
            (SList [LInt 1; LInt 2]) 9 PNone None [] 100 = Raise KeyError
  /\ option_map (fun s => map (fun kv => s_data (snd kv)) (c_vars s))
                (match reindex_M no_pandas no_contains cast_tbl (mkC (SArr [LInt 1; LInt 2; LInt 1]) 0 [("F"%string, mkSeries DFloat 1 [CF (FNum 2); CF (FNum 4); CF (FNum 6)])] [] false)
                                 (SList [LInt 2; LInt 3]) 9 PNone None [] 100 with Ret s => Some s | Raise _ => None end)
     = Some [[CF (FNum 4); CF FNan]].
Proof. exact rx_dup_arr_old_span_KeyError. Qed.
Print Assumptions C12_dup_arr_old_span_KeyError.

Theorem C12_cast_tbl_defaults :
  forall n, fill_cell cast_tbl (S n) DFloat PNone = Ret (CF FNan) /\ fill_cell cast_tbl n DInt PNone = Ret (CI 0)
            /\ fill_cell cast_tbl n DBool PNone = Ret (CB false) /\ fill_cell cast_tbl n (DStr 2) PNone = Ret (CS "")
            /\ fill_cell cast_tbl n DObj PNone = Ret (CV PNone).
Proof. exact rx_cast_tbl_defaults. Qed.
Print Assumptions C12_cast_tbl_defaults.

(* KEPT FINDING (the reindex face of C10's datetime64[ns] finding): span_ok asks obj_stable for a NumPy-array old span; with a
   datetime64[ns] array as old span every requested period that IS in the old span makes the call raise KeyError *)
Theorem C12_arr_datetime64ns_old_span_refuted :
  wf rx_ns_state /\ NoDup (span_labels (c_span rx_ns_state))
  /\ reindex_M no_pandas no_contains cast_tbl rx_ns_state ex_ns_arr 9 PNone None [] 100 = Raise KeyError
  /\ option_map (fun s => map (fun kv => s_data (snd kv)) (c_vars s))
                (match reindex_M no_pandas no_contains cast_tbl rx_ns_state (SList [LTs 5]) 9 PNone None [] 100 with Ret s => Some s | Raise _ => None end)
     = Some [[CF FNan]].
Proof. exact reindex_arr_datetime64ns_refuted. Qed.
Print Assumptions C12_arr_datetime64ns_old_span_refuted.
