(* Props/C18.v — the audited surface for property C18 (an alias is indistinguishable from the variable it names).
   Statements only; every proof is `exact <lemma>`; Print Assumptions under each.
   The alias object `am` = (self.aliases, self.preferred_names) as AliasMixin.__init__ builds it; the wrapped class is the
   container model of C09 (Container.v), NumPy entering as Section variables: every statement holds for EVERY casting table. *)
From Coq Require Import ZArith List Bool String Ascii.
Import ListNotations.
Require Import PyBase Container ContainerFacts Alias AliasFacts AliasExamples.
Open Scope string_scope.
Open Scope list_scope.
Open Scope nat_scope.

(* READING GUIDE.  The mixin's wrappers resolve a name and delegate; in the model `gen_alias_step am o s` is DEFINED as
   `step (resolve_op am o) s` and `alias_getitem` as `getitem (resolve_key am k)`.  C18_alias_run_twin, C18_alias_op_eq_root_op,
   C18_alias_read_eq_root_read, C18_alias_getattr_eq_root, C18_alias_update_keeps_working, C18_alias_strict_blocks_new_attributes
   therefore unfold that definition (plus idempotence of `resolve`): they are kept for reference and do NOT by themselves cover a
   clause.  The substantive results are: the shorten_* family and C18_resolve_is_chain_end (what __init__ computes), the
   *_canonical_twin theorems (the twin is defined from the DECLARATION alone, so they rest on the former), no-extra-storage, the
   hooks, reindex, and the export theorems.  RE-ENTRY: the base class calls self[...] / self.__setattr__ again from nbytes, reindex,
   to_dataframe (modelled: nbytes_of (resolve am), reindex_with (resolve am), export through resolve) and from the values setter and
   replace_values (NOT modelled as a second resolution: it is the identity unless an alias is named like a variable, by
   C18_resolve_idempotent / C18_resolve_not_alias; that class is the kept finding, where K is silent for such histories and only the
   twin oracle speaks).  ORACLE ONLY (no theorem): "generated solution code sees the same data" (a solve() of an equation written
   through aliases is compared with the twin's); copy() (the model has no identity of objects; reindex has theorems).
   KEPT FINDINGS (the constructor refuses alias names that clash with a variable or an attribute, fix 4e03fd0; what it cannot see):
   add_variable / add_attribute of an alias name AFTER construction (C18_add_variable_alias_name_refuted,
   C18_add_attribute_alias_name_refuted; oracle signature add_variable-or-add_attribute|alias-name-accepted) and an alias named like a
   constructor keyword that is no attribute, default_value (C18_alias_named_like_keyword_refuted; oracle signature
   __init__|alias-named-like-constructor-keyword, K silent).  C18_alias_no_extra_storage speaks of `vars` / `index` and excludes
   AddVariable of an alias name: it is silent about an ATTRIBUTE stored under an alias name (the second witness). *)
(* ---------------------------------------------------------------- __init__: chains of aliases *)
(* follow n a x = the name reached from x after n look-ups a.get(., .).  Acyclic declaration (self-maps apart, every
   chain leaves the alias names): accepted; the stored map keeps exactly the non-trivial aliases, is unchained, and sends
   every alias - however long its chain - to the END of its declared chain *)
Theorem C18_shorten_acyclic ALIASES :
  NoDup (akeys ALIASES) ->
  (forall k, In k (akeys (drop_self ALIASES)) ->
             ~ In (follow (length (drop_self ALIASES)) (drop_self ALIASES) k) (akeys (drop_self ALIASES))) ->
  exists a, shorten ALIASES = Ret a /\ akeys a = akeys (drop_self ALIASES) /\ chained a = false /\
            (forall x, aget a x = follow (length ALIASES) ALIASES x).
Proof. exact (shorten_acyclic ALIASES). Qed.

(* cyclic declaration: InitialisationError (never a hang: the model's loop is the code's bounded `for`) *)
Theorem C18_shorten_cyclic ALIASES k :
  In k (akeys (drop_self ALIASES)) ->
  (forall n, In (follow n (drop_self ALIASES) k) (akeys (drop_self ALIASES))) ->
  shorten ALIASES = Raise InitialisationError.
Proof. exact (shorten_cyclic ALIASES k). Qed.

(* the constructor's verdict, completely: InitialisationError exactly for the declarations in which the chain of some alias
   never reaches a name that is no alias (a chain that leaves the alias names at all leaves within len(ALIASES) look-ups) *)
Theorem C18_shorten_raises_iff ALIASES :
  NoDup (akeys ALIASES) ->
  (shorten ALIASES = Raise InitialisationError <->
   exists k, In k (akeys (drop_self ALIASES)) /\ forall n, In (follow n (drop_self ALIASES) k) (akeys (drop_self ALIASES))).
Proof. exact (shorten_raises_iff ALIASES). Qed.

Theorem C18_shorten_acyclic_unbounded ALIASES :
  NoDup (akeys ALIASES) ->
  (forall k, In k (akeys (drop_self ALIASES)) -> exists n, ~ In (follow n (drop_self ALIASES) k) (akeys (drop_self ALIASES))) ->
  exists a, shorten ALIASES = Ret a /\ akeys a = akeys (drop_self ALIASES) /\ chained a = false /\
            (forall x, aget a x = follow (length ALIASES) ALIASES x).
Proof. exact (shorten_acyclic_unbounded ALIASES). Qed.

Theorem C18_alias_construct_wf ALIASES PREFERRED am :
  alias_construct ALIASES PREFERRED = Ret am ->
  (chained (amap am) = false /\ NoDup (map (aget (amap am)) (apref am))) /\
  incl (akeys (amap am)) (akeys ALIASES) /\ apref am = PREFERRED.
Proof. exact (alias_construct_wf ALIASES PREFERRED am). Qed.

Theorem C18_alias_construct_exn ALIASES PREFERRED e :
  alias_construct ALIASES PREFERRED = Raise e -> e = InitialisationError \/ e = ValueError.
Proof. exact (alias_construct_exn ALIASES PREFERRED e). Qed.

(* two distinct preferred names of one variable (two aliases, or an alias and the variable itself): rejected *)
Theorem C18_ambiguous_preference_rejected a pref x y :
  In x pref -> In y pref -> x <> y -> aget a x = aget a y -> pref_check a pref [] = Raise ValueError.
Proof. exact (ambiguous_preference_rejected a pref x y). Qed.

(* resolution: one step reaches a name that is no alias (so every wrapper, which resolves once, reaches the variable);
   for an acyclic declaration that name is the end of the declared chain *)
Theorem C18_resolve_idempotent am x : WFam am -> resolve am (resolve am x) = resolve am x.
Proof. exact (resolve_idempotent am x). Qed.

Theorem C18_resolve_not_alias am x : WFam am -> ~ In (resolve am x) (akeys (amap am)).
Proof. exact (resolve_not_alias am x). Qed.

Theorem C18_resolve_is_chain_end ALIASES PREFERRED am x :
  NoDup (akeys ALIASES) ->
  (forall k, In k (akeys (drop_self ALIASES)) ->
             ~ In (follow (length (drop_self ALIASES)) (drop_self ALIASES) k) (akeys (drop_self ALIASES))) ->
  alias_construct ALIASES PREFERRED = Ret am ->
  resolve am x = follow (length ALIASES) ALIASES x.
Proof. exact (resolve_is_chain_end ALIASES PREFERRED am x). Qed.

Section C18.
  Variable pycast : dtype -> pyval -> outcome pyval.
  Variable arrcast : dtype -> dtype -> pyval -> outcome pyval.
  Variable infer : list pyval -> dtype.
  Variable astype_dt : dtype -> list pyval -> dreq -> dtype.
  Variable itemseq_exn : dtype -> exn.
  Notation step := (step pycast arrcast infer astype_dt itemseq_exn).
  Notation run := (run pycast arrcast infer astype_dt itemseq_exn).
  Notation run_trace := (run_trace pycast arrcast infer astype_dt itemseq_exn).
  Notation alias_step := (gen_alias_step pycast arrcast infer astype_dt itemseq_exn).
  Notation alias_run := (gen_alias_run pycast arrcast infer astype_dt itemseq_exn).
  Notation alias_trace := (alias_trace pycast arrcast infer astype_dt itemseq_exn).

  (* ---------------------------------------------------------------- writes *)
  (* an operation through an alias (attribute set, item set by name / label / label slice, bulk replacement) = the same
     operation through the underlying name: same new state, same outcome *)
  Theorem C18_alias_op_eq_root_op am o s : WFam am -> alias_step am o s = alias_step am (resolve_op am o) s.
  Proof. exact (alias_op_eq_root_op pycast arrcast infer astype_dt itemseq_exn am o s). Qed.

  (* refinement to the canonical twin over ARBITRARY histories: the aliased object operated through any names and the
     alias-free object operated through the resolved names go through the same states and outcomes; the twin's operations
     mention no alias *)
  Theorem C18_alias_run_twin am ops s : alias_run am ops s = run (map (resolve_op am) ops) s.
  Proof. exact (alias_run_twin pycast arrcast infer astype_dt itemseq_exn am ops s). Qed.

  Theorem C18_twin_ops_mention_no_alias am o x :
    WFam am -> In x (op_names (resolve_op am o)) -> ~ In x (akeys (amap am)).
  Proof. exact (twin_ops_mention_no_alias am o x). Qed.

  (* (in_scope: see Props/C09.v; it is about the RESOLVED operations - an alias of `span` is an assignment to `span`) *)
  Theorem C18_alias_run_inv am ops s :
    Forall (in_scope (kind s)) (map (resolve_op am) ops) -> Inv s -> Inv (alias_run am ops s).
  Proof. exact (alias_run_inv pycast arrcast infer astype_dt itemseq_exn am ops s). Qed.

  Theorem C18_alias_run_one_cell_per_period am ops s :
    Forall wf_key_op ops -> Forall (in_scope (kind s)) (map (resolve_op am) ops) -> InvD s -> InvD (alias_run am ops s).
  Proof. exact (alias_run_invD pycast arrcast infer astype_dt itemseq_exn am ops s). Qed.

  (* ---------------------------------------------------------------- no additional storage *)
  Theorem C18_alias_no_extra_storage am ops s k :
    Forall (in_scope (kind s)) (map (resolve_op am) ops) ->
    In k (akeys (amap am)) -> assoc k (vars s) = None -> ~ In k (index s) ->
    (forall v dt, ~ In (AddVariable k v dt) ops) ->
    assoc k (vars (alias_run am ops s)) = None /\ ~ In k (index (alias_run am ops s)).
  Proof. exact (alias_no_extra_storage pycast arrcast infer astype_dt itemseq_exn am ops s k). Qed.

  (* the index grows only by the names of accepted add_variable calls *)
  Theorem C18_run_index ops s x :
    Forall (in_scope (kind s)) ops ->
    In x (index (run ops s)) -> In x (index s) \/ exists v dt, In (AddVariable x v dt) ops.
  Proof. exact (run_index pycast arrcast infer astype_dt itemseq_exn ops s x). Qed.

  (* ---------------------------------------------------------------- strict=True *)
  Theorem C18_alias_update_keeps_working am a value hint s :
    mem (resolve am a) (index s) = true ->
    alias_step am (SetAttr a value hint) s = setattr_var pycast arrcast (resolve am a) value s /\
    alias_step am (SetItem (KName a) value) s = setattr_var pycast arrcast (resolve am a) value s.
  Proof. exact (alias_update_keeps_working pycast arrcast infer astype_dt itemseq_exn am a value hint s). Qed.

  Theorem C18_alias_strict_blocks_new_attributes am a value hint s :
    strict s = true -> is_property (kind s) (resolve am a) = false ->
    mem (resolve am a) (index s) = false -> reg_mem (resolve am a) (registry s) = false ->
    alias_step am (SetAttr a value hint) s =
      (s, Raise (match alternatives hint (row_names s) with _ :: _ :: _ => NotImplementedError | _ => AttributeError end)).
  Proof. exact (alias_strict_blocks_new_attributes pycast arrcast infer astype_dt itemseq_exn am a value hint s). Qed.

  (* ---------------------------------------------------------------- reads *)
  Theorem C18_alias_read_eq_root_read am k s :
    WFam am -> alias_getitem am k s = alias_getitem am (resolve_key am k) s.
  Proof. exact (alias_read_eq_root_read am k s). Qed.

  Theorem C18_alias_getattr_eq_root am n s :
    WFam am -> alias_getattr_var am n s = alias_getattr_var am (resolve am n) s.
  Proof. exact (alias_getattr_eq_root am n s). Qed.

  (* ---------------------------------------------------------------- constructor keywords *)
  Theorem C18_resolve_kwargs_spec am x kw : assoc x (resolve_kwargs am kw) = last_for am x kw None.
  Proof. exact (resolve_kwargs_spec am x kw). Qed.

  Theorem C18_resolve_kwargs_mention_no_alias am kw x :
    WFam am -> In x (map fst (resolve_kwargs am kw)) -> ~ In x (akeys (amap am)).
  Proof. exact (resolve_kwargs_mention_no_alias am kw x). Qed.
End C18.

(* ---------------------------------------------------------------- the canonical twin, from the declaration alone *)
(* chain_end ALIASES x = follow (length ALIASES) ALIASES x: the declared chain of x followed as far as it goes; canon_op / canon_key /
   canon_kwargs replace every name by its chain end.  For every acyclic declaration that the constructor accepts, and every history,
   the aliased object operated through ANY names passes through exactly the states and outcomes of an alias-free object operated
   through the chain ends; it is constructed like it and read like it *)
Section C18_twin.
  Variable pycast : dtype -> pyval -> outcome pyval.
  Variable arrcast : dtype -> dtype -> pyval -> outcome pyval.
  Variable infer : list pyval -> dtype.
  Variable astype_dt : dtype -> list pyval -> dreq -> dtype.
  Variable itemseq_exn : dtype -> exn.

  Theorem C18_alias_run_canonical_twin ALIASES PREFERRED am :
    NoDup (akeys ALIASES) ->
    (forall k, In k (akeys (drop_self ALIASES)) -> exists n, ~ In (follow n (drop_self ALIASES) k) (akeys (drop_self ALIASES))) ->
    alias_construct ALIASES PREFERRED = Ret am ->
    forall ops s,
      gen_alias_run pycast arrcast infer astype_dt itemseq_exn am ops s =
      run pycast arrcast infer astype_dt itemseq_exn (map (canon_op ALIASES) ops) s.
  Proof. exact (alias_run_canonical_twin pycast arrcast infer astype_dt itemseq_exn ALIASES PREFERRED am). Qed.

  Theorem C18_alias_trace_canonical_twin ALIASES PREFERRED am :
    NoDup (akeys ALIASES) ->
    (forall k, In k (akeys (drop_self ALIASES)) -> exists n, ~ In (follow n (drop_self ALIASES) k) (akeys (drop_self ALIASES))) ->
    alias_construct ALIASES PREFERRED = Ret am ->
    forall ops s,
      alias_trace pycast arrcast infer astype_dt itemseq_exn am ops s =
      run_trace pycast arrcast infer astype_dt itemseq_exn (map (canon_op ALIASES) ops) s.
  Proof. exact (alias_trace_canonical_twin pycast arrcast infer astype_dt itemseq_exn ALIASES PREFERRED am). Qed.

  Theorem C18_alias_init_canonical_twin ALIASES PREFERRED am :
    NoDup (akeys ALIASES) ->
    (forall k, In k (akeys (drop_self ALIASES)) -> exists n, ~ In (follow n (drop_self ALIASES) k) (akeys (drop_self ALIASES))) ->
    alias_construct ALIASES PREFERRED = Ret am ->
    forall ca k sp st d default NAMES kwargs s u,
      gen_alias_init_model pycast arrcast infer astype_dt ca am k sp st d default NAMES kwargs = (s, Ret u) ->
      init_model pycast arrcast infer astype_dt k sp st d default NAMES (canon_kwargs ALIASES kwargs) = (s, Ret u).
  Proof. exact (alias_init_canonical_twin pycast arrcast infer astype_dt ALIASES PREFERRED am). Qed.

  (* fix 4e03fd0: a constructed aliased object has no alias named like a variable, like an entry of its __dict__ (attributes
     included) or like an attribute of its class (`ca` = the names with hasattr(type(self), name): Python's business, handed in);
     such declarations are refused with InitialisationError *)
  Theorem C18_alias_init_no_clash ca am k sp st d default NAMES kwargs s u :
    gen_alias_init_model pycast arrcast infer astype_dt ca am k sp st d default NAMES kwargs = (s, Ret u) ->
    init_model pycast arrcast infer astype_dt k sp st d default NAMES (resolve_kwargs am kwargs) = (s, Ret u) /\
    forall a, In a (akeys (amap am)) -> ~ In a (index s) /\ assoc a (adict s) = None /\ ~ In a ca.
  Proof. exact (alias_init_no_clash pycast arrcast infer astype_dt ca am k sp st d default NAMES kwargs s u). Qed.

  Theorem C18_alias_named_like_variable_rejected ca am k sp st d default NAMES kwargs s u a :
    init_model pycast arrcast infer astype_dt k sp st d default NAMES (resolve_kwargs am kwargs) = (s, Ret u) ->
    In a (akeys (amap am)) -> In a (index s) ->
    gen_alias_init_model pycast arrcast infer astype_dt ca am k sp st d default NAMES kwargs = (s, Raise InitialisationError).
  Proof. exact (alias_named_like_variable_rejected pycast arrcast infer astype_dt ca am k sp st d default NAMES kwargs s u a). Qed.

  Theorem C18_alias_named_like_attribute_rejected ca am k sp st d default NAMES kwargs s u a :
    init_model pycast arrcast infer astype_dt k sp st d default NAMES (resolve_kwargs am kwargs) = (s, Ret u) ->
    In a (akeys (amap am)) -> assoc a (adict s) <> None ->
    gen_alias_init_model pycast arrcast infer astype_dt ca am k sp st d default NAMES kwargs = (s, Raise InitialisationError).
  Proof. exact (alias_named_like_attribute_rejected pycast arrcast infer astype_dt ca am k sp st d default NAMES kwargs s u a). Qed.

  (* EXPORT ONLY RENAMES, with NO assumption about names any more: for whatever the constructor accepted and any in-scope history that
     does not add_variable an alias name (the door the constructor cannot close: C18_add_variable_alias_name_refuted), every selection
     of columns (status / iterations / internal variables in or out) is exported with its own data, in order, none dropped, under
     pairwise different titles, each the column's name or one of its aliases *)
  Theorem C18_export_only_renames_constructed ALIASES PREFERRED ca am k sp st d default NAMES kwargs s0 u ops :
    k <> CVC -> NoDup (akeys ALIASES) ->
    alias_construct ALIASES PREFERRED = Ret am ->
    gen_alias_init_model pycast arrcast infer astype_dt ca am k sp st d default NAMES kwargs = (s0, Ret u) ->
    Forall (in_scope (kind s0)) (map (resolve_op am) ops) ->
    (forall a v dt, In a (akeys (amap am)) -> ~ In (AddVariable a v dt) ops) ->
    forall fs fi fincl,
    let s := gen_alias_run pycast arrcast infer astype_dt itemseq_exn am ops s0 in
    NoDup (base_columns_with fs fi fincl s) ->
    exists l, export_with am fs fi fincl s = Ret l /\
      map snd l = base_columns_with fs fi fincl s /\
      NoDup (map fst l) /\
      Forall2 (fun c t => t = c \/ In (t, c) (amap am)) (base_columns_with fs fi fincl s) (map fst l).
  Proof. exact (export_only_renames_constructed pycast arrcast infer astype_dt itemseq_exn ALIASES PREFERRED ca am k sp st d default NAMES kwargs s0 u ops). Qed.
End C18_twin.

Theorem C18_alias_read_canonical_twin ALIASES PREFERRED am :
  NoDup (akeys ALIASES) ->
  (forall k, In k (akeys (drop_self ALIASES)) -> exists n, ~ In (follow n (drop_self ALIASES) k) (akeys (drop_self ALIASES))) ->
  alias_construct ALIASES PREFERRED = Ret am ->
  forall k s, alias_getitem am k s = getitem (canon_key ALIASES k) s.
Proof. exact (alias_read_canonical_twin ALIASES PREFERRED am). Qed.

Theorem C18_alias_getattr_canonical_twin ALIASES PREFERRED am :
  NoDup (akeys ALIASES) ->
  (forall k, In k (akeys (drop_self ALIASES)) -> exists n, ~ In (follow n (drop_self ALIASES) k) (akeys (drop_self ALIASES))) ->
  alias_construct ALIASES PREFERRED = Ret am ->
  forall n s, alias_getattr_var am n s = getattr_var (chain_end ALIASES n) s.
Proof. exact (alias_getattr_canonical_twin ALIASES PREFERRED am). Qed.

(* re-entry: the names the base class passes back into the wrappers (values setter, nbytes, reindex, to_dataframe) resolve to
   themselves unless an alias is named like a variable *)
Theorem C18_reentry_is_identity am s :
  (forall x, In x (index s) -> ~ In x (akeys (amap am))) -> Inv s ->
  forall x, In x (row_names s) \/ In x (index s) -> resolve am x = x.
Proof. exact (reentry_is_identity am s). Qed.

(* ---------------------------------------------------------------- read-only hooks of the mixin *)
(* _ipython_key_completions_, dir(), `in`, nbytes: calling them changes NOTHING (in particular the container's `index` is not the
   list handed out); the completion hook offers the variables followed by the declared non-trivial aliases; dir() adds the aliases
   to the plain object's answer; nbytes is the plain object's (no alias named like a variable) *)
Theorem C18_alias_hooks_change_nothing am q s : fst (alias_read am q s) = s.
Proof. exact (alias_hooks_change_nothing am q s). Qed.

Theorem C18_alias_completions_declared ALIASES PREFERRED am s :
  NoDup (akeys ALIASES) ->
  (forall k, In k (akeys (drop_self ALIASES)) -> exists n, ~ In (follow n (drop_self ALIASES) k) (akeys (drop_self ALIASES))) ->
  alias_construct ALIASES PREFERRED = Ret am ->
  snd (alias_read am QCompletions s) = Ret (VNames (index s ++ akeys (drop_self ALIASES))).
Proof. exact (alias_completions_declared ALIASES PREFERRED am s). Qed.

Theorem C18_alias_dir am s :
  snd (alias_read am QDir s) =
    match snd (read QDir s) with Ret (VNames l) => Ret (VNames (l ++ akeys (amap am))) | r => r end.
Proof. exact (alias_dir am s). Qed.

Theorem C18_alias_nbytes am s :
  (forall x, In x (index s) -> ~ In x (akeys (amap am))) ->
  snd (alias_read am QNbytes s) = snd (read QNbytes s).
Proof. exact (alias_nbytes am s). Qed.

(* `name in m` (fix 0f38318): for an alias the membership of its variable, for any other name the plain object's answer; two names of one
   variable get the same answer; a name that is a member can be read by item access *)
Theorem C18_alias_contains am n s :
  snd (alias_read am (QContains n) s) = snd (read (QContains (resolve am n)) s) /\
  (~ In n (akeys (amap am)) -> snd (alias_read am (QContains n) s) = snd (read (QContains n) s)).
Proof. exact (alias_contains am n s). Qed.

Theorem C18_alias_contains_same_target am n1 n2 s :
  resolve am n1 = resolve am n2 -> snd (alias_read am (QContains n1) s) = snd (alias_read am (QContains n2) s).
Proof. exact (alias_contains_same_target am n1 n2 s). Qed.

Theorem C18_alias_member_is_readable am n s :
  Inv s -> snd (alias_read am (QContains n) s) = Ret (VBool true) -> alias_getitem am (KName n) s <> Raise KeyError.
Proof. exact (alias_member_is_readable am n s). Qed.

(* ---------------------------------------------------------------- reindex() *)
(* reindex_with rn fill span' s = VectorContainer.reindex as the code runs it, `rn` being the name resolution of self[...] (identity
   for a plain object, `resolve am` for an aliased one); the aliases themselves live outside the container state and are carried by
   copy() unchanged.  (1) the aliased object's reindex IS the twin's; (2) it keeps index / names / attributes / strict flag and
   stores nothing under alias names; (3) on a plain object satisfying the invariant it never raises, every variable keeps its dtype,
   gets the fill cell in new periods and its old cell (label looked up by first occurrence) in kept ones; (4) the result
   satisfies the invariant for the NEW span with one cell per period. *)
Theorem C18_alias_reindex_twin am fill new_span s :
  (forall x, In x (index s) -> ~ In x (akeys (amap am))) ->
  alias_reindex am fill new_span s = reindex_plain fill new_span s.
Proof. exact (alias_reindex_twin am fill new_span s). Qed.

Theorem C18_reindex_frame rn fill new_span s s' :
  reindex_with rn fill new_span s = Ret s' ->
  span s' = new_span /\ index s' = index s /\ names s' = names s /\ registry s' = registry s /\ adict s' = adict s /\
  strict s' = strict s /\ kind s' = kind s /\
  (forall x, assoc x (vars s') <> None -> assoc x (vars s) <> None \/ In x (index s)).
Proof. exact (reindex_frame rn fill new_span s s'). Qed.

Theorem C18_alias_reindex_no_storage_under_aliases am fill new_span s s' k :
  alias_reindex am fill new_span s = Ret s' ->
  In k (akeys (amap am)) -> assoc k (vars s) = None -> ~ In k (index s) ->
  assoc k (vars s') = None /\ ~ In k (index s').
Proof. exact (alias_reindex_no_storage_under_aliases am fill new_span s s' k). Qed.

Theorem C18_reindex_plain_spec fill new_span s :
  InvV s ->
  exists s', reindex_plain fill new_span s = Ret s' /\
    span s' = new_span /\ index s' = index s /\
    (forall x src, In x (index s) -> assoc x (vars s) = Some src ->
       assoc x (vars s') = Some (mkVar (vdtype src) [length new_span]
                                  (write_positions (vdata src) (positions (span s) new_span)
                                                   (repeat (fill x (vdtype src)) (length new_span))))) /\
    (forall x, ~ In x (index s) -> assoc x (vars s') = assoc x (vars s)).
Proof. exact (reindex_plain_spec fill new_span s). Qed.

Theorem C18_reindex_plain_inv fill new_span s s' :
  Inv s -> (forall x, assoc x (vars s) <> None -> In x (index s)) ->
  reindex_plain fill new_span s = Ret s' -> Inv s' /\ InvD s'.
Proof. exact (reindex_plain_inv fill new_span s s'). Qed.

(* ---------------------------------------------------------------- to_dataframe(use_aliases=True) *)
(* never raises on a constructed object (the ambiguity is rejected by __init__), one column per exported variable *)
Theorem C18_export_total am :
  WFam am -> NoDup (akeys (amap am)) ->
  forall s, exists l, export am s = Ret l /\ length l = length (base_columns s).
Proof. exact (export_total am). Qed.

(* only renames: provided no alias is named like an exported column, every column keeps its own data (same variables, same
   order, none dropped), titles are pairwise different, and a title is the column's name or one of its aliases *)
Theorem C18_export_rename_only am :
  WFam am -> NoDup (akeys (amap am)) ->
  forall s, NoDup (base_columns s) ->
  (forall c, In c (base_columns s) -> ~ In c (akeys (amap am))) ->
  exists l, export am s = Ret l /\
    map snd l = base_columns s /\
    NoDup (map fst l) /\
    Forall2 (fun c t => t = c \/ In (t, c) (amap am)) (base_columns s) (map fst l).
Proof. exact (export_rename_only am). Qed.

(* choosing the preferred name: a column whose variable has a declared preferred name - its own name or any of its aliases - is
   titled with exactly that name *)
Theorem C18_preferred_title am :
  WFam am -> NoDup (akeys (amap am)) ->
  forall cols titles c p,
  rename_columns am cols = Ret titles ->
  In p (apref am) -> aget (amap am) p = c -> ~ In c (akeys (amap am)) ->
  Forall2 (fun c' t => c' = c -> t = p) cols titles.
Proof. exact (preferred_title am). Qed.

(* every selection of columns (status / iterations / internal variables in or out): never raises, one column per exported variable;
   only renames under the same hypothesis *)
Theorem C18_export_cols_total am :
  WFam am -> NoDup (akeys (amap am)) ->
  forall cols, exists l, export_cols am cols = Ret l /\ length l = length cols.
Proof. exact (export_cols_total am). Qed.

Theorem C18_export_cols_rename_only am :
  WFam am -> NoDup (akeys (amap am)) ->
  forall cols, NoDup cols -> (forall c, In c cols -> ~ In c (akeys (amap am))) ->
  exists l, export_cols am cols = Ret l /\ map snd l = cols /\ NoDup (map fst l) /\
    Forall2 (fun c t => t = c \/ In (t, c) (amap am)) cols (map fst l).
Proof. exact (export_cols_rename_only am). Qed.

(* kept finding (known_findings.d/C18.json): add_variable is not wrapped by the mixin and accepts the name of an alias after
   construction; the new variable is unreachable by name and exported twice under one title *)
Theorem C18_add_variable_alias_name_refuted :
  exists am s o l,
    WFam am /\ NoDup (akeys (amap am)) /\ Inv s /\ In "A" (akeys (amap am)) /\ o = AddVariable "A" (OScalar (PInt 9)) None /\
    snd (alias_step am o s) = Ret tt /\
    export am (fst (alias_step am o s)) = Ret l /\
    ~ NoDup (map fst l) /\
    alias_getitem am (KName "A") (fst (alias_step am o s)) = alias_getitem am (KName "X") (fst (alias_step am o s)).
Proof. exact add_variable_alias_name_refuted. Qed.

(* the same door through add_attribute (not wrapped by the mixin either, accepted under strict=True as well): an entry is stored
   under the ALIAS name - what m.A then reads (99; Python finds the instance attribute first) - while m['A'] is X, and m.A = 5
   overwrites X while the entry A stays 99 *)
Theorem C18_add_attribute_alias_name_refuted :
  exists am s o,
    WFam am /\ NoDup (akeys (amap am)) /\ Inv s /\ In "A" (akeys (amap am)) /\ o = AddAttribute "A" (OScalar (PInt 99)) /\
    snd (alias_step am o s) = Ret tt /\
    (let s1 := fst (alias_step am o s) in
     assoc "A" (adict s1) = Some (OScalar (PInt 99)) /\
     alias_getitem am (KName "A") s1 = alias_getitem am (KName "X") s1 /\
     let s2 := fst (alias_step am (SetAttr "A" (OScalar (PInt 5)) None) s1) in
     snd (alias_step am (SetAttr "A" (OScalar (PInt 5)) None) s1) = Ret tt /\
     assoc "A" (adict s2) = Some (OScalar (PInt 99)) /\
     alias_getitem am (KName "X") s2 = Ret [PFlt (FHalf 10); PFlt (FHalf 10); PFlt (FHalf 10)]%Z /\
     alias_getitem am (KName "X") s2 <> alias_getitem am (KName "X") s1).
Proof. exact add_attribute_alias_name_refuted. Qed.

(* kept finding, same family: an alias named like a constructor keyword that is no attribute of the object (default_value) passes
   the clash check; keyword_call = Python's keyword binding after AliasMixin.__init__ renamed the keywords: M(span, default_value=5)
   becomes M(span, X=5) - X is 5, Y keeps 0.0, where the class without that alias fills both with 5.  (Oracle clause
   __init__|alias-named-like-constructor-keyword; K is silent for such ALIASES.) *)
Theorem C18_alias_named_like_keyword_refuted :
  exists am,
    amap am = [("default_value", "X")] /\
    (let r := keyword_call [] am CModel [10; 11; 12]%Z false RFloat ["X"; "Y"] [("default_value", OScalar (PInt 5))] in
     let r0 := keyword_call [] (mkAobj [] []) CModel [10; 11; 12]%Z false RFloat ["X"; "Y"] [("default_value", OScalar (PInt 5))] in
     snd r = Ret tt /\ snd r0 = Ret tt /\
     getitem (KName "X") (fst r) = Ret [PFlt (FHalf 10); PFlt (FHalf 10); PFlt (FHalf 10)]%Z /\
     getitem (KName "Y") (fst r) = Ret [PFlt (FHalf 0); PFlt (FHalf 0); PFlt (FHalf 0)]%Z /\
     getitem (KName "Y") (fst r0) = Ret [PFlt (FHalf 10); PFlt (FHalf 10); PFlt (FHalf 10)]%Z).
Proof. exact alias_named_like_keyword_refuted. Qed.

Print Assumptions C18_shorten_acyclic.
Print Assumptions C18_shorten_cyclic.
Print Assumptions C18_shorten_raises_iff.
Print Assumptions C18_shorten_acyclic_unbounded.
Print Assumptions C18_alias_construct_wf.
Print Assumptions C18_alias_construct_exn.
Print Assumptions C18_ambiguous_preference_rejected.
Print Assumptions C18_resolve_idempotent.
Print Assumptions C18_resolve_not_alias.
Print Assumptions C18_resolve_is_chain_end.
Print Assumptions C18_alias_op_eq_root_op.
Print Assumptions C18_alias_run_twin.
Print Assumptions C18_twin_ops_mention_no_alias.
Print Assumptions C18_alias_run_inv.
Print Assumptions C18_alias_run_one_cell_per_period.
Print Assumptions C18_alias_no_extra_storage.
Print Assumptions C18_run_index.
Print Assumptions C18_alias_update_keeps_working.
Print Assumptions C18_alias_strict_blocks_new_attributes.
Print Assumptions C18_alias_read_eq_root_read.
Print Assumptions C18_alias_getattr_eq_root.
Print Assumptions C18_resolve_kwargs_spec.
Print Assumptions C18_resolve_kwargs_mention_no_alias.
Print Assumptions C18_alias_run_canonical_twin.
Print Assumptions C18_alias_trace_canonical_twin.
Print Assumptions C18_alias_init_canonical_twin.
Print Assumptions C18_alias_read_canonical_twin.
Print Assumptions C18_alias_getattr_canonical_twin.
Print Assumptions C18_reentry_is_identity.
Print Assumptions C18_alias_hooks_change_nothing.
Print Assumptions C18_alias_completions_declared.
Print Assumptions C18_alias_dir.
Print Assumptions C18_alias_nbytes.
Print Assumptions C18_alias_contains.
Print Assumptions C18_alias_contains_same_target.
Print Assumptions C18_alias_member_is_readable.
Print Assumptions alias_is_a_member.
Print Assumptions hooks_on_mA.
Print Assumptions C18_alias_reindex_twin.
Print Assumptions C18_reindex_frame.
Print Assumptions C18_alias_reindex_no_storage_under_aliases.
Print Assumptions C18_reindex_plain_spec.
Print Assumptions C18_reindex_plain_inv.
Print Assumptions reindex_mA.
Print Assumptions C18_alias_init_no_clash.
Print Assumptions C18_alias_named_like_variable_rejected.
Print Assumptions C18_alias_named_like_attribute_rejected.
Print Assumptions C18_export_only_renames_constructed.
Print Assumptions C18_add_variable_alias_name_refuted.
Print Assumptions C18_add_attribute_alias_name_refuted.
Print Assumptions C18_alias_named_like_keyword_refuted.
Print Assumptions clashing_aliases_rejected.
Print Assumptions C18_export_total.
Print Assumptions C18_export_rename_only.
Print Assumptions C18_preferred_title.
Print Assumptions C18_export_cols_total.
Print Assumptions C18_export_cols_rename_only.
Print Assumptions export_with_selections.
Print Assumptions chain3_hypotheses.
Print Assumptions cycle_hypothesis.
Print Assumptions export_renames_only.
Print Assumptions preferred_title_hypotheses.
Print Assumptions chain3_leaves.
