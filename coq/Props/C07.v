(* Props/C07.v — the audited surface for property C07 (the Fortran back-end computes what the Python back-end computes).
   Statements only; every proof is `exact <lemma>`; Print Assumptions under each. *)
From Coq Require Import Ascii String ZArith List Bool.
Import ListNotations.
Require Import PyBase Solver FText FTextFacts FSem FSemFacts FSolve FSolveFacts.
Open Scope Z_scope.

(* ================================================================== text of build_fortran_definition *)

(* "Variable numbering in the Fortran module matches the Python class's variable order": the number written for a name is
   its position in NAMES = ENDOGENOUS + EXOGENOUS + PARAMETERS + ERRORS, plus one; never 0 *)
Theorem C07_numbering_matches_names endo exo par err x i :
  let names := all_names endo exo par err in
  NoDup names ->
  (number_of names x = Some (S i) <-> nth_error names i = Some x) /\ number_of names x <> Some 0%nat.
Proof. exact (numbering_matches_names endo exo par err x i). Qed.
Print Assumptions C07_numbering_matches_names.

(* the code's algorithm (regex spans on the original equation, replacements spliced in from the right) is the one-pass
   left-to-right rewriting of the matches — for EVERY string *)
Theorem C07_rewrite_is_stream names (eq : str) :
  rewrite names eq = stream names (fst (segments eq)) (snd (segments eq)).
Proof. exact (rewrite_is_stream names eq). Qed.
Print Assumptions C07_rewrite_is_stream.

(* every term NAME[idx] of a well-formed equation becomes solved_values(number of NAME, idx with t -> index), every gap and
   the tail are copied unchanged; an unknown NAME is a KeyError (None) *)
Theorem C07_rewrite_terms names sg tl :
  wf_segs sg -> no_bracket tl ->
  rewrite names (render_segs sg tl) = stream names sg tl.
Proof. exact (rewrite_terms names sg tl). Qed.
Print Assumptions C07_rewrite_terms.

(* ================================================================== error codes *)
Theorem C07_wrapper_codes_are_template_codes :
  w_t_raise = c_num_raise /\ w_t_skip = c_num_skip /\ w_s_raise = c_num_raise /\ w_s_skip = c_num_skip /\
  w_s_pre = c_pre_existing /\ w_s_offpre = c_off_pre /\ w_s_offpost = c_off_post /\
  w_e_index = [c_below; c_above; c_lags; c_leads] /\
  w_ec ERaise = Some c_ec_raise /\ w_ec ESkip = Some c_ec_skip /\ w_ec EIgnore = Some c_ec_ignore /\ w_ec EReplace = Some c_ec_replace /\
  w_fc FRaise = Some c_fail_raise.
Proof. exact wrapper_codes_are_template_codes. Qed.
Print Assumptions C07_wrapper_codes_are_template_codes.
