(* Props/C07.v — the audited surface for property C07 (the Fortran back-end computes what the Python back-end computes).
   Statements only; every proof is `exact <lemma>`; Print Assumptions under each.

   WHAT IS PROVED, clause by clause of the property text
     "variable numbering matches"            C07_numbering_matches_names, C07_term_rewritten, C07_term_text_reads_back
     text of build_fortran_definition        C07_rewrite_* , C07_index_text_rewritten, C07_block_is_comment_then_code,
                                             C07_continuation_denotes_glue, C07_wrap_breaks_between_tokens (+ the instance C07_wrap_long_run_parses)
     "compiles"                              C07_benign_compiles: KINDS only (no operator meets operand kinds gfortran rejects).  That the text
                                             is well-formed Fortran is tied per case by K (FParse parses every generated statement to the tree
                                             that is evaluated; gfortran compiles every generated module) — not proved
     same values (evaluate / one pass)       C07_benign_expressions_agree, C07_pass_agree, C07_evaluate_engines_agree, C07_evaluate_out_of_span;
                                             at binary64 without any hypothesis on the arithmetic: C07_F_pass_agree
     same statuses / iterations / returns /  C07_wrapper_refines_python_solve_t(_run), C07_solve_t_engines_agree, C07_wrapper_refines_python_solve,
     exception types, solve_t and solve      .._all_statuses, C07_solve_start_end_refines, C07_solve_engines_agree, C07_both_reject_*,
                                             C07_max_iter_zero_agree; at binary64: C07_F_solve_t_engines_agree, C07_F_solve_engines_agree + instances
     "negative positions and offsets"        the solve_t theorems quantify over t in either spelling (py_pos) and over in-span offsets;
                                             out-of-span offsets: C07_both_reject_offset_out_of_span (solve_t), case sc_off of
                                             C07_wrapper_refines_python_solve_all_statuses + C07_solve_offset_instance (solve)
     "constants denote the same numbers"     inside the class `benign` (C07_benign_expressions_agree, C07_F_common_literal_uses_agree); refuted outside
                                             (C07_literals_denote_same_numbers_refuted, C07_real4_literal_refuted, C07_compiles_refuted)
   WHAT IS ONLY K / ORACLE
     * every Coq agreement is BIT equality; "to floating-point rounding" is not formalised: `**` with a literal operand (X**2: repeated
       multiplication vs pow()) agrees to rounding only and is checked by the oracle's tolerance class `powi` (single-pass runs);
     * that gfortran reads the generated text as FParse does (operator grouping, literal kinds, -O2 code generation, x**n expansion,
       MAX/MIN) and that libm's exp/log/pow are the shared oracle: observed bit for bit by the float part of K;
     * the theorems C07_wrapper_codes_are_template_codes / C07_literal_free_is_benign unfold definitions over regenerated constants /
       a syntactic inclusion: they tie the model to the source, they are not counted as covering a clause.
   KEPT FINDINGS (refuted below): literal kinds (5 signatures), _evaluate called directly at an infeasible period (the generated Python
   has no guard).  Repaired and now proved: infeasible period (1354783), max_iter < 1 (131915c), line breaks (45adc65), default periods
   by position (084a032), empty span (e0867c1), out-of-span offset in solve() under errors <> 'raise' (b027373). *)
From Coq Require Import Ascii String ZArith List Bool.
Import ListNotations.
From Coq Require Import PrimFloat.
Require Import PyBase Solver SolverF FText FTextFacts FWrapFacts FWrap FWrapGreedyFacts FSem FSemFacts FParse FParseFacts FBenignFacts FSolve FSolveFacts FSolveSim FSolveRun FSolveEdge FEvalEdge FPassFacts FSolveAll FSolveAllG FPassSolve FortranF FortranExamples FortranFloatFacts.
Open Scope Z_scope.

(* ================================================================== text of build_fortran_definition *)

(* "Variable numbering in the Fortran module matches the Python class's variable order": the number written for a name is
   its position in NAMES = ENDOGENOUS + EXOGENOUS + PARAMETERS + ERRORS, plus one; never 0 *)
Theorem C07_numbering_matches_names endo exo par err x i :
  let names := all_names endo exo par err in
  NoDup names ->
  (number_of names x = Some (S i) <-> nth_error names i = Some x) /\ number_of names x <> Some 0%nat.
Proof. exact (numbering_matches_names endo exo par err x i). Qed.
Print Assumptions C07_numbering_matches_names.

(* the code's algorithm (regex spans on the original equation, replacements spliced in from the right) is the one-pass
   left-to-right rewriting of the matches — for EVERY string *)
Theorem C07_rewrite_is_stream names (eq : str) :
  rewrite names eq = stream names (fst (segments eq)) (snd (segments eq)).
Proof. exact (rewrite_is_stream names eq). Qed.
Print Assumptions C07_rewrite_is_stream.

(* every term NAME[idx] of a well-formed equation becomes solved_values(number of NAME, idx with t -> index), every gap and
   the tail are copied unchanged; an unknown NAME is a KeyError (None) *)
Theorem C07_rewrite_terms names sg tl :
  wf_segs sg -> no_bracket tl ->
  rewrite names (render_segs sg tl) = stream names sg tl.
Proof. exact (rewrite_terms names sg tl). Qed.
Print Assumptions C07_rewrite_terms.

(* str.replace('t', 'index') turns the index text of a term at lag / lead k (`t`, `t-2`, `t+1`) into `index`, `index-2`,
   `index+1`: the sign and size of k are kept *)
Theorem C07_index_text_rewritten k : replace_t (idx_text k) = f_idx_text k.
Proof. exact (replace_t_idx_text k). Qed.
Print Assumptions C07_index_text_rewritten.

(* THE TERM: `NAME[t+k]` with NAME at position i of the Python class's variable order becomes `solved_values(i+1, index+k)` *)
Theorem C07_term_rewritten endo exo par err x i k :
  let names := all_names endo exo par err in
  NoDup names -> nth_error names i = Some x ->
  rewrite_step names (Some (render_term x (idx_text k))) (0%nat, length (render_term x (idx_text k)), x, idx_text k)
  = Some (lit "solved_values(" ++ dec (S i) ++ lit ", " ++ f_idx_text k ++ lit ")").
Proof. exact (term_rewritten endo exo par err x i k). Qed.
Print Assumptions C07_term_rewritten.

(* LONG EQUATIONS: an entry of the equations block is the commented equation on its own line followed by the continuation
   lines of the code, and those lines denote — as the compiler joins them — the lines of textwrap.wrap side by side with
   only blanks in between: a break at a blank neither splits nor glues a token *)
Theorem C07_block_is_comment_then_code eq ws : no_nl eq ->
  block eq ws = lit "  ! " ++ eq ++ [nl] ++ wrapped_def ws.
Proof. exact (block_is_comment_then_code eq ws). Qed.
Print Assumptions C07_block_is_comment_then_code.

Theorem C07_continuation_denotes_glue w0 rest :
  Forall no_nl (w0 :: rest) -> Forall no_amp (w0 :: rest) -> forallb is_space w0 = false ->
  logical false (plain_lines (wrapped_def (w0 :: rest)) []) = lit "  " ++ glue (w0 :: rest).
Proof. exact (continuation_denotes_glue w0 rest). Qed.
Print Assumptions C07_continuation_denotes_glue.


(* TEXT -> TREE inside the model (FParse.v): K checks per case that every generated statement, continuation lines joined,
   parses by the Fortran expression grammar to `s_regroup` of the tree the script was rendered from; this theorem says that
   tree, once its decimal literals are given their values, is exactly the tree FSem.f_pass evaluates (f_regroup of the
   Python-side tree) *)
Theorem C07_parsed_tree_is_evaluated_tree num (dec : Z -> nat -> num * num) (s : sexpr) :
  to_expr num dec (s_regroup s) = f_regroup num (to_expr num dec s).
Proof. exact (regroup_to_expr num dec s). Qed.
Print Assumptions C07_parsed_tree_is_evaluated_tree.

(* WRITER AND READER AGREE for every variable position i and every lag / lead k: the text written for `NAME[t+k]`
   (`solved_values(i+1, index+k)`, C07_term_rewritten) is lexed and parsed by the Fortran grammar to the variable node
   (row i, period t+k) *)
Theorem C07_term_text_reads_back i k :
  let txt := term_f (S i) (idx_text k) in
  match lex (S (length txt)) txt with Some ts => p_primary 1 ts | None => None end = Some (SVar i k, []).
Proof. exact (term_text_reads_back i k). Qed.
Print Assumptions C07_term_text_reads_back.

(* _wrap_code INSIDE THE MODEL (FWrap.v; K: equation_block / array_def_block = the text of the generated module, per case):
   the lines are those of textwrap.wrap(break_long_words=False, break_on_hyphens=False) — concatenations of WHOLE chunks whose
   words, read line after line, are the words of the code in order, WHATEVER their lengths — each cut further only directly
   after `(`, `)` or `,`: every line break of the generated module lies between two tokens (holds since fix 45adc65; before,
   a blank-free run longer than the width was cut inside a token) *)
Theorem C07_wrap_breaks_between_tokens width (text : str) :
  exists ls : list (list str),
    wrap width text = flat_map (fun line => split_long (length line) width line) (map (@concat ascii) ls) /\
    words (concat ls) = words (chunks_of text) /\
    forall line, concat (split_long (length line) width line) = line /\
                 Forall (fun piece => is_cut_char (last piece " "%char) = true) (removelast (split_long (length line) width line)).
Proof. exact (wrap_breaks_between_tokens width text). Qed.
Print Assumptions C07_wrap_breaks_between_tokens.

(* the input of the repaired finding: 26 nested calls, a blank-free run of 120 characters; the block written for it parses to the
   very tree of the unwrapped code and no line exceeds the width *)
Theorem C07_wrap_long_run_parses :
  let names := [lit "Y"; lit "X"] in
  let eq := lit "Y[t] = abs(abs(abs(abs(abs(abs(abs(abs(abs(abs(abs(abs(abs(abs(abs(abs(abs(abs(abs(abs(abs(abs(abs(abs(abs(abs(X[t]))))))))))))))))))))))))))" in
  exists code blk t,
    rewrite names eq = Some code /\ equation_block names 100 eq = Some blk /\
    ~ fits 100 (chunks_of code) /\
    parse_stmt code = Some (0%nat, t) /\ parse_stmt (stmt_of_block blk) = Some (0%nat, t) /\
    Forall (fun l => (length l <= 100)%nat) (wrap 100 code).
Proof. exact wrap_long_run_parses. Qed.
Print Assumptions C07_wrap_long_run_parses.

(* ================================================================== error codes *)
Theorem C07_wrapper_codes_are_template_codes :
  w_t_raise = c_num_raise /\ w_t_skip = c_num_skip /\ w_s_raise = c_num_raise /\ w_s_skip = c_num_skip /\
  w_s_pre = c_pre_existing /\ w_s_offpre = c_off_pre /\ w_s_offpost = c_off_post /\
  w_e_index = [c_below; c_above; c_lags; c_leads] /\
  w_ec ERaise = Some c_ec_raise /\ w_ec ESkip = Some c_ec_skip /\ w_ec EIgnore = Some c_ec_ignore /\ w_ec EReplace = Some c_ec_replace /\
  w_fc FRaise = Some c_fail_raise.
Proof. exact wrapper_codes_are_template_codes. Qed.
Print Assumptions C07_wrapper_codes_are_template_codes.

(* ================================================================== the two back-ends, any number type and arithmetic *)
Section C07.
  Variable num : Type.
  Variables (add sub mul div : num -> num -> num) (neg absf : num -> num) (ltb : num -> num -> bool).
  Variables (is_nan is_inf : num -> bool).
  Variable of_int : Z -> num.
  Variables (fexp flog : num -> num) (fpow : num -> num -> num).       (* libm: oracles shared by both evaluators *)
  Variable round4 : num -> num.
  Variables (exp4 log4 : num -> num) (pow4 : num -> num -> num).
  Variables (zero one : num).
  Variable isfin : num -> bool.
  (* sign symmetry of multiplication and division (Fortran reads -a*b as -(a*b)): used ONLY by the two expression-level theorems
     C07_literal_free_expressions_agree / C07_benign_expressions_agree; the pass / solve_t / solve theorems ask for it at the values a
     pass meets instead (FSemFacts.neg_sym inside pass_ok), which is a closed computation for binary64 data — see the F_… theorems *)
  Hypothesis neg_mul : forall x y, mul (neg x) y = neg (mul x y).
  Hypothesis neg_div : forall x y, div (neg x) y = neg (div x y).

  Notation py_eval := (py_eval num add sub mul div neg absf ltb is_nan is_inf of_int fexp flog fpow).
  Notation py_pass := (py_pass num add sub mul div neg absf ltb is_nan is_inf of_int fexp flog fpow).
  Notation py_hook := (py_hook num add sub mul div neg absf ltb is_nan is_inf of_int fexp flog fpow).
  Notation f_eval := (f_eval num add sub mul div neg absf ltb of_int fexp flog fpow round4 exp4 log4 pow4 one).
  Notation f_pass := (f_pass num add sub mul div neg absf ltb of_int fexp flog fpow round4 exp4 log4 pow4 zero one).
  Notation lf_sem := (lf_sem num add sub mul div neg absf ltb of_int fexp flog fpow).
  Notation mm_det := (mm_det num add sub mul div neg absf ltb of_int fexp flog fpow).
  Notation quiet := (quiet num add sub mul div neg absf ltb is_nan is_inf of_int fexp flog fpow).
  Notation pass_ok := (pass_ok num add sub mul div neg absf ltb is_nan is_inf of_int fexp flog fpow zero).
  Notation w_solve_t := (w_solve_t num sub absf ltb isfin zero).
  Notation solve_t_M := (solve_t_M num sub absf ltb isfin zero).

  (* THE EXPRESSION SUBSET COMMON TO BOTH BACK-ENDS = literal-free expressions (variables, parameters, errors, lags, leads,
     + - * / **, unary minus, parentheses, abs, exp, log, max, min).  On it the class generated by fsic.parser and the
     compiled Fortran (which regroups a leading minus) compute the same REAL(8) value, provided max/min never meet a NaN or
     zeros of opposite sign and, when numpy warnings are errors, no operation leaves the finite range. *)
  Theorem C07_literal_free_expressions_agree catch (rdp : nat -> Z -> option num) (rdf : nat -> Z -> num) (e : expr num) :
    literal_free num e = true ->
    (forall i k, In (i, k) (reads num e) -> rdp i k = Some (rdf i k)) ->
    mm_det rdf e ->
    (catch = false \/ quiet rdf e) ->
    py_eval catch rdp e = inl (PF (lf_sem rdf e)) /\ f_eval rdf (f_regroup num e) = Some (F8 (lf_sem rdf e)).
  Proof. exact (literal_free_agree num add sub mul div neg absf ltb is_nan is_inf of_int fexp flog fpow round4 exp4 log4 pow4
                  zero one neg_mul neg_div catch rdp rdf e). Qed.

  (* THE SAME WITH LITERALS — the common subset stated explicitly (FBenignFacts.benign): literals occur only in literal-only
     subexpressions that are integer constant arithmetic (+ - * of literals that fit INTEGER(4), e.g. 2*3, (1+2)) or an exact
     binary32 decimal under unary minus / abs (e.g. -1.5, abs(-0.25)), and each of those is an immediate operand of + - * /
     whose other operand is a REAL(8) expression (2*3*X, (1+2)*X, abs(-1.5)*X) or — decimals only — of max / min (max(X, 0.0)).
     NOT in the class and not agreeing bit for bit: integer division, inexact decimals, literal-only REAL(4) arithmetic,
     max/min or exp/log of an integer literal (kept findings, refuted below), and `**` with a literal operand (X**2: gfortran
     multiplies, Python calls pow(): equal only to rounding — checked by the oracle's tolerance class `powi`, no theorem).  There "numeric constants denote the same double-precision real
     numbers in both".  (Outside: the refutations below.)  All later theorems are stated for programs of this class. *)
  Theorem C07_benign_expressions_agree catch (rdp : nat -> Z -> option num) (rdf : nat -> Z -> num) (e : expr num) :
    benign num add sub mul div of_int fpow e ->
    (forall i k, In (i, k) (reads num e) -> rdp i k = Some (rdf i k)) ->
    mm_det rdf e ->
    (catch = false \/ quiet rdf e) ->
    py_eval catch rdp e = inl (PF (lf_sem rdf e)) /\ f_eval rdf (f_regroup num e) = Some (F8 (lf_sem rdf e)).
  Proof. exact (benign_agree num add sub mul div neg absf ltb is_nan is_inf of_int fexp flog fpow round4 exp4 log4 pow4
                  zero one neg_mul neg_div catch rdp rdf e). Qed.

  (* "the Fortran source ... compiles", as far as kinds go: every operator of a benign program meets operand kinds gfortran
     accepts (FSem.f_compiles).  That the TEXT is well-formed Fortran is tied per case by K (FParse / FWrap), not proved *)
  Theorem C07_benign_compiles (prog : list (eqn num)) :
    Forall (fun q => benign num add sub mul div of_int fpow (snd q)) prog ->
    f_compiles num add sub mul div neg absf ltb of_int fexp flog fpow round4 exp4 log4 pow4 zero one prog = true.
  Proof. exact (benign_compiles num add sub mul div neg absf ltb is_nan is_inf of_int fexp flog fpow round4 exp4 log4 pow4 zero one prog). Qed.

  Theorem C07_literal_free_is_benign (e : expr num) : literal_free num e = true -> benign num add sub mul div of_int fpow e.
  Proof. exact (literal_free_benign num add sub mul div of_int fpow e). Qed.

  (* one evaluation pass: `self._X[t+k]` and `solved_values(number of X, index+k)` denote the same cell for either spelling
     of t, and statement by statement both engines store the same value: the whole store after the pass is the same *)
  Theorem C07_pass_agree catch n m lg ld t p (prog : list (eqn num)) (v : vals num) :
    shape n m v -> py_pos n t = Some p ->
    prog_scoped num add sub mul div of_int fpow m lg ld prog -> lg <= Z.of_nat p -> Z.of_nat p + ld < Z.of_nat n ->
    pass_ok catch prog p v ->
    py_pass catch prog n t v = (f_pass prog (Z.of_nat p + 1) v, None).
  Proof. exact (pass_agree num add sub mul div neg absf ltb is_nan is_inf of_int fexp flog fpow round4 exp4 log4 pow4 zero one
                  catch n m lg ld t p prog v). Qed.

  (* FortranEngine._evaluate(t) over the generated module = the generated Python _evaluate(t) on a feasible period *)
  Theorem C07_evaluate_engines_agree (prog : list (eqn num)) fm (lg ld : nat) t s p n m :
    shape n m (vals_of s) -> length (status s) = n -> (0 < m)%nat ->
    fm_lags fm = Z.of_nat lg -> fm_leads fm = Z.of_nat ld ->
    prog_scoped num add sub mul div of_int fpow m (Z.of_nat lg) (Z.of_nat ld) prog ->
    py_pos n t = Some p -> (lg <= p)%nat -> (p + ld < n)%nat ->
    pass_ok false prog p (vals_of s) ->
    w_evaluate num (f_pass prog) fm t s = (setvals num s (f_pass prog (Z.of_nat p + 1) (vals_of s)), Ret tt) /\
    py_pass false prog n t (vals_of s) = (f_pass prog (Z.of_nat p + 1) (vals_of s), None).
  Proof. exact (evaluate_engines_agree num add sub mul div neg absf ltb is_nan is_inf of_int fexp flog fpow round4 exp4 log4 pow4
                  zero one prog fm lg ld t s p n m). Qed.

  (* _evaluate(t) with t outside the span in both spellings: IndexError from both engines, nothing stored *)
  Theorem C07_evaluate_out_of_span (evf : Z -> vals num -> vals num) (prog : list (eqn num)) fm t s n m i e r :
    shape n m (vals_of s) -> length (status s) = n -> (0 < m)%nat ->
    prog = (i, e) :: r -> benign num add sub mul div of_int fpow e ->
    py_pos n t = None ->
    w_evaluate num evf fm t s = (s, Raise IndexError) /\
    py_pass false prog n t (vals_of s) = (vals_of s, Some tag_index).
  Proof. exact (evaluate_out_of_span num add sub mul div neg absf ltb is_nan is_inf of_int fexp flog fpow evf prog fm t s n m i e r). Qed.

  (* FortranEngine.solve_t over ANY equations block `evf` refines BaseModel.solve_t whose evaluation oracle is that block:
     same return value / exception class, values, statuses, iteration counts — for every option of the lattice,
     offsets inside the span, either spelling of t, inside the regime where the template's finiteness test
     (all endogenous variables) and the Python one (check variables) coincide *)
  Theorem C07_wrapper_refines_python_solve_t (evf : Z -> vals num -> vals num) (ev before after : hook num) fm d o t s p n m :
    shape n m (vals_of s) -> length (status s) = n -> (0 < m)%nat ->
    rows_ok m (check d) -> rows_ok m (endo d) ->
    fm_endo fm = endo_nums d -> fm_lags fm = Z.of_nat (lags d) -> fm_leads fm = Z.of_nat (leads d) ->
    py_pos n t = Some p -> feasible d n p = true ->
    errors o <> EInvalid -> min_iter o <= max_iter o ->
    (offset o = 0 \/ 0 <= Z.of_nat p + offset o < Z.of_nat n) ->
    (forall v, shape n m v -> shape n m (evf (Z.of_nat p + 1) v)) ->
    let v0 := seeded num zero d o (vals_of s) p in
    let N := Z.to_nat (max_iter o) in
    (forall i k, (i < N)%nat -> ev t (errors o) (catch_first o) k (iterv num evf p v0 i) = (evf (Z.of_nat p + 1) (iterv num evf p v0 i), None)) ->
    (forall em cf k v, before t em cf k v = (v, None)) ->
    (forall em cf k v, after t em cf k v = (v, None)) ->
    regime_from num sub absf ltb isfin zero evf d o p v0 0 N ->
    agree num (w_solve_t evf fm d o t s) (solve_t_M ev before after d o t s).
  Proof. exact (w_solve_t_refines num sub absf ltb isfin zero evf ev before after fm d o t s p n m). Qed.

  (* the same with hypotheses on the passes that actually RUN only (FSolveRun.run_ok: pass j+1 evaluates without raising and
     leaves finite check / endogenous values; unless it ends the iteration the same is asked of the next pass) *)
  Theorem C07_wrapper_refines_python_solve_t_run (evf : Z -> vals num -> vals num) (ev before after : hook num) fm d o t s p n m :
    shape n m (vals_of s) -> length (status s) = n -> (0 < m)%nat ->
    rows_ok m (check d) -> rows_ok m (endo d) ->
    fm_endo fm = endo_nums d -> fm_lags fm = Z.of_nat (lags d) -> fm_leads fm = Z.of_nat (leads d) ->
    py_pos n t = Some p -> feasible d n p = true ->
    errors o <> EInvalid -> min_iter o <= max_iter o ->
    (offset o = 0 \/ 0 <= Z.of_nat p + offset o < Z.of_nat n) ->
    (forall v, shape n m v -> shape n m (evf (Z.of_nat p + 1) v)) ->
    let v0 := seeded num zero d o (vals_of s) p in
    (forall em cf k v, before t em cf k v = (v, None)) ->
    (forall em cf k v, after t em cf k v = (v, None)) ->
    all_finite num isfin (get_check num zero d v0 p) = true ->
    run_ok num sub absf ltb isfin zero evf ev d o t p v0 (Z.to_nat (max_iter o)) 0 ->
    agree num (w_solve_t evf fm d o t s) (solve_t_M ev before after d o t s).
  Proof. exact (w_solve_t_refines_run num sub absf ltb isfin zero evf ev before after fm d o t s p n m). Qed.

  (* END TO END, solve_t: the engine compiled from `prog` and the class generated from `prog` agree on return value /
     exception class, values, statuses and iteration counts: program of benign expressions (prog_scoped) inside the declared lags / leads,
     variable numbers = rows + 1, feasible period, max_iter >= 1, in-span offset, and (FPassFacts.run_ok_prog) along the passes
     that run: benign max / min, no numpy warning when warnings are errors, finite check / endogenous values *)
  Theorem C07_solve_t_engines_agree (prog : list (eqn num)) fm d o t s p n m :
    shape n m (vals_of s) -> length (status s) = n -> (0 < m)%nat ->
    rows_ok m (check d) -> rows_ok m (endo d) ->
    fm_endo fm = endo_nums d -> fm_lags fm = Z.of_nat (lags d) -> fm_leads fm = Z.of_nat (leads d) ->
    prog_scoped num add sub mul div of_int fpow m (Z.of_nat (lags d)) (Z.of_nat (leads d)) prog ->
    py_pos n t = Some p -> feasible d n p = true ->
    errors o <> EInvalid -> min_iter o <= max_iter o ->
    (offset o = 0 \/ 0 <= Z.of_nat p + offset o < Z.of_nat n) ->
    let v0 := seeded num zero d o (vals_of s) p in
    all_finite num isfin (get_check num zero d v0 p) = true ->
    run_ok_prog num add sub mul div neg absf ltb is_nan is_inf of_int fexp flog fpow round4 exp4 log4 pow4 zero one isfin
                (is_raise (errors o) && catch_first o) prog d o p v0 (Z.to_nat (max_iter o)) 0 ->
    agree num (w_solve_t (f_pass prog) fm d o t s) (solve_t_M (py_hook prog n) (no_hook num) (no_hook num) d o t s).
  Proof. exact (solve_t_engines_agree num add sub mul div neg absf ltb is_nan is_inf of_int fexp flog fpow round4 exp4 log4 pow4
                  zero one isfin prog fm d o t s p n m). Qed.

  (* FortranEngine.solve (ONE call of the template's `solve` over all periods, then the wrapper's result loop) refines
     SolverMixin.solve (a loop of solve_t calls), for any equations block: same list of return values or exception class,
     same values, statuses, iteration counts; `solve_ok` asks of every period — on the store its predecessors leave — what
     C07_wrapper_refines_python_solve_t_run asks (FSolveAll.period_ok) *)
  Theorem C07_wrapper_refines_python_solve (evf : Z -> vals num -> vals num) (ev : hook num) fm d o n m ec fc fl ps s :
    (0 < m)%nat -> rows_ok m (check d) -> rows_ok m (endo d) ->
    fm_endo fm = endo_nums d -> fm_lags fm = Z.of_nat (lags d) -> fm_leads fm = Z.of_nat (leads d) ->
    min_iter o <= max_iter o ->
    (forall idx v, shape n m v -> shape n m (evf idx v)) ->
    w_ec (errors o) = Some ec -> w_fc fl = Some fc ->
    fail_raise o = match fl with FRaise => true | _ => false end ->
    shape n m (vals_of s) -> length (status s) = n ->
    solve_ok num sub absf ltb isfin zero evf ev fm d o n ec ps (vals_of s) ->
    agree num (w_solve num sub absf ltb isfin zero evf fm d o fl ps s)
              (py_solve num sub absf ltb isfin zero ev (no_hook num) (no_hook num) d o ps s).
  Proof. intros H1 H2 H3 H4 H5 H6 H7 H8 H9 H10 H11.
         exact (w_solve_refines num sub absf ltb isfin zero evf ev fm d o n m ec fc fl H1 H2 H3 H4 H5 H6 H7 H8 H9 H10 H11 ps s). Qed.

  (* the same beyond the finite regime (FSolveAllG.solve_okG): every period the solve REACHES either runs finite passes
     ('.' / 'F'), or lies in the regime of C07_wrapper_refines_python_solve_t ('.', 'F', 'S' under errors='skip', 'E' +
     SolutionError under errors='raise'), or starts from non-finite check values under errors='raise' (SolutionError, no
     status), or has an offset that leaves the span (IndexError and nothing copied, whatever `errors` is: fix b027373), or has
     no room for the lags / leads (IndexError, fix 1354783); nothing is asked of periods after the one at which both engines stop *)
  Theorem C07_wrapper_refines_python_solve_all_statuses (evf : Z -> vals num -> vals num) (ev : hook num) fm d o n m ec fc fl ps s :
    (0 < m)%nat -> rows_ok m (check d) -> rows_ok m (endo d) ->
    fm_endo fm = endo_nums d -> fm_lags fm = Z.of_nat (lags d) -> fm_leads fm = Z.of_nat (leads d) ->
    min_iter o <= max_iter o ->
    (forall idx v, shape n m v -> shape n m (evf idx v)) ->
    w_ec (errors o) = Some ec -> w_fc fl = Some fc ->
    fail_raise o = match fl with FRaise => true | _ => false end ->
    shape n m (vals_of s) -> length (status s) = n ->
    solve_okG num sub absf ltb isfin zero evf ev fm d o n ec ps (vals_of s) ->
    agree num (w_solve num sub absf ltb isfin zero evf fm d o fl ps s)
              (py_solve num sub absf ltb isfin zero ev (no_hook num) (no_hook num) d o ps s).
  Proof. intros H1 H2 H3 H4 H5 H6 H7 H8 H9 H10 H11.
         exact (w_solve_refinesG num sub absf ltb isfin zero evf ev fm d o n m ec fc fl H1 H2 H3 H4 H5 H6 H7 H8 H9 H10 H11 ps s). Qed.

  (* END TO END, solve: the engine compiled from `prog` and the class generated from `prog` *)
  Theorem C07_solve_engines_agree (prog : list (eqn num)) fm d o n m ec fc fl ps s :
    (0 < m)%nat -> rows_ok m (check d) -> rows_ok m (endo d) ->
    fm_endo fm = endo_nums d -> fm_lags fm = Z.of_nat (lags d) -> fm_leads fm = Z.of_nat (leads d) ->
    prog_scoped num add sub mul div of_int fpow m (Z.of_nat (lags d)) (Z.of_nat (leads d)) prog ->
    min_iter o <= max_iter o ->
    w_ec (errors o) = Some ec -> w_fc fl = Some fc ->
    fail_raise o = match fl with FRaise => true | _ => false end ->
    shape n m (vals_of s) -> length (status s) = n ->
    solve_ok_prog num add sub mul div neg absf ltb is_nan is_inf of_int fexp flog fpow round4 exp4 log4 pow4 zero one isfin
                  prog fm d o n ec ps (vals_of s) ->
    agree num (w_solve num sub absf ltb isfin zero (f_pass prog) fm d o fl ps s)
              (py_solve num sub absf ltb isfin zero (py_hook prog n) (no_hook num) (no_hook num) d o ps s).
  Proof. intros H1 H2 H3 H4 H5 H6 H7 H8 H9 H10 H11.
         exact (solve_engines_agree num add sub mul div neg absf ltb is_nan is_inf of_int fexp flog fpow round4 exp4 log4 pow4
                  zero one isfin prog fm d o n m ec fc fl H1 H2 H3 H4 H5 H6 H7 H8 H9 H10 H11 ps s). Qed.

  (* ---- FortranEngine.solve_t rejects exactly as BaseModel.solve_t does: min_iter > max_iter (ValueError), an offset that
     leaves the span (IndexError), pre-existing non-finite check values under errors='raise' (SolutionError, not chained) *)
  Theorem C07_both_reject_min_gt_max (evf : Z -> vals num -> vals num) (ev before after : hook num) fm d o t s :
    max_iter o < min_iter o ->
    w_solve_t evf fm d o t s = (s, Raise ValueError) /\ solve_t_M ev before after d o t s = (s, Raise ValueError).
  Proof. exact (both_reject_min_gt_max num sub absf ltb isfin zero evf ev before after fm d o t s). Qed.

  Theorem C07_both_reject_offset_out_of_span (evf : Z -> vals num -> vals num) (ev before after : hook num) fm d o t s p :
    min_iter o <= max_iter o -> errors o <> EInvalid ->
    py_pos (length (status s)) t = Some p -> feasible d (length (status s)) p = true ->
    offset o <> 0 ->
    (Z.of_nat p + offset o < 0 \/ Z.of_nat (length (status s)) <= Z.of_nat p + offset o) ->
    w_solve_t evf fm d o t s = (s, Raise IndexError) /\ solve_t_M ev before after d o t s = (s, Raise IndexError).
  Proof. exact (both_reject_offset_out_of_span num sub absf ltb isfin zero evf ev before after fm d o t s p). Qed.

  Theorem C07_both_reject_pre_existing (evf : Z -> vals num -> vals num) (ev before after : hook num) fm d o t s p :
    min_iter o <= max_iter o -> errors o = ERaise ->
    py_pos (length (status s)) t = Some p -> feasible d (length (status s)) p = true ->
    (offset o = 0 \/ 0 <= Z.of_nat p + offset o < Z.of_nat (length (status s))) ->
    all_finite num isfin (get_check num zero d (seeded num zero d o (vals_of s) p) p) = false ->
    w_solve_t evf fm d o t s = (setvals num s (seeded num zero d o (vals_of s) p), Raise (SolutionError None)) /\
    solve_t_M ev before after d o t s = (with_vals num s (seeded num zero d o (vals_of s) p) (log s), Raise (SolutionError None)).
  Proof. exact (both_reject_pre_existing num sub absf ltb isfin zero evf ev before after fm d o t s p). Qed.

  (* a period without room for the lags / leads: IndexError from both, nothing changes, whatever the offset (holds since fix
     1354783; before, FortranEngine.solve_t raised FortranEngineError after copying the offset values) *)
  Theorem C07_both_reject_infeasible (evf : Z -> vals num -> vals num) (ev before after : hook num) fm d o t s p :
    min_iter o <= max_iter o -> errors o <> EInvalid ->
    py_pos (length (status s)) t = Some p -> feasible d (length (status s)) p = false ->
    w_solve_t evf fm d o t s = (s, Raise IndexError) /\ solve_t_M ev before after d o t s = (s, Raise IndexError).
  Proof. exact (both_reject_infeasible num sub absf ltb isfin zero evf ev before after fm d o t s p). Qed.

  (* max_iter < 1: no pass runs; both record 'F' with 0 iterations and raise NonConvergenceError / return False (holds since fix
     131915c; before, the template's error_code kept its initial -1 and the wrapper raised FortranEngineError).  With this the
     refinement theorems above need no lower bound on max_iter any more *)
  Theorem C07_max_iter_zero_agree (evf : Z -> vals num -> vals num) (ev before after : hook num) fm d o t s p n m :
    shape n m (vals_of s) -> length (status s) = n -> (0 < m)%nat ->
    rows_ok m (check d) -> rows_ok m (endo d) ->
    fm_endo fm = endo_nums d -> fm_lags fm = Z.of_nat (lags d) -> fm_leads fm = Z.of_nat (leads d) ->
    min_iter o <= max_iter o -> max_iter o <= 0 -> errors o <> EInvalid ->
    py_pos n t = Some p -> feasible d n p = true ->
    (offset o = 0 \/ 0 <= Z.of_nat p + offset o < Z.of_nat n) ->
    is_raise (errors o) && negb (all_finite num isfin (get_check num zero d (seeded num zero d o (vals_of s) p) p)) = false ->
    (forall em cf k v, before t em cf k v = (v, None)) ->
    let out := if fail_raise o then Raise NonConvergenceError else Ret false in
    w_solve_t evf fm d o t s =
      (mkState (seeded num zero d o (vals_of s) p) (upd p Failed (status s)) (upd p 0 (iters s)) (log s), out) /\
    solve_t_M ev before after d o t s =
      (mkState (seeded num zero d o (vals_of s) p) (upd p Failed (status s)) (upd p 0 (iters s)) (log s ++ [EvBefore t]), out).
  Proof. exact (max_iter_zero_agree num sub absf ltb isfin zero evf ev before after fm d o t s p n m). Qed.

  (* solve(start=, end=): both engines select the same periods (SolutionError on an empty span, e0867c1; defaults by position since
     7cd6323 / 084a032; IndexError when the span is too short for the lags / leads) and then agree as in C07_wrapper_refines_python_solve_all_statuses *)
  Theorem C07_solve_start_end_refines (evf : Z -> vals num -> vals num) (ev : hook num) fm d o n m ec fc fl start stop s :
    (0 < m)%nat -> rows_ok m (check d) -> rows_ok m (endo d) ->
    fm_endo fm = endo_nums d -> fm_lags fm = Z.of_nat (lags d) -> fm_leads fm = Z.of_nat (leads d) ->
    min_iter o <= max_iter o ->
    (forall idx v, shape n m v -> shape n m (evf idx v)) ->
    w_ec (errors o) = Some ec -> w_fc fl = Some fc ->
    fail_raise o = match fl with FRaise => true | _ => false end ->
    shape n m (vals_of s) -> length (status s) = n ->
    (forall ps, sel_positions d n start stop = inl ps -> solve_okG num sub absf ltb isfin zero evf ev fm d o n ec ps (vals_of s)) ->
    agree num (w_solve_se num sub absf ltb isfin zero evf fm d o fl start stop s)
              (py_solve_se num sub absf ltb isfin zero ev (no_hook num) (no_hook num) d o start stop s).
  Proof. intros H1 H2 H3 H4 H5 H6 H7 H8 H9 H10 H11.
         exact (w_solve_se_refines num sub absf ltb isfin zero evf ev fm d o n m ec fc fl H1 H2 H3 H4 H5 H6 H7 H8 H9 H10 H11 start stop s). Qed.
End C07.
Print Assumptions C07_literal_free_expressions_agree.
Print Assumptions C07_benign_expressions_agree.
Print Assumptions C07_literal_free_is_benign.
Print Assumptions C07_benign_compiles.
Print Assumptions C07_pass_agree.
Print Assumptions C07_evaluate_engines_agree.
Print Assumptions C07_evaluate_out_of_span.
Print Assumptions C07_wrapper_refines_python_solve_t.
Print Assumptions C07_wrapper_refines_python_solve_t_run.
Print Assumptions C07_solve_t_engines_agree.
Print Assumptions C07_wrapper_refines_python_solve.
Print Assumptions C07_wrapper_refines_python_solve_all_statuses.
Print Assumptions C07_solve_engines_agree.
Print Assumptions C07_both_reject_min_gt_max.
Print Assumptions C07_both_reject_offset_out_of_span.
Print Assumptions C07_both_reject_pre_existing.
Print Assumptions C07_both_reject_infeasible.
Print Assumptions C07_max_iter_zero_agree.
Print Assumptions C07_solve_start_end_refines.

(* ================================================================== the same AT BINARY64 (no hypothesis about the arithmetic) *)
(* Coq's primitive floats; exp / log / ** from one table shared by both evaluators.  pass_ok / run_ok_prog / solve_ok_prog contain
   the sign-symmetry condition at the values met (neg_sym), finiteness, benign max / min and absence of numpy warnings: all closed
   computations on float data; the instances below discharge them for float programs *)
Theorem C07_F_pass_agree orc catch n m lg ld t p (prog : list feqn) (v : vals float) :
  shape n m v -> py_pos n t = Some p ->
  prog_scoped float PrimFloat.add PrimFloat.sub PrimFloat.mul PrimFloat.div f_of_int (look2 (o_pow orc)) m lg ld prog -> lg <= Z.of_nat p -> Z.of_nat p + ld < Z.of_nat n ->
  Fpass_ok orc catch prog p v ->
  F_py_pass orc catch prog n t v = (F_f_pass orc prog (Z.of_nat p + 1) v, None).
Proof. exact (F_pass_agree orc catch n m lg ld t p prog v). Qed.
Print Assumptions C07_F_pass_agree.

Theorem C07_F_solve_t_engines_agree orc (prog : list feqn) fm d (o : fopts) t (s : fstate) p n m :
  shape n m (vals_of s) -> length (status s) = n -> (0 < m)%nat ->
  rows_ok m (check d) -> rows_ok m (endo d) ->
  fm_endo fm = endo_nums d -> fm_lags fm = Z.of_nat (lags d) -> fm_leads fm = Z.of_nat (leads d) ->
  prog_scoped float PrimFloat.add PrimFloat.sub PrimFloat.mul PrimFloat.div f_of_int (look2 (o_pow orc)) m (Z.of_nat (lags d)) (Z.of_nat (leads d)) prog ->
  py_pos n t = Some p -> feasible d n p = true ->
  errors o <> EInvalid -> min_iter o <= max_iter o ->
  (offset o = 0 \/ 0 <= Z.of_nat p + offset o < Z.of_nat n) ->
  let v0 := seeded float fzero d o (vals_of s) p in
  all_finite float fisfin (get_check float fzero d v0 p) = true ->
  Frun_ok_prog orc (is_raise (errors o) && catch_first o) prog d o p v0 (Z.to_nat (max_iter o)) 0 ->
  agree float (Fw_solve_t (F_f_pass orc prog) fm d o t s) (Fsolve_t_M (F_py_hook orc prog n) (no_hook float) (no_hook float) d o t s).
Proof. exact (F_solve_t_engines_agree orc prog fm d o t s p n m). Qed.
Print Assumptions C07_F_solve_t_engines_agree.

Theorem C07_F_solve_engines_agree orc (prog : list feqn) fm d (o : fopts) n m ec fc fl ps (s : fstate) :
  (0 < m)%nat -> rows_ok m (check d) -> rows_ok m (endo d) ->
  fm_endo fm = endo_nums d -> fm_lags fm = Z.of_nat (lags d) -> fm_leads fm = Z.of_nat (leads d) ->
  prog_scoped float PrimFloat.add PrimFloat.sub PrimFloat.mul PrimFloat.div f_of_int (look2 (o_pow orc)) m (Z.of_nat (lags d)) (Z.of_nat (leads d)) prog ->
  min_iter o <= max_iter o ->
  w_ec (errors o) = Some ec -> w_fc fl = Some fc ->
  fail_raise o = match fl with FRaise => true | _ => false end ->
  shape n m (vals_of s) -> length (status s) = n ->
  Fsolve_ok_prog orc prog fm d o n ec ps (vals_of s) ->
  agree float (Fw_solve (F_f_pass orc prog) fm d o fl ps s) (Fpy_solve (F_py_hook orc prog n) (no_hook float) (no_hook float) d o ps s).
Proof. exact (F_solve_engines_agree orc prog fm d o n m ec fc fl ps s). Qed.
Print Assumptions C07_F_solve_engines_agree.

(* float witnesses: Y = -{a} * Y[-1] + 0.5 * X (a leading minus Fortran regroups, an exact decimal literal), a = -0.5, negative t:
   every hypothesis of the two theorems above is discharged by computation; converged at pass 2 *)
Theorem C07_F_solve_t_instance :
  agree float (Fw_solve_t (F_f_pass no_orc fprogw) ffmodw fdescw foptsw (-3) fstatew)
              (Fsolve_t_M (F_py_hook no_orc fprogw 4) (no_hook float) (no_hook float) fdescw foptsw (-3) fstatew) /\
  snd (Fw_solve_t (F_f_pass no_orc fprogw) ffmodw fdescw foptsw (-3) fstatew) = Ret true /\
  nth 1 (iters (fst (Fw_solve_t (F_f_pass no_orc fprogw) ffmodw fdescw foptsw (-3) fstatew))) 0 = 2.
Proof. exact F_solve_t_engines_agree_instance. Qed.
Print Assumptions C07_F_solve_t_instance.

Theorem C07_F_solve_instance :
  agree float (Fw_solve (F_f_pass no_orc fprogw) ffmodw fdescw foptsw FRaise [1; 2; 3]%nat fstatew)
              (Fpy_solve (F_py_hook no_orc fprogw 4) (no_hook float) (no_hook float) fdescw foptsw [1; 2; 3]%nat fstatew) /\
  snd (Fw_solve (F_f_pass no_orc fprogw) ffmodw fdescw foptsw FRaise [1; 2; 3]%nat fstatew) = Ret [true; true; true].
Proof. exact F_solve_engines_agree_instance. Qed.
Print Assumptions C07_F_solve_instance.

(* the commonest uses of literals inside the class, at binary64: Y = 2*3*X + (1+2)*X + abs(-1.5)*X + max(X, 0.0) - min(1.5, X) is a
   program of the class (the integer-conversion conditions are closed float computations), it compiles, and one pass of either
   engine stores 21.5 for X = 2 *)
Theorem C07_F_common_literal_uses_agree :
  prog_scoped float PrimFloat.add PrimFloat.sub PrimFloat.mul PrimFloat.div f_of_int (look2 []) 2 0 0 fprogl /\
  F_f_compiles fprogl = true /\
  F_py_pass no_orc true fprogl 3 1 fvalsl = (F_f_pass no_orc fprogl 2 fvalsl, None) /\
  nth 1 (nth 0 (F_f_pass no_orc fprogl 2 fvalsl) []) 0%float = 21.5%float.
Proof. exact F_common_literal_uses_agree. Qed.
Print Assumptions C07_F_common_literal_uses_agree.

(* regime_from at binary64 with a pass that overflows: 'S', 1 iteration, False from both engines *)
Theorem C07_F_regime_skip_instance :
  agree float (Fw_solve_t (F_f_pass no_orc fprogq) ffmodq fdescq foptsq 1 fstateq)
              (Fsolve_t_M (F_py_hook no_orc fprogq 3) (no_hook float) (no_hook float) fdescq foptsq 1 fstateq) /\
  snd (Fw_solve_t (F_f_pass no_orc fprogq) ffmodq fdescq foptsq 1 fstateq) = Ret false /\
  nth 1 (status (fst (Fw_solve_t (F_f_pass no_orc fprogq) ffmodq fdescq foptsq 1 fstateq))) Unsolved = Skipped /\
  nth 1 (iters (fst (Fw_solve_t (F_f_pass no_orc fprogq) ffmodq fdescq foptsq 1 fstateq))) 0 = 1.
Proof. exact F_regime_instance_skip. Qed.
Print Assumptions C07_F_regime_skip_instance.

(* ================================================================== what the current tree breaks (binary64 instances) *)
(* "numeric constants in equations denote the same double-precision real numbers in both": refuted.  `1 / 2 * X` compiles,
   stays finite, and the two engines compute different values (integer division; likewise 0.1 is a REAL(4) constant) *)
Theorem C07_literals_denote_same_numbers_refuted :
  exists (e : fexpr) (x : float),
    F_f_compiles [(0%nat, e)] = true /\
    exists a b, F_py_eval no_or true (rd1p x) e = inl (PF a) /\ F_f_eval no_or (rd1 x) (f_regroup float e) = Some (F8 b) /\
                feq_bits a b = false /\ fisfin a = true /\ fisfin b = true.
Proof. exact eval_agree_refuted. Qed.
Print Assumptions C07_literals_denote_same_numbers_refuted.

Theorem C07_real4_literal_refuted :
  F_py_eval no_or true (rd1p 1%float) e_tenth_x = inl (PF 0x1.999999999999ap-4%float) /\
  F_f_eval no_or (rd1 1%float) (f_regroup float e_tenth_x) = Some (F8 0x1.99999ap-4%float) /\
  f_round4 0x1.999999999999ap-4%float = 0x1.99999ap-4%float.
Proof. exact real4_literal_witness. Qed.
Print Assumptions C07_real4_literal_refuted.

(* "the Fortran source ... compiles": refuted for min(1, X) and exp(2) *)
Theorem C07_compiles_refuted :
  F_py_eval no_or true (rd1p 3%float) e_min1x = inl (PI 1) /\ F_f_compiles [(0%nat, e_min1x)] = false /\
  F_f_compiles [(0%nat, e_exp2)] = false.
Proof. exact mixed_kind_witness. Qed.
Print Assumptions C07_compiles_refuted.

(* a period without room for the lags, offset -1, errors='skip': IndexError from both engines, nothing changed (binary64 instance of
   C07_both_reject_infeasible; before fix 1354783: FortranEngineError) *)
Theorem C07_infeasible_period_instance :
  obs_eqb (F_solve_t no_or prog1 fmod1 desc1 (opts1 100 (-1) true ESkip) 0 state1) (state1, XB (Raise IndexError)) = true /\
  obs_eqb (P_solve_t no_or prog1 desc1 (opts1 100 (-1) true ESkip) 0 state1) (state1, XB (Raise IndexError)) = true /\
  feasible desc1 4 0 = false.
Proof. exact infeasible_period_instance. Qed.
Print Assumptions C07_infeasible_period_instance.

Theorem C07_evaluate_infeasible_refuted :
  snd (P_evaluate no_or prog1 0 state1) = XU (Ret tt) /\
  snd (F_evaluate no_or prog1 fmod1 0 state1) = XU (Raise IndexError).
Proof. exact evaluate_infeasible_witness. Qed.
Print Assumptions C07_evaluate_infeasible_refuted.

(* max_iter = 0: 'F', 0 iterations, False / NonConvergenceError from both engines (binary64 instance of C07_max_iter_zero_agree;
   before fix 131915c: FortranEngineError) *)
Theorem C07_max_iter_zero_instance :
  snd (P_solve_t no_or prog1 desc1 (opts1 0 0 false ERaise) 1 state1) = XB (Ret false) /\
  nth 1 (status (fst (P_solve_t no_or prog1 desc1 (opts1 0 0 false ERaise) 1 state1))) Unsolved = Failed /\
  obs_eqb (F_solve_t no_or prog1 fmod1 desc1 (opts1 0 0 false ERaise) 1 state1)
          (let '(s, x) := P_solve_t no_or prog1 desc1 (opts1 0 0 false ERaise) 1 state1 in (s, x)) = true /\
  nth 1 (iters (fst (F_solve_t no_or prog1 fmod1 desc1 (opts1 0 0 false ERaise) 1 state1))) 7 = 0 /\
  snd (F_solve_t no_or prog1 fmod1 desc1 (opts1 0 0 true ERaise) 1 state1) = XB (Raise NonConvergenceError).
Proof. exact max_iter_zero_instance. Qed.
Print Assumptions C07_max_iter_zero_instance.

(* solve() of a model WITHOUT periods: SolutionError from both engines (binary64 instance of C07_solve_start_end_refines at n = 0;
   before fix e0867c1: IndexError from FortranEngine.solve) *)
Theorem C07_empty_span_instance :
  snd (P_solve_se no_or prog1 desc1 (opts1 100 0 true ERaise) None None state_empty) = XL (Raise (SolutionError None)) /\
  snd (F_solve_se no_or prog1 fmod1 desc1 (opts1 100 0 true ERaise) FRaise None None state_empty) = XL (Raise (SolutionError None)).
Proof. exact empty_span_instance. Qed.
Print Assumptions C07_empty_span_instance.

(* solve with an offset that leaves the span at the first period, errors='skip': IndexError from both engines and the values
   untouched by both (binary64 instance of case sc_off of C07_wrapper_refines_python_solve_all_statuses; before fix b027373 the
   Fortran engine had already solved and stored period 3) *)
Theorem C07_solve_offset_instance :
  let o := opts1 100 (-2) true ESkip in
  snd (P_solve no_or prog1 desc1 o [1; 2; 3]%nat state1) = XL (Raise IndexError) /\
  snd (F_solve no_or prog1 fmod1 desc1 o FRaise [1; 2; 3]%nat state1) = XL (Raise IndexError) /\
  list_eqb (list_eqb feq_bits) (vals_of (fst (P_solve no_or prog1 desc1 o [1; 2; 3]%nat state1))) (vals_of state1) = true /\
  list_eqb (list_eqb feq_bits) (vals_of (fst (F_solve no_or prog1 fmod1 desc1 o FRaise [1; 2; 3]%nat state1))) (vals_of state1) = true.
Proof. exact solve_offset_instance. Qed.
Print Assumptions C07_solve_offset_instance.
