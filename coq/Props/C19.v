(* Props/C19.v — the audited surface for property C19 (tabular export and import are faithful round trips).
   Statements only; every proof is `exact <lemma>`; Print Assumptions under each.

   Vocabulary (Data/Table.v): a table = index (kind, dtype, labels) + ordered named typed columns; `fmodel` = what the export
   reads of a BaseModel / BaseLinker (span, names, series, status, iterations); `wf_model m n` = the container invariants of a
   live object with n periods (names without duplicates, status / iterations not among them, every name has a series of n
   cells — C09); `pd_index` / `pd_infer` / `pd_of_series` / `np_cast` = pandas / NumPy as tabulated (DESIGN.md Appendix D;
   every entry of the table is re-validated against the running libraries on every run: buckets pdtable/...).

   What the theorems do NOT carry (K / the oracle only):
   * the pandas / NumPy tables themselves are modelled, not verified: C19_export_cells_and_dtypes is `pd_of_series` unfolded
     over the fsic-side column selection, the symbols theorems rest on `pd_infer`; Series.values / iterrows are the identity
     on the tabulated cells (`col_values`);
   * a third outcome, TUnmodelled, is excluded by every positive statement (`= TOk ...` / `= TErr ...`) and skipped by K:
       - pd_infer: an int outside int64 next to None or floats (pandas' answer depends on the order of the cells); Period /
         Timestamp / Timedelta next to None (NaT);
       - np_cast: float -> str unless integral with |x| < 1e15 (repr of floats); float -> int of NaN / inf / values outside
         int64 (NumPy returns INT64_MIN); text -> float / int unless it certainly is no number (first character a letter other
         than n, N, i, I); ints outside int64 -> float / int;
       - from_table: a column called strict, engine or default_value (passed to __init__ as that parameter; strict and
         engine cannot be variables of a model);
       - symbols: a text (str) lag / lead — the parser never produces one;
   * "reproduces the span" is read as: the same LABELS in the same order (list(new.span) == list(old.span)).  The kind of the
     span object is kept only for the four pandas kinds from_dataframe keeps (C19_kept_index_kinds); a range / tuple / ndarray /
     Index span comes back as a list, and a list of Timestamps / Timedeltas / Periods as the pandas index the export built
     (C19_span_kind_changes).  K compares the kind, the oracle does not;
   * that the frames and models exchanged are copies (no views of each other's arrays) is observed by K only.
   Theorems that only unfold a definition (they document the model, they cover no clause by themselves):
   C19_starts_underscore_is_first_character, C19_kept_index_kinds, C19_from_dataframe_extra_positional, C19_type_values_invert
   (the last one does depend on the regenerated constant table). *)
From Coq Require Import String Ascii List ZArith Bool.
Import ListNotations.
Require Import PyBase Generated Symbols Table TableFacts TableExamples.
Open Scope string_scope.
Open Scope Z_scope.
Open Scope list_scope.

(* ================= export: model_to_dataframe / to_dataframe ================= *)

(* one column per variable in model order, underscore-prefixed names dropped unless include_internal, then status, then
   iterations, each iff requested; the index is pandas' index of the span.  Every model, every flag combination. *)
Theorem C19_export_columns_in_model_order (st it ii : bool) (m : fmodel) (ix : pindex) :
  wf_model m (length (splabels (fspan m))) -> pd_index (fspan m) = Some ix ->
  exists t, model_to_table st it ii m = TOk t /\ tindex t = ix /\
    map pcname (tcols t)
    = (if ii then fnames m else filter (fun x => negb (starts_underscore x)) (fnames m))
      ++ (if st then ["status"] else []) ++ (if it then ["iterations"] else []).
Proof. exact (export_columns_in_model_order st it ii m ix). Qed.
Print Assumptions C19_export_columns_in_model_order.

(* `starts_underscore` is str.startswith('_'): the first character, nothing else *)
Theorem C19_starts_underscore_is_first_character (k : string) :
  starts_underscore k = true <-> exists r, k = String "_"%char r.
Proof. exact (starts_underscore_spec k). Qed.
Print Assumptions C19_starts_underscore_is_first_character.

(* a variable is exported iff it is requested: always when it has no leading underscore, otherwise iff include_internal *)
Theorem C19_export_underscore_only_when_requested (st it ii : bool) (m : fmodel) (ix : pindex) :
  wf_model m (length (splabels (fspan m))) -> pd_index (fspan m) = Some ix ->
  exists t, model_to_table st it ii m = TOk t /\
    (forall k, In k (fnames m) -> (In k (map pcname (tcols t)) <-> (ii = true \/ starts_underscore k = false))).
Proof. exact (export_underscore_only_when_requested st it ii m ix). Qed.
Print Assumptions C19_export_underscore_only_when_requested.

(* the column of an exported variable holds exactly that series' cells, and float / int / bool series keep their dtype
   (float64 / int64 / bool; text becomes pandas' str dtype) *)
Theorem C19_export_cells_and_dtypes (st it ii : bool) (m : fmodel) (ix : pindex) (k : string) (s : series) :
  wf_model m (length (splabels (fspan m))) -> pd_index (fspan m) = Some ix ->
  In k (fnames m) -> (ii = true \/ starts_underscore k = false) ->
  assoc_s k (fvars m) = Some s -> sdt s <> NObj ->
  exists t, model_to_table st it ii m = TOk t /\
            find_col k (tcols t)
            = Some (mkCol k (match sdt s with NFloat => PFloat64 | NInt => PInt64 | NBool => PBool | NStr => PStrDt | NObj => PObject end)
                          (scells s)).
Proof. exact (export_cells_and_dtypes st it ii m ix k s). Qed.
Print Assumptions C19_export_cells_and_dtypes.

(* status and iterations are present exactly when requested and hold the model's status / iterations series *)
Theorem C19_export_status_iterations (st it ii : bool) (m : fmodel) (ix : pindex) :
  wf_model m (length (splabels (fspan m))) -> pd_index (fspan m) = Some ix ->
  exists t, model_to_table st it ii m = TOk t /\
    find_col "status" (tcols t) = (if st then Some (col_of ("status", fstatus m)) else None) /\
    find_col "iterations" (tcols t) = (if it then Some (col_of ("iterations", fiters m)) else None).
Proof. exact (export_status_iterations st it ii m ix). Qed.
Print Assumptions C19_export_status_iterations.

(* one row per period: the index and every column have as many entries as the span *)
Theorem C19_export_one_row_per_period (st it ii : bool) (m : fmodel) (ix : pindex) :
  wf_model m (length (splabels (fspan m))) -> pd_index (fspan m) = Some ix ->
  exists t, model_to_table st it ii m = TOk t /\
    length (ilabels (tindex t)) = length (splabels (fspan m)) /\
    forall c, In c (tcols t) -> length (pccells c) = length (splabels (fspan m)).
Proof. exact (export_one_row_per_period st it ii m ix). Qed.
Print Assumptions C19_export_one_row_per_period.

(* indexed by the span: the labels are the span's labels whenever the span is a range, a pandas index, or a list / tuple /
   array whose labels pandas does not rewrite (None only alone; ints and floats not mixed) *)
Theorem C19_export_index_is_span (st it ii : bool) (m : fmodel) (ix : pindex) :
  wf_model m (length (splabels (fspan m))) -> pd_index (fspan m) = Some ix ->
  (match spkind (fspan m) with
   | SRange | SPandas _ _ => true
   | _ => (forallb is_none (splabels (fspan m)) || negb (existsb is_none (splabels (fspan m))))
          && negb (existsb is_int (splabels (fspan m)) && existsb is_flt (splabels (fspan m))
                   && forallb is_num_or_none (splabels (fspan m)))
   end) = true ->
  exists t, model_to_table st it ii m = TOk t /\ ilabels (tindex t) = splabels (fspan m).
Proof. exact (export_index_is_span st it ii m ix). Qed.
Print Assumptions C19_export_index_is_span.

(* ... and without that guard the statement is false: the span [1, None] is exported with the index [1.0, NaN] *)
Theorem C19_export_index_none_label_refuted :
  exists m, wf_model m (length (splabels (fspan m))) /\
    exists t, model_to_table true true false m = TOk t /\ ilabels (tindex t) <> splabels (fspan m).
Proof. exact export_index_none_refuted. Qed.
Print Assumptions C19_export_index_none_label_refuted.

(* ================= VectorContainer.to_dataframe ================= *)

(* one column per variable of the container, in creation order (for a model object: status, iterations, then the
   variables), one row per period, cells and float / int / bool dtypes exactly those of the series *)
Theorem C19_container_export (sp : span) (vars : list (string * series)) (ix : pindex) :
  pd_index sp = Some ix -> (forall k s, In (k, s) vars -> length (scells s) = length (splabels sp)) ->
  container_to_table sp vars = TOk (mkTable ix (map col_of vars)) /\
  map pcname (map col_of vars) = map fst vars /\
  length (ilabels ix) = length (splabels sp) /\
  (forall k s, In (k, s) vars -> sdt s <> NObj ->
     In (mkCol k (match sdt s with NFloat => PFloat64 | NInt => PInt64 | NBool => PBool | NStr => PStrDt | NObj => PObject end) (scells s))
        (map col_of vars)).
Proof. exact (container_to_table_spec sp vars ix). Qed.
Print Assumptions C19_container_export.

(* ================= linker export ================= *)

(* one table for the linker (first, under its name) and one per submodel, in submodel order, under the submodel's key; each
   is the export of that object with the same flags.  Any number of submodels; guard: the keys differ from each other and
   from the linker's name *)
Theorem C19_linker_tables (st it ii : bool) (l : flinker) (ix : fmodel -> pindex) :
  NoDup (map fst (lsubs l)) -> ~ In (lname l) (map fst (lsubs l)) ->
  (forall m, m = lmodel l \/ In m (map snd (lsubs l)) ->
             wf_model m (length (splabels (fspan m))) /\ pd_index (fspan m) = Some (ix m)) ->
  linker_to_tables st it ii l
  = TOk ((lname l, mkTable (ix (lmodel l)) (export_cols st it ii (lmodel l)))
         :: map (fun km => (fst km, mkTable (ix (snd km)) (export_cols st it ii (snd km)))) (lsubs l))
  /\ (forall m, m = lmodel l \/ In m (map snd (lsubs l)) ->
                model_to_table st it ii m = TOk (mkTable (ix m) (export_cols st it ii m))).
Proof. exact (linker_tables_full st it ii l ix). Qed.
Print Assumptions C19_linker_tables.

(* the function linker_to_dataframes by itself, for an arbitrary object (e.g. a linker whose `name` was reassigned after
   construction): the entry under the linker's name holds the table of the submodel keyed like the linker if there is one,
   else the linker's; the other submodels follow in order under their keys.  The constructor excludes the first case *)
Theorem C19_linker_tables_general (st it ii : bool) (tab : fmodel -> table) (l : flinker) :
  NoDup (map fst (lsubs l)) ->
  model_to_table st it ii (lmodel l) = TOk (tab (lmodel l)) ->
  (forall k m, In (k, m) (lsubs l) -> model_to_table st it ii m = TOk (tab m)) ->
  linker_to_tables st it ii l
  = TOk ((lname l, tab (match lookup_cell (lname l) (lsubs l) with Some m => m | None => lmodel l end))
         :: map (fun km => (fst km, tab (snd km))) (filter (fun km => negb (cell_eqb (fst km) (lname l))) (lsubs l))).
Proof. exact (linker_to_tables_general st it ii tab l). Qed.
Print Assumptions C19_linker_tables_general.

(* BaseLinker.__init__ refuses a name that is also the identifier of a submodel (f5ef8bd) and otherwise builds the linker *)
Theorem C19_linker_constructor (name : cell) (core : fmodel) (subs : list (cell * fmodel)) :
  (In name (map fst subs) -> linker_construct name core subs = TErr DuplicateNameError) /\
  (~ In name (map fst subs) -> linker_construct name core subs = TOk (mkLinker name core subs)).
Proof. exact (linker_construct_spec name core subs). Qed.
Print Assumptions C19_linker_constructor.

(* hence for EVERY linker the constructor returns (submodel identifiers are dict keys, so distinct): one table for the
   linker under its name and one per submodel under its identifier — number of submodels + 1 tables, none lost *)
Theorem C19_linker_tables_of_constructed (st it ii : bool) (name : cell) (core : fmodel) (subs : list (cell * fmodel))
        (l : flinker) (ix : fmodel -> pindex) :
  linker_construct name core subs = TOk l ->
  NoDup (map fst subs) ->
  (forall m, m = core \/ In m (map snd subs) ->
             wf_model m (length (splabels (fspan m))) /\ pd_index (fspan m) = Some (ix m)) ->
  linker_to_tables st it ii l
  = TOk ((name, mkTable (ix core) (export_cols st it ii core))
         :: map (fun km => (fst km, mkTable (ix (snd km)) (export_cols st it ii (snd km)))) subs)
  /\ S (length subs) = length ((name, mkTable (ix core) (export_cols st it ii core))
         :: map (fun km => (fst km, mkTable (ix (snd km)) (export_cols st it ii (snd km)))) subs).
Proof. exact (linker_tables_constructed st it ii name core subs l ix). Qed.
Print Assumptions C19_linker_tables_of_constructed.

(* ================= from_dataframe after to_dataframe ================= *)

(* the class that lists the model's variables, with the model's dtype: span LABELS (in order; the kind of the span object is
   the subject of C19_from_to_order_and_pairing / C19_span_kind_changes), names and every series (dtype and cells) are
   reproduced; status / iterations start afresh.  Guards: every variable is exported (include_internal, or no
   underscore names), strict only for data-only tables, no variable named like an __init__ parameter, the index is the span *)
Theorem C19_from_to_roundtrip (st it ii : bool) (m : fmodel) (ix : pindex) (c : mclass) :
  wf_model m (length (splabels (fspan m))) -> pd_index (fspan m) = Some ix -> span_stable (fspan m) = true ->
  cnames c = fnames m ->
  (ii = true \/ forall k, In k (fnames m) -> starts_underscore k = false) ->
  (cstrict c = true -> st = false /\ it = false) ->
  (forall k, In k (fnames m) -> mem_s k init_params = false) ->
  (forall k s, In k (fnames m) -> assoc_s k (fvars m) = Some s ->
     sdt s = cdtype c /\ sdt s <> NObj /\ forallb (cell_has_dtype (cdtype c)) (scells s) = true) ->
  exists t m', model_to_table st it ii m = TOk t /\ from_table c t = TOk m' /\
    splabels (fspan m') = splabels (fspan m) /\ fnames m' = fnames m /\
    (forall k, In k (fnames m) -> assoc_s k (fvars m') = assoc_s k (fvars m)) /\
    fstatus m' = mkSeries NStr (repeat (CStr "-") (length (splabels (fspan m)))) /\
    fiters m' = mkSeries NInt (repeat (CInt (-1)) (length (splabels (fspan m)))).
Proof. exact (from_to_roundtrip_same_dtype st it ii m ix c). Qed.
Print Assumptions C19_from_to_roundtrip.

(* ---- order of periods and the pairing label <-> value, for every kind of span ---- *)

(* from_dataframe's four-way isinstance test: exactly DatetimeIndex, MultiIndex, PeriodIndex and TimedeltaIndex are kept as
   the pandas index object; everything else (RangeIndex, Index of any dtype) goes through list(index) *)
Theorem C19_kept_index_kinds (k : ikind) :
  is_time_index k = true <-> k = KDatetimeIndex \/ k = KMultiIndex \/ k = KPeriodIndex \/ k = KTimedeltaIndex.
Proof. exact (is_time_index_spec k). Qed.
Print Assumptions C19_kept_index_kinds.

(* a span that is a pandas index object (any kind, any label order, repeated labels allowed; tuples for a MultiIndex) is the
   table's index as it is, and from_dataframe gives the same object back for the four kinds, the same labels as a list otherwise *)
Theorem C19_pandas_span_roundtrip (k : ikind) (d : pdt) (ls : list cell) :
  pd_index (mkSpan (SPandas k d) ls) = Some (mkIndex k d ls) /\
  (is_time_index k = true -> span_of_index (mkIndex k d ls) = mkSpan (SPandas k d) ls) /\
  (is_time_index k = false -> span_of_index (mkIndex k d ls) = mkSpan SList ls).
Proof. exact (pandas_span_roundtrip k d ls). Qed.
Print Assumptions C19_pandas_span_roundtrip.

(* from_dataframe of ANY table never sorts, drops or merges rows: the span is the index in table order (same length, same
   order, duplicates kept; kind by the four-way test) and the i-th cell of every variable is the cast of the i-th cell of
   its column *)
Theorem C19_from_dataframe_rowwise (c : mclass) (t : table) (m : fmodel) :
  from_table c t = TOk m ->
  splabels (fspan m) = ilabels (tindex t) /\
  spkind (fspan m) = (if is_time_index (ikd (tindex t)) then SPandas (ikd (tindex t)) (idt (tindex t)) else SList) /\
  forall k s col, In (k, s) (fvars m) -> find_col k (tcols t) = Some col ->
    Forall2 (fun x y => np_cast (cdtype c) x = TOk y) (pccells col) (scells s).
Proof. exact (from_table_rowwise c t m). Qed.
Print Assumptions C19_from_dataframe_rowwise.

(* the round trip position by position: period i of the rebuilt model has the label of period i of the original and every
   variable has at position i the value it had — for every kind of span; a span of one of the four kept kinds comes back
   identical (kind, dtype, labels in order) *)
Theorem C19_from_to_order_and_pairing (st it ii : bool) (m : fmodel) (ix : pindex) (c : mclass) :
  wf_model m (length (splabels (fspan m))) -> pd_index (fspan m) = Some ix -> span_stable (fspan m) = true ->
  cnames c = fnames m ->
  (ii = true \/ forall k, In k (fnames m) -> starts_underscore k = false) ->
  (cstrict c = true -> st = false /\ it = false) ->
  (forall k, In k (fnames m) -> mem_s k init_params = false) ->
  (forall k s, In k (fnames m) -> assoc_s k (fvars m) = Some s ->
     sdt s = cdtype c /\ sdt s <> NObj /\ forallb (cell_has_dtype (cdtype c)) (scells s) = true) ->
  exists t m', model_to_table st it ii m = TOk t /\ from_table c t = TOk m' /\
    length (splabels (fspan m')) = length (splabels (fspan m)) /\
    (forall i, nth_error (splabels (fspan m')) i = nth_error (splabels (fspan m)) i) /\
    (forall k s, In k (fnames m) -> assoc_s k (fvars m) = Some s ->
       exists s', assoc_s k (fvars m') = Some s' /\ forall i, nth_error (scells s') i = nth_error (scells s) i) /\
    (forall k d, spkind (fspan m) = SPandas k d -> is_time_index k = true -> fspan m' = fspan m).
Proof. exact (from_to_order_and_pairing st it ii m ix c). Qed.
Print Assumptions C19_from_to_order_and_pairing.

(* with dtype=object every cell of every series (float, int, bool, text, any mixture of dtypes) comes back unchanged *)
Theorem C19_from_to_roundtrip_object (st it ii : bool) (m : fmodel) (ix : pindex) (c : mclass) :
  wf_model m (length (splabels (fspan m))) -> pd_index (fspan m) = Some ix -> span_stable (fspan m) = true ->
  cnames c = fnames m -> cdtype c = NObj ->
  (ii = true \/ forall k, In k (fnames m) -> starts_underscore k = false) ->
  (cstrict c = true -> st = false /\ it = false) ->
  (forall k, In k (fnames m) -> mem_s k init_params = false) ->
  (forall k s, In k (fnames m) -> assoc_s k (fvars m) = Some s -> sdt s <> NObj) ->
  exists t m', model_to_table st it ii m = TOk t /\ from_table c t = TOk m' /\
    splabels (fspan m') = splabels (fspan m) /\ fnames m' = fnames m /\
    (forall k s, In k (fnames m) -> assoc_s k (fvars m) = Some s ->
                 assoc_s k (fvars m') = Some (mkSeries NObj (scells s))).
Proof. exact (from_to_roundtrip_object st it ii m ix c). Qed.
Print Assumptions C19_from_to_roundtrip_object.

(* the class default dtype (float) applied to float / int / bool series: every value is reproduced numerically — an int k
   with |k| <= 2^53 comes back as the float k, True / False as 1.0 / 0.0, floats unchanged (bit for bit, NaN and -0.0 included) *)
Theorem C19_from_to_default_float (st it ii : bool) (m : fmodel) (ix : pindex) (c : mclass) :
  wf_model m (length (splabels (fspan m))) -> pd_index (fspan m) = Some ix -> span_stable (fspan m) = true ->
  cnames c = fnames m -> cdtype c = NFloat ->
  (ii = true \/ forall k, In k (fnames m) -> starts_underscore k = false) ->
  (cstrict c = true -> st = false /\ it = false) ->
  (forall k, In k (fnames m) -> mem_s k init_params = false) ->
  (forall k s, In k (fnames m) -> assoc_s k (fvars m) = Some s ->
     sdt s <> NObj /\
     forallb (fun x => match x with CFlt _ | CBool _ => true | CInt z => Z.abs z <=? 9007199254740992 | _ => false end) (scells s) = true) ->
  exists t m', model_to_table st it ii m = TOk t /\ from_table c t = TOk m' /\
    splabels (fspan m') = splabels (fspan m) /\ fnames m' = fnames m /\
    (forall k s, In k (fnames m) -> assoc_s k (fvars m) = Some s ->
       assoc_s k (fvars m')
       = Some (mkSeries NFloat (map (fun x => match x with CInt z => CFlt (FInt z) | CBool b => CFlt (FInt (if b then 1 else 0)) | _ => x end)
                                    (scells s)))).
Proof. exact (from_to_default_float st it ii m ix c). Qed.
Print Assumptions C19_from_to_default_float.

(* from_dataframe of ANY table with ANY class: when it returns, the new model has the table's index as span (a list, or the
   pandas time index itself), exactly the class's NAMES (duplicate-free) as variables in that order, every variable of the
   class dtype holding the cast of its column — or of the default value when the table has no such column —, fresh status /
   iterations, and under strict=True every column of the table (other than one called dtype, which is taken as the dtype=
   parameter) is a NAME.  Columns outside NAMES influence nothing. *)
Theorem C19_from_dataframe_contract (c : mclass) (t : table) (m : fmodel) :
  from_table c t = TOk m ->
  fspan m = span_of_index (tindex t) /\ fnames m = cnames c /\ map fst (fvars m) = cnames c /\
  NoDup (cnames c) /\
  (forall k s, In (k, s) (fvars m) ->
     sdt s = cdtype c /\
     cast_all (cdtype c)
       (match find_col k (tcols t) with Some col => col_values col | None => repeat (cdefault c) (length (ilabels (tindex t))) end)
     = TOk (scells s)) /\
  fstatus m = mkSeries NStr (repeat (CStr "-") (length (ilabels (tindex t)))) /\
  fiters m = mkSeries NInt (repeat (CInt (-1)) (length (ilabels (tindex t)))) /\
  (cstrict c = true -> forall col, In col (tcols t) -> pcname col <> "dtype" -> In (pcname col) (cnames c)).
Proof. exact (from_table_char c t m). Qed.
Print Assumptions C19_from_dataframe_contract.

(* from_dataframe(data, *args): __init__ has the span as its only positional parameter, so every extra positional argument
   is a TypeError raised at the call, whatever the table; with none the call is from_dataframe proper *)
Theorem C19_from_dataframe_extra_positional (n : nat) (c : mclass) (t : table) :
  from_dataframe_call n c t = (if Nat.eqb n 0 then from_table c t else TErr TypeError).
Proof. exact (from_dataframe_call_spec n c t). Qed.
Print Assumptions C19_from_dataframe_extra_positional.

(* ... and when it raises, the class is DuplicateNameError (NAMES), InitialisationError (strict), ValueError or TypeError (cast) *)
Theorem C19_from_dataframe_errors (c : mclass) (t : table) (e : exn) :
  from_table c t = TErr e ->
  (match e with DuplicateNameError | InitialisationError | ValueError | TypeError => true | _ => false end) = true.
Proof. exact (from_table_errors c t e). Qed.
Print Assumptions C19_from_dataframe_errors.

(* the guards are necessary (documented behaviour of from_dataframe, not defects: names and dtype come from the class and the
   call).  `cnames c = fnames m` is necessary: a variable added at run time (not in NAMES) is exported and not rebuilt *)
Theorem C19_from_to_extra_variable_refuted :
  exists m c t m', (forall k, In k (cnames c) -> In k (fnames m)) /\ cstrict c = false /\
    model_to_table false false false m = TOk t /\ find_col "I" (tcols t) <> None /\
    from_table c t = TOk m' /\ assoc_s "I" (fvars m') = None.
Proof. exact from_to_extra_variable_refuted. Qed.
Print Assumptions C19_from_to_extra_variable_refuted.

(* the dtype guard is necessary: an integer model rebuilt with the class default dtype (float) instead of dtype=int —
   2^53 + 1 comes back as 2^53 (C19_from_to_default_float covers |k| <= 2^53) *)
Theorem C19_from_to_int_as_float_refuted :
  exists m c t m', cnames c = fnames m /\ model_to_table false false false m = TOk t /\ from_table c t = TOk m' /\
    assoc_s "I" (fvars m) = Some (mkSeries NInt [CInt 1; CInt (-2); CInt 9007199254740993]) /\
    assoc_s "I" (fvars m') = Some (mkSeries NFloat [CFlt (FInt 1); CFlt (FInt (-2)); CFlt (FInt 9007199254740992)]).
Proof. exact from_to_int_as_float_refuted. Qed.
Print Assumptions C19_from_to_int_as_float_refuted.

(* the dtype guard is necessary: a text model rebuilt with the class default dtype (float) instead of dtype=str — ValueError *)
Theorem C19_from_to_str_as_float_refuted :
  exists m c t, cnames c = fnames m /\ model_to_table false false false m = TOk t /\ from_table c t = TErr ValueError.
Proof. exact from_to_str_as_float_refuted. Qed.
Print Assumptions C19_from_to_str_as_float_refuted.

(* span_stable (Data/Table.v), a hypothesis of the four round-trip theorems above: true for every range and every pandas index
   object; for a list / tuple / ndarray span it EXCLUDES exactly the label lists pandas rewrites when it builds the index —
   a None next to other labels (None -> NaN, ints -> floats) and ints mixed with floats (ints -> floats).  It is necessary:
   the span [1, None] is exported as [1.0, NaN] and that is the span of the rebuilt model (values intact) *)
Theorem C19_from_to_span_stable_necessary :
  exists m c t m',
    wf_model m (length (splabels (fspan m))) /\ span_stable (fspan m) = false /\ cnames c = fnames m /\ cstrict c = false /\
    model_to_table false false true m = TOk t /\ from_table c t = TOk m' /\
    splabels (fspan m) = [CInt 1; CNone] /\ splabels (fspan m') = [CFlt (FInt 1); CFlt FNaN] /\
    fvars m' = fvars m.
Proof. exact from_to_span_stable_necessary. Qed.
Print Assumptions C19_from_to_span_stable_necessary.

(* the remaining guards are necessary as well.  strict=True with the status column: InitialisationError *)
Theorem C19_from_to_strict_with_status_refuted :
  exists m c t, cnames c = fnames m /\ cstrict c = true /\
    model_to_table true false true m = TOk t /\ from_table c t = TErr InitialisationError.
Proof. exact from_to_strict_with_status_refuted. Qed.
Print Assumptions C19_from_to_strict_with_status_refuted.

(* a variable called span (the positional parameter of __init__) or dtype: the exported table cannot be read back — TypeError *)
Theorem C19_from_to_parameter_name_refuted :
  exists m1 m2 c1 c2 t1 t2,
    cnames c1 = fnames m1 /\ In "span" (fnames m1) /\ model_to_table false false true m1 = TOk t1 /\ from_table c1 t1 = TErr TypeError /\
    cnames c2 = fnames m2 /\ In "dtype" (fnames m2) /\ model_to_table false false true m2 = TOk t2 /\ from_table c2 t2 = TErr TypeError.
Proof. exact from_to_parameter_name_refuted. Qed.
Print Assumptions C19_from_to_parameter_name_refuted.

(* all hypotheses of C19_from_to_roundtrip hold together for a model with an underscore variable and a strict class *)
Theorem C19_roundtrip_hypotheses_satisfiable :
  exists m c ix,
    wf_model m (length (splabels (fspan m))) /\ pd_index (fspan m) = Some ix /\ span_stable (fspan m) = true /\
    cnames c = fnames m /\ cstrict c = true /\
    (forall k, In k (fnames m) -> mem_s k init_params = false) /\
    (forall k s, In k (fnames m) -> assoc_s k (fvars m) = Some s ->
       sdt s = cdtype c /\ sdt s <> NObj /\ forallb (cell_has_dtype (cdtype c)) (scells s) = true) /\
    exists k, In k (fnames m) /\ starts_underscore k = true.
Proof. exact roundtrip_hypotheses_satisfiable. Qed.
Print Assumptions C19_roundtrip_hypotheses_satisfiable.

(* the KIND of the span object is not reproduced outside the four kept kinds (labels are): a range and an ndarray come back
   as lists, a list of Timestamps as the DatetimeIndex the export built.  Not a violation under the labels reading of
   "reproduces the span"; recorded so that the reading is explicit *)
Theorem C19_span_kind_changes :
  (exists ix, pd_index (mkSpan SRange [CInt 2000; CInt 2001]) = Some ix /\
              span_of_index ix = mkSpan SList [CInt 2000; CInt 2001]) /\
  (exists ix, pd_index (mkSpan SNdarray [CStr "a"; CStr "b"]) = Some ix /\
              span_of_index ix = mkSpan SList [CStr "a"; CStr "b"]) /\
  (exists ix, pd_index (mkSpan SList [CTs 5; CTs 2]) = Some ix /\
              span_of_index ix = mkSpan (SPandas KDatetimeIndex PDatetime) [CTs 5; CTs 2]).
Proof. exact span_kind_changes. Qed.
Print Assumptions C19_span_kind_changes.

(* ================= symbols_to_dataframe / dataframe_to_symbols ================= *)

(* every symbol list — any length, every Type, every optional field None or not, lags = 0 kept apart from lags = None —
   comes back unchanged.  Guard (sym_wf, spelled out): every lag / lead is None or an integer of ANY size (no text index),
   and a lags (leads) column that holds a None holds only integers of magnitude <= 2^53 *)
Theorem C19_symbols_roundtrip (ss : list symbol) :
  (let ok (os : list (option pidx)) :=
     forallb (fun o => match o with None => true | Some (IInt _) => true | Some (IStr _) => false end) os
     && (negb (existsb (fun o => match o with None => true | Some _ => false end) os)
         || forallb (fun o => match o with Some (IInt z) => Z.abs z <=? 9007199254740992 | _ => true end) os) in
   ok (map slags ss) && ok (map sleads ss)) = true ->
  tbind (symbols_to_table ss) table_to_symbols = TOk ss.
Proof. exact (symbols_roundtrip_ok ss). Qed.
Print Assumptions C19_symbols_roundtrip.

(* a simpler sufficient guard: every lag / lead is None or an integer of magnitude <= 2^53 (all realistic models) *)
Theorem C19_symbols_roundtrip_small (ss : list symbol) :
  forallb (fun s => (match slags s with None => true | Some (IInt z) => Z.abs z <=? 9007199254740992 | Some (IStr _) => false end)
                    && (match sleads s with None => true | Some (IInt z) => Z.abs z <=? 9007199254740992 | Some (IStr _) => false end)) ss = true ->
  tbind (symbols_to_table ss) table_to_symbols = TOk ss.
Proof. exact (symbols_roundtrip_small ss). Qed.
Print Assumptions C19_symbols_roundtrip_small.

(* shape of symbols_to_dataframe for a non-empty list: a RangeIndex 0..n-1 and exactly the six Symbol fields as columns in
   field order, whose cells the converters of dataframe_to_symbols map back to the fields *)
Theorem C19_symbols_table_shape (s : symbol) (r : list symbol) :
  sym_wf (s :: r) = true ->
  exists d1 d2 d3 d4 d5 d6 nm lg ld eq cd,
    symbols_to_table (s :: r)
    = TOk (mkTable (mkIndex KRange PInt64 (map (fun i => CInt (Z.of_nat i)) (seq 0 (length (s :: r)))))
             [mkCol "name" d1 nm; mkCol "type" d2 (map (fun x => CInt (type_value (stype x))) (s :: r));
              mkCol "lags" d3 lg; mkCol "leads" d4 ld; mkCol "equation" d5 eq; mkCol "code" d6 cd]) /\
    map convert_to_str_or_none nm = map sname (s :: r) /\
    map convert_to_int_or_none lg = map (fun x => TOk (slags x)) (s :: r) /\
    map convert_to_int_or_none ld = map (fun x => TOk (sleads x)) (s :: r) /\
    map convert_to_str_or_none eq = map sequation (s :: r) /\
    map convert_to_str_or_none cd = map scode (s :: r).
Proof. exact (symbols_to_table_shape s r). Qed.
Print Assumptions C19_symbols_table_shape.

(* dataframe_to_symbols of ANY table either returns or raises KeyError (a field column is missing), TypeError (an extra
   column; a lag that is a tuple), ValueError (not a Type value; a lag that is text) or OverflowError (infinite lag) — nothing else.  Which
   one comes first follows the loop body (first row): C19_dataframe_to_symbols_error_order *)
Theorem C19_dataframe_to_symbols_errors (t : table) (e : exn) :
  table_to_symbols t = TErr e ->
  (match e with KeyError | TypeError | ValueError | OverflowError => true | _ => false end) = true.
Proof. exact (table_to_symbols_errors t e). Qed.
Print Assumptions C19_dataframe_to_symbols_errors.

(* order of the errors: the first row is converted field by field (type, lags, leads, then the text fields) before the Symbol
   is constructed, so a bad Type value wins over an extra or a later missing column, a missing earlier column over a bad later
   cell, and the unexpected-keyword TypeError comes last *)
Theorem C19_dataframe_to_symbols_error_order :
  let ix := mkIndex KRange PInt64 [CInt 0] in
  let col n d c := mkCol n d [c] in
  let base ty := [col "name" PStrDt (CStr "X"); col "type" PInt64 (CInt ty); col "lags" PInt64 (CInt 0);
                  col "leads" PInt64 (CInt 0); col "equation" PObject CNone; col "code" PObject CNone] in
  table_to_symbols (mkTable ix (base 99 ++ [col "extra" PInt64 (CInt 1)])) = TErr ValueError /\
  table_to_symbols (mkTable ix (base 2 ++ [col "extra" PInt64 (CInt 1)])) = TErr TypeError /\
  table_to_symbols (mkTable ix (firstn 5 (base 99))) = TErr ValueError /\
  table_to_symbols (mkTable ix (firstn 5 (base 2))) = TErr KeyError /\
  table_to_symbols (mkTable ix (tl (tl (base 2)) ++ [col "extra" PInt64 (CInt 1)])) = TErr KeyError /\
  table_to_symbols (mkTable ix ([col "lags" PStrDt (CStr "a"); col "extra" PInt64 (CInt 1)] ++ base 2)) = TErr ValueError.
Proof. exact table_to_symbols_error_order. Qed.
Print Assumptions C19_dataframe_to_symbols_error_order.

(* Type(x) inverts the enum values read from the regenerated constant table (Gen/Generated.v: type_order) *)
Theorem C19_type_values_invert (t : ptype) : type_of_value (type_value t) = Some t.
Proof. exact (type_of_value_value t). Qed.
Print Assumptions C19_type_values_invert.

(* outside the guard the statement is false: parse_model("Y = X[-9007199254740993] + exp(X)") comes back with the lag
   -9007199254740992 (float64 column because exp has lags None) *)
Theorem C19_symbols_roundtrip_rounding_refuted :
  exists ss ss', tbind (symbols_to_table ss) table_to_symbols = TOk ss' /\ ss' <> ss /\
    map slags ss = [Some (IInt (-9007199254740993)); None] /\ map slags ss' = [Some (IInt (-9007199254740992)); None].
Proof. exact symbols_roundtrip_rounding_refuted. Qed.
Print Assumptions C19_symbols_roundtrip_rounding_refuted.

(* lags / leads outside int64 are no exception any more (0a27206): a list in which every symbol has integer lags and leads,
   of whatever size, comes back unchanged *)
Theorem C19_symbols_roundtrip_any_integers (ss : list symbol) :
  forallb (fun s => (match slags s with Some (IInt _) => true | _ => false end)
                    && (match sleads s with Some (IInt _) => true | _ => false end)) ss = true ->
  tbind (symbols_to_table ss) table_to_symbols = TOk ss.
Proof. exact (symbols_roundtrip_all_int ss). Qed.
Print Assumptions C19_symbols_roundtrip_any_integers.
