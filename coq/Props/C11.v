(* Props/C11.v — the audited surface for property C11 (copies and sibling instances share no mutable state).
   Statements only; every proof is `exact <lemma>`; Print Assumptions under each.
   The claim is PARTIAL: the heap model (Heap.v) abstracts CPython object semantics.

   HOW TO READ THIS FILE
   * `copy_M ... = None` models "copy() raises"; a history treats it as a no-op.  The model's copy is defined exactly on the class of
     objects described by C11_copy_defined (entries = acyclic graphs of lists / dicts / arrays / plain objects, class __init__ runs
     through).  OUTSIDE it — a container stored in an ordinary attribute (m.other = another_model), linkers of linkers, cyclic
     graphs — the model is undefined although Python's copy may succeed: the theorems are SILENT there (ASSUMPTIONS in
     harness/props/C11.py; witness C11_nested_container_outside_the_domain).  C11_defined_history_independent is the history theorem
     with that domain as an explicit hypothesis; the older history theorems hold with or without it.
   * THE CLASS HYPOTHESIS is hidden in `copy_M ... = Some ...`: copy() RUNS __init__ of the class as it is NOW
     (self.__class__(span=...)), so the theorems that start from a defined copy assume that this __init__ runs through (last premise
     of C11_copy_defined).  A class mutated into a state in which M(span) itself raises (a duplicate appended to NAMES, an alias that
     maps a variable's name: `M.NAMES.append('Y')`, `AM.ALIASES['G'] = 'Y'`) makes the copy of every OLDER instance raise as well.
     The oracle flags a raising copy unless the class is broken in exactly that sense (the constructor itself raises on the same
     span); such class mutations are generated.  The same holds for a linker whose name was set to one of its submodel identifiers
     (`l.name = 'A'`): construction refuses that state (fix f5ef8bd), so does the copy.
   * DEFINITIONAL (do not count them as covering a clause): C11_reindex_is_an_admitted_event (unfolds event_ok),
     C11_hypotheses_satisfiable and every `..._example` (instances), C11_every_operation_is_tight /
     C11_operations_use_fresh_sources / C11_tracer_class_list_no_leak (facts about the hand-written table Heap.compile_op).
     C11_history_independent / C11_copy_independent / C11_*_then_any_operations treat an undefined copy as a no-op; the domain is
     carried by C11_defined_history_independent.
   * The operation theorems (C11_every_operation_is_tight, C11_operations_use_fresh_sources, C11_tracer_class_list_no_leak) are
     statements about the hand-written table Heap.compile_op, proved by case analysis on it; they say nothing about fsic by
     themselves.  That a real operation stores no class-owned / caller-owned object by reference is tied to the code ONLY by the
     correspondence K (id() scan of every pair of roots after every event, trees below every root).
   * Only K / the oracle, no theorem: which exceptions the real operations raise; the span-equality check between the submodels
     of a linker (InitialisationError; the name-vs-identifier test IS modelled: ELinkerInit / linker_copy_M) — linkers are generated with equal spans, a failing construction ends the history on both
     sides; preservation of tree-likeness / the forest through __init__ and the final __dict__.update of copy().
   * C11_reindex_is_an_admitted_event only unfolds event_ok (it records that reindex is inside the history theorems); the
     substantive statement is C11_reindex_disjoint. *)
From Coq Require Import ZArith List Bool.
Import ListNotations.
Require Import PyBase Heap HeapFacts HeapFrame HeapCopy HeapSim HeapHistory HeapOps HeapLinkerSim HeapProtect HeapLinkerCopySim HeapLinkerInit HeapForest HeapForestCopy HeapDefined HeapExamples.
Open Scope Z_scope.

(* copy.deepcopy creates only new objects: the old heap is a prefix of the new one, the result refers to new objects only *)
Theorem C11_deepcopy_fresh h v h' v' :
  deepcopy h v = Some (h', v') -> wf h ->
  ext h h' /\ wf h' /\ closed_above (length h) h' /\ val_ok (length h) h' v'.
Proof. exact (deepcopy_fresh h v h' v'). Qed.

(* ... and its result is observationally equal to its argument at every depth *)
Theorem C11_deepcopy_observationally_equal h v h' v' :
  deepcopy h v = Some (h', v') -> wf h -> (match v with VR l => (l < length h)%nat | VS _ => True end) ->
  forall n, sim n h' v v'.
Proof. exact (deepcopy_sim h v h' v'). Qed.

(* copy_disjoint — copy() / copy.copy() / copy.deepcopy() of a container or model: the copy reaches new objects only, every
   object that existed before (the original, its class, siblings) is literally unchanged, nothing is shared *)
Theorem C11_copy_disjoint K h r h' r' b :
  copy_M K h r = Some (h', r') -> wf h -> (b < length h)%nat ->
  wf h' /\ same_subheap h h' b /\ sep h' r' b /\ (forall l, reach h' r' l -> (length h <= l)%nat).
Proof. exact (copy_disjoint K h r h' r' b). Qed.

(* the same for BaseLinker.copy, which copies the submodels too *)
Theorem C11_linker_copy_disjoint K h r h' r' b :
  linker_copy_M K h r = Some (h', r') -> wf h -> (b < length h)%nat ->
  wf h' /\ same_subheap h h' b /\ sep h' r' b /\ (forall l, reach h' r' l -> (length h <= l)%nat).
Proof. exact (linker_copy_disjoint K h r h' r' b). Qed.

(* the copy is of the same class and observationally equal to the original at every depth.  Only explicit hypothesis: no duplicate keys in
   the original's __dict__ (true of every dict); the class enters through `copy_M ... = Some ...` (its __init__ must run through, see
   the header and C11_copy_defined).  No hypothesis about the class's KEYS any more: since fix eb971db the copy drops whatever
   __init__ of the class as it is NOW set up beyond the original's entries (was the guard "every key a fresh instance gets is a key
   of the original", finding extra-entry-after-class-NAMES-extended) *)
Theorem C11_copy_observationally_equal K h r h' r' o :
  copy_M K h r = Some (h', r') -> wf h -> nth_error h r = Some o ->
  NoDup (map fst (ocells o)) ->
  (exists o', nth_error h' r' = Some o' /\ okind o' = okind o) /\ forall n, sim n h' (VR r) (VR r').
Proof. exact (copy_sim K h r h' r' o). Qed.

(* BaseLinker.copy returns a linker of the same class that is observationally equal to the original at every depth (its own
   entries AND, through the new submodels dict, every submodel).  Hypotheses: no duplicate keys in the original's __dict__ nor in any
   submodel's (in the heap in which it is copied); `submodels` is a dict *)
Theorem C11_linker_copy_observationally_equal K h r h' r' o d od :
  linker_copy_M K h r = Some (h', r') -> wf h -> nth_error h r = Some o ->
  cell_get (A N_submodels) (ocells o) = Some (VR d) -> nth_error h d = Some od -> okind od = KDict ->
  NoDup (map fst (ocells o)) ->
  submodels_copyable_seq K h (ocells od) ->
  (exists o', nth_error h' r' = Some o' /\ okind o' = okind o) /\ forall n, sim n h' (VR r) (VR r').
Proof. exact (linker_copy_sim K h r h' r' o d od). Qed.

(* ... hypotheses satisfiable: a concrete linker with two submodels *)
Theorem C11_linker_copy_observationally_equal_example :
  exists o od h' r',
    nth_error (sh s_lk) lk_root = Some o /\ cell_get KP (ocells o) = Some (VR lk_dict) /\
    nth_error (sh s_lk) lk_dict = Some od /\ okind od = KDict /\ wf (sh s_lk) /\
    NoDup (map fst (ocells o)) /\ submodels_copyable_seq K0 (sh s_lk) (ocells od) /\
    linker_copy_M K0 (sh s_lk) lk_root = Some (h', r').
Proof. exact ex_linker_copy_sim_hypotheses. Qed.

(* fix c17e74a (regression of f5ef8bd found by the second review): BaseLinker.copy passes the ORIGINAL's name to the constructor.  A
   linker with a non-default name and a submodel keyed by the default name '_' is copied by all three routes, the copies keep the
   name, equal the original and share nothing with it; the constructor's name-vs-identifier test refuses a linker named like one of
   its submodels (no root), and after `l.name = <a submodel identifier>` the copy is undefined (the constructor refuses: an object
   in a state construction would not allow) *)
Theorem C11_linker_copy_keeps_name_example :
  length (sroots s_named) = 5%nat /\
  (let s1 := run_hevents K0 s_named [HCopyRoute RCopy 4; HCopyRoute RCopyCopy 4; HCopyRoute RDeepCopy 4] in
   length (sroots s1) = 8%nat /\
   nth 5 (root_views s1 7) CCut = nth 4 (root_views s1 7) CCut /\
   nth 6 (root_views s1 7) CCut = nth 4 (root_views s1 7) CCut /\
   nth 7 (root_views s1 7) CCut = nth 4 (root_views s1 7) CCut /\
   own_scalar (sh s1) (nth 5 (sroots s1) O) (A N_name) = 701 /\
   filter (fun x => Nat.leb 5 (snd (fst x))) (sharing s1) = []) /\
  length (sroots (run_events K0 s_pre [ELinkerInit 1 [(117, 2%nat); (603, 3%nat)] 117])) = 4%nat /\
  length (sroots (run_hevents K0 s_named [HOps 4 [OSetAttr N_name 603]; HCopyRoute RCopy 4])) = 5%nat.
Proof. exact ex_linker_copy_keeps_name. Qed.

(* component: the dict comprehension {k: copy.deepcopy(v)} over the submodels yields, key by key, observationally equal submodels *)
Theorem C11_linker_copy_submodels_observationally_equal K cs h h' cs' :
  copy_submodels K h cs = Some (h', cs') -> wf h ->
  (forall k l, In (k, VR l) cs -> (l < length h)%nat) ->
  submodels_copyable_seq K h cs ->
  Forall2 (fun c c' => fst c = fst c' /\ forall n, sim n h' (snd c) (snd c')) cs cs'.
Proof. exact (copy_submodels_sim K cs h h' cs'). Qed.

(* path footprint used for BaseLinker.__init__: a receiver R that already refers to OLDER objects through one cell kp, running
   actions whose paths never start with kp and whose sources are fresh / scalar / deep copies: every object older than R is left
   as it is and the cell kp keeps its value *)
Theorem C11_path_footprint kp R acts h h' ok :
  pinv kp R h -> forallb (act_safe kp) acts = true -> run_actions h R acts = (h', ok) ->
  pinv kp R h' /\ cell_kp kp R h' = cell_kp kp R h /\ (forall x, (x < R)%nat -> nth_error h' x = nth_error h x).
Proof. exact (actions_safe kp R acts h h' ok). Qed.

(* ---------------- the three routes: distinct entry points, PROVED to be the same function from constants regenerated from the
   code on every check (Gen/Generated.v).  The constants are BEHAVIOURAL: on probe objects (a container with variables and nested
   user attributes, the full mixin tower over BaseModel, a named linker with two submodels one of which is keyed '_') copy.copy /
   copy.deepcopy must return an object of the same class, equal in state to obj.copy() and sharing no mutable object with the
   original.  `__copy__ = copy`, `def __copy__(self): return self.copy()`, a `__deepcopy__` that records its result in the memo all
   qualify; removing `__copy__` (copy.copy falls back to object.__reduce_ex__: a new object holding the SAME arrays) flips a constant
   and these proofs no longer compile *)
Theorem C11_three_routes_are_copy rt K h r :
  copy_route rt K h r = (if is_linker h r then linker_copy_M K h r else copy_M K h r).
Proof. exact (three_routes_are_copy rt K h r). Qed.

(* ... what copy.copy would be without the alias: the "copy" is the original's own cells in a new instance *)
Theorem C11_copy_copy_without_alias_would_share K h r o :
  nth_error h r = Some o -> copy_by_route false true true RCopyCopy K h r = Some (h ++ [o], length h).
Proof. exact (shallow_route_shares K h r o). Qed.

(* ---------------- WHEN the model's copy is defined *)
(* copy.deepcopy is defined on every value whose unfolding terminates (within the fuel deepcopy uses) and meets only lists, dicts,
   arrays and plain objects: no VectorContainer-family instance, no class object below it *)
Theorem C11_deepcopy_defined h v :
  (exists f2 ls, (f2 <= S (length h))%nat /\ nodes f2 h v = Some ls /\
                 forall a, In a ls -> exists o, nth_error h a = Some o /\ copyable (okind o) = true) ->
  exists h' v', deepcopy h v = Some (h', v').
Proof. exact (deepcopy_defined h v). Qed.

(* VectorContainer.copy (either memo policy) is defined on an instance whose span and whose __dict__ entries are such values and
   whose class's __init__ runs through on the copied span.  THE LAST PREMISE IS A HYPOTHESIS ABOUT THE CLASS AS IT IS NOW: copy()
   constructs a new instance; a class whose constructor raises (duplicate in NAMES, an alias shadowing a variable) has no copies *)
Theorem C11_copy_defined K h r o c sp :
  wf h -> nth_error h r = Some o -> okind o = KCont c -> cell_get (A N_span) (ocells o) = Some sp ->
  plain_tree h sp -> entries_plain h (ocells o) ->
  (forall h1 sp', deepcopy h sp = Some (h1, sp') ->
     snd (init_M h1 c K (default_iargs K (val_src sp') (arr_len h r [V N_status]))) = true) ->
  exists h' r', copy_M K h r = Some (h', r').
Proof. exact (copy_M_defined K h r o c sp). Qed.

(* the history theorem with its domain on the surface: every copy / reindex / constructor event is defined where it is applied
   (history_defined); then each creating event adds exactly one root, roots stay pairwise separate, and every root that receives
   no operation keeps its sub-heap *)
Theorem C11_defined_history_independent K es s :
  roots_ok s -> forallb hevent_ok es = true -> history_defined K s es = true ->
  roots_ok (run_hevents K s es) /\
  length (sroots (run_hevents K s es)) = (length (sroots s) + length (filter creates es))%nat /\
  (exists new, sroots (run_hevents K s es) = sroots s ++ new) /\
  (forall j rj, nth_error (sroots s) j = Some rj ->
                (forall e, In e es -> hreceiver e <> Some j) ->
                same_subheap (sh s) (sh (run_hevents K s es)) rj).
Proof. exact (defined_history_independent K es s). Qed.

(* ... hypotheses of C11_copy_defined satisfiable (a traced instance after a long operation history) *)
Theorem C11_copy_defined_example :
  exists o sp,
    wf (sh s_fc) /\ nth_error (sh s_fc) 5 = Some o /\ okind o = KCont 4%nat /\ cell_get (A N_span) (ocells o) = Some sp /\
    plain_tree (sh s_fc) sp /\ entries_plain (sh s_fc) (ocells o) /\
    (forall h1 sp', deepcopy (sh s_fc) sp = Some (h1, sp') ->
       snd (init_M h1 4%nat K0 (default_iargs K0 (val_src sp') (arr_len (sh s_fc) 5%nat [V N_status]))) = true).
Proof. exact ex_copy_defined_hypotheses. Qed.

(* ... and the domain is a real restriction: with a model stored in an ordinary attribute (m.other = another_model) the MODEL's copy
   is undefined (Python's succeeds): not a defined history; a history with the three routes and operations is *)
Theorem C11_nested_container_outside_the_domain :
  copy_M K0 (sh s_nested) 5%nat = None /\ history_defined K0 s_nested [HCopyRoute RDeepCopy 1] = false /\
  history_defined K0 s_fc [HCopyRoute RCopy 1; HCopyRoute RCopyCopy 1; HCopyRoute RDeepCopy 2; HOps 3 forest_ops] = true.
Proof. exact ex_nested_container_outside_the_domain. Qed.

(* sibling linkers built on COPIES of the submodels: each linker shares only with its own submodels (roots 2,3 / 4,5), nothing with
   the other linker *)
Theorem C11_sibling_linkers_on_copies_example :
  let s1 := run_hevents K0 s_pre [HCopyRoute RCopy 2; HCopyRoute RDeepCopy 3;
                                  HEv (ELinkerInit 1 [(601, 2%nat); (603, 3%nat)] 117);
                                  HEv (ELinkerInit 1 [(601, 4%nat); (603, 5%nat)] 117)] in
  length (sroots s1) = 8%nat /\
  filter (fun x => (Nat.eqb (fst (fst x)) 6 && Nat.eqb (snd (fst x)) 7) || (Nat.ltb (fst (fst x)) 4 && Nat.eqb (snd (fst x)) 7 && negb (Nat.leb 4 (fst (fst x)))))
         (sharing s1) = [] /\
  map (fun x => fst x) (sharing s1) = [(2, 6); (3, 6); (4, 7); (5, 7)]%nat.
Proof. exact ex_sibling_linkers_on_copies. Qed.

(* (was the kept finding C11|copy*|state-differs|extra-entry-after-class-NAMES-extended, repaired by fix eb971db; the general
   positive statement is C11_copy_observationally_equal, which lost its guard)  on the former witness: after the class NAMES list was
   extended, the copies of an OLDER instance by all three routes show exactly the original's tree, although a fresh instance of the
   class now gets a key the original lacks *)
Theorem C11_copy_after_class_NAMES_extended_equal :
  let s := run_events K0 (s0 0 None) [EInit 0 (args range_span)] in
  let sm := run_hevents K0 s [HOps 0 [OListAppend C_NAMES 209]] in
  let s1 := run_hevents K0 sm [HCopyRoute RCopy 1; HCopyRoute RCopyCopy 1; HCopyRoute RDeepCopy 1] in
  forallb (fun k => has_cell (sh sm) 5%nat k) (copy_fresh_keys K0 (sh sm) 5%nat) = false /\
  length (sroots s1) = 5%nat /\
  nth 2 (root_views s1 6) CCut = nth 1 (root_views s1 6) CCut /\
  nth 3 (root_views s1 6) CCut = nth 1 (root_views s1 6) CCut /\
  nth 4 (root_views s1 6) CCut = nth 1 (root_views s1 6) CCut.
Proof. exact ex_copy_after_class_names_extended_equal. Qed.

(* footprint_within_reach — any operation (list of non-leaky actions) of a receiver r writes only inside reach h r or into new
   objects, and afterwards reaches only what it reached before or new objects *)
Theorem C11_footprint_within_reach acts h r h' ok :
  run_actions h r acts = (h', ok) -> wf h -> (r < length h)%nat -> forallb (fun a => negb (act_leaky a)) acts = true ->
  wf h' /\ (length h <= length h')%nat /\
  (forall l, (l < length h)%nat -> ~ reach h r l -> nth_error h' l = nth_error h l) /\
  (forall l, reach h' r l -> reach h r l \/ (length h <= l)%nat).
Proof. exact (actions_frame acts h r h' ok). Qed.

(* a new instance shares nothing with anything that existed before (its class included) *)
Theorem C11_init_disjoint K h c a h' r ok b :
  init_M h c K a = (h', r, ok) -> wf h -> (b < length h)%nat ->
  leaky (ia_span a) = false -> ia_linker a = None ->
  wf h' /\ same_subheap h h' b /\ sep h' r b /\ (forall l, reach h' r l -> (length h <= l)%nat).
Proof. exact (init_disjoint K h c a h' r ok b). Qed.

(* BaseLinker.__init__ — Linker({k: model, ...}) (the dict is built for the call): building the linker changes no existing object;
   the new linker reaches only new objects and what the submodels it was handed reach.  Hence it shares nothing with its class,
   with sibling linkers built on other submodels, or with any object b that is separate from those submodels *)
Theorem C11_linker_init_shares_only_submodels K h c cells nme h3 r3 b :
  init_M (h ++ [mkObj KDict cells]) c K (linker_iargs (h ++ [mkObj KDict cells]) K (length h) nme) = (h3, r3, true) ->
  wf h -> (forall l, In l (refs (mkObj KDict cells)) -> (l < length h)%nat) ->
  (b < length h)%nat -> (forall k x, In (k, VR x) cells -> sep h x b) ->
  same_subheap h h3 b /\ sep h3 r3 b /\
  (forall l, reach h3 r3 l -> (length h <= l)%nat \/ exists k x, In (k, VR x) cells /\ reach h x l).
Proof. exact (linker_init_shares_only_submodels K h c cells nme h3 r3 b). Qed.

(* ... hypotheses satisfiable: two model instances handed to a linker class; the linker class and the model class are separate
   from both submodels *)
Theorem C11_linker_init_example :
  wf (sh s_pre) /\ (forall l, In l (refs (mkObj KDict lk_cells)) -> (l < length (sh s_pre))%nat) /\
  snd (init_M (sh s_pre ++ [mkObj KDict lk_cells]) 8%nat K0
              (linker_iargs (sh s_pre ++ [mkObj KDict lk_cells]) K0 (length (sh s_pre)) 117)) = true /\
  (forall k x, In (k, VR x) lk_cells -> sep (sh s_pre) x 8%nat /\ sep (sh s_pre) x 4%nat).
Proof. exact ex_linker_init_hypotheses. Qed.

(* instantiation only READS the class: creating an instance (immutable or unshared span) leaves the class object, its lists, and
   every other existing root exactly as they were, at every depth *)
Theorem C11_init_leaves_class_and_others K s ci a j rj n :
  roots_ok s -> event_ok (EInit ci a) = true -> nth_error (sroots s) j = Some rj ->
  view n (sh (run_event K s (EInit ci a))) (VR rj) = view n (sh s) (VR rj).
Proof. exact (init_leaves_class K s ci a j rj n). Qed.

(* history_independent — for EVERY history (operations on any root, copies by any route at any point, new siblings, class
   mutations): the roots stay pairwise separate, and a root that is not the receiver of an operation keeps its sub-heap *)
Theorem C11_history_independent K es s :
  roots_ok s -> forallb event_ok es = true ->
  roots_ok (run_events K s es) /\
  (exists new, sroots (run_events K s es) = sroots s ++ new) /\
  (forall j rj, nth_error (sroots s) j = Some rj ->
                (forall e, In e es -> receiver e <> Some j) ->
                same_subheap (sh s) (sh (run_events K s es)) rj).
Proof. exact (history_independent K es s). Qed.

(* copy_independent — copy at any point, then ANY history: in both directions the side that is not operated on keeps its
   full observable state (at every depth); taking the copy does not change the original *)
Theorem C11_copy_independent K s i r es :
  roots_ok s -> nth_error (sroots s) i = Some r -> forallb event_ok es = true ->
  forall r', nth_error (sroots (run_event K s (ECopy i))) (length (sroots s)) = Some r' ->
  roots_ok (run_event K s (ECopy i)) /\
  sep (sh (run_event K s (ECopy i))) r r' /\
  (forall n, view n (sh (run_event K s (ECopy i))) (VR r) = view n (sh s) (VR r)) /\
  ((forall e, In e es -> receiver e <> Some i) ->
     forall n, view n (sh (run_events K (run_event K s (ECopy i)) es)) (VR r) = view n (sh s) (VR r)) /\
  ((forall e, In e es -> receiver e <> Some (length (sroots s))) ->
     forall n, view n (sh (run_events K (run_event K s (ECopy i)) es)) (VR r')
             = view n (sh (run_event K s (ECopy i))) (VR r')).
Proof. exact (copy_independent K s i r es). Qed.

(* siblings_independent — two instances of one class and the class itself (root ci), then ANY history: whoever is not
   operated on is unchanged (holds since fix 57a6922) *)
Theorem C11_siblings_independent K s ci a1 a2 es :
  roots_ok s -> event_ok (EInit ci a1) = true -> event_ok (EInit ci a2) = true -> forallb event_ok es = true ->
  roots_ok (run_events K s [EInit ci a1; EInit ci a2]) /\
  forall j rj n, nth_error (sroots (run_events K s [EInit ci a1; EInit ci a2])) j = Some rj ->
    (forall e, In e es -> receiver e <> Some j) ->
    view n (sh (run_events K (run_events K s [EInit ci a1; EInit ci a2]) es)) (VR rj)
    = view n (sh (run_events K s [EInit ci a1; EInit ci a2])) (VR rj).
Proof. exact (siblings_independent K s ci a1 a2 es). Qed.

(* ---------------- the same at the level of fsic OPERATIONS (each compiled against the heap its predecessors left) *)
(* (a statement about the table Heap.compile_op; the tie to fsic is K - see the header)  EVERY modelled public operation - item / series / scalar assignment, add_variable, attribute sets, strict, list and dict
   mutations, solve passes and status writes, trace_t in every mode, linker submodel writes, aliasing an own list under a second
   attribute - brings no class-owned or caller-owned object into its receiver, on ANY heap (no exception any more: since fix
   cfb58ac trace_t gives the Trace a list of its own) *)
Theorem C11_every_operation_is_tight K h r o :
  forallb (fun a => negb (act_leaky a)) (compile_op K h r o) = true.
Proof. exact (compile_op_tight K h r o). Qed.

(* ALL histories of operations, copies (any route, any point), new instances, class mutations, and cross-object flows (a whole
   series assigned from ANOTHER root's array: b.X = a.X; add_variable / a constructor's initial value taking another root's array):
   roots stay pairwise separate and every root that receives no operation keeps its sub-heap literally - in particular the root
   whose array was only READ *)
Theorem C11_operation_history_independent K es s :
  roots_ok s -> forallb hevent_ok es = true ->
  roots_ok (run_hevents K s es) /\
  (exists new, sroots (run_hevents K s es) = sroots s ++ new) /\
  (forall j rj, nth_error (sroots s) j = Some rj ->
                (forall e, In e es -> hreceiver e <> Some j) ->
                same_subheap (sh s) (sh (run_hevents K s es)) rj).
Proof. exact (hhistory_independent K es s). Qed.

(* SEPARATION THEOREM: copy()/copy.copy()/copy.deepcopy() at any point; original and copy reach disjoint sets of objects; taking
   the copy changes nothing of the original; after ANY later history of operations / copies / instantiations, in both directions,
   the side that received no operation shows the same state at every depth *)
Theorem C11_copy_then_any_operations K s i r es :
  roots_ok s -> nth_error (sroots s) i = Some r -> forallb hevent_ok es = true ->
  forall r', nth_error (sroots (run_event K s (ECopy i))) (length (sroots s)) = Some r' ->
  let s1 := run_event K s (ECopy i) in
  roots_ok s1 /\ sep (sh s1) r r' /\
  (forall n, view n (sh s1) (VR r) = view n (sh s) (VR r)) /\
  roots_ok (run_hevents K s1 es) /\
  ((forall e, In e es -> hreceiver e <> Some i) ->
     forall n, view n (sh (run_hevents K s1 es)) (VR r) = view n (sh s) (VR r)) /\
  ((forall e, In e es -> hreceiver e <> Some (length (sroots s))) ->
     forall n, view n (sh (run_hevents K s1 es)) (VR r') = view n (sh s1) (VR r')).
Proof. exact (copy_independent_ops K s i r es). Qed.

(* the same for BaseLinker.copy (linker with its submodels) *)
Theorem C11_linker_copy_then_any_operations K s i r es :
  roots_ok s -> nth_error (sroots s) i = Some r -> forallb hevent_ok es = true ->
  forall r', nth_error (sroots (run_event K s (ELinkerCopy i))) (length (sroots s)) = Some r' ->
  let s1 := run_event K s (ELinkerCopy i) in
  roots_ok s1 /\ sep (sh s1) r r' /\
  (forall n, view n (sh s1) (VR r) = view n (sh s) (VR r)) /\
  roots_ok (run_hevents K s1 es) /\
  ((forall e, In e es -> hreceiver e <> Some i) ->
     forall n, view n (sh (run_hevents K s1 es)) (VR r) = view n (sh s) (VR r)) /\
  ((forall e, In e es -> hreceiver e <> Some (length (sroots s))) ->
     forall n, view n (sh (run_hevents K s1 es)) (VR r') = view n (sh s1) (VR r')).
Proof. exact (linker_copy_independent_ops K s i r es). Qed.

(* ... hypotheses satisfiable: a linker with its two nested submodels as ONE root, BaseLinker.copy, then a linker solve, writes
   into a submodel of the copy, list mutations inside a submodel of the original, a class mutation: nothing shared at the end *)
Theorem C11_linker_history_example :
  roots_ok s_lk1 /\ nth_error (sroots s_lk1) 2 = Some lk_root /\ forallb hevent_ok linker_history = true /\
  length (sroots (run_event K0 s_lk1 (ELinkerCopy 2))) = 4%nat /\
  sharing (run_hevents K0 (run_event K0 s_lk1 (ELinkerCopy 2)) linker_history) = [].
Proof. exact ex_linker_state_ok. Qed.

(* siblings and the class at operation level: two instances created at any point, then ANY history of operations / copies /
   instantiations: every root that receives no operation - the class, either sibling, anything else - keeps its state at every
   depth (holds since fix 57a6922; before it `check` / `endogenous` were the class's own lists: ex_pre_fix_init_shares) *)
Theorem C11_siblings_then_any_operations K s ci a1 a2 es :
  roots_ok s -> event_ok (EInit ci a1) = true -> event_ok (EInit ci a2) = true -> forallb hevent_ok es = true ->
  let s2 := run_events K s [EInit ci a1; EInit ci a2] in
  roots_ok s2 /\ roots_ok (run_hevents K s2 es) /\
  forall j rj n, nth_error (sroots s2) j = Some rj ->
    (forall e, In e es -> hreceiver e <> Some j) ->
    view n (sh (run_hevents K s2 es)) (VR rj) = view n (sh s2) (VR rj).
Proof. exact (siblings_independent_ops K s ci a1 a2 es). Qed.

(* hypotheses satisfiable: a traced model, its copy, then list mutation / add_variable / lags / traced two-pass solve / a new
   sibling / a class mutation: nothing is shared afterwards *)
Theorem C11_operation_history_example :
  forallb hevent_ok ops_history = true /\
  let s := run_events K0 (s0 1 None) [EInit 0 (args range_span)] in
  roots_ok s /\ sharing (run_hevents K0 (run_event K0 s (ECopy 1)) ops_history) = [].
Proof. exact (conj ex_ops_history_ok ex_copy_then_ops_share_nothing). Qed.

(* hypotheses are satisfiable: a concrete class, its instances, a copy, an operation *)
Theorem C11_hypotheses_satisfiable : roots_ok (s0 0 None).
Proof. exact ex_roots_ok. Qed.

(* ---------------- repaired findings (positive statements), memo policies, and why the hypotheses are needed: witnesses *)
(* (was the kept finding C11|class-mutable-reachable|TRACE_VARIABLES, repaired by fix cfb58ac) NO operations applied to one root -
   trace_t(trace=True) with a class-level TRACE_VARIABLES list and any later edit of Trace.names included - are visible on
   another root (the class, a sibling, a copy), at any depth, from any state *)
Theorem C11_tracer_class_list_no_leak K s i ops j rj n :
  roots_ok s -> nth_error (sroots s) j = Some rj -> j <> i ->
  view n (sh (run_hevents K s [HOps i ops])) (VR rj) = view n (sh s) (VR rj).
Proof. exact (ops_leave_other_roots K s i ops j rj n). Qed.

(* ... on the former witness: the class is unchanged, the instance changed, nothing is shared *)
Theorem C11_tracer_class_list_no_leak_example :
  roots_ok s_tr /\ nth_error (sroots s_tr) 0 = Some 4%nat /\
  view 3 (sh (run_hevents K0 s_tr [HOps 1 leak_ops])) (VR 4%nat) = view 3 (sh s_tr) (VR 4%nat) /\
  nth 1 (root_views (run_hevents K0 s_tr [HOps 1 leak_ops]) 5) CCut <> nth 1 (root_views s_tr 5) CCut /\
  sharing (run_hevents K0 s_tr [HOps 1 leak_ops]) = [].
Proof. exact ex_former_leak_now_local. Qed.

(* a span list handed to two constructors is stored by reference by both (the hypothesis `leaky (ia_span a) = false` is needed) *)
Theorem C11_shared_span_argument_refuted :
  exists (s : state) (ops : list op),
    roots_ok s /\
    let s1 := run_events K0 s [EInit 0 (args (SArg 5%nat)); EInit 0 (args (SArg 5%nat))] in
    event_ok (EInit 0 (args (SArg 5%nat))) = false /\
    nth 2 (root_views (run_hevents K0 s1 [HOps 1 ops]) 3) CCut <> nth 2 (root_views s1 3) CCut.
Proof. exact shared_span_argument_refuted. Qed.

(* the former witness "copy() drops the alias Trace.names is model.names" no longer exists (fix cfb58ac): a traced model and its
   copy stay equal under the same later add_variable on both sides *)
Theorem C11_copy_of_traced_model_stays_equal :
  let s1 := run_events K0 s_al [ECopy 1] in
  nth 2 (root_views s1 6) CCut = nth 1 (root_views s1 6) CCut /\
  let s2 := run_hevents K0 s1 [HOps 1 [OAddVariable 207 109 [1; 2; 3]]; HOps 2 [OAddVariable 207 109 [1; 2; 3]]] in
  nth 2 (root_views s2 6) CCut = nth 1 (root_views s2 6) CCut.
Proof. exact ex_copy_of_traced_model_stays_equal. Qed.

(* ---------------- no internal aliasing arises from the modelled operations (restatement after fix cfb58ac of the former witness
   "copy() drops the alias Trace.names is model.names").  forest N h: every object is referred to from at most one cell of the
   objects at or above N (N = the objects that existed before the first instance: the class region, where CHECK usually IS
   ENDOGENOUS, is left out) *)
(* (a statement about the table Heap.compile_op; the tie to fsic is K)  every operation except the explicit user aliasing (m.mine = m.names) uses only scalars and freshly created objects as sources,
   on any heap - trace_t in every mode included *)
Theorem C11_operations_use_fresh_sources K h r o :
  (match o with OAliasAttr _ _ => false | _ => true end) = true ->
  forallb (fun a => match act_src a with
                    | Some (SScalar _) | Some (SFresh _ _) | None => true
                    | Some _ => false end) (compile_op K h r o) = true.
Proof. exact (compile_op_fresh K h r o). Qed.

(* in a forest an unreferenced object has exactly ONE path to everything it reaches: no two __dict__ entries (nor anything below
   them) lead to a common object, so the entry-by-entry deep copy drops nothing *)
Theorem C11_forest_has_unique_paths N h r :
  forest N h -> closed_above N h -> (N <= r)%nat -> orphan N h r ->
  forall p q l, resolve h r p = Some l -> resolve h r q = Some l -> p = q.
Proof. exact (forest_unique_paths N h r). Qed.

(* ALL histories of such operations on an instance keep the forest, and the instance keeps unique paths *)
Theorem C11_operations_create_no_internal_alias K N i os s r :
  nth_error (sroots s) i = Some r -> (N <= r < length (sh s))%nat ->
  wf (sh s) -> closed_above N (sh s) -> forest N (sh s) -> orphan N (sh s) r -> forallb op_fresh os = true ->
  forall p q l, resolve (sh (run_hevent K s (HOps i os))) r p = Some l ->
                resolve (sh (run_hevent K s (HOps i os))) r q = Some l -> p = q.
Proof. exact (ops_create_no_internal_alias K N i os s r). Qed.

(* ... hypotheses satisfiable (a traced instance of a class whose CHECK is its ENDOGENOUS list; traced solves in every mode,
   add_variable, list edits); and, observed on the instance only (NOT proved in general: what remains is the forest through
   deepcopy), copy() under either memo policy and instantiation keep the forest and the two policies give the same states *)
Theorem C11_no_internal_alias_example :
  (nth_error (sroots s_tr) 1 = Some 5%nat /\ (5 <= 5 < length (sh s_tr))%nat /\ wf (sh s_tr) /\ closed_above 5 (sh s_tr) /\
   forest 5 (sh s_tr) /\ orphan 5 (sh s_tr) 5%nat /\ forallb op_fresh forest_ops = true /\ forestb 0 (sh s_tr) = false) /\
  (let s1 := run_hevents K0 s_tr [HOps 1 forest_ops; HEv (ECopy 1); HEv (EInit 0 (args list_span)); HOps 2 forest_ops] in
   let s2 := run_hevents K1 s_tr [HOps 1 forest_ops; HEv (ECopy 1); HEv (EInit 0 (args list_span)); HOps 2 forest_ops] in
   forestb 5 (sh s1) = true /\ forestb 5 (sh s2) = true /\ root_views s1 7 = root_views s2 7).
Proof. exact (conj ex_forest_hypotheses ex_forest_through_copy_and_init). Qed.

(* the gap through copy.deepcopy, closed for TREE-LIKE sources.  nodes f h v unfolds the graph below v exactly as deepcopy walks
   it and lists every visit; treelike = that list has no duplicates (no object reached twice: no cycle, no aliasing below v).
   Then deepcopy never finds its argument in the memo: the heap stays a forest, no old object gains a referrer, and the result is
   a new object that nothing refers to *)
Theorem C11_deepcopy_keeps_forest N h v h' v' :
  deepcopy h v = Some (h', v') -> treelike h v -> wf h -> (N <= length h)%nat -> forest N h ->
  wf h' /\ forest N h' /\ ext h h' /\
  (forall x, (x < length h)%nat -> orphan N h x -> orphan N h' x) /\
  match v' with VS _ => True | VR b => (length h <= b < length h')%nat /\ orphan N h' b end.
Proof. exact (deepcopy_forest N h v h' v'). Qed.

(* the heart of copy() under EITHER memo policy ({k: deepcopy(v)} with a memo per entry, or deepcopy(__dict__) with one memo): if
   the entries of the original are jointly tree-like, the copied entries are pairwise different new objects that nothing refers to
   yet, in a heap that is still a forest, and no old object gained a referrer.  (Still open: the same through __init__ of the new
   instance and the final __dict__.update, and the preservation of tree-likeness itself along histories; both are observed by the
   correspondence - a copy never has aliasing its original lacks - not proved.) *)
Theorem C11_copy_entries_keep_forest single N cs h h' cs' :
  dc_entries_pol single h cs = Some (h', cs') -> entries_tree h cs -> wf h -> (N <= length h)%nat -> forest N h ->
  wf h' /\ forest N h' /\ ext h h' /\
  (forall x, (x < length h)%nat -> orphan N h x -> orphan N h' x) /\
  cells_res N (length h) h' cs' /\ map fst cs' = map fst cs.
Proof. exact (dc_entries_pol_forest single N cs h h' cs'). Qed.

(* ... hypotheses satisfiable and decidable (a traced instance after a long operation history; both policies); and needed (after the
   user aliased two entries they are not jointly tree-like) *)
Theorem C11_copy_entries_example :
  (length fc_cells = 19%nat /\ wf (sh s_fc) /\ forest 5 (sh s_fc) /\ entries_tree (sh s_fc) fc_cells /\
   (exists h' cs', dc_entries_pol false (sh s_fc) fc_cells = Some (h', cs')) /\
   (exists h' cs', dc_entries_pol true (sh s_fc) fc_cells = Some (h', cs'))) /\
  entries_treeb (sh s_ua) (match nth_error (sh s_ua) 5 with Some o => ocells o | None => [] end) = false.
Proof. exact (conj ex_entries_tree_hypotheses ex_entries_tree_needed). Qed.

(* both memo policies of copy() (consts field k_single_memo; every theorem of this file is quantified over K, hence over both):
   they differ only where the USER aliased two entries of one object (m.mine = m.names); both copies equal the original at copy
   time and share nothing with it; the same later append tells them apart and reaches the original in neither case *)
Theorem C11_memo_policies_example :
  let c0 := run_events K0 s_ua [ECopy 1] in
  let c1 := run_events K1 s_ua [ECopy 1] in
  nth 2 (root_views c0 6) CCut = nth 1 (root_views c0 6) CCut /\
  nth 2 (root_views c1 6) CCut = nth 1 (root_views c1 6) CCut /\
  sharing c0 = [] /\ sharing c1 = [] /\
  let ops := [HOps 2 [OListAppend 213 777]] in
  nth 2 (root_views (run_hevents K0 c0 ops) 6) CCut <> nth 2 (root_views (run_hevents K1 c1 ops) 6) CCut /\
  nth 1 (root_views (run_hevents K0 c0 ops) 6) CCut = nth 1 (root_views c0 6) CCut /\
  nth 1 (root_views (run_hevents K1 c1 ops) 6) CCut = nth 1 (root_views c1 6) CCut.
Proof. exact ex_memo_policies. Qed.

(* #21 repaired (fixes af303e7 / 28b2a9a; was C11_reindex_shares_object_cells_refuted): reindex() - whatever span object the caller
   hands in, whatever the series hold - returns an object that reaches only NEW objects; the original and every other existing
   object are literally unchanged; nothing is shared *)
Theorem C11_reindex_disjoint K h r span n' pos fills h' r' b :
  reindex_M K h r span n' pos fills = Some (h', r') -> wf h -> (b < length h)%nat ->
  wf h' /\ same_subheap h h' b /\ sep h' r' b /\ (forall l, reach h' r' l -> (length h <= l)%nat).
Proof. exact (reindex_disjoint K h r span n' pos fills h' r' b). Qed.

(* reindex is an admitted event of EVERY history theorem above (C11_history_independent, C11_operation_history_independent,
   C11_copy_then_any_operations, ...): independence under later histories holds for reindex results as for copies *)
Theorem C11_reindex_is_an_admitted_event i span n' positions fills :
  event_ok (EReindex i span n' positions fills) = true /\ hevent_ok (HEv (EReindex i span n' positions fills)) = true.
Proof. exact (conj eq_refl eq_refl). Qed.

(* ... on the former witness: nothing shared; recording into the result's Trace leaves the original's; reindex(obj.span) with the
   original's own span LIST handed in by reference shares nothing either *)
Theorem C11_reindex_example :
  let ev := EReindex 1 (new_list [2002; 2004; 2006; 2008]) 4 [(0, 1); (1, 2)]
                     [(N_status, 101); (N_iterations, -2); (201, 0); (203, 0); (205, 0); (N_trace, 121)] in
  let s1 := run_events K0 s_al [ev] in
  event_ok ev = true /\ length (sroots s1) = 3%nat /\ sharing s1 = [] /\
  (let s2 := run_hevents K0 s1 [HOps 2 [OTraceT 0 507 TMNames false; OPathAppend [V N_trace; 0; A N_names] 777]] in
   nth 1 (root_views s2 7) CCut = nth 1 (root_views s1 7) CCut /\ nth 2 (root_views s2 7) CCut <> nth 2 (root_views s1 7) CCut) /\
  (let own := match nth_error (sh s_al_list) 5 with
              | Some o => match cell_get (A N_span) (ocells o) with Some (VR l) => l | _ => O end | None => O end in
   let s3 := run_events K0 s_al_list [EReindex 1 (SArg own) 3 [(0, 0); (1, 1); (2, 2)]
                                               [(N_status, 101); (N_iterations, -2); (201, 0); (203, 0); (205, 0); (N_trace, 121)]] in
   length (sroots s3) = 3%nat /\ sharing s3 = []).
Proof. exact ex_reindex_shares_nothing. Qed.

Print Assumptions C11_deepcopy_fresh.
Print Assumptions C11_deepcopy_observationally_equal.
Print Assumptions C11_copy_disjoint.
Print Assumptions C11_linker_copy_disjoint.
Print Assumptions C11_copy_observationally_equal.
Print Assumptions C11_footprint_within_reach.
Print Assumptions C11_init_disjoint.
Print Assumptions C11_history_independent.
Print Assumptions C11_copy_independent.
Print Assumptions C11_siblings_independent.
Print Assumptions C11_hypotheses_satisfiable.
Print Assumptions C11_tracer_class_list_no_leak.
Print Assumptions C11_tracer_class_list_no_leak_example.
Print Assumptions C11_shared_span_argument_refuted.
Print Assumptions C11_copy_of_traced_model_stays_equal.
Print Assumptions C11_memo_policies_example.
Print Assumptions C11_reindex_disjoint.
Print Assumptions C11_reindex_is_an_admitted_event.
Print Assumptions C11_reindex_example.
Print Assumptions C11_every_operation_is_tight.
Print Assumptions C11_operation_history_independent.
Print Assumptions C11_copy_then_any_operations.
Print Assumptions C11_linker_copy_then_any_operations.
Print Assumptions C11_operation_history_example.
Print Assumptions C11_linker_copy_observationally_equal.
Print Assumptions C11_linker_copy_observationally_equal_example.
Print Assumptions C11_linker_copy_submodels_observationally_equal.
Print Assumptions C11_path_footprint.
Print Assumptions C11_siblings_then_any_operations.
Print Assumptions C11_linker_history_example.
Print Assumptions C11_init_leaves_class_and_others.
Print Assumptions C11_linker_init_shares_only_submodels.
Print Assumptions C11_linker_init_example.
Print Assumptions C11_operations_use_fresh_sources.
Print Assumptions C11_forest_has_unique_paths.
Print Assumptions C11_operations_create_no_internal_alias.
Print Assumptions C11_no_internal_alias_example.
Print Assumptions C11_deepcopy_keeps_forest.
Print Assumptions C11_copy_entries_keep_forest.
Print Assumptions C11_copy_entries_example.
Print Assumptions C11_three_routes_are_copy.
Print Assumptions C11_copy_copy_without_alias_would_share.
Print Assumptions C11_deepcopy_defined.
Print Assumptions C11_copy_defined.
Print Assumptions C11_defined_history_independent.
Print Assumptions C11_copy_defined_example.
Print Assumptions C11_nested_container_outside_the_domain.
Print Assumptions C11_sibling_linkers_on_copies_example.
Print Assumptions C11_copy_after_class_NAMES_extended_equal.
Print Assumptions C11_linker_copy_keeps_name_example.
