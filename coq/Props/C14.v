(* Props/C14.v — the audited surface for property C14 ("layout of the script does not matter; the normal form is a fixed
   point").  Statements only; every proof is `exact <lemma>`.

   The parser is regex based: a statement's text goes (1) through the splitter (comments, blank lines, continuation lines,
   fences: Split.split_lines), (2) through term_re.finditer (Lex.match_here / Lex.scan), which determines the terms and the
   template, (3) through the whitespace normalisation of the template (ParseEq.normalise_template).  The transformations of
   the property's catalogue are treated at the stage that absorbs them.  The stage lemmas hold for all strings (no bound), but
   a stage lemma alone does not give the clause — lexing comes before normalisation — and the whole-statement theorems hold under
   decidable guards (dq_ok / dq_ok_ws / sep_ok / cont_scan / no "#"); what these guards exclude, and which clauses therefore rest
   on K and the oracle, is listed under "WHAT IS PROVED ABOUT WHAT" below, the excluded behaviours that are defects as `_refuted`
   theorems at the end of the file (fourteen kept findings).
     comments, blank lines, statement independence ........ stage 1   C14_trailing_comment, C14_comment_line, C14_blank_line,
                                                                    C14_comment_on_a_line, C14_blank_line_between (whole scripts, parse_model equal),
                                                                    C14_split_app, C14_parse_model_by_statements, C14_statements_independent,
                                                                    C14_statements_permute, C14_merge_order_irrelevant, C14_combine_commutes
     blanks inside { } < > [ ], explicit [0], +k ........... stage 2   C14_braces_inner_blanks … C14_plus_sign_index, C14_token_layout_scan
     horizontal whitespace, continuation lines ............ stage 3   C14_whitespace_run_is_one_blank, C14_after_open, C14_before_close
     normal form = fixed point of the normaliser ........... stage 3   C14_normalise_idempotent, C14_normal_form_fixed
     normal form = fixed point of parse_equation .......... all stages C14_normal_form_fixed_point (whole statements, all
                                                                    normalised equations that satisfy the decidable dq_ok)
     layout of terms and blank runs, whole statements ..... all stages C14_fixed_point_any_term_layout, C14_parse_any_blank_runs
   Whole statements / scripts (parse_model / parse_equation themselves): comments and blank lines (C14_comment_on_a_line,
   C14_blank_line_between), statement independence and permutation (C14_statements_independent, C14_statements_permute), the
   fixed point (C14_normal_form_fixed_point), blanks inside { } < > [ ], the "+" of a lead, an explicit [0]
   (C14_fixed_point_any_term_layout, C14_term_layout_irrelevant), runs of blanks / tabs between the tokens and continuation
   lines inside round brackets (C14_parse_any_blank_runs, C14_whitespace_layout_irrelevant, C14_one_statement_one_yield).
   The statement-level theorems speak about statements NAME[k] = rhs given as token lists (GNorm.neq + a layout) under the
   decidable conditions Denorm.dq_ok / dq_ok_ws; that the statements of real scripts are of this form is checked case by case
   by K_fixed_domain of harness/props/C14.py, not proved; that what the parser then stores is a well-formed normalised equation
   is proved (C14_normal_form_wellformed), and so is that this normal form is a fixed point (C14_normal_form_reparses).  Findings #20, #22 and the reserved-word parameter name (C14_reserved_word_parameter_refuted)
   are stated as refutations; #24 (unclosed fence) is repaired in /repo (85765d5): C14_unclosed_fence_rejected. *)
(* WHAT IS PROVED ABOUT WHAT, AND WHAT IS NOT (independent review, 2026-10-02):
   * The fixed point: C14_normal_form_fixed_point is about token lists q under dq_ok canon.  That the normal form of a SOURCE
     statement is such a list — parse_equation(denorm(parse_equation(s).equation)) — is C14_normal_form_reparses, for statements
     NAME[k] = rhs under dq_ok_ws + sep_ok; for other accepted text it rests on K_fixed_domain / the oracle.  Excluded and recorded
     as findings: reserved-word names ({as}), literal braces ({{ }}), an index bracket spanning the "=" (Y[=1]), backticked periods.
   * Statement shapes OUTSIDE the image of denorm_text (no statement-level theorem; K_parse_layout + oracle only): blanks between a
     function name and "(" (`max (X)`: eaten by term_re, the normal form is `max(`), a comment or a blank line on a non-final
     continuation line, line separators other than "\n" inside round brackets (\r\n, form feed, \x85: ContSplit.cont_scan wants
     "\n"), a left-hand side other than one NAME[k] (tuple targets), "#" anywhere in the statement (C14_hash_in_quotes_refuted), a blank
     between the sign and the digits of an offset or next to the dot of a dotted function name (C14_index_sign_blank_refuted,
     C14_dotted_name_blank_refuted), a statement wholly inside round brackets (C14_bracketed_statement_refuted).  sep_ok also excludes
     a keyword constant right after "<" (`Y = X < True`, accepted by fsic and harmless): wider than any finding, by construction of
     the "<"-rule.
   * Empty versus non-empty gaps: C14_gaps_same_tokens (same terms and symbols, texts equal up to blank tokens); that this is the
     same Python code rests on the oracle's ast.dump.
   * (g) statement independence and (h) permutation are proved for parse_model_nocheck (check_syntax=False): C14_parse_model_by_
     statements (near-definitional: it unfolds parse_model into split + per-statement parse + merge), C14_statements_independent,
     C14_statements_permute (two blocks; a general permutation composes it with C14_merge_order_irrelevant; "both fail" counts as
     equal whatever the exceptions).  The checked path (default) has the comment / blank-line theorems only.
   * Theorems that only unfold a definition or are string lemmas about normalise_template — C14_explicit_zero_index, C14_explicit_
     zero_spellings (mk_index), C14_whitespace_run_is_one_blank, C14_after_open, C14_before_close — do not by themselves cover a
     clause: lexing comes first (#20, `max (`); the clauses are covered by the whole-statement theorems C14_fixed_point_any_term_
     layout, C14_parse_any_blank_runs, C14_whitespace_layout_irrelevant.
   * K (harness) compares every Symbol field and the exception class with the model; the oracle compares only outcome (accepted /
     rejected), name / type / lags / leads and ast.dump of the code — no message, no exception class, no string equality. *)
From Coq Require Import String Ascii List Bool Arith ZArith Permutation.
Import ListNotations.
Require Import PyBase PyStr Lex Symbols Split Merge ParseEq ParseModel GLex GLexFacts GNorm Layout LayoutNorm LayoutLex LayoutSplit LayoutScript LayoutAccepted ContSplit MergeComm MergePerm Denorm DenormInt DenormFacts LayoutExamples GraphSrcWf GraphTokWf GraphCanonWf GraphCanonText GraphGapFacts GraphParseExamples.
Open Scope string_scope.

(* ---- stage 3: whitespace ---- *)
(* any non-empty run of whitespace characters (blanks, tabs, the newline + indentation of a continuation line, in any mix)
   between any two texts normalises like any other *)
Theorem C14_whitespace_run_is_one_blank : forall a ws1 ws2 b : string,
  blanks ws1 = true -> ws1 <> "" -> blanks ws2 = true -> ws2 <> "" ->
  normalise_template (a ++ ws1 ++ b) = normalise_template (a ++ ws2 ++ b).
Proof. exact normalise_gap. Qed.
Print Assumptions C14_whitespace_run_is_one_blank.

Theorem C14_after_open : forall a ws b : string,
  blanks ws = true -> normalise_template (a ++ "(" ++ ws ++ b) = normalise_template (a ++ "(" ++ b).
Proof. exact normalise_after_open. Qed.
Print Assumptions C14_after_open.

Theorem C14_before_close : forall a ws b : string,
  blanks ws = true -> normalise_template (a ++ ws ++ ")" ++ b) = normalise_template (a ++ ")" ++ b).
Proof. exact normalise_before_close. Qed.
Print Assumptions C14_before_close.

(* what must NOT change: a text without whitespace *)
Theorem C14_no_whitespace_untouched : forall t : string,
  all_chars (fun c => negb (is_space c)) t = true -> normalise_template t = t.
Proof. exact normalise_plain. Qed.
Print Assumptions C14_no_whitespace_untouched.

(* the normal form is a fixed point: normalising twice = normalising once; the result satisfies `normal` (single blanks
   only, none after "(" or before ")"), and every `normal` text is left as it is *)
Theorem C14_normalise_idempotent : forall t : string, normalise_template (normalise_template t) = normalise_template t.
Proof. exact normalise_idempotent. Qed.
Print Assumptions C14_normalise_idempotent.
Theorem C14_normal_form_fixed : forall t : string,
  normal (normalise_template t) = true /\ (normal t = true -> normalise_template t = t).
Proof. exact (fun t => conj (normalise_is_normal t) (normal_fixed t)). Qed.
Print Assumptions C14_normal_form_fixed.

(* ---- stage 2: inside one token ---- *)
Theorem C14_braces_inner_blanks : forall (pw : bool) (w1 name w2 after : string),
  is_ident name = true -> blanks w1 = true -> blanks w2 = true ->
  exists m1 m2 : tmatch,
    match_here pw (brk_text "{" "}" w1 name w2 ++ after) = Some m1 /\
    match_here pw (brk_text "{" "}" "" name "" ++ after) = Some m2 /\ same_match m1 m2 /\
    mlen m1 = (mlen m2 + String.length w1 + String.length w2)%nat.
Proof. exact braces_inner_blanks. Qed.
Print Assumptions C14_braces_inner_blanks.

Theorem C14_angles_inner_blanks : forall (pw : bool) (w1 name w2 after : string),
  is_ident name = true -> blanks w1 = true -> blanks w2 = true ->
  exists m1 m2 : tmatch,
    match_here pw (brk_text "<" ">" w1 name w2 ++ after) = Some m1 /\
    match_here pw (brk_text "<" ">" "" name "" ++ after) = Some m2 /\ same_match m1 m2 /\
    mlen m1 = (mlen m2 + String.length w1 + String.length w2)%nat.
Proof. exact angles_inner_blanks. Qed.
Print Assumptions C14_angles_inner_blanks.

Theorem C14_index_inner_blanks : forall (pw : bool) (name w1 inner w2 after : string),
  is_ident name = true -> kw_free name = true -> blanks w1 = true -> blanks w2 = true -> idx_inner_ok inner = true ->
  exists m1 m2 : tmatch,
    match_here pw (name ++ idx_text w1 inner w2 ++ after) = Some m1 /\
    match_here pw (name ++ idx_text "" inner "" ++ after) = Some m2 /\ same_match m1 m2 /\
    mname m1 = name /\ mindex m1 = Some inner.
Proof. exact index_inner_blanks_var. Qed.
Print Assumptions C14_index_inner_blanks.

Theorem C14_index_inner_blanks_bracketed : forall (k : kind) (name : string) (base : nat) (w1 inner w2 after : string),
  blanks w1 = true -> blanks w2 = true -> idx_inner_ok inner = true ->
  same_match (with_index k name base (idx_text w1 inner w2 ++ after)) (with_index k name base (idx_text "" inner "" ++ after)) /\
  mindex (with_index k name base (idx_text w1 inner w2 ++ after)) = Some inner.
Proof. exact index_inner_blanks_bracketed. Qed.
Print Assumptions C14_index_inner_blanks_bracketed.

(* an explicit index whose int() is 0 gives the term of the bare name *)
Theorem C14_explicit_zero_index : forall (k : kind) (name inner : string) (n1 n2 : nat),
  indexed_kind k = true -> quoted_by "'" inner = false -> quoted_by """" inner = false -> quoted_by "`" inner = false ->
  py_int inner = Some 0%Z ->
  mk_term (mkMatch k name (Some inner) n1) = mk_term (mkMatch k name None n2).
Proof. exact zero_index_term. Qed.
Print Assumptions C14_explicit_zero_index.
Theorem C14_explicit_zero_spellings : forall (k : kind) (name inner : string) (n1 n2 : nat),
  indexed_kind k = true -> In inner ["0"; "+0"; "-0"; "00"; "0_0"] ->
  mk_term (mkMatch k name (Some inner) n1) = mk_term (mkMatch k name None n2).
Proof. exact explicit_zero_term. Qed.
Print Assumptions C14_explicit_zero_spellings.

Theorem C14_plus_sign_index : forall d : string,
  head_sat is_digit d = true -> last_not is_pyspace d = true -> py_int (String "+" d) = py_int d.
Proof. exact plus_sign_index. Qed.
Print Assumptions C14_plus_sign_index.

(* two spellings of one token with the same match data: same terms and same template for token + any continuation, at any position *)
Theorem C14_token_layout_scan : forall (p1 p2 : nat) (pw : bool) (t1 t2 : string) (m1 m2 : tmatch) (rest : string),
  t1 <> "" -> t2 <> "" -> mlen m1 = String.length t1 -> mlen m2 = String.length t2 ->
  match_here pw (t1 ++ rest) = Some m1 -> match_here pw (t2 ++ rest) = Some m2 -> same_match m1 m2 ->
  last_word pw t1 = last_word pw t2 ->
  template_of (scan p1 0 pw (t1 ++ rest)) = template_of (scan p2 0 pw (t2 ++ rest)) /\
  map mk_term (matches_of (scan p1 0 pw (t1 ++ rest))) = map mk_term (matches_of (scan p2 0 pw (t2 ++ rest))).
Proof. exact token_layout_scan. Qed.
Print Assumptions C14_token_layout_scan.

(* ---- stage 1: comments, blank lines, statements ---- *)
Theorem C14_trailing_comment : forall line ws text : string,
  has_char "#" line = false -> all_chars is_pyspace ws = true -> last_not is_pyspace line = true ->
  strip_comments (line ++ ws ++ String "#" text) = strip_comments line.
Proof. exact trailing_comment_ignored. Qed.
Print Assumptions C14_trailing_comment.

Theorem C14_comment_line : forall ws text : string,
  all_chars is_pyspace ws = true -> strip_comments (ws ++ String "#" text) = "".
Proof. exact comment_line_is_blank. Qed.
Print Assumptions C14_comment_line.

Theorem C14_blank_line : forall (st : sstate) (l : string) (rest : list string),
  clean st = true -> is_blank l = true -> split_lines st (l :: rest) = split_lines st rest.
Proof. exact blank_line_ignored. Qed.
Print Assumptions C14_blank_line.

(* the same at the level of whole scripts: parse_model (any oracle chk, either check_syntax) returns the SAME result — every
   symbol and field, or the same exception — when a comment (blanks, "#", any text) is appended to the only / first /
   last / a middle line of a script.  comment_ok: the line has no "#" of its own and does not end in whitespace (a comment
   makes the parser strip trailing blanks, which are otherwise kept in the normalised equation) *)
Theorem C14_comment_on_a_line : forall (chk : string -> chk_res) (cs : bool) (line ws text : string),
  comment_ok line ws text = true ->
  parse_model_M chk cs (line ++ ws ++ String "#" text) = parse_model_M chk cs line /\
  (forall s2, parse_model_M chk cs ((line ++ ws ++ String "#" text) ++ nl_s ++ s2) = parse_model_M chk cs (line ++ nl_s ++ s2)) /\
  (forall s1, s1 <> "" -> ends_sep s1 = false ->
     parse_model_M chk cs (s1 ++ nl_s ++ line ++ ws ++ String "#" text) = parse_model_M chk cs (s1 ++ nl_s ++ line) /\
     forall s2, parse_model_M chk cs (s1 ++ nl_s ++ (line ++ ws ++ String "#" text) ++ nl_s ++ s2)
                = parse_model_M chk cs (s1 ++ nl_s ++ line ++ nl_s ++ s2)).
Proof. exact comment_on_a_line. Qed.
Print Assumptions C14_comment_on_a_line.

(* a blank line or a comment-only line after an accepted block of statements changes nothing *)
Theorem C14_blank_line_between : forall (chk : string -> chk_res) (cs : bool) (s1 b s2 : string),
  s1 <> "" -> ends_sep s1 = false -> snd (split_M s1) = None ->
  nosep b = true -> is_blank (strip_comments b) = true ->
  parse_model_M chk cs (s1 ++ nl_s ++ b ++ nl_s ++ s2) = parse_model_M chk cs (s1 ++ nl_s ++ s2).
Proof. exact blank_line_between_accepted. Qed.
Print Assumptions C14_blank_line_between.

Theorem C14_script_level_satisfiable :
  (comment_ok "Y = X" "  " " trailing # twice" = true /\ comment_ok "Y = X " "" "c" = false /\ comment_ok "Y = '#'" " " "c" = false) /\
  (ex_s1 <> "" /\ ends_sep ex_s1 = false /\ final_state s0 (model_lines ex_s1) = Some s0 /\ clean s0 = true /\
   nosep "   # only a comment" = true /\ is_blank (strip_comments "   # only a comment") = true /\ nosep "" = true /\ is_blank (strip_comments "") = true).
Proof. exact (conj ex_comment_ok ex_blank_between). Qed.
Print Assumptions C14_script_level_satisfiable.

(* the statements of  s1 newline s2  are those of s1 followed by those of s2, whenever the splitter accepts s1 (raises no error on
   it).  Since fix 85765d5 that is enough: an accepted script ends between statements — no bracket open, no fence open,
   nothing buffered (C14_accepted_script_ends_between_statements); before the fix an unclosed fence was accepted (finding #24) *)
Theorem C14_split_app : forall s1 s2 : string,
  s1 <> "" -> ends_sep s1 = false -> snd (split_M s1) = None ->
  split_M (s1 ++ nl_s ++ s2) = ((fst (split_M s1) ++ fst (split_M s2))%list, snd (split_M s2)).
Proof. exact split_app_accepted. Qed.
Print Assumptions C14_split_app.
Theorem C14_accepted_script_ends_between_statements : forall s : string,
  snd (split_M s) = None -> exists st, final_state s0 (model_lines s) = Some st /\ clean st = true.
Proof. exact accepted_script_clean. Qed.
Print Assumptions C14_accepted_script_ends_between_statements.

(* parse_model = parse every statement alone, left to right, then merge *)
Theorem C14_parse_model_by_statements : forall s : string,
  parse_model_nocheck s =
  pbind (map_p parse_equation_M (fst (split_M s))) (fun by_eq => finish_parse by_eq (snd (split_M s))).
Proof. exact parse_model_by_statements. Qed.
Print Assumptions C14_parse_model_by_statements.

Theorem C14_statements_independent : forall (s1 s2 : string) (b1 b2 : list (list symbol)),
  s1 <> "" -> ends_sep s1 = false -> snd (split_M s1) = None ->
  map_p parse_equation_M (fst (split_M s1)) = POk b1 -> map_p parse_equation_M (fst (split_M s2)) = POk b2 ->
  parse_model_nocheck (s1 ++ nl_s ++ s2) = finish_parse (b1 ++ b2)%list (snd (split_M s2)) /\
  parse_model_nocheck s2 = finish_parse b2 (snd (split_M s2)) /\
  parse_model_nocheck s1 = finish_parse b1 None.
Proof. exact statements_independent_accepted. Qed.
Print Assumptions C14_statements_independent.

(* fix 85765d5 (was finding #24): a script that leaves a ``` fence open is rejected whole — parse_model never returns a symbol
   list for it, under any oracle; when the statements before the fence parse, the error is the splitter's ParserError *)
Theorem C14_unclosed_fence_rejected : forall (chk : string -> chk_res) (cs : bool) (s : string) (st : sstate),
  final_state s0 (model_lines s) = Some st -> complete st = false ->
  (forall syms, parse_model_M chk cs s <> POk syms) /\
  (forall b, map_p parse_equation_M (fst (split_M s)) = POk b -> parse_model_nocheck s = PErr ParserError).
Proof. exact unclosed_fence_rejected. Qed.
Print Assumptions C14_unclosed_fence_rejected.

(* reordering statements only reorders symbols: swapping two complete blocks of statements makes parse_model fail in both
   orders or succeed in both with lists that are permutations of each other — the same symbols, every field (name, type,
   lags, leads, equation, code) equal, in another order *)
Theorem C14_statements_permute : forall (s1 s2 : string) (b1 b2 : list (list symbol)),
  s1 <> "" -> ends_sep s1 = false -> snd (split_M s1) = None ->
  s2 <> "" -> ends_sep s2 = false -> snd (split_M s2) = None ->
  map_p parse_equation_M (fst (split_M s1)) = POk b1 -> map_p parse_equation_M (fst (split_M s2)) = POk b2 ->
  same_parse (parse_model_nocheck (s1 ++ nl_s ++ s2)) (parse_model_nocheck (s2 ++ nl_s ++ s1)).
Proof. exact statements_permute_accepted. Qed.
Print Assumptions C14_statements_permute.

(* the cross-equation merge does not depend on the order of its input, up to the order of its output: ANY permutation of
   the per-statement symbols (not only a swap of blocks) *)
Theorem C14_merge_order_irrelevant : forall b b' : list (list symbol),
  Permutation (concat b) (concat b') -> same_up_to_order (merge_symbols b) (merge_symbols b').
Proof. exact merge_perm. Qed.
Print Assumptions C14_merge_order_irrelevant.

(* the reason: Symbol.combine commutes across the occurrences of a name (success and every field of the result), for a table
   entry x (lags / leads never a period string — an invariant of the table) and at the first appearance of a name *)
Theorem C14_combine_commutes : forall x a b : symbol,
  (norm_sym x = true -> obnd (comb x a) (fun c => comb c b) = obnd (comb x b) (fun c => comb c a)) /\
  (sname a = sname b -> obnd (comb a a) (fun c => comb c b) = obnd (comb b b) (fun c => comb c a)) /\
  ok_of (combine a b) = comb a b.
Proof. exact (fun x a b => conj (comb_comm x a b) (conj (comb_first a b) (comb_combine a b))). Qed.
Print Assumptions C14_combine_commutes.

(* ---- the normal form is a fixed point of the parser (whole statements) ---- *)
(* q ranges over ALL normalised equations given as token lists; dq_ok q: one assigned term NAME[t+k] and blanks on the left,
   the right-hand side re-lexes token by token (names are identifiers no keyword prefixes, functions are followed by "(",
   keywords stand between non-word characters, period names are quoted — i.e. no backticked period index —, integer
   offsets have at most 4300 digits: CPython's int() limit), no line separator, "#" or brace, round brackets balanced,
   the character skeleton is in normal form.  Then parse_equation on the de-normalised text ([t] -> [0], [t+k] -> [+k],
   [t-k] -> [-k]) computes exactly the same normalised equation text and the same code text, and the terms of the token list *)
Theorem C14_normal_form_fixed_point : forall q : neq,
  dq_ok canon q = true ->
  parse_equation_M (denorm_text canon q) = of_outcome (equation_symbols (neq_text q) (neq_code q) (neq_terms q)).
Proof. exact normal_form_fixed_point_canon. Qed.
Print Assumptions C14_normal_form_fixed_point.

(* LAYOUT OF THE TERMS, whole statements.  For EVERY way `lay` of writing each term of q — as NAME, as a parameter { NAME } or
   an error < NAME > with any blanks inside the braces / angle brackets; with any blanks inside the index bracket, a lead with or
   without "+", an offset 0 written [0] or not at all (left-hand side: plain NAME[k] without inner blanks, findings #14 / #22) —
   parse_equation computes the same normalised equation text and the same code text; only the TYPES of the terms follow the
   style (lneq_terms: PARAMETER / ERROR for braces / angle brackets) *)
Theorem C14_fixed_point_any_term_layout : forall (lay : layout) (q : neq),
  dq_ok lay q = true ->
  parse_equation_M (denorm_text lay q) = of_outcome (equation_symbols (neq_text q) (neq_code q) (lneq_terms lay q)).
Proof. exact normal_form_fixed_point. Qed.
Print Assumptions C14_fixed_point_any_term_layout.
(* hence: blanks inside { } < > [ ], the "+" of a lead and an explicit [0] do not matter *)
Theorem C14_term_layout_irrelevant : forall (lay1 lay2 : layout) (q : neq),
  dq_ok lay1 q = true -> dq_ok lay2 q = true -> lneq_terms lay1 q = lneq_terms lay2 q ->
  parse_equation_M (denorm_text lay1 q) = parse_equation_M (denorm_text lay2 q).
Proof. exact index_layout_irrelevant. Qed.
Print Assumptions C14_term_layout_irrelevant.

(* horizontal whitespace and continuation lines for whole statements: with ANY runs of blanks / tabs between the tokens, and
   newlines + indentation wherever a round bracket is open (dq_ok_ws: as dq_ok, without the normal-form requirement),
   parse_equation produces the texts of the NORMALISED token list (nrm: runs collapsed to one blank, blanks after "(" and
   before ")" dropped) — so two statements that normalise to the same token list parse alike, whatever their blank runs,
   line breaks and the layouts of their terms *)
Theorem C14_parse_any_blank_runs : forall (lay : layout) (q : neq),
  dq_ok_ws lay q = true ->
  parse_equation_M (denorm_text lay q)
  = of_outcome (equation_symbols (nflat (nrm (whole_toks q))) (cflat (nrm (whole_toks q))) (lneq_terms lay q)).
Proof. exact parse_denorm_general. Qed.
Print Assumptions C14_parse_any_blank_runs.
Theorem C14_whitespace_layout_irrelevant : forall (lay1 lay2 : layout) (q1 q2 : neq),
  dq_ok_ws lay1 q1 = true -> dq_ok_ws lay2 q2 = true ->
  nrm (whole_toks q1) = nrm (whole_toks q2) -> lneq_terms lay1 q1 = lneq_terms lay2 q2 ->
  parse_equation_M (denorm_text lay1 q1) = parse_equation_M (denorm_text lay2 q2).
Proof. exact whitespace_layout_irrelevant. Qed.
Print Assumptions C14_whitespace_layout_irrelevant.
Theorem C14_whitespace_layout_satisfiable :
  dq_ok_ws ex_lay ex_ws_q = true /\ dq_ok_ws canon ex_fix_q = true /\
  nrm (whole_toks ex_ws_q) = nrm (whole_toks ex_fix_q) /\ lneq_terms ex_lay ex_ws_q = lneq_terms canon ex_fix_q /\
  nrm (whole_toks ex_fix_q) = whole_toks ex_fix_q /\ denorm_text ex_lay ex_ws_q <> denorm_text canon ex_fix_q.
Proof. exact ex_ws_layout. Qed.
Print Assumptions C14_whitespace_layout_satisfiable.

(* … and what is stored is always the text of a WELL-FORMED normalised equation (GNorm.neq_wf: it re-lexes token by token), namely
   of nrm_q q = q with both sides normalised — provided the right-hand side is separated (GraphSrcWf.sep_ok, decidable: names of
   terms not keyword-prefixed; no keyword glued to a braced term as in `if{a}`; no keyword right after "<").  This is the bridge
   from statements in the documented syntax, with any layout, to the token-list theorems (the normaliser's three passes keep a
   token list lexable: GraphTokWf.nrm_twf). *)
Theorem C14_normal_form_wellformed : forall (lay : layout) (q : neq),
  dq_ok_ws lay q = true -> sep_ok lay (nrhs q) = true ->
  neq_wf (nrm_q q) = true /\
  parse_equation_M (denorm_text lay q)
  = of_outcome (equation_symbols (neq_text (nrm_q q)) (cflat (nrm (whole_toks q))) (lneq_terms lay q)).
Proof. exact normal_form_wellformed. Qed.
Print Assumptions C14_normal_form_wellformed.

(* THE NORMAL FORM OF EVERY SUCH STATEMENT IS A FIXED POINT.  nrm_q q written back in the statement syntax (canonical layout:
   NAME[0], NAME[+k], NAME[-k], NAME['period']) satisfies the hypothesis dq_ok canon of C14_normal_form_fixed_point — for every
   statement under dq_ok_ws + sep_ok, whatever its layout (blank runs, continuation lines, braces / angle brackets with inner
   blanks, index layouts).  Hence parse_equation on that text yields the same equation text and the same code text as on the
   source statement; only the types of the terms may differ (a parameter {a} comes back as the plain name a).  sep_ok is what
   excludes the reserved-word names of C14_reserved_word_parameter_refuted (kw_free). *)
Theorem C14_normal_form_in_fixed_point_domain : forall (lay : layout) (q : neq),
  dq_ok_ws lay q = true -> sep_ok lay (nrhs q) = true -> dq_ok canon (nrm_q q) = true.
Proof. exact normal_form_dq_ok. Qed.
Print Assumptions C14_normal_form_in_fixed_point_domain.
Theorem C14_normal_form_reparses : forall (lay : layout) (q : neq),
  dq_ok_ws lay q = true -> sep_ok lay (nrhs q) = true ->
  parse_equation_M (denorm_text lay q)
  = of_outcome (equation_symbols (neq_text (nrm_q q)) (neq_code (nrm_q q)) (lneq_terms lay q)) /\
  parse_equation_M (denorm_text canon (nrm_q q))
  = of_outcome (equation_symbols (neq_text (nrm_q q)) (neq_code (nrm_q q)) (neq_terms (nrm_q q))).
Proof. exact normal_form_reparses. Qed.
Print Assumptions C14_normal_form_reparses.
Theorem C14_normal_form_reparses_satisfiable :
  denorm_text canon (nrm_q ex_wq1) = "Y[0] = X[-1] + max(Z[0] , a[0])" /\
  denorm_text canon (nrm_q ex_wq2) = "Z[0] = Y[0] < max(X[+1]) if Y[0] else 1" /\
  dq_ok canon (nrm_q ex_wq1) = true /\ dq_ok canon (nrm_q ex_wq2) = true /\
  dq_ok_ws ex_src_lay ex_wq1 = true /\ sep_ok ex_src_lay (nrhs ex_wq1) = true /\
  exists s1 s2, parse_equation_M (denorm_text ex_src_lay ex_wq1) = POk s1 /\ parse_equation_M (denorm_text canon (nrm_q ex_wq1)) = POk s2 /\
    map (fun s => (sname s, sequation s, scode s)) (filter (fun s => match sequation s with Some _ => true | None => false end) s1)
    = map (fun s => (sname s, sequation s, scode s)) (filter (fun s => match sequation s with Some _ => true | None => false end) s2) /\
    map (fun s => (sname s, stype s)) s1 <> map (fun s => (sname s, stype s)) s2.
Proof. exact ex_normal_form_reparses. Qed.
Print Assumptions C14_normal_form_reparses_satisfiable.

(* EMPTY versus NON-EMPTY GAPS (`Y=X+Z` / `Y = X + Z`, `X**2` / `X ** 2`, `f(a,b)` / `f(a, b)`, a trailing blank).  The normaliser
   never inserts or removes the last blank of a gap, so the equation / code STRINGS of two such layouts differ (and C14_whitespace_
   layout_irrelevant does not apply: the normalised token lists differ).  What is proved: the symbol loop of parse_equation does not
   look into the two texts — run on the same terms with other texts it yields the same symbols field by field (rt replaces the
   texts only) and raises alike; and two statements with the same NON-BLANK tokens have the same terms, hence the same symbols up
   to the texts, which are renderings of token lists that agree up to blank tokens.  NOT proved: that such token lists are the same
   Python token stream — that last step of "the generated code has the same meaning" rests on the oracle's ast.dump(ast.parse(code)). *)
Theorem C14_symbol_loop_ignores_texts : forall (e c e' c' : string) (terms : list term),
  equation_symbols e' c' terms = match equation_symbols e c terms with Ret l => Ret (map (rt e' c') l) | Raise x => Raise x end.
Proof. exact retext_symbols. Qed.
Print Assumptions C14_symbol_loop_ignores_texts.
Theorem C14_gaps_same_tokens : forall (lay : layout) (q1 q2 : neq),
  dq_ok_ws lay q1 = true -> dq_ok_ws lay q2 = true ->
  strip_blanks (nlhs q1) = strip_blanks (nlhs q2) -> strip_blanks (nrhs q1) = strip_blanks (nrhs q2) ->
  let T1 := nrm (whole_toks q1) in let T2 := nrm (whole_toks q2) in
  strip_blanks T1 = strip_blanks T2 /\
  parse_equation_M (denorm_text lay q1) = of_outcome (equation_symbols (nflat T1) (cflat T1) (lneq_terms lay q1)) /\
  parse_equation_M (denorm_text lay q2)
  = of_outcome (match equation_symbols (nflat T1) (cflat T1) (lneq_terms lay q1) with
                | Ret l => Ret (map (rt (nflat T2) (cflat T2)) l) | Raise x => Raise x end).
Proof. exact gaps_irrelevant. Qed.
Print Assumptions C14_gaps_same_tokens.
Theorem C14_gaps_satisfiable :
  denorm_text ex_bare_lay ex_gq1 = "Y=X+Z**2" /\ denorm_text ex_bare_lay ex_gq2 = "Y = X + Z ** 2 " /\
  dq_ok_ws ex_bare_lay ex_gq1 = true /\ dq_ok_ws ex_bare_lay ex_gq2 = true /\
  strip_blanks (nlhs ex_gq1) = strip_blanks (nlhs ex_gq2) /\ strip_blanks (nrhs ex_gq1) = strip_blanks (nrhs ex_gq2) /\
  nflat (nrm (whole_toks ex_gq1)) = "Y[t]=X[t]+Z[t]**2" /\ nflat (nrm (whole_toks ex_gq2)) = "Y[t] = X[t] + Z[t] ** 2 ".
Proof. exact ex_gaps. Qed.
Print Assumptions C14_gaps_satisfiable.

(* a statement spread over several lines inside round brackets is yielded by the splitter as ONE statement, text unchanged:
   cont_scan 0 E = every newline of E stands inside an open round bracket, no other line separator, brackets balanced *)
Theorem C14_one_statement_one_yield : forall E : string,
  is_blank E = false -> stmt_ok E = true -> startswith "```" E = false ->
  cont_scan 0 E = true -> has_char "#" E = false -> split_M E = ([E], None).
Proof. exact split_one_statement. Qed.
Print Assumptions C14_one_statement_one_yield.
Theorem C14_continuation_satisfiable :
  dq_ok_ws canon ex_cont_q = true /\
  nrm (whole_toks ex_cont_q) = whole_toks ex_fix_q /\ lneq_terms canon ex_cont_q = lneq_terms canon ex_fix_q /\
  has_nl (denorm_text canon ex_cont_q) = true.
Proof. exact ex_cont_layout. Qed.
Print Assumptions C14_continuation_satisfiable.

(* what must NOT happen: no symbol of the re-parse carries any other equation or code *)
Theorem C14_fixed_point_symbols : forall (lay : layout) (q : neq) (syms : list symbol),
  dq_ok lay q = true -> parse_equation_M (denorm_text lay q) = POk syms ->
  forall s, In s syms -> (sequation s = None \/ sequation s = Some (neq_text q)) /\ (scode s = None \/ scode s = Some (neq_code q)).
Proof. exact fixed_point_symbols. Qed.
Print Assumptions C14_fixed_point_symbols.

(* int(str(k)) = k in the model of int(), for every k within the digit limit *)
Theorem C14_int_of_str : forall k : Z, short_int k = true -> py_int (dz k) = Some k.
Proof. exact py_int_dz. Qed.
Print Assumptions C14_int_of_str.

Theorem C14_fixed_point_satisfiable :
  dq_ok canon ex_fix_q = true /\
  (exists syms, parse_equation_M (denorm_text canon ex_fix_q) = POk syms /\
     exists s, In s syms /\ sname s = Some "C" /\ sequation s = Some (neq_text ex_fix_q) /\ scode s = Some (neq_code ex_fix_q)) /\
  (dq_ok ex_lay ex_fix_q = true /\
   denorm_text ex_lay ex_fix_q = "C[1] = (alpha_1 * max(YD[ 2  ], H[ -1  ]) if X[ '2000'  ] <= 0 else `np.pi *  2`)" /\
   lneq_terms ex_lay ex_fix_q = lneq_terms canon ex_fix_q) /\
  (dq_ok ex_lay_src ex_fix_q = true /\ dq_ok ex_lay_src_compact ex_fix_q = true /\
   denorm_text ex_lay_src ex_fix_q = "C[+1] = ({ alpha_1  } * max(YD[+2], < H >[ -1]) if X['2000'] <= 0 else `np.pi *  2`)" /\
   denorm_text ex_lay_src_compact ex_fix_q = "C[+1] = ({alpha_1}[0] * max(YD[+2], <H>[-1]) if X['2000'] <= 0 else `np.pi *  2`)" /\
   lneq_terms ex_lay_src ex_fix_q = lneq_terms ex_lay_src_compact ex_fix_q /\
   lneq_terms ex_lay_src ex_fix_q <> lneq_terms canon ex_fix_q).
Proof. exact (conj ex_fix_ok (conj ex_fix_instance (conj ex_lay_ok ex_lay_src_ok))). Qed.
Print Assumptions C14_fixed_point_satisfiable.

(* the exclusion "equations without backticked period indexes" is needed *)
Theorem C14_backticked_period_refuted :
  codes_of_res (parse_model_nocheck "Y = X[`2001`]") = ["self._Y[t] = self['X', 2001]"] /\
  codes_of_res (parse_model_nocheck "Y[0] = X[2001]") = ["self._Y[t] = self._X[t+2001]"].
Proof. exact backticked_period_not_a_fixed_point. Qed.
Print Assumptions C14_backticked_period_refuted.

(* ---- hypotheses are satisfiable; a whole-statement instance ---- *)
Theorem C14_hypotheses_satisfiable :
  ex_s1 <> "" /\ ends_sep ex_s1 = false /\ final_state s0 (model_lines ex_s1) = Some s0 /\ clean s0 = true /\
  (exists b1, map_p parse_equation_M (fst (split_M ex_s1)) = POk b1 /\ length b1 = 1%nat) /\
  (exists b2, map_p parse_equation_M (fst (split_M ex_s2)) = POk b2 /\ length b2 = 2%nat) /\ snd (split_M ex_s2) = None.
Proof. exact ex_independent_hyps. Qed.
Print Assumptions C14_hypotheses_satisfiable.

Theorem C14_accepted_satisfiable :
  snd (split_M ex_s1) = None /\ snd (split_M ex_s2) = None /\ ex_s1 <> "" /\ ex_s2 <> "" /\ ends_sep ex_s1 = false /\ ends_sep ex_s2 = false.
Proof. exact ex_accepted. Qed.
Print Assumptions C14_accepted_satisfiable.

Theorem C14_permute_satisfiable :
  final_state s0 (model_lines ex_s2) = Some s0 /\ ends_sep ex_s2 = false /\ ex_s2 <> "" /\
  name_types (parse_model_nocheck (ex_s1 ++ nl_s ++ ex_s2))
    = [(Some "Y", TEndogenous); (Some "X", TExogenous); (Some "Z", TExogenous); (Some "W", TEndogenous); (Some "V", TEndogenous); (Some "a", TParameter)] /\
  name_types (parse_model_nocheck (ex_s2 ++ nl_s ++ ex_s1))
    = [(Some "W", TEndogenous); (Some "Y", TEndogenous); (Some "V", TEndogenous); (Some "a", TParameter); (Some "X", TExogenous); (Some "Z", TExogenous)].
Proof. exact ex_permute. Qed.
Print Assumptions C14_permute_satisfiable.

(* everything at once on a real script text (comments, blank lines, [0], +0, inner blanks, tabs, a continuation line): the
   identical symbol list — an instance computed by the kernel *)
Theorem C14_layout_instance :
  parse_model_nocheck ex_var = parse_model_nocheck ex_base /\ names_of (parse_model_nocheck ex_base) <> None.
Proof. exact ex_layout_same. Qed.
Print Assumptions C14_layout_instance.

(* ---- what does NOT hold of the code as it is ---- *)
(* #20: a blank before the index bracket is accepted, the lag is lost, the code indexes a scalar *)
Theorem C14_space_before_index_refuted :
  codes_of_res (parse_model_nocheck "Y = X [-1]") = ["self._Y[t] = self._X[t] [-1]"] /\
  codes_of_res (parse_model_nocheck "Y = X[-1]") = ["self._Y[t] = self._X[t-1]"] /\
  names_of (parse_model_nocheck "Y = X [-1]") = Some [(Some "Y", TEndogenous, Some (IInt 0%Z), Some (IInt 0%Z)); (Some "X", TExogenous, Some (IInt 0%Z), Some (IInt 0%Z))] /\
  names_of (parse_model_nocheck "Y = X[-1]") = Some [(Some "Y", TEndogenous, Some (IInt 0%Z), Some (IInt 0%Z)); (Some "X", TExogenous, Some (IInt (-1)%Z), Some (IInt 0%Z))].
Proof. exact space_before_index_refuted. Qed.
Print Assumptions C14_space_before_index_refuted.

(* #22: blanks inside the LEFT-hand index bracket are rejected, inside a right-hand one they are fine *)
Theorem C14_lhs_index_inner_space_refuted :
  parse_model_nocheck "Y[ 1 ] = X" = PErr ParserError /\ codes_of_res (parse_model_nocheck "Y[1] = X") = ["self._Y[t+1] = self._X[t]"] /\
  codes_of_res (parse_model_nocheck "Y = X[ 1 ]") = ["self._Y[t] = self._X[t+1]"].
Proof. exact lhs_index_inner_space_refuted. Qed.
Print Assumptions C14_lhs_index_inner_space_refuted.

(* NEW (found by the generator, round 2): a parameter or error term whose NAME is a reserved word of Python.  In braces it is
   accepted (`b = {as} * X`; the fixed-point theorem holds for the statement as written: dq_ok with the braces), but the normal
   form it produces contains `as[t]`, and written back in the statement syntax (`as[0]`) that is no term: term_re reads it as
   _INVALID and parse_equation raises ParserError.  So for this accepted script the normal form is NOT a fixed point; the
   hypothesis of C14_normal_form_fixed_point that fails is kw_free "as" inside dq_ok canon. *)
Theorem C14_reserved_word_parameter_refuted :
  denorm_text ex_kwpar_lay ex_kwpar_q = "b = {as} * X" /\ dq_ok ex_kwpar_lay ex_kwpar_q = true /\
  (exists syms, parse_equation_M "b = {as} * X" = POk syms /\
     map (fun s => (sname s, stype s, sequation s)) syms
     = [(Some "b", TEndogenous, Some "b[t] = as[t] * X[t]"); (Some "as", TParameter, None); (Some "X", TExogenous, None)]) /\
  neq_text ex_kwpar_q = "b[t] = as[t] * X[t]" /\
  denorm_text canon ex_kwpar_q = "b[0] = as[0] * X[0]" /\ dq_ok canon ex_kwpar_q = false /\
  parse_equation_M "b[0] = as[0] * X[0]" = PErr ParserError.
Proof. exact reserved_word_parameter_refuted. Qed.
Print Assumptions C14_reserved_word_parameter_refuted.

(* independent review, 2026-10-02 — four more behaviours of accepted / rejected scripts that contradict the property text, each
   reproduced on the pinned tree (known_findings.d/C14.json) and in the model: *)
(* (1) duplicate detection is sensitive to blanks around "=": the same statement twice is accepted, re-spacing ONE copy from
   `Y = X` to `Y=X` makes the script a "defined twice" ParserError (the normaliser collapses runs, it never inserts / removes a blank) *)
Theorem C14_duplicate_statement_respaced_refuted :
  view_of (parse_model_nocheck ("Y = X" ++ nl_s ++ "Y = X")) = Some [(Some "Y", TEndogenous, Some "Y[t] = X[t]", Some "self._Y[t] = self._X[t]"); (Some "X", TExogenous, None, None)] /\
  view_of (parse_model_nocheck ("Y = X" ++ nl_s ++ "Y  =  X")) = view_of (parse_model_nocheck ("Y = X" ++ nl_s ++ "Y = X")) /\
  parse_model_nocheck ("Y = X" ++ nl_s ++ "Y=X") = PErr ParserError /\
  view_of (parse_model_nocheck "Y=X") = Some [(Some "Y", TEndogenous, Some "Y[t]=X[t]", Some "self._Y[t]=self._X[t]"); (Some "X", TExogenous, None, None)].
Proof. exact duplicate_statement_respaced_refuted. Qed.
Print Assumptions C14_duplicate_statement_respaced_refuted.
(* (2) literal braces `{{ }}` (str.format's escape) are accepted; the normal form holds single braces and is rejected when fed back:
   this is what the guard `nobrace` of dq_ok excludes besides parameters written outside a term *)
Theorem C14_literal_braces_refuted :
  view_of (parse_model_nocheck "Y = X + max({{1, 2}})")
  = Some [(Some "Y", TEndogenous, Some "Y[t] = X[t] + max({1, 2})", Some "self._Y[t] = self._X[t] + max({1, 2})"); (Some "X", TExogenous, None, None); (Some "max", TFunction, None, None)] /\
  parse_equation_M "Y[0] = X[0] + max({1, 2})" = PErr ParserError.
Proof. exact literal_braces_refuted. Qed.
Print Assumptions C14_literal_braces_refuted.
(* (3) a blank before the index bracket of the LEFT-hand side: rejected (sibling of #20 / #22) *)
Theorem C14_space_before_lhs_index_refuted :
  parse_model_nocheck "Y [1] = X" = PErr ParserError /\
  view_of (parse_model_nocheck "Y[1] = X") = Some [(Some "Y", TEndogenous, Some "Y[t+1] = X[t]", Some "self._Y[t+1] = self._X[t]"); (Some "X", TExogenous, None, None)].
Proof. exact space_before_lhs_index_refuted. Qed.
Print Assumptions C14_space_before_lhs_index_refuted.
(* (4) "#" inside a quoted period label (likewise inside a backticked fragment or a fenced block) is cut as a comment: this is what
   the hypothesis `has_char "#" … = false` of the comment / statement theorems excludes *)
Theorem C14_hash_in_quotes_refuted :
  view_of (parse_model_nocheck "Y = X['a#b']")
  = Some [(Some "Y", TEndogenous, Some "Y[t] = X[t]['a[t]", Some "self._Y[t] = self._X[t]['self._a[t]"); (Some "X", TExogenous, None, None); (Some "a", TExogenous, None, None)] /\
  view_of (parse_model_nocheck "Y = X['a_b']") = Some [(Some "Y", TEndogenous, Some "Y[t] = X['a_b']", Some "self._Y[t] = self['X', 'a_b']"); (Some "X", TExogenous, None, None)].
Proof. exact hash_in_quotes_refuted. Qed.
Print Assumptions C14_hash_in_quotes_refuted.

(* second independent review, 2026-10-02 — five more, each reproduced on the pinned tree and in the model: *)
(* (a) blanks INSIDE an index bracket are harmless around the offset, not between its sign and its digits (int('- 1')) *)
Theorem C14_index_sign_blank_refuted :
  parse_model_nocheck "Y = X[- 1]" = PErr ParserError /\ parse_model_nocheck "Y = X[+ 1]" = PErr ParserError /\
  view_of (parse_model_nocheck "Y = X[ -1 ]") = Some [(Some "Y", TEndogenous, Some "Y[t] = X[t-1]", Some "self._Y[t] = self._X[t-1]"); (Some "X", TExogenous, None, None)].
Proof. exact index_sign_blank_refuted. Qed.
Print Assumptions C14_index_sign_blank_refuted.
(* (b) a blank next to the dot of a dotted function name is accepted and changes the symbols and the code *)
Theorem C14_dotted_name_blank_refuted :
  view_of (parse_model_nocheck "Y = np .sqrt(X)")
  = Some [(Some "Y", TEndogenous, Some "Y[t] = np[t] .sqrt(X[t])", Some "self._Y[t] = self._np[t] .sqrt(self._X[t])");
          (Some "np", TExogenous, None, None); (Some "sqrt", TFunction, None, None); (Some "X", TExogenous, None, None)] /\
  view_of (parse_model_nocheck "Y = np.sqrt(X)")
  = Some [(Some "Y", TEndogenous, Some "Y[t] = np.sqrt(X[t])", Some "self._Y[t] = np.sqrt(self._X[t])"); (Some "np.sqrt", TFunction, None, None); (Some "X", TExogenous, None, None)].
Proof. exact dotted_name_blank_refuted. Qed.
Print Assumptions C14_dotted_name_blank_refuted.
(* (c) duplicate detection again (cf. C14_duplicate_statement_respaced_refuted): adding a comment to one copy, or re-spacing a call *)
Theorem C14_duplicate_statement_comment_refuted :
  view_of (parse_model_nocheck ("Y = X " ++ nl_s ++ "Y = X ")) = Some [(Some "Y", TEndogenous, Some "Y[t] = X[t] ", Some "self._Y[t] = self._X[t] "); (Some "X", TExogenous, None, None)] /\
  parse_model_nocheck ("Y = X " ++ nl_s ++ "Y = X # c") = PErr ParserError /\
  parse_model_nocheck ("Y = max(X, Z)" ++ nl_s ++ "Y = max (X,Z)") = PErr ParserError.
Proof. exact duplicate_statement_comment_refuted. Qed.
Print Assumptions C14_duplicate_statement_comment_refuted.
(* (d) a form feed (likewise \x1c-\x1e, \x85, \r): whitespace for the regexes, a line boundary for str.splitlines — outside round
   brackets it cuts the statement in two; inside them it is a continuation *)
Theorem C14_form_feed_outside_brackets_refuted :
  parse_model_nocheck ("Y = X *" ++ ff_s ++ " Z") = PErr ParserError /\
  view_of (parse_model_nocheck ("Y = (X *" ++ ff_s ++ " Z)"))
  = Some [(Some "Y", TEndogenous, Some "Y[t] = (X[t] * Z[t])", Some "self._Y[t] = (self._X[t] * self._Z[t])"); (Some "X", TExogenous, None, None); (Some "Z", TExogenous, None, None)].
Proof. exact form_feed_outside_brackets_refuted. Qed.
Print Assumptions C14_form_feed_outside_brackets_refuted.
(* (e) "(Y =\n X)", the layout documented with equation_re ("brackets beginning on the left-hand side"): the brackets stay in the
   code — an assignment inside round brackets, rejected by the syntax check (ParserError with check_syntax=True) *)
Theorem C14_bracketed_statement_refuted :
  view_of (parse_model_nocheck ("(Y =" ++ nl_s ++ " X)")) = Some [(Some "Y", TEndogenous, Some "(Y[t] = X[t])", Some "(self._Y[t] = self._X[t])"); (Some "X", TExogenous, None, None)].
Proof. exact bracketed_statement_refuted. Qed.
Print Assumptions C14_bracketed_statement_refuted.

(* fix 85765d5 at work: the script with the open fence is rejected alone and with a statement appended; closing the fence
   makes it an accepted block again, after which the appended statement is parsed as usual *)
Theorem C14_unclosed_fence_instance :
  (parse_model_nocheck fence_s1 = PErr ParserError /\
   parse_model_nocheck (fence_s1 ++ nl_s ++ "Z = W") = PErr ParserError /\
   names_of (parse_model_nocheck "Z = W") = Some [(Some "Z", TEndogenous, Some (IInt 0%Z), Some (IInt 0%Z)); (Some "W", TExogenous, Some (IInt 0%Z), Some (IInt 0%Z))] /\
   final_state s0 (model_lines fence_s1) = Some (mkS 0 false ["foo = 1"; "```"]) /\
   (exists b, map_p parse_equation_M (fst (split_M fence_s1)) = POk b /\ length b = 1%nat)) /\
  (snd (split_M (fence_s1 ++ nl_s ++ "```")) = None /\ ends_sep (fence_s1 ++ nl_s ++ "```") = false /\
   names_of (parse_model_nocheck ((fence_s1 ++ nl_s ++ "```") ++ nl_s ++ "Z = W"))
   = Some [(Some "Y", TEndogenous, Some (IInt 0%Z), Some (IInt 0%Z)); (Some "X", TExogenous, Some (IInt 0%Z), Some (IInt 0%Z));
           (Some "Z", TEndogenous, Some (IInt 0%Z), Some (IInt 0%Z)); (Some "W", TExogenous, Some (IInt 0%Z), Some (IInt 0%Z));
           (None, TVerbatim, None, None)]).
Proof. exact (conj unclosed_fence_is_rejected closed_fence_accepted). Qed.
Print Assumptions C14_unclosed_fence_instance.
