(* Props/C09.v — the audited surface for property C09 (container series keep their length and dtype under every
   assignment history).  Statements only; every proof is `exact <lemma>`; Print Assumptions under each.
   NumPy (element casts, dtype inference) is a family of Section variables: every statement holds for EVERY table. *)
From Coq Require Import ZArith List Bool String Ascii.
Import ListNotations.
Require Import PyBase Container ContainerFacts ContainerExamples Alias AliasFacts.
Open Scope string_scope.
Open Scope list_scope.
Open Scope nat_scope.

(* SCOPE.  The real object keeps everything in ONE __dict__: the series under '_' + name next to its own bookkeeping (`span`, `index`,
   `_attributes`, `_strict`; models: `names`, `dtype`; linkers also `submodels` and `name`, neither registered in `_attributes`).  The property's operations are "variable creation, whole-series, positional,
   label and bulk assignment, values replacement" (+ add_attribute, strict toggle, read-only hooks).  An attribute assignment or
   add_attribute that TARGETS the bookkeeping - a name for which `bookkeeping (kind s) name = true`: span, index, any name starting
   with '_', for models names / dtype, for linkers also submodels / name - is not one of them; the real object accepts it (also under strict=True) and the
   invariants then fail: C09_*_needs_scope_refuted.  Hence the hypothesis `in_scope (kind s) o` / `Forall (in_scope (kind s)) ops`
   (= SetAttr / AddAttribute do not target a bookkeeping name; every other operation is in scope) on the history theorems.
   WHAT IS ORACLE / K ONLY (no theorem): the TEXT of the near-miss message of strict=True (the model has exception classes, the
   closest match is difflib's answer handed in as `hint`); that the dtype of a new variable is the one ASKED for (astype_dt is a Section
   variable; oracle clause add_variable|dtype-not-imposed); the content written by a scalar / list `values` replacement
   (C09_values_setter_array_content covers ndarray replacements; for scalar / list replacements the content is compared by K only);
   `nbytes` of a LINKER (it adds the submodels' bytes: not modelled, not queried by the generator).
   NOT IN THE MODEL AT ALL: dtypes other than float / int / bool / str(width) / object and the sub-array request RSub. *)
Section C09.
  Variable pycast : dtype -> pyval -> outcome pyval.
  Variable arrcast : dtype -> dtype -> pyval -> outcome pyval.
  Variable infer : list pyval -> dtype.
  Variable astype_dt : dtype -> list pyval -> dreq -> dtype.
  Variable itemseq_exn : dtype -> exn.
  Notation step := (step pycast arrcast infer astype_dt itemseq_exn).
  Notation run := (run pycast arrcast infer astype_dt itemseq_exn).
  Notation run_trace := (run_trace pycast arrcast infer astype_dt itemseq_exn).

  (* Inv s = index duplicate-free /\ every indexed name has a stored series /\ every stored series has shape
     [len span] /\ (models) every name of `names` is a variable *)
  Theorem C09_inv_unfolded s :
    Inv s <->
    ((NoDup (index s) /\
      (forall x, In x (index s) -> assoc x (vars s) <> None) /\
      (forall x v, assoc x (vars s) = Some v -> vshape v = [length (span s)])) /\
     (kind s <> CVC -> incl (names s) (index s))).
  Proof. exact (inv_unfolded s). Qed.

  Theorem C09_inv_init_container sp st : Inv (init_vc sp st).
  Proof. exact (inv_init_vc sp st). Qed.

  Theorem C09_inv_init_model k sp st d default NAMES kwargs s u :
    k <> CVC -> init_model pycast arrcast infer astype_dt k sp st d default NAMES kwargs = (s, Ret u) -> Inv s.
  Proof. exact (inv_init_model pycast arrcast infer astype_dt k sp st d default NAMES kwargs s u). Qed.

  (* every operation of the alphabet, accepted or rejected, any operand *)
  Theorem C09_step_preserves_inv o s : in_scope (kind s) o -> Inv s -> Inv (fst (step o s)).
  Proof. exact (step_preserves_inv pycast arrcast infer astype_dt itemseq_exn o s). Qed.

  (* ARBITRARY histories (no length bound): the final state and every intermediate state *)
  Theorem C09_reachable_inv ops s : Forall (in_scope (kind s)) ops -> Inv s -> Inv (run ops s).
  Proof. exact (reachable_inv pycast arrcast infer astype_dt itemseq_exn ops s). Qed.

  Theorem C09_reachable_inv_every_state ops s :
    Forall (in_scope (kind s)) ops -> Inv s -> Forall (fun r => Inv (fst r)) (run_trace ops s).
  Proof. exact (reachable_inv_every_state pycast arrcast infer astype_dt itemseq_exn ops s). Qed.

  (* exactly one CELL per period.  The model keeps shape and cells of a series separately; InvD s = every stored series holds
     len(span) cells.  wf_operand = every ndarray operand (nested anywhere) has as many cells as its shape says - true of every
     real ndarray.  Through arbitrary histories: *)
  Theorem C09_invD_unfolded s :
    InvD s <-> (forall x v, assoc x (vars s) = Some v -> length (vdata v) = length (span s)).
  Proof. exact (invD_unfolded s). Qed.

  Theorem C09_step_preserves_one_cell_per_period o s : in_scope (kind s) o -> wf_key_op o -> InvD s -> InvD (fst (step o s)).
  Proof. exact (step_preserves_invD pycast arrcast infer astype_dt itemseq_exn o s). Qed.

  Theorem C09_reachable_one_cell_per_period ops :
    Forall wf_key_op ops -> forall s, Forall (in_scope (kind s)) ops -> InvD s -> InvD (run ops s).
  Proof. exact (reachable_invD pycast arrcast infer astype_dt itemseq_exn ops). Qed.

  Theorem C09_init_model_one_cell_per_period k sp st d default NAMES kwargs :
    wf_operand default -> Forall (fun kv : string * operand => wf_operand (snd kv)) kwargs ->
    InvD (fst (init_model pycast arrcast infer astype_dt k sp st d default NAMES kwargs)).
  Proof. exact (invD_init_model pycast arrcast infer astype_dt k sp st d default NAMES kwargs). Qed.

  (* a variable stays in the index and keeps its dtype through any history; the span never changes *)
  Theorem C09_dtype_kept ops s x :
    Forall (in_scope (kind s)) ops -> In x (index s) -> In x (index (run ops s)) /\ dtype_of (run ops s) x = dtype_of s x.
  Proof. exact (dtype_kept pycast arrcast infer astype_dt itemseq_exn ops s x). Qed.

  Theorem C09_dtype_as_created name value dt s s1 u ops :
    add_variable pycast arrcast infer astype_dt name value dt s = (s1, Ret u) -> Forall (in_scope (kind s1)) ops ->
    exists d, dtype_of s1 name = Some d /\ dtype_of (run ops s1) name = Some d /\ In name (index (run ops s1)).
  Proof. exact (dtype_as_created pycast arrcast infer astype_dt itemseq_exn name value dt s s1 u ops). Qed.

  Theorem C09_span_kept ops s : Forall (in_scope (kind s)) ops -> span (run ops s) = span s /\ kind (run ops s) = kind s.
  Proof. exact (span_kept pycast arrcast infer astype_dt itemseq_exn ops s). Qed.

  (* declaration order: `index` (and `names`) only grow at the end; an accepted add_variable puts the new name last *)
  Theorem C09_declaration_order_kept ops s :
    Forall (in_scope (kind s)) ops ->
    (exists l, index (run ops s) = index s ++ l) /\ (exists l, names (run ops s) = names s ++ l).
  Proof. exact (declaration_order_kept pycast arrcast infer astype_dt itemseq_exn ops s). Qed.

  Theorem C09_add_variable_appends name value dt s s' u :
    add_variable pycast arrcast infer astype_dt name value dt s = (s', Ret u) ->
    index s' = index s ++ [name] /\ names s' = names s ++ (match kind s with CVC => [] | _ => [name] end).
  Proof. exact (add_variable_appends pycast arrcast infer astype_dt name value dt s s' u). Qed.

  (* the rows of `values` are pairwise different variables on every reachable object: `names` of a model holds no name twice
     (the constructor checks NAMES, add_variable only appends names that are not variables yet) *)
  Theorem C09_init_model_names k sp st d default NAMES kwargs s u :
    init_model pycast arrcast infer astype_dt k sp st d default NAMES kwargs = (s, Ret u) -> names s = NAMES /\ NoDup NAMES.
  Proof. exact (init_model_names pycast arrcast infer astype_dt k sp st d default NAMES kwargs s u). Qed.

  Theorem C09_reachable_unique_names ops s :
    Forall (in_scope (kind s)) ops -> Inv s -> (kind s <> CVC -> NoDup (names s)) -> (kind (run ops s) <> CVC -> NoDup (names (run ops s))).
  Proof. exact (reachable_invU pycast arrcast infer astype_dt itemseq_exn ops s). Qed.

  Theorem C09_row_names_nodup s : Inv s -> (kind s <> CVC -> NoDup (names s)) -> NoDup (row_names s).
  Proof. exact (row_names_nodup s). Qed.

  (* values = rows-by-periods stack in declaration order, never raises; size = its element count *)
  Theorem C09_values_stack s :
    Inv s ->
    values_shape s = Ret (match row_names s with [] => [0] | _ => [length (row_names s); length (span s)] end) /\
    (exists l, rows (row_names s) (vars s) = Ret l /\ Forall2 (fun x v => assoc x (vars s) = Some v) (row_names s) l /\
               Forall (fun v => vshape v = [length (span s)]) l) /\
    size_of s = length (row_names s) * length (span s) + match kind s with CLinker extra => extra | _ => 0 end.
  Proof. exact (values_stack s). Qed.

  (* values replacement: an ACCEPTED obj.values = A (A of shape (#variables, #periods), as many cells as that) leaves in the i-th
     declared variable exactly row i of A cast cell by cell (first by A.astype(dtype_i), then by the in-place copy), with the
     variable's dtype and one cell per period; every other series is untouched *)
  Theorem C09_values_setter_array_content r m dt cells s s' :
    Inv s -> InvD s -> NoDup (row_names s) -> length cells = r * m ->
    values_setter pycast arrcast infer (OArr [r; m] dt cells) s = (s', Ret tt) ->
    Forall2 (fun x row => exists v c1 c2,
               assoc x (vars s) = Some v /\ cast_all (arrcast dt (vdtype v)) row = Ret c1 /\
               cast_all (arrcast (vdtype v) (vdtype v)) c1 = Ret c2 /\
               assoc x (vars s') = Some (mkVar (vdtype v) [length (span s)] c2)) (row_names s) (chunks m r cells) /\
    (forall y, ~ In y (row_names s) -> assoc y (vars s') = assoc y (vars s)).
  Proof. exact (values_setter_array_content pycast arrcast infer r m dt cells s s'). Qed.

  (* A RAISING SINGLE-VARIABLE OPERATION LEAVES THE WHOLE STATE UNCHANGED, whatever the reason it cannot fit (wrong length or shape,
     nesting, step 0, a value that cannot be cast - also part-way through an in-place copy: fix 5dde979 -, unknown / duplicate /
     reserved name, strict=True).  single o = every operation except the two bulk ones (replace_values, the values setter) *)
  Theorem C09_failed_single_assignment_no_change o s s' e :
    single o -> step o s = (s', Raise e) -> s' = s.
  Proof. exact (failed_single_assignment_no_change pycast arrcast infer astype_dt itemseq_exn o s s' e). Qed.

  (* fix d82b358: a name whose storage key '_' + name is taken ('attributes', 'strict', ...) is refused, nothing changes *)
  Theorem C09_reserved_name_rejected name value dt s :
    storage_taken name s = true ->
    exists e, add_variable pycast arrcast infer astype_dt name value dt s = (s, Raise e) /\ e = DuplicateNameError.
  Proof. exact (reserved_name_rejected pycast arrcast infer astype_dt name value dt s). Qed.

  (* fix cf99a8a: a dtype that adds a dimension (RSub: a sub-array dtype such as '2f8' / (float, 2)), asked for in the call or
     inherited from the model (dtype='2f8' at construction), never creates a variable: the call raises, nothing changes.
     (That it is DimensionError: C09_subarray_dtype_rejected_np for NumPy's tables, and K.) *)
  Theorem C09_subarray_dtype_rejected name value dt s :
    match dt with Some r => adds_dim r = true | None => kind s <> CVC /\ exists r, dflt s = Some r /\ adds_dim r = true end ->
    exists e, add_variable pycast arrcast infer astype_dt name value dt s = (s, Raise e).
  Proof. exact (add_variable_subarray_rejected pycast arrcast infer astype_dt name value dt s). Qed.

  Theorem C09_attributes_and_strict_are_reserved s : storage_taken "attributes" s = true /\ storage_taken "strict" s = true.
  Proof. exact (attributes_and_strict_are_reserved s). Qed.

  Theorem C09_add_variable_atomic name value dt s s' e :
    add_variable pycast arrcast infer astype_dt name value dt s = (s', Raise e) -> s' = s.
  Proof. exact (add_variable_atomic pycast arrcast infer astype_dt name value dt s s' e). Qed.

  Theorem C09_duplicate_name_rejected name value dt s :
    mem name (index s) = true ->
    add_variable pycast arrcast infer astype_dt name value dt s = (s, Raise DuplicateNameError).
  Proof. exact (duplicate_name_rejected pycast arrcast infer astype_dt name value dt s). Qed.

  Theorem C09_unknown_name_item_rejected name value s :
    mem name (index s) = false -> setitem pycast arrcast infer itemseq_exn (KName name) value s = (s, Raise KeyError).
  Proof. exact (unknown_name_item_rejected pycast arrcast infer itemseq_exn name value s). Qed.

  (* obj[name, label] = v / obj[name, a:b:s] = v with `name` no variable: KeyError and nothing changes - for EVERY name (also
     'attributes', 'strict': fix 216fc36), every label or slice, every value *)
  Theorem C09_unknown_name_label_rejected name l value s :
    mem name (index s) = false -> setitem pycast arrcast infer itemseq_exn (KLabel name l) value s = (s, Raise KeyError).
  Proof. exact (unknown_name_label_rejected pycast arrcast infer itemseq_exn name l value s). Qed.

  Theorem C09_unknown_name_slice_rejected name a b st value s :
    mem name (index s) = false -> setitem pycast arrcast infer itemseq_exn (KSlice name a b st) value s = (s, Raise KeyError).
  Proof. exact (unknown_name_slice_rejected pycast arrcast infer itemseq_exn name a b st value s). Qed.

  (* bulk assignment: exactly the keywords before the failing one are applied *)
  Theorem C09_replace_values_prefix kvs s s' e :
    replace_values pycast arrcast infer itemseq_exn kvs s = (s', Raise e) ->
    exists pre k v post s1,
      kvs = pre ++ (k, v) :: post /\
      replace_values pycast arrcast infer itemseq_exn pre s = (s1, Ret tt) /\
      setitem pycast arrcast infer itemseq_exn (KName k) v s1 = (s', Raise e).
  Proof. exact (replace_values_prefix pycast arrcast infer itemseq_exn kvs s s' e). Qed.

  Theorem C09_values_setter_wrong_shape sh dt cells s vsh :
    values_shape s = Ret vsh -> sh <> vsh ->
    values_setter pycast arrcast infer (OArr sh dt cells) s = (s, Raise DimensionError).
  Proof. exact (values_setter_wrong_shape pycast arrcast infer sh dt cells s vsh). Qed.

  (* strict *)
  Theorem C09_strict_blocks_new_attributes name value hint s :
    strict s = true -> is_property (kind s) name = false ->
    mem name (index s) = false -> reg_mem name (registry s) = false ->
    setattr pycast arrcast infer name value hint s =
      (s, Raise (match alternatives hint (row_names s) with _ :: _ :: _ => NotImplementedError | _ => AttributeError end)).
  Proof. exact (strict_blocks_new_attributes pycast arrcast infer name value hint s). Qed.

  (* with strict=True NO operation other than add_attribute (and the first `obj.strict = ...`, which registers that property) creates a
     non-variable attribute - whole-series / item / bulk / values assignments included: the registry is what it was and every
     attribute entry afterwards was there before or belongs to a name registered before *)
  Theorem C09_strict_creates_nothing o s :
    strict s = true -> in_scope (kind s) o ->
    (forall n v, o <> AddAttribute n v) -> (forall n v h, o = SetAttr n v h -> is_property (kind s) n = false) ->
    registry (fst (step o s)) = registry s /\
    (forall x, assoc x (adict (fst (step o s))) <> None -> assoc x (adict s) <> None \/ reg_mem x (registry s) = true).
  Proof. exact (strict_creates_nothing pycast arrcast infer astype_dt itemseq_exn o s). Qed.

  Theorem C09_strict_updates_keep_working name value hint s :
    mem name (index s) = true ->
    setattr pycast arrcast infer name value hint s = setattr_var pycast arrcast name value s /\
    setitem pycast arrcast infer itemseq_exn (KName name) value s = setattr_var pycast arrcast name value s.
  Proof. exact (strict_updates_keep_working pycast arrcast infer itemseq_exn name value hint s). Qed.

  (* the values setter is reached whatever the strict flag (fix 49a73ab: properties of the class pass the new-attribute guard) *)
  Theorem C09_values_setter_reached value hint s :
    mem "values" (index s) = false ->
    snd (setattr pycast arrcast infer "values" value hint s) = snd (values_setter pycast arrcast infer value s) /\
    vars (fst (setattr pycast arrcast infer "values" value hint s)) = vars (fst (values_setter pycast arrcast infer value s)) /\
    index (fst (setattr pycast arrcast infer "values" value hint s)) = index (fst (values_setter pycast arrcast infer value s)).
  Proof. exact (values_setter_reached pycast arrcast infer value hint s). Qed.

  Theorem C09_whole_series_ignores_strict name value s b :
    setattr_var pycast arrcast name value (set_strict s b) =
    (set_strict (fst (setattr_var pycast arrcast name value s)) b, snd (setattr_var pycast arrcast name value s)).
  Proof. exact (setattr_var_ignores_strict pycast arrcast name value s b). Qed.

  Theorem C09_add_variable_ignores_strict name value dt s b :
    add_variable pycast arrcast infer astype_dt name value dt (set_strict s b) =
    (set_strict (fst (add_variable pycast arrcast infer astype_dt name value dt s)) b,
     snd (add_variable pycast arrcast infer astype_dt name value dt s)).
  Proof. exact (add_variable_ignores_strict pycast arrcast infer astype_dt name value dt s b). Qed.
End C09.

(* the model's totalisation default (OtherError = "outside the model") is reached by NO operation from a state satisfying the
   invariant: no statement above holds by virtue of a default branch *)
Theorem C09_no_other_error o s : in_scope (kind s) o -> Inv s -> snd (np_step o s) <> Raise OtherError.
Proof. exact (np_no_other_error o s). Qed.

(* read-only hooks (_ipython_key_completions_, dir(), `in`, nbytes): they change nothing, and what they return *)
Theorem C09_hooks_change_nothing q s : fst (read q s) = s.
Proof. exact (read_frame q s). Qed.

Theorem C09_completions_are_the_variables s : snd (read QCompletions s) = Ret (VNames (index s)).
Proof. exact (completions_are_the_variables s). Qed.

Theorem C09_contains_spec n s : snd (read (QContains n) s) = Ret (VBool true) <-> In n (row_names s).
Proof. exact (contains_spec n s). Qed.

Theorem C09_dir_lists_variables_and_attributes s x :
  exists l, snd (read QDir s) = Ret (VNames l) /\ (In x l <-> In x (index s) \/ reg_mem x (registry s) = true).
Proof. exact (dir_lists_variables_and_attributes s x). Qed.

Theorem C09_nbytes_spec s :
  (NoDup (index s) /\ (forall x, In x (index s) -> assoc x (vars s) <> None) /\
   (forall x v, assoc x (vars s) = Some v -> vshape v = [length (span s)])) ->
  snd (read QNbytes s) =
  Ret (VNat (fold_right (fun x acc => match dtype_of s x with Some d => length (span s) * itemsize d + acc | None => acc end) 0 (index s))).
Proof. exact (nbytes_spec s). Qed.

(* the scope hypothesis is NECESSARY: assignments to the bookkeeping are accepted (the first also under strict=True) and break the
   invariants / change `values`, `size`, the default dtype; '_X' = v replaces the series object itself (the model gives up) *)
Theorem C09_span_assignment_needs_scope_refuted :
  exists s o, Inv s /\ strict s = true /\ ~ in_scope (kind s) o /\ snd (np_step o s) = Ret tt /\
    span (fst (np_step o s)) <> span s /\ ~ Inv (fst (np_step o s)).
Proof. exact span_assignment_needs_scope_refuted. Qed.

Theorem C09_index_assignment_needs_scope_refuted :
  exists s o, Inv s /\ ~ in_scope (kind s) o /\ snd (np_step o s) = Ret tt /\ ~ Inv (fst (np_step o s)).
Proof. exact index_assignment_needs_scope_refuted. Qed.

Theorem C09_names_assignment_needs_scope_refuted :
  exists s o, Inv s /\ ~ in_scope (kind s) o /\ snd (np_step o s) = Ret tt /\
    values_shape s = Ret [2; 3] /\ values_shape (fst (np_step o s)) = Ret [1; 3] /\ size_of (fst (np_step o s)) = 3.
Proof. exact names_assignment_needs_scope_refuted. Qed.

Theorem C09_dtype_assignment_needs_scope_refuted :
  exists s o, Inv s /\ ~ in_scope (kind s) o /\ snd (np_step o s) = Ret tt /\
    dtype_of (fst (np_step (AddVariable "N" (OScalar (PFlt (FHalf 3))) None) s)) "N" = Some DFloat /\
    dtype_of (fst (np_step (AddVariable "N" (OScalar (PFlt (FHalf 3))) None) (fst (np_step o s)))) "N" = Some DInt.
Proof. exact dtype_assignment_needs_scope_refuted. Qed.

(* c._X = np.array([2., 4.]) (strict off, accepted): the series object of X is replaced by the caller's array: 2 float cells on a
   span of 3 periods where 3 int cells were created - length and dtype are lost, Inv fails.  (An assignment of something that is no
   array, c._X = 5, is outside the model: OtherError.) *)
Theorem C09_underscore_assignment_needs_scope_refuted :
  exists s o, Inv s /\ ~ in_scope (kind s) o /\ snd (np_step o s) = Ret tt /\ span (fst (np_step o s)) = span s /\
    assoc "X" (vars s) = Some (mkVar DInt [3] [PInt 1; PInt 2; PInt 3]%Z) /\
    assoc "X" (vars (fst (np_step o s))) = Some (mkVar DFloat [2] [PFlt (FHalf 2); PFlt (FHalf 4)]%Z) /\
    ~ Inv (fst (np_step o s)).
Proof. exact underscore_assignment_needs_scope_refuted. Qed.

(* a linker: l.submodels = {} (the model writes the empty mapping as OSeq KList []) is accepted with strict off; `size` drops from
   9 to 3 (it no longer counts the submodel's 6 elements) and the kind that C09_span_kept keeps changes; l.name = 'A' (a submodel's
   id; the real `size` then raises TypeError) is out of scope too and outside the model (OtherError) *)
Theorem C09_submodels_assignment_needs_scope_refuted :
  exists s o, Inv s /\ ~ in_scope (kind s) o /\ snd (np_step o s) = Ret tt /\
    size_of s = 9 /\ size_of (fst (np_step o s)) = 3 /\ kind (fst (np_step o s)) <> kind s /\
    snd (np_step (SetAttr "name" (OScalar (PStr "A")) None) s) = Raise OtherError /\
    ~ in_scope (kind s) (SetAttr "name" (OScalar (PStr "A")) None).
Proof. exact submodels_assignment_needs_scope_refuted. Qed.

Theorem C09_subarray_dtype_rejected_np :
  np_step (AddVariable "N" (OScalar (PInt 0)) (Some RSub)) w0 = (w0, Raise DimensionError) /\
  np_step (AddVariable "N" (li [1; 2; 3]%Z) (Some RSub)) w0 = (w0, Raise DimensionError) /\
  snd (np_init_model CModel [1; 2; 3]%Z false RSub (OScalar (PFlt (FHalf 0))) ["Y"] []) = Raise DimensionError /\
  (let m := np_init_model CModel [1; 2; 3]%Z false RSub (OScalar (PFlt (FHalf 0))) [] [] in
   snd m = Ret tt /\ np_step (AddVariable "N" (OScalar (PInt 0)) None) (fst m) = (fst m, Raise DimensionError) /\
   snd (np_step (AddVariable "N" (OScalar (PInt 0)) (Some RFloat)) (fst m)) = Ret tt).
Proof. exact subarray_dtype_rejected_np. Qed.

Print Assumptions C09_inv_unfolded.
Print Assumptions C09_inv_init_container.
Print Assumptions C09_inv_init_model.
Print Assumptions C09_step_preserves_inv.
Print Assumptions C09_reachable_inv.
Print Assumptions C09_reachable_inv_every_state.
Print Assumptions C09_invD_unfolded.
Print Assumptions C09_step_preserves_one_cell_per_period.
Print Assumptions C09_reachable_one_cell_per_period.
Print Assumptions C09_init_model_one_cell_per_period.
Print Assumptions C09_dtype_kept.
Print Assumptions C09_dtype_as_created.
Print Assumptions C09_span_kept.
Print Assumptions C09_declaration_order_kept.
Print Assumptions C09_add_variable_appends.
Print Assumptions C09_init_model_names.
Print Assumptions C09_reachable_unique_names.
Print Assumptions C09_row_names_nodup.
Print Assumptions C09_values_stack.
Print Assumptions C09_values_setter_array_content.
Print Assumptions C09_failed_single_assignment_no_change.
Print Assumptions C09_reserved_name_rejected.
Print Assumptions C09_attributes_and_strict_are_reserved.
Print Assumptions C09_span_assignment_needs_scope_refuted.
Print Assumptions C09_index_assignment_needs_scope_refuted.
Print Assumptions C09_names_assignment_needs_scope_refuted.
Print Assumptions C09_dtype_assignment_needs_scope_refuted.
Print Assumptions C09_underscore_assignment_needs_scope_refuted.
Print Assumptions C09_submodels_assignment_needs_scope_refuted.
Print Assumptions C09_subarray_dtype_rejected.
Print Assumptions C09_subarray_dtype_rejected_np.
Print Assumptions C09_add_variable_atomic.
Print Assumptions C09_duplicate_name_rejected.
Print Assumptions C09_unknown_name_item_rejected.
Print Assumptions C09_unknown_name_label_rejected.
Print Assumptions C09_unknown_name_slice_rejected.
Print Assumptions C09_replace_values_prefix.
Print Assumptions C09_values_setter_wrong_shape.
Print Assumptions C09_strict_blocks_new_attributes.
Print Assumptions C09_strict_creates_nothing.
Print Assumptions C09_strict_updates_keep_working.
Print Assumptions C09_whole_series_ignores_strict.
Print Assumptions C09_add_variable_ignores_strict.
Print Assumptions C09_no_other_error.
Print Assumptions C09_hooks_change_nothing.
Print Assumptions C09_completions_are_the_variables.
Print Assumptions C09_contains_spec.
Print Assumptions C09_dir_lists_variables_and_attributes.
Print Assumptions C09_nbytes_spec.
Print Assumptions C09_values_setter_reached.
Print Assumptions w0_inv.
Print Assumptions w0_invD.
Print Assumptions values_setter_content_instance.
Print Assumptions strict_hypotheses_satisfiable.
Print Assumptions in_place_assignments_are_atomic.
Print Assumptions values_setter_works_under_strict.
Print Assumptions m0_inv.
