(* Props/C03.v — audited surface for property C03 (variable classification, ordering and lag/lead lengths match
   the script; default solution range).

   A script is taken after lexing: a program is a list of statements, each an equation given by the raw term lists
   of its two sides (what parse_terms returns) with its normalised text and code, or a verbatim block
   (Classify.stmt).  `program_symbols` is the symbol list parse_model computes from them (per-equation loop with the
   FUNCTION quirk, cross-equation merge), `class_of` the name lists and LAGS / LEADS of build_model_definition,
   `default_range` the periods SolverMixin.iter_periods yields by default.  What the script says is read off the
   mentions (Classify.mentions): script_names = names in order of first appearance, is_endogenous = assigned by some
   equation, is_parameter = written in braces, is_error = written in angle brackets, is_exogenous = a right-hand
   variable no equation assigns, script_lags / script_leads = deepest lag / furthest lead (0 if none; a string
   index counts as 0).
   Hypothesis: wf_program (terms are as process_term_match builds them: index None exactly for FUNCTION and KEYWORD
   terms; proved for every script, C03_every_accepted_script).  Finding #19 is repaired (b45daa1): the former guard
   fn_guard is gone from every statement, and a name both called as a function and used otherwise is rejected.
   What is NOT a theorem here (K / oracle only, or another property's): that the lexer yields the terms written in the text
   (`written in braces / angle brackets` is read off the term lists of the parser model; C01); the order of the four lists inside
   NAMES is the definition of c_names — that the generated class really computes NAMES = ENDOGENOUS + EXOGENOUS + PARAMETERS + ERRORS
   is C15_names_and_check_lines; verbatim blocks contribute no lag or lead (their text is not lexed); explicit lengths shorter
   than the script's are imposed as given (C03_lags_leads) and then the range is NOT feasible — nothing more is claimed.
   LENGTHS ARE >= 0: the range theorems assume `0 <= lags, leads`; negative explicit lags= / leads= give malformed periods in fsic
   (mirrored by the model, C03_default_range_bounds, and compared by K) and are excluded from the property's reading.
   The default range is the feasible set FOR THE CLASS'S OWN LAGS / LEADS (C03_default_range_of_program: default options);
   explicit lengths smaller than the script's are the caller's override (reads then wrap around, as in C04) — not claimed feasible.
   `assigned by an equation` = a variable in the text left of the first `=`: a second target (`Y = Z = X`, `Y = X ; X = 3`)
   is a kept finding (C03_chained_assignment_refuted).
   `two different equations` means two different NORMALISED TEXTS: any spacing difference that the normalisation keeps counts
   (C03_same_equation_different_spacing_refuted — a known finding). *)
From Coq Require Import String Ascii List Bool ZArith.
Import ListNotations.
Require Import PyBase PyStr Symbols SymbolsFacts Merge ParseEq ParseModel Classify ClassifyFacts ClassifyProgram ClassifyClass ClassifyMain ClassifyRange ClassifyScript ClassifyEndToEnd ClassifyExamples ClassifyOrder.
Open Scope string_scope.

(* Every script: whatever the syntax-check oracle `chk`, a script that the parser model accepts IS a program (its
   statements after lexing, ClassifyScript.script_program), well formed, and the accepted symbol list is that program's —
   so every theorem below about programs holds for every accepted script. *)
Theorem C03_every_accepted_script : forall chk check_syntax model syms,
  parse_model_M chk check_syntax model = POk syms ->
  exists p, script_program model = POk p /\ wf_program p = true /\ program_symbols p = Ret syms.
Proof. exact accepted_script_program. Qed.
Print Assumptions C03_every_accepted_script.

(* The four classes are the names of the script, each list in order of first appearance, selected by:
   assigned by some equation / right-hand variable never assigned / in braces / in angle brackets. *)
Theorem C03_name_lists : forall p, wf_program p = true ->
  forall syms o c, program_symbols p = Ret syms -> class_of syms o = Ret c ->
    c_endogenous c = map Some (filter (is_endogenous p) (script_names p)) /\
    c_exogenous c = map Some (filter (is_exogenous p) (script_names p)) /\
    c_parameters c = map Some (filter (is_parameter p) (script_names p)) /\
    c_errors c = map Some (filter (is_error p) (script_names p)).
Proof. exact name_lists. Qed.
Print Assumptions C03_name_lists.

(* endogenous iff some equation assigns it, parameter iff in braces, error iff in angle brackets, exogenous otherwise *)
Theorem C03_membership : forall p, wf_program p = true ->
  forall syms o c x, program_symbols p = Ret syms -> class_of syms o = Ret c ->
    (In (Some x) (c_endogenous c) <-> is_endogenous p x = true) /\
    (In (Some x) (c_parameters c) <-> is_parameter p x = true) /\
    (In (Some x) (c_errors c) <-> is_error p x = true) /\
    (In (Some x) (c_exogenous c) <-> is_exogenous p x = true).
Proof. exact membership. Qed.
Print Assumptions C03_membership.

(* NAMES = ENDOGENOUS + EXOGENOUS + PARAMETERS + ERRORS holds each name exactly once, and holds exactly the names of the
   script that are in one of the four classes *)
Theorem C03_names_partition : forall p, wf_program p = true ->
  forall syms o c, program_symbols p = Ret syms -> class_of syms o = Ret c ->
    NoDup (c_names c) /\
    (forall x, In (Some x) (c_names c) <->
               In x (script_names p) /\ (is_endogenous p x || is_exogenous p x || is_parameter p x || is_error p x = true)).
Proof. exact names_partition. Qed.
Print Assumptions C03_names_partition.

(* the symbol table itself: parse_model returns one symbol per name of the script, in order of first appearance,
   followed by the verbatim blocks in order *)
Theorem C03_symbol_order : forall p, wf_program p = true ->
  forall syms, program_symbols p = Ret syms ->
    exists d, syms = (dict_values d ++ verbatim_blocks p)%list /\ dict_keys d = script_names p /\
              forall k v, In (k, v) d -> sname v = Some k.
Proof. exact symbol_order. Qed.
Print Assumptions C03_symbol_order.

(* LAGS / LEADS: the deepest lag and the furthest lead of the script; explicit lags= / leads= replace them,
   min_lags= / min_leads= only raise them *)
Theorem C03_lags_leads : forall p, wf_program p = true ->
  forall syms o c, program_symbols p = Ret syms -> class_of syms o = Ret c ->
    (forall z, o_lags o = Some z -> c_lags c = z) /\
    (o_lags o = None -> exists m, o_min_lags o = Some m /\ c_lags c = Z.max (script_lags p) m) /\
    (forall z, o_leads o = Some z -> c_leads c = z) /\
    (o_leads o = None -> exists m, o_min_leads o = Some m /\ c_leads c = Z.max (script_leads p) m).
Proof. exact lags_leads. Qed.
Print Assumptions C03_lags_leads.

(* every accepted program builds, whatever the options, as long as each length has an explicit value or a minimum *)
Theorem C03_class_total : forall p, wf_program p = true ->
  forall syms o, program_symbols p = Ret syms ->
    (o_lags o <> None \/ o_min_lags o <> None) -> (o_leads o <> None \/ o_min_leads o <> None) ->
    exists c, class_of syms o = Ret c.
Proof. exact class_of_total. Qed.
Print Assumptions C03_class_total.

(* a rejected program: a malformed statement (ParserError), a name used in two classes (SymbolError) or an endogenous
   variable with two different equation texts (ParserError) — with the offending mentions *)
Theorem C03_rejection_classes : forall p, wf_program p = true ->
  forall x, program_symbols p = Raise x ->
    (x = ParserError /\ existsb stmt_rejected p = true) \/
    (x = SymbolError /\ exists a b, In a (amentions p) /\ In b (amentions p) /\ aname a = aname b /\ clash (atype a) (atype b)) \/
    (x = ParserError /\ exists a b, In a (amentions p) /\ In b (amentions p) /\ aname a = aname b /\ two_texts a b).
Proof. exact rejection_classes. Qed.
Print Assumptions C03_rejection_classes.

(* a name used both as variable and as parameter / error (or as parameter and error) is rejected *)
Theorem C03_conflict_rejected : forall p, wf_program p = true ->
  forall a b, In a (amentions p) -> In b (amentions p) -> aname a = aname b -> clash (atype a) (atype b) ->
    exists x, program_symbols p = Raise x /\ (x = SymbolError \/ x = ParserError).
Proof. exact conflict_rejected. Qed.
Print Assumptions C03_conflict_rejected.

(* an endogenous variable defined by two different equations is rejected *)
Theorem C03_double_definition_rejected : forall p, wf_program p = true ->
  forall a b, In a (amentions p) -> In b (amentions p) -> aname a = aname b -> two_texts a b ->
    exists x, program_symbols p = Raise x /\ (x = SymbolError \/ x = ParserError).
Proof. exact double_definition_rejected. Qed.
Print Assumptions C03_double_definition_rejected.

(* finding #19 repaired (b45daa1): a name called as a function and also used as a variable, parameter or error — inside one
   equation in either order, or in different equations — is rejected *)
Theorem C03_function_clash_rejected : forall p, wf_program p = true ->
  forall a b, In a (amentions p) -> In b (amentions p) -> aname a = aname b -> atype a = TFunction -> atype b <> TFunction ->
    exists x, program_symbols p = Raise x /\ (x = SymbolError \/ x = ParserError).
Proof. exact function_clash_rejected. Qed.
Print Assumptions C03_function_clash_rejected.
(* the former witnesses: Y = exp + exp(X), Y = exp(X) + exp, Y = {a} + a(X), and Y = a + a(1) ; Z = {a} + a(1) *)
Theorem C03_function_and_variable_rejected :
  program_symbols p19 = Raise SymbolError /\
  program_symbols [SEq [tv "Y" 0] [tf "exp"; tv "X" 0; tv "exp" 0] "e" "c"] = Raise SymbolError /\
  program_symbols [SEq [tv "Y" 0] [tp "a" 0; tf "a"; tv "X" 0] "e" "c"] = Raise SymbolError /\
  program_symbols [SEq [tf "Y"; tv "Y" 0] [tv "X" 0] "e" "c"] = Raise SymbolError.
Proof. exact function_and_variable_rejected. Qed.
Print Assumptions C03_function_and_variable_rejected.
Theorem C03_masked_conflict_rejected : program_symbols pC = Raise SymbolError.
Proof. exact masked_conflict_rejected. Qed.
Print Assumptions C03_masked_conflict_rejected.

(* the default range on a span of n labels (positions, 7cd6323): the periods t with t - LAGS >= 0 and t + LEADS <= n - 1, once each *)
Theorem C03_default_range_periods : forall n lags leads l,
  (0 <= lags)%Z -> (0 <= leads)%Z -> (lags + leads + 1 <= Z.of_nat n)%Z ->
  default_range n lags leads = Ret l ->
  NoDup l /\ forall t, In t l <-> (0 <= t - lags /\ t + leads <= Z.of_nat n - 1)%Z.
Proof. exact default_range_periods. Qed.
Print Assumptions C03_default_range_periods.

Theorem C03_default_range_value : forall n lags leads,
  (0 <= lags)%Z -> (0 <= leads)%Z -> (lags + leads + 1 <= Z.of_nat n)%Z ->
  default_range n lags leads = Ret (map (fun i => (lags + Z.of_nat i)%Z) (seq 0 (Z.to_nat (Z.of_nat n - leads - lags)))).
Proof. exact default_range_ok. Qed.
Print Assumptions C03_default_range_value.

(* for the lengths of the script: exactly the periods at which every equation reads (and writes) inside the span *)
Theorem C03_default_range_feasible : forall p n l,
  (script_lags p + script_leads p + 1 <= Z.of_nat n)%Z ->
  default_range n (script_lags p) (script_leads p) = Ret l ->
  forall t, In t l <-> (0 <= t < Z.of_nat n /\ forall k, In k (offsets (mentions p)) -> 0 <= t + k < Z.of_nat n)%Z.
Proof. exact default_range_feasible. Qed.
Print Assumptions C03_default_range_feasible.

(* shorter spans solve nothing: SolutionError on an empty span, IndexError when a length reaches the span, else no period *)
Theorem C03_default_range_short : forall n lags leads,
  (0 <= lags)%Z -> (0 <= leads)%Z -> (Z.of_nat n < lags + leads + 1)%Z ->
  default_range n lags leads =
  if Nat.eqb n 0 then Raise (SolutionError None)
  else if (Z.of_nat n <=? lags)%Z || (Z.of_nat n <=? leads)%Z then Raise IndexError else Ret [].
Proof. exact default_range_short. Qed.
Print Assumptions C03_default_range_short.

(* end to end, default options: the class built from an accepted program has LAGS / LEADS = the script's lengths, and its
   default range on a long enough span is, once each, exactly the periods at which every written offset stays inside the span *)
Theorem C03_default_lengths : forall p syms c, wf_program p = true ->
  program_symbols p = Ret syms -> class_of syms default_opts = Ret c ->
  c_lags c = script_lags p /\ c_leads c = script_leads p.
Proof. exact default_lengths. Qed.
Print Assumptions C03_default_lengths.
Theorem C03_default_range_of_program : forall p syms c n l, wf_program p = true ->
  program_symbols p = Ret syms -> class_of syms default_opts = Ret c ->
  (script_lags p + script_leads p + 1 <= Z.of_nat n)%Z ->
  default_range n (c_lags c) (c_leads c) = Ret l ->
  NoDup l /\
  forall t, In t l <-> (0 <= t < Z.of_nat n /\ forall k, In k (offsets (mentions p)) -> 0 <= t + k < Z.of_nat n)%Z.
Proof. exact default_range_of_program. Qed.
Print Assumptions C03_default_range_of_program.
(* imposed or raised lengths only shrink the range: every period kept is still feasible *)
Theorem C03_longer_lengths_stay_feasible : forall p n lags leads l,
  (script_lags p <= lags)%Z -> (script_leads p <= leads)%Z -> (lags + leads + 1 <= Z.of_nat n)%Z ->
  default_range n lags leads = Ret l ->
  forall t, In t l -> (0 <= t < Z.of_nat n /\ forall k, In k (offsets (mentions p)) -> 0 <= t + k < Z.of_nat n)%Z.
Proof. exact longer_lengths_stay_feasible. Qed.
Print Assumptions C03_longer_lengths_stay_feasible.

(* what the options must not change: the four lists and NAMES do not depend on lags / leads / min_lags / min_leads … *)
Theorem C03_lists_independent_of_options : forall p syms o1 o2 c1 c2, wf_program p = true ->
  program_symbols p = Ret syms -> class_of syms o1 = Ret c1 -> class_of syms o2 = Ret c2 ->
  c_endogenous c1 = c_endogenous c2 /\ c_exogenous c1 = c_exogenous c2 /\ c_parameters c1 = c_parameters c2 /\
  c_errors c1 = c_errors c2 /\ c_names c1 = c_names c2.
Proof. exact lists_independent_of_options. Qed.
Print Assumptions C03_lists_independent_of_options.
(* … and the lags options do not touch LEADS *)
Theorem C03_lags_options_do_not_touch_leads : forall p syms o c lg mlg, wf_program p = true ->
  program_symbols p = Ret syms -> class_of syms o = Ret c ->
  forall c', class_of syms (mkOpts lg (o_leads o) mlg (o_min_leads o)) = Ret c' -> c_leads c' = c_leads c.
Proof. exact lags_options_do_not_touch_leads. Qed.
Print Assumptions C03_lags_options_do_not_touch_leads.

(* everything composed, from the text: for every script the parser model accepts, with p its statements after lexing and
   — no name in two classes, no endogenous variable with two texts; and for every option
   set for which the class is built: the four lists, NAMES without duplicates, LAGS and LEADS *)
Theorem C03_script_end_to_end : forall chk check_syntax model syms, parse_model_M chk check_syntax model = POk syms ->
  exists p, script_program model = POk p /\ wf_program p = true /\ program_symbols p = Ret syms /\
    (  (forall a b, In a (amentions p) -> In b (amentions p) -> aname a = aname b -> ~ clash (atype a) (atype b) /\ ~ two_texts a b) /\
       forall o c, class_of syms o = Ret c ->
         c_endogenous c = map Some (filter (is_endogenous p) (script_names p)) /\
         c_exogenous c = map Some (filter (is_exogenous p) (script_names p)) /\
         c_parameters c = map Some (filter (is_parameter p) (script_names p)) /\
         c_errors c = map Some (filter (is_error p) (script_names p)) /\
         NoDup (c_names c) /\
         (forall z, o_lags o = Some z -> c_lags c = z) /\
         (o_lags o = None -> exists m, o_min_lags o = Some m /\ c_lags c = Z.max (script_lags p) m) /\
         (forall z, o_leads o = Some z -> c_leads c = z) /\
         (o_leads o = None -> exists m, o_min_leads o = Some m /\ c_leads c = Z.max (script_leads p) m)).
Proof. exact script_end_to_end. Qed.
Print Assumptions C03_script_end_to_end.

(* the exception class: a name in two classes (every statement well formed, no double definition) -> SymbolError;
   an endogenous variable with two different equation texts (no name in two classes) -> ParserError *)
Theorem C03_conflict_gives_SymbolError : forall p a b, wf_program p = true ->
  existsb stmt_rejected p = false ->
  (forall a' b', In a' (amentions p) -> In b' (amentions p) -> aname a' = aname b' -> ~ two_texts a' b') ->
  In a (amentions p) -> In b (amentions p) -> aname a = aname b -> clash (atype a) (atype b) ->
  program_symbols p = Raise SymbolError.
Proof. exact conflict_gives_SymbolError. Qed.
Print Assumptions C03_conflict_gives_SymbolError.
Theorem C03_double_definition_gives_ParserError : forall p a b, wf_program p = true ->
  (forall a' b', In a' (amentions p) -> In b' (amentions p) -> aname a' = aname b' -> ~ clash (atype a') (atype b')) ->
  In a (amentions p) -> In b (amentions p) -> aname a = aname b -> two_texts a b ->
  program_symbols p = Raise ParserError.
Proof. exact double_definition_gives_ParserError. Qed.
Print Assumptions C03_double_definition_gives_ParserError.

(* in an accepted program a name that is called as a function is used as nothing else: it is in none of the four classes *)
Theorem C03_function_names_are_not_variables : forall p syms x, wf_program p = true -> program_symbols p = Ret syms ->
  mentioned_as TFunction x (mentions p) = true ->
  is_endogenous p x = false /\ is_exogenous p x = false /\ is_parameter p x = false /\ is_error p x = false.
Proof. exact function_names_are_not_variables. Qed.
Print Assumptions C03_function_names_are_not_variables.

(* ---------- which exception: the first error in processing order (the real rule; the two theorems above with their
   "nothing else is wrong anywhere" hypotheses are corollaries for scripts with a single kind of error) ---------- *)
(* statements are parsed in order: the first statement that fails decides, whatever comes later *)
Theorem C03_first_failing_statement : forall p1 st p2 ls1 x,
  program_by_equation p1 = Ret ls1 -> stmt_symbols st = Raise x -> program_symbols (p1 ++ st :: p2) = Raise x.
Proof. exact first_failing_statement. Qed.
Print Assumptions C03_first_failing_statement.
(* every statement parses: the merge runs over the symbols in script order (merge_run: table and verbatim blocks so far);
   the first symbol whose combination with the table fails decides, whatever clashes come later *)
Theorem C03_first_failing_symbol : forall p ls l1 s l2 d1 vb1 n x,
  program_by_equation p = Ret ls -> concat ls = (l1 ++ s :: l2)%list ->
  merge_run l1 [] [] = Ret (d1, vb1) -> sname s = Some n -> dict_combine n s d1 = Raise x ->
  program_symbols p = Raise x.
Proof. exact first_failing_symbol. Qed.
Print Assumptions C03_first_failing_symbol.
(* Y = a ; Z = {a} ; Y = b -> SymbolError,  Y = b ; Y = a ; Z = {a} -> ParserError, a malformed statement before every merge error *)
Theorem C03_first_error_examples :
  program_symbols [SEq [tv "Y" 0] [tv "a" 0] "Y[t] = a[t]" "c1"; SEq [tv "Z" 0] [tp "a" 0] "Z[t] = a[t]" "c2"; SEq [tv "Y" 0] [tv "b" 0] "Y[t] = b[t]" "c3"]
    = Raise SymbolError /\
  program_symbols [SEq [tv "Y" 0] [tv "b" 0] "Y[t] = b[t]" "c3"; SEq [tv "Y" 0] [tv "a" 0] "Y[t] = a[t]" "c1"; SEq [tv "Z" 0] [tp "a" 0] "Z[t] = a[t]" "c2"]
    = Raise ParserError /\
  parse_model_nocheck ("Y = a" ++ nl_s ++ "Z = {a}" ++ nl_s ++ "Y = b") = PErr SymbolError /\
  parse_model_nocheck ("Y = b" ++ nl_s ++ "Y = a" ++ nl_s ++ "Z = {a}") = PErr ParserError /\
  parse_model_nocheck ("Y = a" ++ nl_s ++ "Z = {a}" ++ nl_s ++ "if = 1") = PErr ParserError.
Proof. exact first_error_examples. Qed.
Print Assumptions C03_first_error_examples.

(* per symbol (the anchor's state Symbol.lags / Symbol.leads): an int <= 0 and an int >= 0 that bound every offset written next to
   the name anywhere in the script (a string index counts as 0) and are 0 or attained *)
Theorem C03_symbol_lengths : forall p syms v x, wf_program p = true -> program_symbols p = Ret syms ->
  In v syms -> sname v = Some x -> unindexed_type (stype v) = false ->
  exists z z', slags v = Some (IInt z) /\ sleads v = Some (IInt z') /\ (z <= 0)%Z /\ (0 <= z')%Z /\
    (forall a, In a (amentions p) -> aname a = x -> (z <= aoff a <= z')%Z) /\
    (z = 0%Z \/ exists a, In a (amentions p) /\ aname a = x /\ aoff a = z) /\
    (z' = 0%Z \/ exists a, In a (amentions p) /\ aname a = x /\ aoff a = z').
Proof. exact symbol_lengths. Qed.
Print Assumptions C03_symbol_lengths.

(* KNOWN FINDING (reviewer-B): "defined by two DIFFERENT equations" — the same equation, same terms on both sides, written
   twice with different spacing is rejected as defined twice ('Y = X' then 'Y=X'); 'Y = X' then 'Y  =  X' is accepted *)
Theorem C03_same_equation_different_spacing_refuted :
  exists l r e1 c1 e2 c2, program_symbols [SEq l r e1 c1; SEq l r e2 c2] = Raise ParserError /\
                          parse_model_nocheck ("Y = X" ++ nl_s ++ "Y=X") = PErr ParserError /\
                          exists syms, parse_model_nocheck ("Y = X" ++ nl_s ++ "Y  =  X") = POk syms.
Proof. exact same_equation_different_spacing_refuted. Qed.
Print Assumptions C03_same_equation_different_spacing_refuted.

(* the default range for ANY integer lengths (negative explicit lags= / leads= included): whenever periods are yielded they lie
   between the positions lags and n - 1 - leads, are at most n and distinct (7cd6323: nothing wraps, PeriodIter zips the range
   with the label slice); the exact lists for negative lengths are instances in ClassifyExamples.default_range_examples *)
Theorem C03_default_range_bounds : forall n lags leads l, default_range n lags leads = Ret l ->
  (forall t, In t l -> (lags <= t <= Z.of_nat n - 1 - leads)%Z) /\ (length l <= n)%nat /\ NoDup l.
Proof. exact default_range_bounds. Qed.
Print Assumptions C03_default_range_bounds.

(* KEPT FINDING (reviewer2-B; C01 records it too): a second assignment target inside one statement is written by the generated
   code but classified EXOGENOUS — "endogenous iff some equation assigns it" fails for these accepted scripts *)
Theorem C03_chained_assignment_refuted :
  match parse_model_nocheck "Y = Z = X[-1]" with
  | POk syms => map (fun s => (sname s, stype s, scode s)) syms =
                [(Some "Y", TEndogenous, Some "self._Y[t] = self._Z[t] = self._X[t-1]"); (Some "Z", TExogenous, None); (Some "X", TExogenous, None)]
  | _ => False
  end /\
  match parse_model_nocheck "Y = X[-1] ; X = 3" with
  | POk syms => map (fun s => (sname s, stype s, scode s)) syms =
                [(Some "Y", TEndogenous, Some "self._Y[t] = self._X[t-1] ; self._X[t] = 3"); (Some "X", TExogenous, None)]
  | _ => False
  end.
Proof. exact chained_assignment_refuted. Qed.
Print Assumptions C03_chained_assignment_refuted.
