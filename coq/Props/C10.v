(* Props/C10.v — the audited surface for property C10 (label-based access addresses exactly the labelled
   periods).  Statements only; every proof is `exact <lemma>`; Print Assumptions under each.

   How to read it.  The generic theorems (C10_label_get_exact ... C10_eval_slice_agrees) are stated for an arbitrary lookup `lc`
   meeting `locate_spec` (for ALL labels).  The theorems C10_own_* at the end are the END-TO-END statements about the container's
   own accessors get_item g st / set_item g st, pointwise in the labels the key makes the container look up: they are what covers
   the property for list / tuple / range / NumPy-array spans with no hypothesis about the lookup at all (since fix 35fe7e2 a tuple
   label is compared as ONE label against a NumPy-array span, so no label is excluded any more: C10_arr_tuple_label_absent), and for
   pandas spans relative to get_loc (an oracle, or the index models of LocateIndex.v which the correspondence check compares with
   pandas on every recorded answer — a sampled tie, not a proof about pandas).
   Kept findings and documented exclusions (the model mirrors the code, K compares): a NumPy datetime64[ns] array span (span_ok
   asks obj_stable: C10_arr_datetime64ns_present_label_refuted; a float array span with a NaN label is the same defect, oracle-only);
   spans with REPEATED labels — list / tuple / range spans answer the first occurrence (C10_locate_list_index needs no
   NoDup; C10_slice_get_closed_stop_any_span), a NumPy-array span answers KeyError for a repeated label although it is present
   (C10_locate_fallback_not_unique: KEPT FINDING), an open stop resolves to the first occurrence of the last label
   (C10_dup_span_open_slice_refuted: KEPT FINDING; the oracle speaks on open-ended slices and on the unique labels of such spans;
   a CLOSED bound on a repeated label stays excluded: the position of a label that occurs twice is not defined by the text); a label None (Python reads it as an open slice bound); negative / zero steps
   (C10_negative_step_get, C10_zero_step_rejected).
   Only K / oracle, no theorem: the element type is abstract and the model does not cast — that NumPy's cast of a written value
   (2.5 into an int series, 'abc' into <U2) is read back identically through every path is checked by the direct oracle on typed
   series; pandas itself; BaseModel / linker / mixin subclasses reach the same accessors (checked by K on BaseModel and by the
   oracle on the others).
   Theorems that only unfold a definition are marked [unfolding] and cover no clause by themselves. *)
From Coq Require Import ZArith List Bool String Sorted.
Import ListNotations.
Require Import PyBase Generated Locate LocateFacts LocateFacts2 LocateOwn LocateExamples LocateIndex LocateIndexFacts.
Open Scope Z_scope.
Open Scope list_scope.

(* ---------- the coded lookups meet locate_spec (pos = first position of the label in the span) ---------- *)
(* list.index / tuple.index: every list, duplicates or not *)
Theorem C10_locate_list_index (g : list label -> label -> outcome loc) (ls : list label) :
  forall x, match pos x ls with
            | Some p => exists fl, locate g (SList ls) x = Ret (LPos (Z.of_nat p) fl)
            | None => locate g (SList ls) x = Raise KeyError
            end.
Proof. exact (locate_list_spec g ls). Qed.
Print Assumptions C10_locate_list_index.

(* range.index is arithmetic; it agrees with the search for every start, every non-zero step, every length *)
Theorem C10_locate_range_index (g : list label -> label -> outcome loc) (a s : Z) (n : nat) :
  s <> 0 ->
  forall x, match pos x (range_labels a s n) with
            | Some p => exists fl, locate g (SRange a s n) x = Ret (LPos (Z.of_nat p) fl)
            | None => locate g (SRange a s n) x = Raise KeyError
            end.
Proof. exact (locate_range_spec g a s n). Qed.
Print Assumptions C10_locate_range_index.

(* the fallback (NumPy arrays): duplicate-free span whose elements the object cast leaves alone (obj_stable: everything but the
   elements of a datetime64[ns] array — the kept finding below), ANY label (also a tuple: one label since fix 35fe7e2); a built-in int *)
Theorem C10_locate_fallback (g : list label -> label -> outcome loc) (ls : list label) (x : label) :
  NoDup ls -> obj_stable ls ->
  match pos x ls with
  | Some p => locate g (SArr ls) x = Ret (LPos (Z.of_nat p) true)
  | None => locate g (SArr ls) x = Raise KeyError
  end.
Proof. exact (locate_arr_spec g ls x). Qed.
Print Assumptions C10_locate_fallback.

(* ... and with duplicates (or no occurrence) the NotImplementedError / KeyError inside it surfaces as KeyError — for a label that
   occurs TWICE this is the kept finding `ndarray span|repeated-label-KeyError`: KeyError although the label is in the span *)
Theorem C10_locate_fallback_not_unique (g : list label -> label -> outcome loc) (ls : list label) (x : label) :
  obj_stable ls -> cnt x ls <> 1%nat -> locate g (SArr ls) x = Raise KeyError.
Proof. exact (locate_arr_not_unique g ls x). Qed.
Print Assumptions C10_locate_fallback_not_unique.

(* [unfolding] pandas: get_loc is an oracle; if its answers (exceptions mapped to KeyError) meet the spec, so does the container's
   lookup — the conclusion is the hypothesis carried through `locate`; it says that the container adds nothing to pandas' answer *)
Theorem C10_locate_pandas (g : list label -> label -> outcome loc) (ls : list label) :
  locate_spec ls (fun x => to_KeyError (g ls x)) -> locate_spec ls (locate g (SPandas ls)).
Proof. exact (locate_pandas_spec g ls). Qed.
Print Assumptions C10_locate_pandas.

(* all span types at once: with span_ok (range step <> 0; NumPy-array span duplicate-free; pandas get_loc meets the spec) the
   container's OWN lookup meets locate_spec for ALL labels — the hypothesis of every generic theorem below is discharged *)
Theorem C10_locate_meets_spec (g : list label -> label -> outcome loc) (sp : span) :
  span_ok g sp -> locate_spec (span_labels sp) (locate g sp).
Proof. exact (locate_meets_spec g sp). Qed.
Print Assumptions C10_locate_meets_spec.

(* KEPT FINDING `ndarray span (datetime64[ns])|present-label-KeyError`: the guard obj_stable of span_ok is needed — a NumPy datetime64[ns]
   array span answers KeyError for its OWN labels (the object cast of the span holds the nanoseconds as Python ints) *)
Theorem C10_arr_datetime64ns_present_label_refuted :
  exists ls x, NoDup ls /\ In x ls /\ forall g, locate g (SArr ls) x = Raise KeyError.
Proof. exact arr_datetime64ns_present_label_refuted. Qed.
Print Assumptions C10_arr_datetime64ns_present_label_refuted.

(* formerly refuted (finding: a tuple label was broadcast against a NumPy-array span and aliased a period); since fix 35fe7e2 a tuple
   label that is no element of the span is simply absent, on spans of every length *)
Theorem C10_arr_tuple_label_absent (g : list label -> label -> outcome loc) (ls : list label) (a b : Z) :
  NoDup ls -> ~ In (LPair a b) ls -> locate g (SArr ls) (LPair a b) = Raise KeyError.
Proof. exact (arr_tuple_label_absent g ls a b). Qed.
Print Assumptions C10_arr_tuple_label_absent.

(* ---------- label_get_set_exact: for EVERY lookup meeting locate_spec, every element type, every state ---------- *)
Theorem C10_label_get_exact (V : Type) (lc : label -> outcome loc) (st : cstate V) (name : string) (sr : series V) :
  locate_spec (span_labels (c_span st)) lc ->
  lookup name (c_vars st) = Some sr ->
  List.length (s_data sr) = List.length (span_labels (c_span st)) ->
  forall x p, pos x (span_labels (c_span st)) = Some p ->
  exists v, nth_error (s_data sr) p = Some v /\ get_item_with lc st name (KLabel x) = Ret (RScalar v).
Proof. exact (@label_get_exact V lc st name sr). Qed.
Print Assumptions C10_label_get_exact.

Theorem C10_label_set_exact (V : Type) (lc : label -> outcome loc) (st : cstate V) (name : string) (sr : series V) :
  locate_spec (span_labels (c_span st)) lc ->
  lookup name (c_vars st) = Some sr ->
  List.length (s_data sr) = List.length (span_labels (c_span st)) ->
  forall x p v, pos x (span_labels (c_span st)) = Some p ->
  set_item_with lc st name (KLabel x) (OScalar v) = (set_data st name sr (upd p v (s_data sr)), Ret tt).
Proof. exact (@label_set_exact V lc st name sr). Qed.
Print Assumptions C10_label_set_exact.

(* ---------- slice_positions: [name, a:b:s], s > 0, addresses exactly { pos a + i*s <= pos b }, in order,
   nothing if pos a > pos b, open ends = span ends; for all lengths ---------- *)
Theorem C10_inclusive_slice_positions (n pa pb : nat) (s : Z) :
  (pa < n)%nat -> (pb < n)%nat -> 0 < s ->
  let L := py_slice_positions n (Some (Z.of_nat pa)) (Some (Z.of_nat pb + 1)) s in
  (forall q, In q L <-> exists i : nat, Z.of_nat q = Z.of_nat pa + Z.of_nat i * s /\ (q <= pb)%nat)
  /\ StronglySorted Nat.lt L
  /\ ((pb < pa)%nat -> L = []).
Proof. exact (inclusive_slice_positions n pa pb s). Qed.
Print Assumptions C10_inclusive_slice_positions.

Theorem C10_slice_positions (V : Type) (lc : label -> outcome loc) (st : cstate V) (name : string) (sr : series V) :
  locate_spec (span_labels (c_span st)) lc ->
  lookup name (c_vars st) = Some sr ->
  List.length (s_data sr) = List.length (span_labels (c_span st)) ->
  forall (a b : option label) (s : option Z) (pa pb : nat),
  NoDup (span_labels (c_span st)) ->
  start_pos (span_labels (c_span st)) a = Some pa ->
  stop_pos (span_labels (c_span st)) b = Some pb ->
  0 < step_of s ->
  let L := py_slice_positions (List.length (s_data sr)) (Some (Z.of_nat pa)) (Some (Z.of_nat pb + 1)) (step_of s) in
  get_item_with lc st name (KSlice a b s) = Ret (RArr (gather (s_data sr) L))
  /\ Forall2 (fun p v => nth_error (s_data sr) p = Some v) L (gather (s_data sr) L)
  /\ (forall q, In q L <-> exists i : nat, Z.of_nat q = Z.of_nat pa + Z.of_nat i * step_of s /\ (q <= pb)%nat)
  /\ StronglySorted Nat.lt L
  /\ ((pb < pa)%nat -> L = []).
Proof. exact (@slice_get_exact V lc st name sr). Qed.
Print Assumptions C10_slice_positions.

Theorem C10_slice_set_exact (V : Type) (lc : label -> outcome loc) (st : cstate V) (name : string) (sr : series V) :
  locate_spec (span_labels (c_span st)) lc ->
  lookup name (c_vars st) = Some sr ->
  List.length (s_data sr) = List.length (span_labels (c_span st)) ->
  forall (a b : option label) (s : option Z) (pa pb : nat) (w : operand V) (d' : list V),
  NoDup (span_labels (c_span st)) ->
  start_pos (span_labels (c_span st)) a = Some pa ->
  stop_pos (span_labels (c_span st)) b = Some pb ->
  0 < step_of s ->
  let L := py_slice_positions (List.length (s_data sr)) (Some (Z.of_nat pa)) (Some (Z.of_nat pb + 1)) (step_of s) in
  assign (s_data sr) L w = Ret d' ->
  set_item_with lc st name (KSlice a b s) w = (set_data st name sr d', Ret tt).
Proof. exact (@slice_set_exact V lc st name sr). Qed.
Print Assumptions C10_slice_set_exact.

(* a rejected operand (sequence of the wrong length) changes nothing *)
Theorem C10_slice_set_rejected (V : Type) (lc : label -> outcome loc) (st : cstate V) (name : string) (sr : series V) :
  locate_spec (span_labels (c_span st)) lc ->
  lookup name (c_vars st) = Some sr ->
  List.length (s_data sr) = List.length (span_labels (c_span st)) ->
  forall (a b : option label) (s : option Z) (pa pb : nat) (w : operand V) (e : exn),
  NoDup (span_labels (c_span st)) ->
  start_pos (span_labels (c_span st)) a = Some pa ->
  stop_pos (span_labels (c_span st)) b = Some pb ->
  0 < step_of s ->
  assign (s_data sr) (py_slice_positions (List.length (s_data sr)) (Some (Z.of_nat pa)) (Some (Z.of_nat pb + 1)) (step_of s)) w = Raise e ->
  set_item_with lc st name (KSlice a b s) w = (st, Raise e).
Proof. exact (@slice_set_rejected V lc st name sr). Qed.
Print Assumptions C10_slice_set_rejected.

(* what the assignment stores: exactly the addressed positions change *)
Theorem C10_assign_scalar_effect (V : Type) (sr : series V) (L : list nat) (v : V) :
  (forall p, In p L -> (p < List.length (s_data sr))%nat) ->
  exists d', assign (s_data sr) L (OScalar v) = Ret d' /\ List.length d' = List.length (s_data sr)
    /\ (forall q, In q L -> nth_error d' q = Some v) /\ (forall q, ~ In q L -> nth_error d' q = nth_error (s_data sr) q).
Proof. exact (@assign_scalar_effect V sr L v). Qed.
Print Assumptions C10_assign_scalar_effect.

Theorem C10_assign_seq_effect (V : Type) (st : cstate V) (sr : series V) :
  List.length (s_data sr) = List.length (span_labels (c_span st)) ->
  forall (L : list nat) (vs : list V),
  NoDup L -> List.length vs = List.length L -> (2 <= List.length vs)%nat ->
  (forall p, In p L -> (p < List.length (s_data sr))%nat) ->
  exists d', assign (s_data sr) L (OSeq vs) = Ret d' /\ List.length d' = List.length (s_data sr)
    /\ (forall i p v, nth_error L i = Some p -> nth_error vs i = Some v -> nth_error d' p = Some v)
    /\ (forall q, ~ In q L -> nth_error d' q = nth_error (s_data sr) q).
Proof. exact (@assign_seq_effect V st sr). Qed.
Print Assumptions C10_assign_seq_effect.

(* KEPT FINDING `open-slice|repeated-label-span`: the guard NoDup is needed for open ends — "open ends meaning the ends of the span"
   fails when the last label occurs earlier: `[:]` stops at its first occurrence *)
Theorem C10_dup_span_open_slice_refuted :
  exists sp, get_item no_pandas (ex_state sp) "X" (KSlice None None None) <> Ret (RArr [10; 11; 12; 13; 14]).
Proof. exact dup_span_open_slice_refuted. Qed.
Print Assumptions C10_dup_span_open_slice_refuted.

(* ---------- write_then_read_any_path: a successful write through ANY path (label, label slice with any step and
   operand, position of either sign, whole series by scalar or sequence) leaves one stored vector d' that EVERY read path
   (attribute, name key, position of either sign, label, full label slice) returns; span, attributes, variable order
   and every other variable are untouched ---------- *)
Theorem C10_write_then_read_any_path (V : Type) (lc : label -> outcome loc) (st st' : cstate V) (name : string) (sr : series V) (w : wpath V) :
  locate_spec (span_labels (c_span st)) lc ->
  lookup name (c_vars st) = Some sr ->
  List.length (s_data sr) = List.length (span_labels (c_span st)) ->
  do_write lc st name w = (st', Ret tt) ->
  exists d' : list V,
    List.length d' = List.length (span_labels (c_span st))
    /\ get_attr st' name = Ret d' /\ get_key st' name = Ret d'
    /\ (forall x p, pos x (span_labels (c_span st)) = Some p ->
          exists v, nth_error d' p = Some v
            /\ get_item_with lc st' name (KLabel x) = Ret (RScalar v)
            /\ get_pos st' name (Z.of_nat p) = Ret v
            /\ get_pos st' name (Z.of_nat p - Z.of_nat (List.length d')) = Ret v)
    /\ (NoDup (span_labels (c_span st)) -> span_labels (c_span st) <> [] ->
          get_item_with lc st' name (KSlice None None None) = Ret (RArr d'))
    /\ same_frame st st' name.
Proof. exact (@write_then_read_any_path V lc st st' name sr w). Qed.
Print Assumptions C10_write_then_read_any_path.

(* positional writes: what is stored *)
Theorem C10_write_pos_effect (V : Type) (st : cstate V) (name : string) (sr : series V) (i : Z) (v : V) (p : nat) :
  lookup name (c_vars st) = Some sr -> py_pos (List.length (s_data sr)) i = Some p ->
  set_pos st name i v = (set_data st name sr (upd p v (s_data sr)), Ret tt).
Proof. exact (@write_pos_effect V st name sr i v p). Qed.
Print Assumptions C10_write_pos_effect.

(* ---------- missing_label_KeyError_no_alias: an absent label raises KeyError, reads nothing, changes nothing ---------- *)
Theorem C10_missing_label_get (V : Type) (lc : label -> outcome loc) (st : cstate V) (name : string) (sr : series V) :
  locate_spec (span_labels (c_span st)) lc -> lookup name (c_vars st) = Some sr ->
  forall x, pos x (span_labels (c_span st)) = None -> get_item_with lc st name (KLabel x) = Raise KeyError.
Proof. exact (@missing_label_get V lc st name sr). Qed.
Print Assumptions C10_missing_label_get.

Theorem C10_missing_label_set (V : Type) (lc : label -> outcome loc) (st : cstate V) (name : string) :
  locate_spec (span_labels (c_span st)) lc ->
  forall x (w : operand V), pos x (span_labels (c_span st)) = None -> set_item_with lc st name (KLabel x) w = (st, Raise KeyError).
Proof. exact (@missing_label_set V lc st name). Qed.
Print Assumptions C10_missing_label_set.

Theorem C10_missing_bound_get (V : Type) (lc : label -> outcome loc) (st : cstate V) (name : string) (sr : series V) :
  locate_spec (span_labels (c_span st)) lc -> lookup name (c_vars st) = Some sr ->
  forall (a b : option label) (s : option Z),
  NoDup (span_labels (c_span st)) -> bound_given_or_nonempty st a -> bound_given_or_nonempty st b ->
  (exists x, a = Some x /\ pos x (span_labels (c_span st)) = None)
  \/ (start_pos (span_labels (c_span st)) a <> None /\ exists y, b = Some y /\ pos y (span_labels (c_span st)) = None) ->
  get_item_with lc st name (KSlice a b s) = Raise KeyError.
Proof. exact (@missing_bound_get V lc st name sr). Qed.
Print Assumptions C10_missing_bound_get.

Theorem C10_missing_bound_set (V : Type) (lc : label -> outcome loc) (st : cstate V) (name : string) :
  locate_spec (span_labels (c_span st)) lc ->
  forall (a b : option label) (s : option Z) (w : operand V),
  NoDup (span_labels (c_span st)) -> bound_given_or_nonempty st a -> bound_given_or_nonempty st b ->
  (exists x, a = Some x /\ pos x (span_labels (c_span st)) = None)
  \/ (start_pos (span_labels (c_span st)) a <> None /\ exists y, b = Some y /\ pos y (span_labels (c_span st)) = None) ->
  set_item_with lc st name (KSlice a b s) w = (st, Raise KeyError).
Proof. exact (@missing_bound_set V lc st name). Qed.
Print Assumptions C10_missing_bound_set.

(* ---------- label slices through eval(): with a lookup that answers built-in ints (true of the repaired fallback)
   X[`a`:`b`:s] reads exactly what obj[name, a:b:s] reads ---------- *)
Theorem C10_eval_slice_agrees (V : Type) (lc : label -> outcome loc) (st : cstate V) (name : string) (sr : series V) :
  locate_spec (span_labels (c_span st)) lc ->
  lookup name (c_vars st) = Some sr ->
  List.length (s_data sr) = List.length (span_labels (c_span st)) ->
  (forall x i fl, lc x = Ret (LPos i fl) -> fl = true) ->
  forall (a b : option label) (s : Z) (pa pb : nat),
  NoDup (span_labels (c_span st)) ->
  start_pos (span_labels (c_span st)) a = Some pa ->
  stop_pos (span_labels (c_span st)) b = Some pb ->
  0 < s ->
  exists l, eval_slice_with lc st name a b s = Ret l /\ get_item_with lc st name (KSlice a b (Some s)) = Ret (RArr l).
Proof. exact (@eval_slice_agrees V lc st name sr). Qed.
Print Assumptions C10_eval_slice_agrees.

(* ---------- slice-valued locations (pandas partial-string lookups, e.g. the year '2000' on a quarterly PeriodIndex):
   whatever the lookup answers, a label slice starts at the start of the first location and stops at the stop of the second
   if that is a slice (pandas' stop is already exclusive), at its position + 1 otherwise ---------- *)
Theorem C10_resolve_slice_general (lc : label -> outcome loc) (sp : span) (a b : label) (s : option Z) (la lb : loc) :
  lc a = Ret la -> lc b = Ret lb ->
  resolve_slice_with lc sp (Some a) (Some b) s
  = Ret (match la with LSlice i _ => i | LPos i _ => i end,
         match lb with LSlice _ j => j | LPos j _ => j + 1 end,
         match s with Some z => z | None => 1 end).
Proof. exact (resolve_slice_general lc sp a b s la lb). Qed.
Print Assumptions C10_resolve_slice_general.

Theorem C10_slice_valued_get (V : Type) (lc : label -> outcome loc) (st : cstate V) (name : string) (sr : series V) (a b : label) (s : Z) (la lb : loc) :
  lookup name (c_vars st) = Some sr -> lc a = Ret la -> lc b = Ret lb -> 0 < s ->
  get_item_with lc st name (KSlice (Some a) (Some b) (Some s))
  = Ret (RArr (gather (s_data sr)
                (py_slice_positions (List.length (s_data sr))
                   (Some (match la with LSlice i _ => i | LPos i _ => i end))
                   (Some (match lb with LSlice _ j => j | LPos j _ => j + 1 end)) s))).
Proof. exact (@slice_valued_get V lc st name sr a b s la lb). Qed.
Print Assumptions C10_slice_valued_get.

Theorem C10_slice_valued_label_get (V : Type) (lc : label -> outcome loc) (st : cstate V) (name : string) (sr : series V) (x : label) (i j : Z) :
  lookup name (c_vars st) = Some sr -> lc x = Ret (LSlice i j) ->
  get_item_with lc st name (KLabel x) = Ret (RArr (gather (s_data sr) (py_slice_positions (List.length (s_data sr)) (Some i) (Some j) 1))).
Proof. exact (@slice_valued_label_get V lc st name sr x i j). Qed.
Print Assumptions C10_slice_valued_label_get.

(* a position outside the vector (either sign) is rejected and changes nothing — it never wraps to another period *)
Theorem C10_write_pos_out_of_range (V : Type) (st : cstate V) (name : string) (sr : series V) (i : Z) (v : V) :
  lookup name (c_vars st) = Some sr -> py_pos (List.length (s_data sr)) i = None ->
  set_pos st name i v = (st, Raise IndexError).
Proof. exact (@write_pos_out_of_range V st name sr i v). Qed.
Print Assumptions C10_write_pos_out_of_range.

(* ---------- whole-series writes (obj.X = ... / obj['X'] = ...): what is stored ---------- *)
Theorem C10_write_whole_scalar (V : Type) (st : cstate V) (name : string) (sr : series V) (v : V) (new_id : Z) :
  lookup name (c_vars st) = Some sr ->
  set_whole st name (OScalar v) new_id = (set_data st name sr (map (fun _ => v) (s_data sr)), Ret tt).
Proof. exact (fun H => @write_whole_scalar V st name sr H v new_id). Qed.
Print Assumptions C10_write_whole_scalar.

Theorem C10_write_whole_seq (V : Type) (st : cstate V) (name : string) (sr : series V) (vs : list V) (new_id : Z) :
  lookup name (c_vars st) = Some sr ->
  List.length vs = List.length (span_labels (c_span st)) ->
  exists st', set_whole st name (OSeq vs) new_id = (st', Ret tt)
    /\ lookup name (c_vars st') = Some (mkSeries (s_dtype sr) new_id vs)
    /\ c_span st' = c_span st /\ c_attrs st' = c_attrs st /\ c_strict st' = c_strict st
    /\ map fst (c_vars st') = map fst (c_vars st)
    /\ (forall k, k <> name -> lookup k (c_vars st') = lookup k (c_vars st)).
Proof. exact (fun H => @write_whole_seq V st name sr H vs new_id). Qed.
Print Assumptions C10_write_whole_seq.

Theorem C10_write_whole_wrong_length (V : Type) (st : cstate V) (name : string) (sr : series V) (vs : list V) (new_id : Z) :
  lookup name (c_vars st) = Some sr ->
  List.length vs <> List.length (span_labels (c_span st)) ->
  set_whole st name (OSeq vs) new_id = (st, Raise DimensionError).
Proof. exact (fun H => @write_whole_wrong_length V st name sr H vs new_id). Qed.
Print Assumptions C10_write_whole_wrong_length.

(* an unknown variable name (incl. 'attributes' / 'strict', since fix 216fc36 also on the tuple-key write path): every access path
   raises KeyError (AttributeError for the attribute read) before anything is located or written; the object is unchanged *)
Theorem C10_unknown_name_paths (V : Type) (lc : label -> outcome loc) (st : cstate V) (name : string) :
  lookup name (c_vars st) = None ->
  (forall k, get_item_with lc st name k = Raise KeyError)
  /\ get_key st name = Raise KeyError /\ get_attr st name = Raise AttributeError
  /\ (forall k w, set_item_with lc st name k w = (st, Raise KeyError))
  /\ (forall i v, set_pos st name i v = (st, Raise KeyError))
  /\ (forall w id, set_whole st name w id = (st, Raise KeyError)).
Proof. exact (@unknown_name_paths V lc st name). Qed.
Print Assumptions C10_unknown_name_paths.

Theorem C10_unknown_name_before_lookup (V : Type) (lc1 lc2 : label -> outcome loc) (st : cstate V) (name : string) (k : key) (w : operand V) :
  lookup name (c_vars st) = None -> set_item_with lc1 st name k w = set_item_with lc2 st name k w.
Proof. exact (@unknown_name_before_lookup V lc1 lc2 st name k w). Qed.
Print Assumptions C10_unknown_name_before_lookup.

(* ---------- pandas PeriodIndex / DatetimeIndex relative to a hand-written MODEL of Index.get_loc for regular indexes
   (period_range: consecutive integer ordinals of one frequency; date_range with a fixed-length frequency: nanoseconds with a
   constant step).  The model finds a label by its integer code.  What is PROVED is that the model meets `locate_spec` (every start,
   every non-zero step, every length, both kinds) and that its labels are duplicate-free — facts about the model.  That pandas
   behaves like the model is NOT proved: the correspondence check compares the model with every recorded get_loc / `in` answer
   (pd_model_ok; labels pandas parses from text excluded) — a sampled tie.  `recognise`, which K uses to decide that a recorded
   index is regular, accepts positive steps only (pandas date / period ranges are increasing); the theorems hold for s <> 0. ---------- *)
Theorem C10_regular_index_get_loc (k : ikind) (a s : Z) (n : nat) :
  s <> 0 ->
  forall x, match pos x (reg_labels k a s n) with
            | Some p => exists fl, reg_get_loc k a s n x = Ret (LPos (Z.of_nat p) fl)
            | None => reg_get_loc k a s n x = Raise KeyError
            end.
Proof. exact (reg_get_loc_spec k a s n). Qed.
Print Assumptions C10_regular_index_get_loc.

Theorem C10_locate_regular_index (k : ikind) (a s : Z) (n : nat) :
  s <> 0 -> locate_spec (reg_labels k a s n) (locate (fun _ => reg_get_loc k a s n) (SPandas (reg_labels k a s n))).
Proof. exact (locate_regular_index k a s n). Qed.
Print Assumptions C10_locate_regular_index.

Theorem C10_regular_index_NoDup (k : ikind) (a s : Z) (n : nat) : s <> 0 -> NoDup (reg_labels k a s n).
Proof. exact (reg_labels_NoDup k a s n). Qed.
Print Assumptions C10_regular_index_NoDup.

Theorem C10_regular_index_contains (k : ikind) (a s : Z) (n : nat) (x : label) :
  s <> 0 -> reg_contains k a s n x = match pos x (reg_labels k a s n) with Some _ => true | None => false end.
Proof. exact (reg_contains_spec k a s n x). Qed.
Print Assumptions C10_regular_index_contains.

(* any pandas span whose labels are recognised as such an index is span_ok, whatever oracle serves the other spans *)
Theorem C10_recognised_span_ok (fb : list label -> label -> outcome loc) (ls : list label) :
  recognise ls <> None -> span_ok (model_get_loc fb) (SPandas ls).
Proof. exact (recognised_span_ok fb ls). Qed.
Print Assumptions C10_recognised_span_ok.

(* ---------- OUTSIDE the property (it speaks of positive steps only; the oracle is silent there): what the code does with a
   negative step or step 0, on record.  `stop_location += 1` is applied whatever the sign of the step, so with s < 0 the walk
   down from pos a stops BEFORE pos b + 1: neither the stop label nor the period after it is addressed.  Step 0: ValueError. ---------- *)
Theorem C10_negative_step_get (V : Type) (lc : label -> outcome loc) (st : cstate V) (name : string) (sr : series V)
        (a b : option label) (s : Z) (pa pb : nat) :
  locate_spec (span_labels (c_span st)) lc ->
  lookup name (c_vars st) = Some sr ->
  List.length (s_data sr) = List.length (span_labels (c_span st)) ->
  NoDup (span_labels (c_span st)) ->
  start_pos (span_labels (c_span st)) a = Some pa -> stop_pos (span_labels (c_span st)) b = Some pb -> s < 0 ->
  exists L, get_item_with lc st name (KSlice a b (Some s)) = Ret (RArr (gather (s_data sr) L))
    /\ forall q, In q L <-> exists i : nat, Z.of_nat q = Z.of_nat pa + Z.of_nat i * s /\ Z.of_nat pb + 1 < Z.of_nat q.
Proof. exact (@negative_step_get V lc st name sr a b s pa pb). Qed.
Print Assumptions C10_negative_step_get.

Theorem C10_zero_step_rejected (V : Type) (lc : label -> outcome loc) (st : cstate V) (name : string) (sr : series V)
        (a b : option label) (pa pb : nat) (w : operand V) :
  locate_spec (span_labels (c_span st)) lc ->
  lookup name (c_vars st) = Some sr ->
  NoDup (span_labels (c_span st)) ->
  start_pos (span_labels (c_span st)) a = Some pa -> stop_pos (span_labels (c_span st)) b = Some pb ->
  get_item_with lc st name (KSlice a b (Some 0)) = Raise ValueError
  /\ set_item_with lc st name (KSlice a b (Some 0)) w = (st, Raise ValueError).
Proof. exact (@zero_step_rejected V lc st name sr a b pa pb w). Qed.
Print Assumptions C10_zero_step_rejected.

(* [restatement] any other pandas index (pd.Index of ints / strs, an irregular DatetimeIndex): the plain model of get_loc IS
   index_from (first position), so this is C10_locate_list_index again; its content is the sampled tie to pandas in K *)
Theorem C10_plain_index_get_loc (ls : list label) : locate_spec ls (plain_get_loc ls).
Proof. exact (plain_get_loc_spec ls). Qed.
Print Assumptions C10_plain_index_get_loc.
Theorem C10_plain_span_ok (ls : list label) : span_ok (fun l => plain_get_loc l) (SPandas ls).
Proof. exact (plain_span_ok ls). Qed.
Print Assumptions C10_plain_span_ok.

(* ---------- end to end: a label-slice write, then reads by label — exactly the addressed periods changed ---------- *)
Theorem C10_slice_write_then_label_reads (V : Type) (lc : label -> outcome loc) (st : cstate V) (name : string) (sr : series V)
        (a b : option label) (s : option Z) (pa pb : nat) (v : V) :
  locate_spec (span_labels (c_span st)) lc ->
  lookup name (c_vars st) = Some sr ->
  List.length (s_data sr) = List.length (span_labels (c_span st)) ->
  NoDup (span_labels (c_span st)) ->
  start_pos (span_labels (c_span st)) a = Some pa -> stop_pos (span_labels (c_span st)) b = Some pb -> 0 < step_of s ->
  exists st', set_item_with lc st name (KSlice a b s) (OScalar v) = (st', Ret tt)
    /\ c_span st' = c_span st
    /\ forall x p, pos x (span_labels (c_span st)) = Some p ->
         ((exists i : nat, Z.of_nat p = Z.of_nat pa + Z.of_nat i * step_of s /\ (p <= pb)%nat) ->
            get_item_with lc st' name (KLabel x) = Ret (RScalar v))
         /\ (~ (exists i : nat, Z.of_nat p = Z.of_nat pa + Z.of_nat i * step_of s /\ (p <= pb)%nat) ->
               forall old, nth_error (s_data sr) p = Some old -> get_item_with lc st' name (KLabel x) = Ret (RScalar old)).
Proof. exact (@slice_write_then_label_reads V lc st name sr a b s pa pb v). Qed.
Print Assumptions C10_slice_write_then_label_reads.

(* ================= END TO END: the container's own accessors =================
   get_item g st / set_item g st are the accessors with the container's own lookup locate g (c_span st).  Only hypothesis about the
   span: span_ok (range step <> 0; NumPy-array span duplicate-free; pandas: get_loc meets the spec).  No condition on the labels. *)
(* an access uses the lookup only for the labels of its key (and the span's ends for open slices) *)
Theorem C10_get_item_depends_on_key_labels (V : Type) (lc lc' : label -> outcome loc) (st : cstate V) (name : string) (k : key) :
  (forall x, In x (key_labels (c_span st) k) -> lc x = lc' x) ->
  get_item_with lc st name k = get_item_with lc' st name k.
Proof. exact (@get_item_with_ext V lc lc' st name k). Qed.
Print Assumptions C10_get_item_depends_on_key_labels.
Theorem C10_set_item_depends_on_key_labels (V : Type) (lc lc' : label -> outcome loc) (st : cstate V) (name : string) (k : key) (w : operand V) :
  (forall x, In x (key_labels (c_span st) k) -> lc x = lc' x) ->
  set_item_with lc st name k w = set_item_with lc' st name k w.
Proof. exact (@set_item_with_ext V lc lc' st name k w). Qed.
Print Assumptions C10_set_item_depends_on_key_labels.

Theorem C10_own_label_get_exact (g : list label -> label -> outcome loc) (V : Type) (st : cstate V) (name : string) (sr : series V) (x : label) (p : nat) :
  span_ok g (c_span st) -> lookup name (c_vars st) = Some sr ->
  List.length (s_data sr) = List.length (span_labels (c_span st)) ->
  pos x (span_labels (c_span st)) = Some p ->
  exists v, nth_error (s_data sr) p = Some v /\ get_item g st name (KLabel x) = Ret (RScalar v).
Proof. exact (fun H1 H2 H3 => @own_label_get_exact g V st name sr H1 H2 H3 x p). Qed.
Print Assumptions C10_own_label_get_exact.

Theorem C10_own_label_set_exact (g : list label -> label -> outcome loc) (V : Type) (st : cstate V) (name : string) (sr : series V) (x : label) (p : nat) (v : V) :
  span_ok g (c_span st) -> lookup name (c_vars st) = Some sr ->
  List.length (s_data sr) = List.length (span_labels (c_span st)) ->
  pos x (span_labels (c_span st)) = Some p ->
  set_item g st name (KLabel x) (OScalar v) = (set_data st name sr (upd p v (s_data sr)), Ret tt).
Proof. exact (fun H1 H2 H3 => @own_label_set_exact g V st name sr H1 H2 H3 x p v). Qed.
Print Assumptions C10_own_label_set_exact.

(* a label that is not in the span: KeyError, nothing read, nothing written — never another period *)
Theorem C10_own_missing_label (g : list label -> label -> outcome loc) (V : Type) (st : cstate V) (name : string) (sr : series V) (x : label) (w : operand V) :
  span_ok g (c_span st) -> lookup name (c_vars st) = Some sr ->
  pos x (span_labels (c_span st)) = None ->
  get_item g st name (KLabel x) = Raise KeyError /\ set_item g st name (KLabel x) w = (st, Raise KeyError).
Proof. exact (fun H1 H2 => @own_missing_label g V st name sr H1 H2 x w). Qed.
Print Assumptions C10_own_missing_label.

Theorem C10_own_slice_get_exact (g : list label -> label -> outcome loc) (V : Type) (st : cstate V) (name : string) (sr : series V)
        (a b : option label) (s : option Z) (pa pb : nat) :
  span_ok g (c_span st) -> lookup name (c_vars st) = Some sr ->
  List.length (s_data sr) = List.length (span_labels (c_span st)) ->
  NoDup (span_labels (c_span st)) ->
  start_pos (span_labels (c_span st)) a = Some pa -> stop_pos (span_labels (c_span st)) b = Some pb -> 0 < step_of s ->
  let L := py_slice_positions (List.length (s_data sr)) (Some (Z.of_nat pa)) (Some (Z.of_nat pb + 1)) (step_of s) in
  get_item g st name (KSlice a b s) = Ret (RArr (gather (s_data sr) L))
  /\ (forall q, In q L <-> exists i : nat, Z.of_nat q = Z.of_nat pa + Z.of_nat i * step_of s /\ (q <= pb)%nat)
  /\ ((pb < pa)%nat -> L = []).
Proof. exact (fun H1 H2 H3 => @own_slice_get_exact g V st name sr H1 H2 H3 a b s pa pb). Qed.
Print Assumptions C10_own_slice_get_exact.

Theorem C10_own_slice_set_exact (g : list label -> label -> outcome loc) (V : Type) (st : cstate V) (name : string) (sr : series V)
        (a b : option label) (s : option Z) (pa pb : nat) (w : operand V) (d' : list V) :
  span_ok g (c_span st) -> lookup name (c_vars st) = Some sr ->
  List.length (s_data sr) = List.length (span_labels (c_span st)) ->
  NoDup (span_labels (c_span st)) ->
  start_pos (span_labels (c_span st)) a = Some pa -> stop_pos (span_labels (c_span st)) b = Some pb -> 0 < step_of s ->
  assign (s_data sr) (py_slice_positions (List.length (s_data sr)) (Some (Z.of_nat pa)) (Some (Z.of_nat pb + 1)) (step_of s)) w = Ret d' ->
  set_item g st name (KSlice a b s) w = (set_data st name sr d', Ret tt).
Proof. exact (fun H1 H2 H3 => @own_slice_set_exact g V st name sr H1 H2 H3 a b s pa pb w d'). Qed.
Print Assumptions C10_own_slice_set_exact.

Theorem C10_own_missing_bound (g : list label -> label -> outcome loc) (V : Type) (st : cstate V) (name : string) (sr : series V)
        (a b : option label) (s : option Z) (w : operand V) :
  span_ok g (c_span st) -> lookup name (c_vars st) = Some sr ->
  NoDup (span_labels (c_span st)) ->
  bound_given_or_nonempty st a -> bound_given_or_nonempty st b ->
  (exists x, a = Some x /\ pos x (span_labels (c_span st)) = None)
  \/ (start_pos (span_labels (c_span st)) a <> None /\ exists y, b = Some y /\ pos y (span_labels (c_span st)) = None) ->
  get_item g st name (KSlice a b s) = Raise KeyError /\ set_item g st name (KSlice a b s) w = (st, Raise KeyError).
Proof. exact (fun H1 H2 => @own_missing_bound g V st name sr H1 H2 a b s w). Qed.
Print Assumptions C10_own_missing_bound.

(* every write path of the container itself (label, label slice, position, whole series), every read path *)
Theorem C10_own_write_then_read_any_path (g : list label -> label -> outcome loc) (V : Type) (st st' : cstate V) (name : string) (sr : series V) (w : wpath V) :
  span_ok g (c_span st) -> lookup name (c_vars st) = Some sr ->
  List.length (s_data sr) = List.length (span_labels (c_span st)) ->
  do_write (locate g (c_span st)) st name w = (st', Ret tt) ->
  exists d' : list V,
    List.length d' = List.length (span_labels (c_span st))
    /\ get_attr st' name = Ret d' /\ get_key st' name = Ret d'
    /\ (forall x p, pos x (span_labels (c_span st)) = Some p ->
          exists v, nth_error d' p = Some v
            /\ get_item_with (locate g (c_span st)) st' name (KLabel x) = Ret (RScalar v)
            /\ get_pos st' name (Z.of_nat p) = Ret v
            /\ get_pos st' name (Z.of_nat p - Z.of_nat (List.length d')) = Ret v)
    /\ (NoDup (span_labels (c_span st)) -> span_labels (c_span st) <> [] ->
          get_item_with (locate g (c_span st)) st' name (KSlice None None None) = Ret (RArr d'))
    /\ same_frame st st' name.
Proof. exact (fun H1 H2 H3 => @own_write_then_read_any_path g V st name sr H1 H2 H3 st' w). Qed.
Print Assumptions C10_own_write_then_read_any_path.

(* repeated labels: with a GIVEN stop label the slice statement needs no NoDup (list / tuple spans look labels up by first occurrence) *)
Theorem C10_slice_get_closed_stop_any_span (V : Type) (lc : label -> outcome loc) (st : cstate V) (name : string) (sr : series V)
        (a : option label) (y : label) (s : option Z) (pa pb : nat) :
  locate_spec (span_labels (c_span st)) lc ->
  lookup name (c_vars st) = Some sr ->
  List.length (s_data sr) = List.length (span_labels (c_span st)) ->
  start_pos (span_labels (c_span st)) a = Some pa -> pos y (span_labels (c_span st)) = Some pb -> 0 < step_of s ->
  let L := py_slice_positions (List.length (s_data sr)) (Some (Z.of_nat pa)) (Some (Z.of_nat pb + 1)) (step_of s) in
  get_item_with lc st name (KSlice a (Some y) s) = Ret (RArr (gather (s_data sr) L))
  /\ (forall q, In q L <-> exists i : nat, Z.of_nat q = Z.of_nat pa + Z.of_nat i * step_of s /\ (q <= pb)%nat)
  /\ ((pb < pa)%nat -> L = []).
Proof. exact (@slice_get_closed_stop_any_span V lc st name sr a y s pa pb). Qed.
Print Assumptions C10_slice_get_closed_stop_any_span.
