(* Props/C08.v — the audited surface for property C08 (the linker solves its submodels jointly and consistently).
   Statements only; every proof is `exact <lemma>`; Print Assumptions under each.
   Quantification: any number type and arithmetic (so NaNs / infinities included), any `_evaluate` of any submodel
   (sev), any four linker hooks (pre = solve_t_before, ebefore = evaluate_t_before, eafter = evaluate_t_after,
   post = solve_t_after), any selection (None = default = insertion order), any options, any state.

   HOW TO READ THIS FILE.  Three kinds of theorems, marked in their comments:
   [clause]   states a clause of the property's text about the model (the substantive ones: event order, the convergence clause
              entry by entry with shape preservation, stamping and counter equality, unselected / other-period frames, KeyError,
              constructor acceptance / rejection / maxima, default range, the two guards, single-model equivalence for solve_t
              and for solve over a range, failure containment);
   [code]     states what the code does where the property's text is silent (raise paths, which counters are already zeroed
              at a KeyError, statuses only '.' / 'F', errors= merely handed down): true of the faithful model,
              NOT a requirement — repairing finding twin|no-error-policy will change these theorems with the model;
   [unfold]   a one-step unfolding of a definition kept as an interface lemma (no assurance beyond the correspondence K).
   PREMISES OF THE TWIN CLAUSE (C08_single_model_linker_eq_model / ..._solve_eq_model_solve): the model's own solve_t_before /
   solve_t_after do nothing (id_hook) — a linker never calls a submodel's hooks, so a model whose hooks write values is solved
   differently by the two (e.g. solve_t_before setting X[t] = 5 with Y = X: direct Y = 5, through a linker Y = 0): stated
   premise, also in ASSUMPTIONS; the model is not keyed '_'; finite regime (kept finding twin|no-error-policy).
   `_refuted` theorems are witnesses of kept findings.  Only K / the oracle (no theorem): that the scripted / recorded oracles
   are what the Python objects do; copy()/deepcopy independence (C11's subject, observed only); histories (composition of the
   per-call theorems, checked by K and by the oracle call by call). *)
From Coq Require Import ZArith List Bool PrimFloat.
Import ListNotations.
Require Import PyBase Solver SolverFacts SolverF SolveAll SolveAllFacts Linker LinkerFacts LinkerFacts2 LinkerFacts3 LinkerFacts4 LinkerRange LinkerFacts5 LinkerFacts6 LinkerFacts7 LinkerFacts8 LinkerF LinkerExamples LinkerExamples2.
Open Scope Z_scope.

(* ---------------------------------------------------------------- what NO path of solve_t changes *)
(* keys and order of the submodel dictionary, every descriptor (check / endogenous lists, lags, leads), every series
   length; the log only grows, and every evaluation event it gains names a selected submodel *)
Theorem C08_solve_t_preserves_shape :
  forall (num : Type) (sub : num -> num -> num) (absf : num -> num) (ltb : num -> num -> bool) (zero : num)
         (sev : sid -> hook num) (pre ebefore eafter post : lhook num)
         (sel : option (list sid)) (o : opts num) (t : Z) (s : lstate num),
    srel num (sel_ids num sel s) s (fst (linker_solve_t_M num sub absf ltb zero sev pre ebefore eafter post sel o t s)).
Proof. exact solve_t_preserves_shape_M. Qed.

(* unselected submodels are never evaluated — on every path, exceptions included *)
Theorem C08_unselected_never_evaluated :
  forall (num : Type) (sub : num -> num -> num) (absf : num -> num) (ltb : num -> num -> bool) (zero : num)
         (sev : sid -> hook num) (pre ebefore eafter post : lhook num)
         (sel : option (list sid)) (o : opts num) (t : Z) (s : lstate num) (id : sid),
    selected (sel_ids num sel s) id = false ->
    exists evs, l_log (fst (linker_solve_t_M num sub absf ltb zero sev pre ebefore eafter post sel o t s)) = l_log s ++ evs /\
                forall t' k, ~ In (LSub id t' k) evs.
Proof. exact unselected_never_evaluated_M. Qed.

(* ... nor re-stamped: status series, iteration counters, descriptor, private log exactly as they were (only a hook
   may have written values) — on every path *)
Theorem C08_unselected_not_restamped :
  forall (num : Type) (sub : num -> num -> num) (absf : num -> num) (ltb : num -> num -> bool) (zero : num)
         (sev : sid -> hook num) (pre ebefore eafter post : lhook num)
         (sel : option (list sid)) (o : opts num) (t : Z) (s : lstate num) (i : nat) (id : sid) (c : comp num),
    nth_error (l_subs s) i = Some (id, c) -> selected (sel_ids num sel s) id = false ->
    exists v, nth_error (l_subs (fst (linker_solve_t_M num sub absf ltb zero sev pre ebefore eafter post sel o t s))) i
              = Some (id, with_cvals num c v).
Proof. exact unselected_not_restamped_M. Qed.

(* ... and untouched altogether when no hook writes its values *)
Theorem C08_unselected_untouched :
  forall (num : Type) (sub : num -> num -> num) (absf : num -> num) (ltb : num -> num -> bool) (zero : num)
         (sev : sid -> hook num) (pre ebefore eafter post : lhook num)
         (sel : option (list sid)) (o : opts num) (t : Z) (s : lstate num) (i : nat) (id : sid) (c : comp num),
    nth_error (l_subs s) i = Some (id, c) -> selected (sel_ids num sel s) id = false ->
    hook_keeps num i pre -> hook_keeps num i ebefore -> hook_keeps num i eafter -> hook_keeps num i post ->
    nth_error (l_subs (fst (linker_solve_t_M num sub absf ltb zero sev pre ebefore eafter post sel o t s))) i = Some (id, c).
Proof. exact unselected_untouched_M. Qed.

(* [clause: an unknown id raises KeyError] + [code: it does so before any hook runs, and exactly the counters of the ids
   listed BEFORE it have been zeroed by then (subs1); the text does not ask for that — validating all ids first would be fine] *)
Theorem C08_unknown_id_KeyError :
  forall (num : Type) (sub : num -> num -> num) (absf : num -> num) (ltb : num -> num -> bool) (zero : num)
         (sev : sid -> hook num) (pre ebefore eafter post : lhook num)
         (sel : option (list sid)) (o : opts num) (t : Z) (s : lstate num)
         (before : list sid) (bad : sid) (after : list sid) (cur : list (list num)) (subs1 : list (sid * comp num)),
    forall (s_call : lstate num),                      (* the state solve_t is called on *)
    min_iter o <= max_iter o ->                        (* both guards passed: not rejected with ValueError ... *)
    linker_infeasible (c_desc (l_core s_call)) (length (status (c_st (l_core s_call)))) t = false ->     (* ... nor with IndexError *)
    (* s = the state after the offset seeding (s = s_call when offset = 0; Linker.seeded otherwise) *)
    linker_seed num zero (sel_ids num sel s_call) o t s_call = (s, None) ->
    sel_ids num sel s = before ++ bad :: after ->
    find_sub num bad (l_subs s) = None ->
    get_check_values num zero (sel_ids num sel s) t s = inl cur ->
    zero_iters num before t (l_subs s) = (subs1, None) ->
    linker_solve_t_M num sub absf ltb zero sev pre ebefore eafter post sel o t s_call
    = (mkL (l_core s) subs1 (l_log s), LRaise (LExn KeyError)).
Proof. exact unknown_id_KeyError_M. Qed.

(* ---------------------------------------------------------------- the call when no hook / submodel raises *)
(* [unfold + loop induction] the bookkeeping equation of a quiet call (least converging iteration via find_first over lconvk,
   then lfinish); an interface lemma: the clauses are the theorems below that are derived from it *)
Theorem C08_solve_t_quiet_spec :
  forall (num : Type) (sub : num -> num -> num) (absf : num -> num) (ltb : num -> num -> bool) (zero : num)
         (sev : sid -> hook num) (pre ebefore eafter post : lhook num)
         (sel : option (list sid)) (o : opts num) (t : Z) (s : lstate num)
         (c0 : list (list num)) (subs1 : list (sid * comp num)) (s1 : lstate num),
    forall (s_call : lstate num),                      (* the state solve_t is called on *)
    min_iter o <= max_iter o ->                        (* both guards passed: not rejected with ValueError ... *)
    linker_infeasible (c_desc (l_core s_call)) (length (status (c_st (l_core s_call)))) t = false ->     (* ... nor with IndexError *)
    (* s = the state after the offset seeding (s = s_call when offset = 0; Linker.seeded otherwise) *)
    linker_seed num zero (sel_ids num sel s_call) o t s_call = (s, None) ->
    let ids := sel_ids num sel s in
    let N := Z.to_nat (max_iter o) in
    get_check_values num zero ids t s = inl c0 ->
    zero_iters num ids t (l_subs s) = (subs1, None) ->
    run_hook num pre ids o t 0%nat (LPre t) (mkL (l_core s) subs1 (l_log s)) = (s1, None) ->
    quiet_upto num sev ebefore eafter ids o t s1 N ->
    linker_solve_t_M num sub absf ltb zero sev pre ebefore eafter post sel o t s_call =
    lfinish num o ids t
      (match find_first (lconvk num sub absf ltb zero sev ebefore eafter ids o t c0 s1) 1 N with
       | Some k0 => match run_hook num post ids o t k0 (LPost t k0) (lst_after num sev ebefore eafter ids o t s1 k0) with
                    | (s2, Some e) => LLRaise s2 e
                    | (s2, None) => LLDone s2 Solved k0
                    end
       | None => LLDone (lst_after num sev ebefore eafter ids o t s1 N) Failed N
       end).
Proof. exact solve_t_quiet_spec_M. Qed.

(* order of events: pre-hook once; per iteration Before_k, every listed submodel once in the order listed, After_k;
   post-hook once, right after the converging iteration, and only then *)
Theorem C08_linker_event_order :
  forall (num : Type) (sub : num -> num -> num) (absf : num -> num) (ltb : num -> num -> bool) (zero : num)
         (sev : sid -> hook num) (pre ebefore eafter post : lhook num)
         (sel : option (list sid)) (o : opts num) (t : Z) (s : lstate num)
         (c0 : list (list num)) (subs1 : list (sid * comp num)) (s1 : lstate num),
    forall (s_call : lstate num),                      (* the state solve_t is called on *)
    min_iter o <= max_iter o ->                        (* both guards passed: not rejected with ValueError ... *)
    linker_infeasible (c_desc (l_core s_call)) (length (status (c_st (l_core s_call)))) t = false ->     (* ... nor with IndexError *)
    (* s = the state after the offset seeding (s = s_call when offset = 0; Linker.seeded otherwise) *)
    linker_seed num zero (sel_ids num sel s_call) o t s_call = (s, None) ->
    let ids := sel_ids num sel s in
    let N := Z.to_nat (max_iter o) in
    get_check_values num zero ids t s = inl c0 ->
    zero_iters num ids t (l_subs s) = (subs1, None) ->
    run_hook num pre ids o t 0%nat (LPre t) (mkL (l_core s) subs1 (l_log s)) = (s1, None) ->
    quiet_upto num sev ebefore eafter ids o t s1 N ->
    l_log (fst (linker_solve_t_M num sub absf ltb zero sev pre ebefore eafter post sel o t s_call)) =
    l_log s ++ [LPre t] ++
    match find_first (lconvk num sub absf ltb zero sev ebefore eafter ids o t c0 s1) 1 N with
    | Some k0 => flat_map (iter_events ids t) (seq 1 k0) ++ [LPost t k0]
    | None => flat_map (iter_events ids t) (seq 1 N)
    end.
Proof. exact linker_event_order_M. Qed.

(* stops at the LEAST k in [max 1 min_iter, max_iter] at which every check variable of the linker and of every selected
   submodel moved by strictly less than tol (lconvk over check_vec): True, '.', k on the linker and on every selected
   submodel (counter = k x multiplicity in the selection), values = those after the post-hook, other periods and
   unselected submodels unchanged in status / iterations *)
Theorem C08_linker_converges_at_least_k :
  forall (num : Type) (sub : num -> num -> num) (absf : num -> num) (ltb : num -> num -> bool) (zero : num)
         (sev : sid -> hook num) (pre ebefore eafter post : lhook num)
         (sel : option (list sid)) (o : opts num) (t : Z) (p : nat) (s : lstate num)
         (subs1 : list (sid * comp num)) (s1 : lstate num) (k0 : nat),
    forall (s_call : lstate num),                      (* the state solve_t is called on *)
    min_iter o <= max_iter o ->                        (* both guards passed: not rejected with ValueError ... *)
    linker_infeasible (c_desc (l_core s_call)) (length (status (c_st (l_core s_call)))) t = false ->     (* ... nor with IndexError *)
    (* s = the state after the offset seeding (s = s_call when offset = 0; Linker.seeded otherwise) *)
    linker_seed num zero (sel_ids num sel s_call) o t s_call = (s, None) ->
    let ids := sel_ids num sel s in
    let N := Z.to_nat (max_iter o) in
    let c0 := check_vec num zero ids p s in
    wf num t p s ->
    zero_iters num ids t (l_subs s) = (subs1, None) ->
    run_hook num pre ids o t 0%nat (LPre t) (mkL (l_core s) subs1 (l_log s)) = (s1, None) ->
    quiet_upto num sev ebefore eafter ids o t s1 N ->
    (forall k s', snd (run_hook num post ids o t k (LPost t k) s') = None) ->
    (1 <= k0 <= N)%nat -> lconvk num sub absf ltb zero sev ebefore eafter ids o t c0 s1 k0 = true ->
    (forall j, (1 <= j < k0)%nat -> lconvk num sub absf ltb zero sev ebefore eafter ids o t c0 s1 j = false) ->
    let r := linker_solve_t_M num sub absf ltb zero sev pre ebefore eafter post sel o t s_call in
    let s2 := fst (run_hook num post ids o t k0 (LPost t k0) (lst_after num sev ebefore eafter ids o t s1 k0)) in
    snd r = LRet true /\
    status (c_st (l_core (fst r))) = upd p Solved (status (c_st (l_core s))) /\
    iters (c_st (l_core (fst r))) = upd p (Z.of_nat k0) (iters (c_st (l_core s))) /\
    vals_of (c_st (l_core (fst r))) = vals_of (c_st (l_core s2)) /\
    (forall id, vview num id (l_subs (fst r)) = vview num id (l_subs s2)) /\
    l_log (fst r) = l_log s ++ [LPre t] ++ flat_map (iter_events ids t) (seq 1 k0) ++ [LPost t k0] /\
    (forall id c, find_sub num id (l_subs s) = Some c ->
       exists c', find_sub num id (l_subs (fst r)) = Some c' /\
         status (c_st c') = (if selected ids id then upd p Solved (status (c_st c)) else status (c_st c)) /\
         iters (c_st c') = (if selected ids id then upd p (Z.of_nat (k0 * cnt id ids)) (iters (c_st c)) else iters (c_st c))).
Proof. exact linker_converges_at_least_k_M. Qed.

(* no such k (incl. max_iter <= 0 and min_iter > max_iter): max_iter iterations, no post-hook, 'F', max_iter;
   NonConvergenceError iff failures = 'raise', else False *)
Theorem C08_linker_fails_when_no_k :
  forall (num : Type) (sub : num -> num -> num) (absf : num -> num) (ltb : num -> num -> bool) (zero : num)
         (sev : sid -> hook num) (pre ebefore eafter post : lhook num)
         (sel : option (list sid)) (o : opts num) (t : Z) (p : nat) (s : lstate num)
         (subs1 : list (sid * comp num)) (s1 : lstate num),
    forall (s_call : lstate num),                      (* the state solve_t is called on *)
    min_iter o <= max_iter o ->                        (* both guards passed: not rejected with ValueError ... *)
    linker_infeasible (c_desc (l_core s_call)) (length (status (c_st (l_core s_call)))) t = false ->     (* ... nor with IndexError *)
    (* s = the state after the offset seeding (s = s_call when offset = 0; Linker.seeded otherwise) *)
    linker_seed num zero (sel_ids num sel s_call) o t s_call = (s, None) ->
    let ids := sel_ids num sel s in
    let N := Z.to_nat (max_iter o) in
    let c0 := check_vec num zero ids p s in
    wf num t p s ->
    zero_iters num ids t (l_subs s) = (subs1, None) ->
    run_hook num pre ids o t 0%nat (LPre t) (mkL (l_core s) subs1 (l_log s)) = (s1, None) ->
    quiet_upto num sev ebefore eafter ids o t s1 N ->
    (forall j, (1 <= j <= N)%nat -> lconvk num sub absf ltb zero sev ebefore eafter ids o t c0 s1 j = false) ->
    let r := linker_solve_t_M num sub absf ltb zero sev pre ebefore eafter post sel o t s_call in
    let s2 := lst_after num sev ebefore eafter ids o t s1 N in
    snd r = (if fail_raise o then LRaise (LExn NonConvergenceError) else LRet false) /\
    status (c_st (l_core (fst r))) = upd p Failed (status (c_st (l_core s))) /\
    iters (c_st (l_core (fst r))) = upd p (Z.of_nat N) (iters (c_st (l_core s))) /\
    vals_of (c_st (l_core (fst r))) = vals_of (c_st (l_core s2)) /\
    (forall id, vview num id (l_subs (fst r)) = vview num id (l_subs s2)) /\
    l_log (fst r) = l_log s ++ [LPre t] ++ flat_map (iter_events ids t) (seq 1 N) /\
    (forall id c, find_sub num id (l_subs s) = Some c ->
       exists c', find_sub num id (l_subs (fst r)) = Some c' /\
         status (c_st c') = (if selected ids id then upd p Failed (status (c_st c)) else status (c_st c)) /\
         iters (c_st c') = (if selected ids id then upd p (Z.of_nat (N * cnt id ids)) (iters (c_st c)) else iters (c_st c))).
Proof. exact linker_fails_when_no_k_M. Qed.

(* the same status on the linker and on every selected submodel; a selected submodel's iterations[t] = the linker's
   (times the number of times it is listed; equal for a duplicate-free selection); status is '.' or 'F', and the call
   returns True exactly when it is '.' *)
Theorem C08_linker_status_stamped :
  forall (num : Type) (sub : num -> num -> num) (absf : num -> num) (ltb : num -> num -> bool) (zero : num)
         (sev : sid -> hook num) (pre ebefore eafter post : lhook num)
         (sel : option (list sid)) (o : opts num) (t : Z) (p : nat) (s : lstate num)
         (subs1 : list (sid * comp num)) (s1 : lstate num),
    forall (s_call : lstate num),                      (* the state solve_t is called on *)
    min_iter o <= max_iter o ->                        (* both guards passed: not rejected with ValueError ... *)
    linker_infeasible (c_desc (l_core s_call)) (length (status (c_st (l_core s_call)))) t = false ->     (* ... nor with IndexError *)
    (* s = the state after the offset seeding (s = s_call when offset = 0; Linker.seeded otherwise) *)
    linker_seed num zero (sel_ids num sel s_call) o t s_call = (s, None) ->
    let ids := sel_ids num sel s in
    let N := Z.to_nat (max_iter o) in
    wf num t p s ->
    zero_iters num ids t (l_subs s) = (subs1, None) ->
    run_hook num pre ids o t 0%nat (LPre t) (mkL (l_core s) subs1 (l_log s)) = (s1, None) ->
    quiet_upto num sev ebefore eafter ids o t s1 N ->
    (forall k s', snd (run_hook num post ids o t k (LPost t k) s') = None) ->
    let r := linker_solve_t_M num sub absf ltb zero sev pre ebefore eafter post sel o t s_call in
    exists x k,
      nth_error (status (c_st (l_core (fst r)))) p = Some x /\
      nth_error (iters (c_st (l_core (fst r)))) p = Some (Z.of_nat k) /\
      (x = Solved \/ x = Failed) /\ (snd r = LRet true <-> x = Solved) /\
      forall id, In id ids ->
        exists c', find_sub num id (l_subs (fst r)) = Some c' /\
          nth_error (status (c_st c')) p = Some x /\
          nth_error (iters (c_st c')) p = Some (Z.of_nat (k * cnt id ids)) /\
          (NoDup ids -> nth_error (iters (c_st c')) p = nth_error (iters (c_st (l_core (fst r)))) p).
Proof. exact linker_status_stamped_M. Qed.

(* max_iter <= 0 (holds since fix b545cbb): no iteration, 'F', 0 iterations, pre-hook only *)
Theorem C08_linker_maxiter0 :
  forall (num : Type) (sub : num -> num -> num) (absf : num -> num) (ltb : num -> num -> bool) (zero : num)
         (sev : sid -> hook num) (pre ebefore eafter post : lhook num)
         (sel : option (list sid)) (o : opts num) (t : Z) (p : nat) (s : lstate num)
         (subs1 : list (sid * comp num)) (s1 : lstate num),
    forall (s_call : lstate num),                      (* the state solve_t is called on *)
    min_iter o <= max_iter o ->                        (* both guards passed: not rejected with ValueError ... *)
    linker_infeasible (c_desc (l_core s_call)) (length (status (c_st (l_core s_call)))) t = false ->     (* ... nor with IndexError *)
    (* s = the state after the offset seeding (s = s_call when offset = 0; Linker.seeded otherwise) *)
    linker_seed num zero (sel_ids num sel s_call) o t s_call = (s, None) ->
    let ids := sel_ids num sel s in
    max_iter o <= 0 -> wf num t p s ->
    zero_iters num ids t (l_subs s) = (subs1, None) ->
    run_hook num pre ids o t 0%nat (LPre t) (mkL (l_core s) subs1 (l_log s)) = (s1, None) ->
    let r := linker_solve_t_M num sub absf ltb zero sev pre ebefore eafter post sel o t s_call in
    snd r = (if fail_raise o then LRaise (LExn NonConvergenceError) else LRet false) /\
    status (c_st (l_core (fst r))) = upd p Failed (status (c_st (l_core s))) /\
    iters (c_st (l_core (fst r))) = upd p 0 (iters (c_st (l_core s))) /\
    l_log (fst r) = l_log s ++ [LPre t] /\
    (forall id c, find_sub num id (l_subs s) = Some c ->
       exists c', find_sub num id (l_subs (fst r)) = Some c' /\
         status (c_st c') = (if selected ids id then upd p Failed (status (c_st c)) else status (c_st c)) /\
         iters (c_st c') = (if selected ids id then upd p 0 (iters (c_st c)) else iters (c_st c))).
Proof. exact linker_maxiter0_M. Qed.

(* min_iter > max_iter (fix 97423a0): ValueError first, nothing changed — whatever t, the selection and the state *)
Theorem C08_linker_solve_t_min_gt_max_rejected :
  forall (num : Type) (sub : num -> num -> num) (absf : num -> num) (ltb : num -> num -> bool) (zero : num)
         (sev : sid -> hook num) (pre ebefore eafter post : lhook num)
         (sel : option (list sid)) (o : opts num) (t : Z) (s : lstate num),
    max_iter o < min_iter o ->
    linker_solve_t_M num sub absf ltb zero sev pre ebefore eafter post sel o t s = (s, LRaise (LExn ValueError)).
Proof. exact linker_solve_t_min_gt_max. Qed.

(* a period without room for the linker's lags / leads (fix a0fbb5c): IndexError, nothing changed — before the selection
   is validated (an unknown id does not make it KeyError) and before any counter is zeroed.  The linker's lags / leads
   are its instance attributes (the lags / leads of the core's descriptor; __init__ sets them to the maxima over the
   submodels); the guard as coded: t_check = t (+ len(span) if negative), 0 <= t_check < lags or
   len(span) - leads <= t_check < len(span) *)
Theorem C08_linker_solve_t_infeasible_rejected :
  forall (num : Type) (sub : num -> num -> num) (absf : num -> num) (ltb : num -> num -> bool) (zero : num)
         (sev : sid -> hook num) (pre ebefore eafter post : lhook num)
         (sel : option (list sid)) (o : opts num) (t : Z) (s : lstate num),
    min_iter o <= max_iter o ->
    linker_infeasible (c_desc (l_core s)) (length (status (c_st (l_core s)))) t = true ->
    linker_solve_t_M num sub absf ltb zero sev pre ebefore eafter post sel o t s = (s, LRaise (LExn IndexError)).
Proof. exact linker_solve_t_infeasible. Qed.

Theorem C08_linker_solve_t_infeasible_position_rejected :
  forall (num : Type) (sub : num -> num -> num) (absf : num -> num) (ltb : num -> num -> bool) (zero : num)
         (sev : sid -> hook num) (pre ebefore eafter post : lhook num)
         (sel : option (list sid)) (o : opts num) (t : Z) (p : nat) (s : lstate num),
    min_iter o <= max_iter o -> py_pos (length (status (c_st (l_core s)))) t = Some p ->
    (p < lags (c_desc (l_core s)) \/ length (status (c_st (l_core s))) <= p + leads (c_desc (l_core s)))%nat ->
    linker_solve_t_M num sub absf ltb zero sev pre ebefore eafter post sel o t s = (s, LRaise (LExn IndexError)).
Proof. exact linker_solve_t_infeasible_pos. Qed.

(* what the guard buys: when the linker's lags / leads dominate every submodel's (as __init__ makes them), a period that
   passes the guard has room for EVERY submodel's own lags and leads — no evaluated equation reads a wrapped-around index *)
Theorem C08_guard_passed_fits_every_submodel :
  forall (num : Type) (s : lstate num) (t : Z) (p : nat),
    let n := length (status (c_st (l_core s))) in
    py_pos n t = Some p ->
    linker_infeasible (c_desc (l_core s)) n t = false ->
    (forall ic, In ic (l_subs s) -> (lags (c_desc (snd ic)) <= lags (c_desc (l_core s)))%nat /\
                                    (leads (c_desc (snd ic)) <= leads (c_desc (l_core s)))%nat) ->
    forall ic, In ic (l_subs s) -> feasible (c_desc (snd ic)) n p = true.
Proof. exact guard_passed_fits_every_submodel. Qed.

(* for a t inside the span the guard is exactly the negation of Solver.feasible (the test BaseModel.solve_t makes) *)
Theorem C08_linker_guard_is_feasibility :
  forall (d : mdesc) (n : nat) (t : Z) (p : nat), py_pos n t = Some p -> linker_infeasible d n t = negb (feasible d n p).
Proof. exact linker_infeasible_pos. Qed.

(* ---------------------------------------------------------------- offset (honoured since fix 6298cba) *)
(* [clause] "a non-zero offset seeds period t from t+offset as it does for a single model".
   Linker.seeded ids p q s: the endogenous rows of the linker's own core, and of every submodel listed in ids, take their
   period-p value from period q (copy_endo); nothing else changes.  The call on s with an in-span offset and a known
   selection IS the body — whose first act is get_check_values — on that seeded state, and equals the offset-free call on it *)
Theorem C08_linker_offset_seeds :
  forall (num : Type) (sub : num -> num -> num) (absf : num -> num) (ltb : num -> num -> bool) (zero : num)
         (sev : sid -> hook num) (pre ebefore eafter post : lhook num)
         (sel : option (list sid)) (o : opts num) (t : Z) (s : lstate num) (p : nat),
    min_iter o <= max_iter o ->
    linker_infeasible (c_desc (l_core s)) (length (status (c_st (l_core s)))) t = false ->
    offset o <> 0 ->
    py_pos (length (status (c_st (l_core s)))) t = Some p ->
    0 <= Z.of_nat p + offset o < Z.of_nat (length (status (c_st (l_core s)))) ->
    (forall id, In id (sel_ids num sel s) -> find_sub num id (l_subs s) <> None) ->
    let s0 := seeded num zero (sel_ids num sel s) p (Z.to_nat (Z.of_nat p + offset o)) s in
    linker_solve_t_M num sub absf ltb zero sev pre ebefore eafter post sel o t s
    = linker_solve_t_body num sub absf ltb zero sev pre ebefore eafter post sel o t s0 /\
    linker_solve_t_M num sub absf ltb zero sev pre ebefore eafter post sel o t s
    = linker_solve_t_M num sub absf ltb zero sev pre ebefore eafter post sel (set_offset num o 0) t s0.
Proof. exact linker_offset_seeds. Qed.

(* [clause] what is seeded: the core ... *)
Theorem C08_seeded_core :
  forall (num : Type) (zero : num) (ids : list sid) (p q : nat) (s : lstate num),
    l_core (seeded num zero ids p q s)
    = with_cvals num (l_core s) (copy_endo num zero (c_desc (l_core s)) (vals_of (c_st (l_core s))) p q) /\
    l_log (seeded num zero ids p q s) = l_log s.
Proof. exact seeded_core. Qed.

(* ... every selected submodel (endogenous rows only: copy_endo over its own `endo` list) ... *)
Theorem C08_seeded_selected :
  forall (num : Type) (zero : num) (ids : list sid) (p q : nat) (s : lstate num) (id : sid) (c : comp num),
    NoDup ids -> In id ids -> find_sub num id (l_subs s) = Some c ->
    find_sub num id (l_subs (seeded num zero ids p q s))
    = Some (with_cvals num c (copy_endo num zero (c_desc c) (vals_of (c_st c)) p q)).
Proof. exact seeded_selected. Qed.

(* ... and NOT the unselected ones *)
Theorem C08_seeded_unselected :
  forall (num : Type) (zero : num) (ids : list sid) (p q : nat) (s : lstate num) (i : nat) (id : sid) (c : comp num),
    nth_error (l_subs s) i = Some (id, c) -> selected ids id = false ->
    nth_error (l_subs (seeded num zero ids p q s)) i = Some (id, c).
Proof. exact seeded_unselected. Qed.

(* [clause] an offset pointing outside the span: IndexError, nothing changed — as BaseModel.solve_t *)
Theorem C08_linker_offset_out_of_span_rejected :
  forall (num : Type) (sub : num -> num -> num) (absf : num -> num) (ltb : num -> num -> bool) (zero : num)
         (sev : sid -> hook num) (pre ebefore eafter post : lhook num)
         (sel : option (list sid)) (o : opts num) (t : Z) (s : lstate num) (p : nat),
    min_iter o <= max_iter o ->
    linker_infeasible (c_desc (l_core s)) (length (status (c_st (l_core s)))) t = false ->
    offset o <> 0 ->
    py_pos (length (status (c_st (l_core s)))) t = Some p ->
    (Z.of_nat p + offset o < 0 \/ Z.of_nat (length (status (c_st (l_core s)))) <= Z.of_nat p + offset o) ->
    linker_solve_t_M num sub absf ltb zero sev pre ebefore eafter post sel o t s = (s, LRaise (LExn IndexError)).
Proof. exact linker_offset_out_of_span_rejected. Qed.

(* [unfold] offset = 0: no seeding *)
Theorem C08_linker_offset_zero_no_seeding :
  forall (num : Type) (zero : num) (ids : list sid) (o : opts num) (t : Z) (s : lstate num),
    offset o = 0 -> linker_seed num zero ids o t s = (s, None).
Proof. exact linker_offset_zero_no_seeding. Qed.

(* ---------------------------------------------------------------- solve(): guard + fold of solve_t   [unfold: the three
   theorems below are one-step unfoldings of linker_solve_M / solve_fold, kept as interface lemmas] *)
Theorem C08_linker_solve_min_gt_max :
  forall (num : Type) (sub : num -> num -> num) (absf : num -> num) (ltb : num -> num -> bool) (zero : num)
         (sev : sid -> hook num) (pre ebefore eafter post : lhook num)
         (sel : option (list sid)) (o : opts num) (ps : list Z) (s : lstate num),
    max_iter o < min_iter o ->
    linker_solve_M num sub absf ltb zero sev pre ebefore eafter post sel o ps s = (s, inl (LExn ValueError)).
Proof. exact linker_solve_min_gt_max. Qed.

Theorem C08_linker_solve_cons :
  forall (num : Type) (sub : num -> num -> num) (absf : num -> num) (ltb : num -> num -> bool) (zero : num)
         (sev : sid -> hook num) (pre ebefore eafter post : lhook num)
         (sel : option (list sid)) (o : opts num) (t : Z) (ps : list Z) (s : lstate num),
    min_iter o <= max_iter o ->
    linker_solve_M num sub absf ltb zero sev pre ebefore eafter post sel o (t :: ps) s =
    match linker_solve_t_M num sub absf ltb zero sev pre ebefore eafter post sel o t s with
    | (s', LRet b) => match linker_solve_M num sub absf ltb zero sev pre ebefore eafter post sel o ps s' with
                      | (s'', inr bs) => (s'', inr (b :: bs))
                      | (s'', inl e) => (s'', inl e)
                      end
    | (s', LRaise e) => (s', inl e)
    end.
Proof. exact linker_solve_cons. Qed.

Theorem C08_linker_solve_nil :
  forall (num : Type) (sub : num -> num -> num) (absf : num -> num) (ltb : num -> num -> bool) (zero : num)
         (sev : sid -> hook num) (pre ebefore eafter post : lhook num)
         (sel : option (list sid)) (o : opts num) (s : lstate num),
    min_iter o <= max_iter o ->
    linker_solve_M num sub absf ltb zero sev pre ebefore eafter post sel o [] s = (s, inr []).
Proof. exact linker_solve_nil. Qed.

(* ---------------------------------------------------------------- constructor (after fix ee9fcdf) *)
(* span_elems sp = the sequence of elements iterating over the span yields, as (class, number): class 0 = integer
   (list, tuple, range, NumPy array, pandas Index), 1 = pandas Period (PeriodIndex), 2 = pandas Timestamp (DatetimeIndex) *)
(* the span test as coded — lengths, then element by element over the zip — decides "same sequence of elements",
   for every pair of container kinds *)
Theorem C08_span_test_decides_equal_elements :
  forall a b : pspan,
    (negb (Nat.eqb (length (sp_labels a)) (length (sp_labels b))) || any_ne (span_elems a) (span_elems b)) = false
    <-> span_elems a = span_elems b.
Proof. exact spans_differ_spec. Qed.

Theorem C08_span_elements_equal_iff :
  forall a b : pspan,
    span_elems a = span_elems b <->
    sp_labels a = sp_labels b /\ (sp_labels a = [] \/ elt_class (sp_kind a) = elt_class (sp_kind b)).
Proof. exact span_elems_eq. Qed.

(* spans differing in length or in any position are rejected with InitialisationError, whatever the container kinds *)
Theorem C08_ctor_rejects_differing_spans :
  forall (id0 : sid) (b : subinfo) (rest : list (sid * subinfo)),
    (exists ic, In ic rest /\ span_elems (si_span (snd ic)) <> span_elems (si_span b)) ->
    linker_ctor_M ((id0, b) :: rest) None = Raise InitialisationError.
Proof. exact ctor_rejects_differing_spans. Qed.

Theorem C08_ctor_rejects_differing_labels :
  forall (id0 : sid) (b : subinfo) (rest : list (sid * subinfo)),
    (exists ic, In ic rest /\ sp_labels (si_span (snd ic)) <> sp_labels (si_span b)) ->
    linker_ctor_M ((id0, b) :: rest) None = Raise InitialisationError.
Proof. exact ctor_rejects_differing_labels. Qed.

(* identical spans of ANY kind are accepted — incl. NumPy arrays and pandas indexes (ValueError before the fix) and
   mixed integer-labelled kinds such as a list next to a range with equal elements (rejected before the fix); the
   linker carries the first submodel's span and the maxima of LAGS / LEADS, each attained by some submodel *)
Theorem C08_lags_leads_are_maxima :
  forall (id0 : sid) (b : subinfo) (rest : list (sid * subinfo)),
    (forall ic, In ic rest -> span_elems (si_span (snd ic)) = span_elems (si_span b)) ->
    exists L D, linker_ctor_M ((id0, b) :: rest) None = Ret (si_span b, L, D) /\
      (forall ic, In ic ((id0, b) :: rest) -> si_LAGS (snd ic) <= L) /\
      (exists ic, In ic ((id0, b) :: rest) /\ si_LAGS (snd ic) = L) /\
      (forall ic, In ic ((id0, b) :: rest) -> si_LEADS (snd ic) <= D) /\
      (exists ic, In ic ((id0, b) :: rest) /\ si_LEADS (snd ic) = D).
Proof. exact lags_leads_are_maxima. Qed.

Theorem C08_ctor_accepts_identical_spans_any_kind :
  forall (id0 : sid) (b : subinfo) (rest : list (sid * subinfo)),
    (forall ic, In ic rest -> si_span (snd ic) = si_span b) ->
    exists L D, linker_ctor_M ((id0, b) :: rest) None = Ret (si_span b, L, D).
Proof. exact ctor_accepts_identical_spans_any_kind. Qed.

(* accepted iff every later submodel yields the first one's sequence of elements: the constructor never fails otherwise *)
Theorem C08_ctor_accepts_iff :
  forall (id0 : sid) (b : subinfo) (rest : list (sid * subinfo)),
    (exists r, linker_ctor_M ((id0, b) :: rest) None = Ret r) <->
    (forall ic, In ic rest -> span_elems (si_span (snd ic)) = span_elems (si_span b)).
Proof. exact ctor_accepts_iff. Qed.

(* [clause of fix f5ef8bd, outside C08's text] the constructor as called: a linker whose own name is one of its submodel ids is
   refused with DuplicateNameError first of all; with any other name it is linker_ctor_M, which the theorems above describe *)
Theorem C08_init_rejects_name_clash :
  forall (name : sid) (subs : list (sid * subinfo)) (span : option pspan),
    In name (map fst subs) -> linker_init_M name subs span = Raise DuplicateNameError.
Proof. exact init_rejects_name_clash. Qed.

Theorem C08_init_without_clash :
  forall (name : sid) (subs : list (sid * subinfo)) (span : option pspan),
    ~ In name (map fst subs) -> linker_init_M name subs span = linker_ctor_M subs span.
Proof. exact init_without_clash. Qed.

(* [unfold] *)
Theorem C08_ctor_empty :
  forall span, linker_ctor_M [] span = Ret (match span with Some sp => sp | None => mkSpan SList [] end, 0, 0).
Proof. exact ctor_empty. Qed.

(* ---------------------------------------------------------------- the convergence clause, entry by entry *)
(* cv k = the check values after k iterations: one vector for the linker, then one per SELECTED submodel in insertion
   order, one entry per name in that container's `check` (cv 0 = the values read before the counters are zeroed and
   the pre-hook runs).  Iteration k qualifies when 1 <= k <= max_iter, min_iter <= k and EVERY entry of EVERY vector
   moved by strictly less than tol since iteration k-1 (the vectors have the same shape at every k: nothing is
   dropped by the pairwise comparison).  The period is declared solved iff some iteration qualifies; the stamped
   count is then the LEAST such k; otherwise 'F' and max_iter. *)
(* PREMISE "no submodel id is '_'": wf num t p s = the core and every submodel have period t at position p, series of one
   length, AND no submodel is keyed '_' (LinkerFacts2.no_us; Linker.us_id).  Without it the clause is false — next theorem. *)
Theorem C08_solved_iff_all_moved_lt_tol :
  forall (num : Type) (sub : num -> num -> num) (absf : num -> num) (ltb : num -> num -> bool) (zero : num)
         (sev : sid -> hook num) (pre ebefore eafter post : lhook num)
         (sel : option (list sid)) (o : opts num) (t : Z) (p : nat) (s : lstate num)
         (subs1 : list (sid * comp num)) (s1 : lstate num),
    forall (s_call : lstate num),                      (* the state solve_t is called on *)
    min_iter o <= max_iter o ->                        (* both guards passed: not rejected with ValueError ... *)
    linker_infeasible (c_desc (l_core s_call)) (length (status (c_st (l_core s_call)))) t = false ->     (* ... nor with IndexError *)
    (* s = the state after the offset seeding (s = s_call when offset = 0; Linker.seeded otherwise) *)
    linker_seed num zero (sel_ids num sel s_call) o t s_call = (s, None) ->
    let ids := sel_ids num sel s in
    let N := Z.to_nat (max_iter o) in
    wf num t p s ->
    zero_iters num ids t (l_subs s) = (subs1, None) ->
    run_hook num pre ids o t 0%nat (LPre t) (mkL (l_core s) subs1 (l_log s)) = (s1, None) ->
    quiet_upto num sev ebefore eafter ids o t s1 N ->
    (forall k s', snd (run_hook num post ids o t k (LPost t k) s') = None) ->
    let cv := fun k : nat => match k with
                             | O => check_vec num zero ids p s
                             | S _ => check_vec num zero ids p (lst_after num sev ebefore eafter ids o t s1 k)
                             end in
    let qualifies := fun k : nat =>
      (1 <= k <= N)%nat /\ min_iter o <= Z.of_nat k /\
      Forall2 (Forall2 (fun c q : num => ltb (absf (sub c q)) (tol o) = true)) (cv k) (cv (k - 1)%nat) in
    let r := linker_solve_t_M num sub absf ltb zero sev pre ebefore eafter post sel o t s_call in
    (snd r = LRet true <-> exists k, qualifies k) /\
    (forall k, qualifies k -> (forall j, (j < k)%nat -> ~ qualifies j) ->
       snd r = LRet true /\
       nth_error (status (c_st (l_core (fst r)))) p = Some Solved /\
       nth_error (iters (c_st (l_core (fst r)))) p = Some (Z.of_nat k)) /\
    ((forall k, ~ qualifies k) ->
       snd r = (if fail_raise o then LRaise (LExn NonConvergenceError) else LRet false) /\
       nth_error (status (c_st (l_core (fst r)))) p = Some Failed /\
       nth_error (iters (c_st (l_core (fst r)))) p = Some (Z.of_nat N)).
Proof. exact solved_iff_all_moved_lt_tol_M. Qed.

(* [refuted without the premise: kept finding convergence|submodel-id-underscore-shadows-linker] get_check_values files the linker's own
   check values under the key '_' in the dictionary of the submodels' check values: a selected submodel keyed '_' overwrites
   them, and the period is declared solved while a check variable of the LINKER still moves by 1.0 >= tol (keyed 0: 'F') *)
Theorem C08_underscore_id_shadows_linker_refuted :
  let o := mkOpts 0 5 tolf 0 false ERaise true in
  let r_us := f_linker_solve_t (us_ss us_id) us_hs None o 1 (us_state us_id) in
  let r_0 := f_linker_solve_t (us_ss 0%nat) us_hs None o 1 (us_state 0%nat) in
  snd r_us = LRet true /\ iters (c_st (l_core (fst r_us))) = [-1; 2; -1] /\
  vals_of (c_st (l_core (fst r_us))) = [[0%float; 2%float; 0%float]] /\
  PrimFloat.ltb (PrimFloat.abs (PrimFloat.sub 2%float 1%float)) tolf = false /\
  snd r_0 = LRet false /\ status (c_st (l_core (fst r_0))) = [Unsolved; Failed; Unsolved] /\ iters (c_st (l_core (fst r_0))) = [-1; 5; -1].
Proof. exact underscore_id_shadows_linker_refuted. Qed.

(* the vectors compared at iteration k have the same shape: same number of containers, same number of entries each *)
Theorem C08_check_vectors_keep_shape :
  forall (num : Type) (zero : num) (sev : sid -> hook num) (pre ebefore eafter : lhook num)
         (sel : option (list sid)) (o : opts num) (t : Z) (p : nat) (s : lstate num)
         (subs1 : list (sid * comp num)) (s1 : lstate num),
    let ids := sel_ids num sel s in
    zero_iters num ids t (l_subs s) = (subs1, None) ->
    run_hook num pre ids o t 0%nat (LPre t) (mkL (l_core s) subs1 (l_log s)) = (s1, None) ->
    forall k : nat,
    Forall2 (fun x y : list num => length x = length y)
      (match k with O => check_vec num zero ids p s | S _ => check_vec num zero ids p (lst_after num sev ebefore eafter ids o t s1 k) end)
      (match (k - 1)%nat with O => check_vec num zero ids p s | S _ => check_vec num zero ids p (lst_after num sev ebefore eafter ids o t s1 (k - 1)) end).
Proof. exact cvk_shape_step. Qed.

(* ---------------------------------------------------------------- the frame: other periods *)
(* on EVERY path of solve_t(t) the status / iteration series of the linker and of every submodel keep their length and
   every entry at a position other than the one t denotes *)
Theorem C08_solve_t_other_periods_untouched :
  forall (num : Type) (sub : num -> num -> num) (absf : num -> num) (ltb : num -> num -> bool) (zero : num)
         (sev : sid -> hook num) (pre ebefore eafter post : lhook num)
         (sel : option (list sid)) (o : opts num) (t : Z) (s : lstate num),
    let s' := fst (linker_solve_t_M num sub absf ltb zero sev pre ebefore eafter post sel o t s) in
    let keeps := fun (A : Type) (l l' : list A) =>
      length l' = length l /\ forall q, py_pos (length l) t <> Some q -> nth_error l' q = nth_error l q in
    (keeps st (status (c_st (l_core s))) (status (c_st (l_core s'))) /\
     keeps Z (iters (c_st (l_core s))) (iters (c_st (l_core s')))) /\
    Forall2 (fun a b : sid * comp num => fst a = fst b /\
               keeps st (status (c_st (snd a))) (status (c_st (snd b))) /\
               keeps Z (iters (c_st (snd a))) (iters (c_st (snd b)))) (l_subs s) (l_subs s').
Proof. exact solve_t_other_periods_untouched_M. Qed.

(* ... and on every path of solve() over the positions ps, every position that no member of ps denotes *)
Theorem C08_solve_other_periods_untouched :
  forall (num : Type) (sub : num -> num -> num) (absf : num -> num) (ltb : num -> num -> bool) (zero : num)
         (sev : sid -> hook num) (pre ebefore eafter post : lhook num)
         (sel : option (list sid)) (o : opts num) (ps : list Z) (s : lstate num),
    let s' := fst (linker_solve_M num sub absf ltb zero sev pre ebefore eafter post sel o ps s) in
    let keeps := fun (A : Type) (l l' : list A) =>
      length l' = length l /\
      forall q, (forall t, In t ps -> py_pos (length l) t <> Some q) -> nth_error l' q = nth_error l q in
    (keeps st (status (c_st (l_core s))) (status (c_st (l_core s'))) /\
     keeps Z (iters (c_st (l_core s))) (iters (c_st (l_core s')))) /\
    Forall2 (fun a b : sid * comp num => fst a = fst b /\
               keeps st (status (c_st (snd a))) (status (c_st (snd b))) /\
               keeps Z (iters (c_st (snd a))) (iters (c_st (snd b)))) (l_subs s) (l_subs s').
Proof. exact solve_other_periods_untouched. Qed.

(* [code — the property's text says nothing about raise paths; this is the behaviour the kept finding twin|no-error-policy
   is about, stated so that a repair shows up as a change of this theorem, not as a requirement]
   an exception out of a linker hook or a submodel's _evaluate (LUser) surfaces unchanged and NOTHING has been stamped:
   every status series (linker and submodels) and the linker's own iteration counters are as before the call *)
Theorem C08_user_exception_stamps_nothing :
  forall (num : Type) (sub : num -> num -> num) (absf : num -> num) (ltb : num -> num -> bool) (zero : num)
         (sev : sid -> hook num) (pre ebefore eafter post : lhook num)
         (sel : option (list sid)) (o : opts num) (t : Z) (s : lstate num) (c : Z),
    snd (linker_solve_t_M num sub absf ltb zero sev pre ebefore eafter post sel o t s) = LRaise (LUser c) ->
    let s' := fst (linker_solve_t_M num sub absf ltb zero sev pre ebefore eafter post sel o t s) in
    status (c_st (l_core s')) = status (c_st (l_core s)) /\
    iters (c_st (l_core s')) = iters (c_st (l_core s)) /\
    Forall2 (fun a b : sid * comp num => fst a = fst b /\ status (c_st (snd b)) = status (c_st (snd a))) (l_subs s) (l_subs s').
Proof. exact user_exception_stamps_nothing_M. Qed.

(* [code — likewise: what the linker does today, no error policy] on EVERY path every status entry (linker and submodels) is
   afterwards what it was or ONE value x, x = '.' or 'F':
   the linker never writes 'E' / 'S' and never two different statuses in one call *)
Theorem C08_solve_t_stamps_only_solved_or_failed :
  forall (num : Type) (sub : num -> num -> num) (absf : num -> num) (ltb : num -> num -> bool) (zero : num)
         (sev : sid -> hook num) (pre ebefore eafter post : lhook num)
         (sel : option (list sid)) (o : opts num) (t : Z) (s : lstate num),
    let s' := fst (linker_solve_t_M num sub absf ltb zero sev pre ebefore eafter post sel o t s) in
    exists x : st, (x = Solved \/ x = Failed) /\
      (length (status (c_st (l_core s'))) = length (status (c_st (l_core s))) /\
       forall q, nth_error (status (c_st (l_core s'))) q = nth_error (status (c_st (l_core s))) q \/
                 nth_error (status (c_st (l_core s'))) q = Some x) /\
      Forall2 (fun a b : sid * comp num => fst a = fst b /\
                 length (status (c_st (snd b))) = length (status (c_st (snd a))) /\
                 forall q, nth_error (status (c_st (snd b))) q = nth_error (status (c_st (snd a))) q \/
                           nth_error (status (c_st (snd b))) q = Some x) (l_subs s) (l_subs s').
Proof. exact solve_t_stamps_only_solved_or_failed_M. Qed.

(* [code] errors= / catch_first_error reach a call only as arguments handed down to the hooks and to _evaluate: if those do
   not react to them, every policy and either flag give the same run (the linker has no error policy of its own) *)
Theorem C08_linker_errors_only_handed_down :
  forall (num : Type) (sub : num -> num -> num) (absf : num -> num) (ltb : num -> num -> bool) (zero : num)
         (sev : sid -> hook num) (pre ebefore eafter post : lhook num),
    (forall id t em cf em' cf' k v, sev id t em cf k v = sev id t em' cf' k v) ->
    (forall t ids em cf em' cf' k jv, pre t ids em cf k jv = pre t ids em' cf' k jv) ->
    (forall t ids em cf em' cf' k jv, ebefore t ids em cf k jv = ebefore t ids em' cf' k jv) ->
    (forall t ids em cf em' cf' k jv, eafter t ids em cf k jv = eafter t ids em' cf' k jv) ->
    (forall t ids em cf em' cf' k jv, post t ids em cf k jv = post t ids em' cf' k jv) ->
    forall (sel : option (list sid)) (o : opts num) (em : errmode) (cf : bool) (t : Z) (s : lstate num),
    linker_solve_t_M num sub absf ltb zero sev pre ebefore eafter post sel
      (mkOpts (min_iter o) (max_iter o) (tol o) (offset o) (fail_raise o) em cf) t s
    = linker_solve_t_M num sub absf ltb zero sev pre ebefore eafter post sel o t s.
Proof. exact linker_errors_only_handed_down. Qed.

(* solve(): when the periods ps1 solve and the next period t raises, the exception surfaces unchanged, later periods are
   not attempted, and every status / iteration entry of the linker and of every submodel at a position other than t's —
   the stamps of the earlier periods — is exactly what solving ps1 alone leaves *)
Theorem C08_linker_solve_failure_containment :
  forall (num : Type) (sub : num -> num -> num) (absf : num -> num) (ltb : num -> num -> bool) (zero : num)
         (sev : sid -> hook num) (pre ebefore eafter post : lhook num)
         (sel : option (list sid)) (o : opts num) (t : Z) (ps2 ps1 : list Z) (s s1 : lstate num) (bs : list bool)
         (s2 : lstate num) (e : lexn),
    min_iter o <= max_iter o ->
    linker_solve_M num sub absf ltb zero sev pre ebefore eafter post sel o ps1 s = (s1, inr bs) ->
    linker_solve_t_M num sub absf ltb zero sev pre ebefore eafter post sel o t s1 = (s2, LRaise e) ->
    linker_solve_M num sub absf ltb zero sev pre ebefore eafter post sel o (ps1 ++ t :: ps2) s = (s2, inl e) /\
    let keeps := fun (A : Type) (l l' : list A) =>
      length l' = length l /\ forall q, py_pos (length l) t <> Some q -> nth_error l' q = nth_error l q in
    (keeps st (status (c_st (l_core s1))) (status (c_st (l_core s2))) /\
     keeps Z (iters (c_st (l_core s1))) (iters (c_st (l_core s2)))) /\
    Forall2 (fun a b : sid * comp num => fst a = fst b /\
               keeps st (status (c_st (snd a))) (status (c_st (snd b))) /\
               keeps Z (iters (c_st (snd a))) (iters (c_st (snd b)))) (l_subs s1) (l_subs s2).
Proof. exact linker_solve_failure_containment. Qed.

(* ---------------------------------------------------------------- constructor, read backwards *)
(* a linker over >= 1 submodels exists only if every submodel yields the first one's elements; it then carries the first
   submodel's span and the maxima of LAGS / LEADS (each attained by some submodel) *)
Theorem C08_ctor_accepted_implies_equal_spans_and_maxima :
  forall (id0 : sid) (b : subinfo) (rest : list (sid * subinfo)) (sp : pspan) (lg ld : Z),
    linker_ctor_M ((id0, b) :: rest) None = Ret (sp, lg, ld) ->
    sp = si_span b /\
    (forall ic, In ic rest -> span_elems (si_span (snd ic)) = span_elems (si_span b)) /\
    (forall ic, In ic ((id0, b) :: rest) -> si_LAGS (snd ic) <= lg) /\
    (exists ic, In ic ((id0, b) :: rest) /\ si_LAGS (snd ic) = lg) /\
    (forall ic, In ic ((id0, b) :: rest) -> si_LEADS (snd ic) <= ld) /\
    (exists ic, In ic ((id0, b) :: rest) /\ si_LEADS (snd ic) = ld).
Proof. exact ctor_accept_inv. Qed.

(* every submodel of an accepted linker has exactly the first submodel's period labels (and element class) *)
Theorem C08_ctor_accepts_only_equal_spans :
  forall (id0 : sid) (b : subinfo) (rest : list (sid * subinfo)) (sp : pspan) (lg ld : Z),
    linker_ctor_M ((id0, b) :: rest) None = Ret (sp, lg, ld) ->
    forall ic, In ic rest ->
    sp_labels (si_span (snd ic)) = sp_labels (si_span b) /\
    (sp_labels (si_span (snd ic)) = [] \/ elt_class (sp_kind (si_span (snd ic))) = elt_class (sp_kind (si_span b))).
Proof. exact ctor_accepts_only_equal_spans. Qed.

(* ---------------------------------------------------------------- solve(start=, end=) over label ranges *)
(* [unfold] the guard of solve() *)
Theorem C08_linker_solve_span_min_gt_max :
  forall (num : Type) (sub : num -> num -> num) (absf : num -> num) (ltb : num -> num -> bool) (zero : num)
         (sev : sid -> hook num) (pre ebefore eafter post : lhook num) (L : Type) (locate : L -> locres)
         (lg ld : nat) (span : list L) (start end_ : option L) (sel : option (list sid)) (o : opts num) (s : lstate num),
    max_iter o < min_iter o ->
    linker_solve_span_M num sub absf ltb zero sev pre ebefore eafter post L locate lg ld span start end_ sel o s
    = (s, inl (LExn ValueError)).
Proof. exact linker_solve_span_min_gt_max. Qed.

(* [unfold] iter_periods on an empty span *)
Theorem C08_linker_solve_span_empty :
  forall (num : Type) (sub : num -> num -> num) (absf : num -> num) (ltb : num -> num -> bool) (zero : num)
         (sev : sid -> hook num) (pre ebefore eafter post : lhook num) (L : Type) (locate : L -> locres)
         (lg ld : nat) (start end_ : option L) (sel : option (list sid)) (o : opts num) (s : lstate num),
    min_iter o <= max_iter o ->
    linker_solve_span_M num sub absf ltb zero sev pre ebefore eafter post L locate lg ld [] start end_ sel o s
    = (s, inl (LExn (SolutionError None))).
Proof. exact linker_solve_span_empty. Qed.

Theorem C08_linker_solve_span_unknown_start :
  forall (num : Type) (sub : num -> num -> num) (absf : num -> num) (ltb : num -> num -> bool) (zero : num)
         (sev : sid -> hook num) (pre ebefore eafter post : lhook num) (L : Type) (locate : L -> locres)
         (lg ld : nat) (span : list L) (x : L) (end_ : option L) (sel : option (list sid)) (o : opts num) (s : lstate num),
    min_iter o <= max_iter o -> span <> [] -> locate x = LFail ->
    linker_solve_span_M num sub absf ltb zero sev pre ebefore eafter post L locate lg ld span (Some x) end_ sel o s
    = (s, inl (LExn KeyError)).
Proof. exact linker_solve_span_unknown_start. Qed.

Theorem C08_linker_solve_span_unknown_end :
  forall (num : Type) (sub : num -> num -> num) (absf : num -> num) (ltb : num -> num -> bool) (zero : num)
         (sev : sid -> hook num) (pre ebefore eafter post : lhook num) (L : Type) (locate : L -> locres)
         (lg ld : nat) (span : list L) (start : option L) (y : L) (sel : option (list sid)) (o : opts num) (s : lstate num),
    min_iter o <= max_iter o -> span <> [] -> locate y = LFail ->
    match start with None => (lg < length span)%nat | Some x => locate x <> LFail end ->
    linker_solve_span_M num sub absf ltb zero sev pre ebefore eafter post L locate lg ld span start (Some y) sel o s
    = (s, inl (LExn KeyError)).
Proof. exact linker_solve_span_unknown_end. Qed.

(* default start with lags >= len(span): IndexError, nothing changes *)
Theorem C08_linker_solve_span_default_start_outside :
  forall (num : Type) (sub : num -> num -> num) (absf : num -> num) (ltb : num -> num -> bool) (zero : num)
         (sev : sid -> hook num) (pre ebefore eafter post : lhook num) (L : Type) (locate : L -> locres)
         (lg ld : nat) (span : list L) (end_ : option L) (sel : option (list sid)) (o : opts num) (s : lstate num),
    min_iter o <= max_iter o -> span <> [] -> (length span <= lg)%nat ->
    linker_solve_span_M num sub absf ltb zero sev pre ebefore eafter post L locate lg ld span None end_ sel o s
    = (s, inl (LExn IndexError)).
Proof. exact linker_solve_span_default_start_outside. Qed.

(* one solve_t per position from `start` (default: position lags) to `end` (default: n - 1 - leads) inclusive, in
   span order; the triple returned pairs those positions with their labels and the solve_t flags *)
Theorem C08_linker_solve_span_eq_fold :
  forall (num : Type) (sub : num -> num -> num) (absf : num -> num) (ltb : num -> num -> bool) (zero : num)
         (sev : sid -> hook num) (pre ebefore eafter post : lhook num) (L : Type) (locate : L -> locres)
         (lg ld : nat) (span : list L) (start end_ : option L) (sel : option (list sid)) (o : opts num) (s : lstate num)
         (a b : nat),
    min_iter o <= max_iter o -> locate_ok L locate span ->
    resolves_start L (mkDesc [] [] lg ld) span start a -> resolves_end L (mkDesc [] [] lg ld) span end_ b ->
    linker_solve_span_M num sub absf ltb zero sev pre ebefore eafter post L locate lg ld span start end_ sel o s =
    match linker_solve_M num sub absf ltb zero sev pre ebefore eafter post sel o (map Z.of_nat (seq a (S b - a))) s with
    | (s', inl e) => (s', inl e)
    | (s', inr bs) => (s', inr ((S b - a)%nat, combine (map (fun tl : Z * L => (snd tl, fst tl)) (periods L span a b)) bs))
    end.
Proof. exact linker_solve_span_eq_fold. Qed.

(* every period outside [start, end] keeps its status / iteration entries, on the linker and on every submodel *)
Theorem C08_linker_solve_span_outside_untouched :
  forall (num : Type) (sub : num -> num -> num) (absf : num -> num) (ltb : num -> num -> bool) (zero : num)
         (sev : sid -> hook num) (pre ebefore eafter post : lhook num) (L : Type) (locate : L -> locres)
         (lg ld : nat) (span : list L) (start end_ : option L) (sel : option (list sid)) (o : opts num) (s : lstate num)
         (a b q : nat),
    min_iter o <= max_iter o -> locate_ok L locate span ->
    resolves_start L (mkDesc [] [] lg ld) span start a -> resolves_end L (mkDesc [] [] lg ld) span end_ b ->
    (q < a \/ b < q)%nat ->
    let s' := fst (linker_solve_span_M num sub absf ltb zero sev pre ebefore eafter post L locate lg ld span start end_ sel o s) in
    nth_error (status (c_st (l_core s'))) q = nth_error (status (c_st (l_core s))) q /\
    nth_error (iters (c_st (l_core s'))) q = nth_error (iters (c_st (l_core s))) q /\
    Forall2 (fun x y : sid * comp num => fst x = fst y /\
               nth_error (status (c_st (snd y))) q = nth_error (status (c_st (snd x))) q /\
               nth_error (iters (c_st (snd y))) q = nth_error (iters (c_st (snd x))) q) (l_subs s) (l_subs s').
Proof. exact linker_solve_span_outside_untouched_core. Qed.

(* constructor + default range: from the LONGEST lag to n - 1 - the LONGEST lead, and at each visited position every
   submodel has its own lags behind it and its own leads ahead of it inside the span *)
Theorem C08_default_range_fits_every_submodel :
  forall (subs : list (sid * subinfo)) (labels : list Z) (lg ld a b : nat),
    subs <> [] ->
    ctor_lags_leads subs None = Ret (labels, lg, ld) ->
    (forall ic, In ic subs -> 0 <= si_LAGS (snd ic) /\ 0 <= si_LEADS (snd ic)) ->
    resolves_start Z (mkDesc [] [] lg ld) labels None a -> resolves_end Z (mkDesc [] [] lg ld) labels None b ->
    a = lg /\ (b + ld + 1 = length labels)%nat /\
    forall t, In t (map Z.of_nat (seq a (S b - a))) -> forall ic, In ic subs ->
      si_LAGS (snd ic) <= t /\ t + si_LEADS (snd ic) < Z.of_nat (length labels).
Proof. exact default_range_fits_every_submodel. Qed.

(* ---------------------------------------------------------------- one model in a linker = the model itself *)
Theorem C08_single_model_linker_eq_model :
  forall (num : Type) (sub : num -> num -> num) (absf : num -> num) (ltb : num -> num -> bool)
         (isfin : num -> bool) (zero : num) (sev : sid -> hook num) (ev : hook num)
         (d : mdesc) (o : opts num) (t : Z) (p : nat) (id : sid)
         (cd : mdesc) (cv : vals num) (cs : list st) (ci : list Z) (cl : list event)
         (mv : vals num) (ms : list st) (mi : list Z) (ml : list event) (lg : list levent) (sel : option (list sid)),
    check cd = [] ->                                         (* the linker adds no check variable of its own *)
    py_pos (length cs) t = Some p -> length ci = length cs ->
    py_pos (length ms) t = Some p -> length mi = length ms ->
    id <> us_id ->                                           (* the model is not keyed '_' (kept finding: see C08_underscore_id_...) *)
    (* what __init__ establishes for a linker over this one model: its lags / leads are the model's, same span length *)
    lags cd = lags d -> leads cd = leads d -> length cs = length ms ->
    (min_iter o <= max_iter o -> 0 <= max_iter o) ->
    sel = None \/ sel = Some [id] ->
    (* ANY offset (honoured by the linker since fix 6298cba).  mv0 = the values the iterations start from: the model's
       own, or — with a non-zero offset — those with the endogenous rows of period t seeded from period t + offset *)
    let mv0 := if offset o =? 0 then mv else copy_endo num zero d mv p (Z.to_nat (Z.of_nat p + offset o)) in
    (forall i, (1 <= i <= Z.to_nat (max_iter o))%nat ->      (* no evaluation raises (the model would wrap it in SolutionError) *)
       snd (evk num ev o t i (st_after num ev o t mv0 (i - 1))) = None) ->
    (forall i, (i <= Z.to_nat (max_iter o))%nat ->           (* finite regime (the linker has no error policy: kept finding) *)
       all_finite num isfin (chkseq num zero ev d o t p (get_check num zero d mv0 p) mv0 i) = true) ->
    (forall i, (1 <= i <= Z.to_nat (max_iter o))%nat ->      (* evaluation independent of the warning filter in force *)
       sev id t (errors o) (catch_first o) i (st_after num ev o t mv0 (i - 1))
       = ev t (errors o) (catch_first o) i (st_after num ev o t mv0 (i - 1))) ->
    let rm := solve_t_M num sub absf ltb isfin zero ev (id_hook num) (id_hook num) d o t (mkState mv ms mi ml) in
    let rl := linker_solve_t_M num sub absf ltb zero sev (id_lhook num) (id_lhook num) (id_lhook num) (id_lhook num) sel o t
                (mkL (mkComp cd (mkState cv cs ci cl)) [(id, mkComp d (mkState mv ms mi ml))] lg) in
    (* rejected — by BOTH, nothing changed: min_iter > max_iter (ValueError), no room for the lags / leads at t, or an
       offset pointing outside the span (IndexError) *)
    let rejected := (max_iter o <? min_iter o) || negb (feasible d (length ms) p) ||
                    (negb (offset o =? 0) && ((Z.of_nat p + offset o <? 0) || (Z.of_nat (length ms) <=? Z.of_nat p + offset o))) in
    snd rl = lout_of (snd rm) /\
    l_subs (fst rl) = [(id, mkComp d (mkState (vals_of (fst rm)) (status (fst rm)) (iters (fst rm)) ml))] /\
    status (c_st (l_core (fst rl))) = (if rejected then cs else upd p (nth p (status (fst rm)) Unsolved) cs) /\
    iters (c_st (l_core (fst rl))) = (if rejected then ci else upd p (nth p (iters (fst rm)) 0) ci).
Proof. exact single_model_linker_eq_model_any_offset. Qed.

(* [clause] the same for solve() over a RANGE: the linker over one model, solved over the positions ps (any order, repeats,
   rejected periods included), returns the same flags — or raises the same exception at the same period — and leaves the model
   with the same values, statuses and iteration counts as the model solved directly, one solve_t per period (direct_solve:
   the min_iter > max_iter guard, then the fold; the first exception ends the run).  `regime` = the premises of the solve_t
   theorem (finite check values, no raising evaluation, warning-filter independence, 0 <= max_iter) at every period of the
   direct run; the `log` field of the model state is trace instrumentation, reset to ml0 between periods (relog); stated for offset = 0 *)
Theorem C08_single_model_linker_solve_eq_model_solve :
  forall (num : Type) (sub : num -> num -> num) (absf : num -> num) (ltb : num -> num -> bool)
         (isfin : num -> bool) (zero : num) (sev : sid -> hook num) (ev : hook num)
         (d : mdesc) (o : opts num) (id : sid) (cd : mdesc) (ml0 : list event) (n : nat) (sel : option (list sid)),
    check cd = [] -> lags cd = lags d -> leads cd = leads d -> offset o = 0 -> sel = None \/ sel = Some [id] ->
    id <> us_id ->                                           (* the model is not keyed '_' *)
    forall (ps : list Z) (cv : vals num) (cs : list st) (ci : list Z) (cl : list event)
           (mv : vals num) (ms : list st) (mi : list Z) (lg : list levent),
    length cs = n -> length ci = n ->
    regime num sub absf ltb isfin zero sev ev d o id ml0 n ps (mkState mv ms mi ml0) ->
    let rm := direct_solve num sub absf ltb isfin zero ev d o ml0 ps (mkState mv ms mi ml0) in
    let rl := linker_solve_M num sub absf ltb zero sev (id_lhook num) (id_lhook num) (id_lhook num) (id_lhook num) sel o ps
                (mkL (mkComp cd (mkState cv cs ci cl)) [(id, mkComp d (mkState mv ms mi ml0))] lg) in
    snd rl = match snd rm with inl e => inl (LExn e) | inr bs => inr bs end /\
    l_subs (fst rl) = [(id, mkComp d (fst rm))].
Proof. exact single_model_linker_solve_eq_model_solve. Qed.

(* ... and still FALSE outside the finite regime: BaseLinker.solve_t has no error policy (kept finding twin|no-error-policy) *)
Theorem C08_single_model_linker_eq_model_refuted :
  exists sc o, errors o = ERaise /\ min_iter o <= max_iter o /\ offset o = 0 /\ feasible lx_dA 3 1 = true /\
               snd (lx_mrun sc lx_dA o) = Raise (SolutionError None) /\ status (fst (lx_mrun sc lx_dA o)) = [Unsolved; ErrorSt; Unsolved] /\
               snd (lx_lrun sc lx_dA o) = LRet true.
Proof. exact single_model_linker_eq_model_refuted. Qed.

Print Assumptions C08_solve_t_preserves_shape.
Print Assumptions C08_unselected_never_evaluated.
Print Assumptions C08_unselected_not_restamped.
Print Assumptions C08_unselected_untouched.
Print Assumptions C08_unknown_id_KeyError.
Print Assumptions C08_solve_t_quiet_spec.
Print Assumptions C08_linker_event_order.
Print Assumptions C08_linker_converges_at_least_k.
Print Assumptions C08_linker_fails_when_no_k.
Print Assumptions C08_linker_status_stamped.
Print Assumptions C08_linker_maxiter0.
Print Assumptions C08_linker_solve_t_min_gt_max_rejected.
Print Assumptions C08_linker_solve_t_infeasible_rejected.
Print Assumptions C08_linker_solve_t_infeasible_position_rejected.
Print Assumptions C08_linker_guard_is_feasibility.
Print Assumptions C08_guard_passed_fits_every_submodel.
Print Assumptions lx_guard_hypotheses_satisfiable.
Print Assumptions lx_seed_hypotheses_satisfiable.
Print Assumptions lx_init_name_clash.
Print Assumptions C08_linker_offset_seeds.
Print Assumptions C08_seeded_core.
Print Assumptions C08_seeded_selected.
Print Assumptions C08_seeded_unselected.
Print Assumptions C08_linker_offset_out_of_span_rejected.
Print Assumptions C08_linker_offset_zero_no_seeding.
Print Assumptions C08_linker_solve_min_gt_max.
Print Assumptions C08_linker_solve_cons.
Print Assumptions C08_linker_solve_nil.
Print Assumptions C08_ctor_rejects_differing_spans.
Print Assumptions C08_ctor_rejects_differing_labels.
Print Assumptions C08_span_test_decides_equal_elements.
Print Assumptions C08_span_elements_equal_iff.
Print Assumptions C08_ctor_accepts_identical_spans_any_kind.
Print Assumptions C08_ctor_accepts_iff.
Print Assumptions C08_lags_leads_are_maxima.
Print Assumptions C08_ctor_empty.
Print Assumptions C08_init_rejects_name_clash.
Print Assumptions C08_init_without_clash.
Print Assumptions C08_single_model_linker_eq_model.
Print Assumptions C08_single_model_linker_solve_eq_model_solve.
Print Assumptions C08_single_model_linker_eq_model_refuted.
Print Assumptions lx_range_regime_satisfiable.
Print Assumptions C08_solved_iff_all_moved_lt_tol.
Print Assumptions C08_underscore_id_shadows_linker_refuted.
Print Assumptions C08_check_vectors_keep_shape.
Print Assumptions C08_solve_t_other_periods_untouched.
Print Assumptions C08_solve_other_periods_untouched.
Print Assumptions C08_user_exception_stamps_nothing.
Print Assumptions C08_solve_t_stamps_only_solved_or_failed.
Print Assumptions C08_linker_errors_only_handed_down.
Print Assumptions C08_linker_solve_failure_containment.
Print Assumptions C08_ctor_accepted_implies_equal_spans_and_maxima.
Print Assumptions C08_ctor_accepts_only_equal_spans.
Print Assumptions C08_linker_solve_span_min_gt_max.
Print Assumptions C08_linker_solve_span_empty.
Print Assumptions C08_linker_solve_span_unknown_start.
Print Assumptions C08_linker_solve_span_unknown_end.
Print Assumptions C08_linker_solve_span_default_start_outside.
Print Assumptions C08_linker_solve_span_eq_fold.
Print Assumptions C08_linker_solve_span_outside_untouched.
Print Assumptions C08_default_range_fits_every_submodel.
Print Assumptions lx_hypotheses_satisfiable.
Print Assumptions lx_single_hypotheses_satisfiable.
Print Assumptions lx_single_constructed_premises.
Print Assumptions lx_qualifies_at_4.
Print Assumptions lx_user_raise.
Print Assumptions lx_errors_hypotheses_satisfiable.
Print Assumptions lx_failure_containment_hypotheses_satisfiable.
Print Assumptions lx_span_hypotheses_satisfiable.
Print Assumptions lx_default_range_hypotheses_satisfiable.
