(* Props/C17.v — the audited surface for property C17 (tracing never changes a solution and records it faithfully).
   Statements only; every proof is `exact <lemma>`; Print Assumptions under each.

   Vocabulary (Tracer/Tracer.v, Tracer/TracerFacts.v):
     traced_solve_t cfg a reset ev before after d o t s tr   TracerMixin.solve_t(t, **o, trace=a, reset=reset) on an instance
                                                             whose user hooks are ev/before/after, state s, Trace objects tr
     solve_t_M ev before after d o t s                       the same call without the keywords (Solver.v, properties C02/C06)
     ready cfg a reset t v tr                                 "trace_t(t, ...) cannot fail": names known, t in the span, and — unless
                                                             reset=True — the period's Trace is empty, or recorded for other names
                                                             (then it is started afresh), or has one row per name (width_ok);
                                                             every well-formed Trace qualifies
     shape_pres h                                             the user hook h keeps the set of series and their lengths
     traced_solve_all / traced_solve_period_all (TracerSolve.v)   SolverMixin.solve(start=, end=, trace=, reset=, ...) /
                                                             solve_period(label, ...) on the tracer-extended instance, for any
                                                             label type L and span lookup `locate`
     solve_M / solve_period_M / run_periods (Solver/SolveAll.v)  the same without the keywords (reference model of C03/C05)
     solve_targets                                            the positions solve() will visit ([] when it rejects its arguments)
     to_dataframe x / wf_trace x (Tracer.v)                    Trace.to_dataframe(): the labels x names table, ValueError when labels, columns and
                                                             names do not fit
     trace_names / select / mutates (TracerNames.v)            WHICH list object a Trace keeps as `names`: list objects in a heap, trace= given as an
                                                             object; in-place edits of other objects
     linked_passes / plain_passes (TracerLinked.v)             the passes a BaseLinker makes of a (traced / plain) submodel through _evaluate
     reindex_cells / copy_cells / trace_t_cells (TracerReindex.v)  the object array `_trace` (cells = references or None) under reindex(), copy(), trace_t
     tracer_init (TracerSolve.v)                               TracerMixin.__init__ *)
(* WHAT IS A CLAUSE OF THE PROPERTY AND WHAT IS ONLY A DESCRIPTION OF THE CODE (independent review, items 2-4):
   - Clauses of C17: non-interference (C17_trace_noninterference_..., C17_noninterference_with_keywords, C17_linked_submodel_passes),
     "tracing off writes nothing" (C17_trace_off_...), and, for the DEFAULT reset=False, the label / snapshot content
     (C17_trace_shape_..., C17_solve_trace_shape_..., C17_trace_of_run, C17_trace_every_path, C17_trace_accumulates).
   - NOT clauses of the property: the theorems about reset=True (C17_trace_reset_keeps_last_only, C17_trace_reset_every_path —
     reset is handed to every trace_t call of a run, so only the last snapshot survives; the property text does not say what
     a reset=True Trace holds, the docstring "replacing with the current results" can be read either way), about the public
     snapshot methods, __init__, to_dataframe, reindex / copy and the linker.  They pin what the code does; only the
     correspondence check K compares them with the implementation, the oracle does not judge them.  A repair that, say, resets
     only at 'start' will therefore show up as a K disagreement ("no-failing-input-found"), not as an oracle violation.
   - DOMAIN.  `trace=` is None, a bool, ONE name (a str of any length), or a list / tuple of names, as the property's quantifier
     says; names are VARIABLES of the model.  Outside it and excluded (harness ASSUMPTIONS): a NumPy array of names (not a
     Sequence: one element -> the default names are traced, more -> `if trace:` raises ValueError only when tracing) and other
     non-Sequence iterables (set, generator: the defaults, mirrored as TFlag true); names that are container entries but not
     variables ('status', 'iterations', the trace entry: accepted by the code, the snapshot array turns into strings / objects;
     the model answers KeyError).
   - `traces` is a list of Trace VALUES, one per period; the object array of the implementation holds REFERENCES (or None for a
     period added by reindex()).  C17_cells_refine_traces links the two levels: on every array the class can build (cells None
     or Trace objects of their own — after __init__, copy(), reindex(): C17_tracer_init, C17_copy_..., C17_reindex_gives_...)
     the reference-level trace_t_cells IS the value-level trace_t, a None cell reading as the empty Trace (fix 3b0200f).
   - KEPT FINDINGS (known_findings.d/C17.json).  (1) t OUTSIDE the span: trace_t runs before any validation of the base class, so
     the traced call raises IndexError where the untraced one raises another exception (ValueError for min_iter > max_iter):
     C17_trace_out_of_span_refuted; every non-interference theorem carries `py_pos (length tr) t = Some p`.  (2), (3) series
     that are NOT float64: the cells of this model are numbers of ONE type `num`, a str / object / int / bool series cannot be
     expressed, so there is no Coq witness; the implementation builds the snapshot as one NumPy array and coerces mixed dtypes
     (every value becomes a string next to a str variable, an int beyond 2^53 a float) and raises ValueError / DimensionError only
     when tracing if an object cell holds a sequence.  The check judges such models on the oracle side only (case kind 'dtype').
   - The hook-call log is compared up to the SPELLING of the period argument (a negative t and its position are one period), and
     an invalid `errors=` value is not generated: neither is constrained by the property (second review, common items A, B).
   - REPAIRED SINCE ROUND 1 (the refutation theorems are gone, the positive statements stand in their place): finding #16 and the
     stale-names finding (fix 7d04ae5: C17_trace_noninterference_every_traced_call, C17_retrace_under_other_names_...,
     C17_trace_names_after_run), Trace.names shared with the model / caller (cfb58ac: C17_trace_names_...), Trace objects shared
     after reindex (28b2a9a: C17_reindex_gives_every_kept_period_its_own_trace), None cell after reindex (3b0200f:
     C17_reindex_new_period_gets_a_trace). *)
From Coq Require Import ZArith List Bool PrimFloat.
Import ListNotations.
Require Import PyBase Solver SolverFacts SolverF SolveAll Tracer TracerSolve TracerNames TracerLinked TracerReindex TracerKw TracerFacts TracerFacts2 TracerFacts3 TracerFacts4 TracerFacts5 TracerF TracerExamples.
Open Scope Z_scope.

Section C17.
  (* any number type, any arithmetic, any user _evaluate / solve_t_before / solve_t_after *)
  Variable num : Type.
  Variables (sub : num -> num -> num) (absf : num -> num) (ltb : num -> num -> bool)
            (isfin : num -> bool) (zero : num).
  Variables (ev before after : hook num).
  Notation solve_t_M := (solve_t_M num sub absf ltb isfin zero).
  Notation traced_solve_t := (traced_solve_t num sub absf ltb isfin zero).

  (* The copy of BaseModel.solve_t that runs on the tracer-extended instance (Tracer.solve_t_E) is, when nothing is
     added to the instance, the reference model Solver.solve_t_M — for every oracle, option set, period and state. *)
  Theorem C17_extended_solver_is_solve_t_M d o t s :
    solve_t_E num sub absf ltb isfin zero unit (lift_hook num unit ev) (lift_hook num unit before) (lift_hook num unit after) d o t s tt
    = (let '(s', out) := solve_t_M ev before after d o t s in ((s', tt), out)).
  Proof. exact (solve_t_E_unit num sub absf ltb isfin zero ev before after d o t s). Qed.

  (* `ready` is exactly the condition under which trace_t returns normally (any label) *)
  Theorem C17_ready_iff_trace_t_cannot_fail cfg t lab a reset (v : vals num) (tr : traces num) :
    snd (trace_t num cfg t lab a reset v tr) = None <->
    (names_valid num v t (names_of cfg (length v) a) /\
     exists p, py_pos (length tr) t = Some p /\
               (reset = true \/ width_ok num (nth p tr (empty_trace num)) (names_of cfg (length v) a))).
  Proof. exact (trace_t_ready_iff num zero cfg t lab a reset v tr). Qed.

  (* NON-INTERFERENCE, solve_t.  For all user oracles (shape-preserving), options, periods, states, Trace contents and
     `trace=` / `reset=` arguments for which trace_t cannot fail: erasing the trace component of the traced run gives
     exactly the untraced run — values, statuses, iteration counts, the order of hook calls, the return value, the
     exception class and its chained cause — on every path (raise / skip / ignore / replace, non-convergence,
     pre-hook or post-hook failure, min_iter > max_iter, infeasible period, offset outside the span). *)
  Theorem C17_trace_noninterference_solve_t cfg a reset d o t s (tr : traces num) :
    shape_pres num ev -> shape_pres num before -> shape_pres num after ->
    (truthy a = true -> ready num cfg a reset t (vals_of s) tr) ->
    let R := traced_solve_t cfg a reset ev before after d o t s tr in
    (fst (fst R), snd R) = solve_t_M ev before after d o t s.
  Proof. exact (fun H1 H2 H3 => trace_noninterference_solve_t num sub absf ltb isfin zero cfg a reset ev before after H1 H2 H3 d o t s tr). Qed.

  (* ... and what the traced run does to the Trace objects and to the shape of the store: only the period's own
     Trace moves, the list keeps its length, the period's Trace can be appended to again (so a further traced solve
     with the same names cannot fail), the store keeps its shape. *)
  Theorem C17_trace_noninterference_frame cfg a reset d o t s (tr : traces num) p :
    shape_pres num ev -> shape_pres num before -> shape_pres num after ->
    truthy a = true ->
    names_valid num (vals_of s) t (names_of cfg (length (vals_of s)) a) ->
    py_pos (length tr) t = Some p ->
    reset = true \/ width_ok num (nth p tr (empty_trace num)) (names_of cfg (length (vals_of s)) a) ->
    let R := traced_solve_t cfg a reset ev before after d o t s tr in
    let U := solve_t_M ev before after d o t s in
    (fst (fst R), snd R) = U /\
    shape num (vals_of (fst U)) = shape num (vals_of s) /\
    length (snd (fst R)) = length tr /\
    (reset = true \/ width_ok num (nth p (snd (fst R)) (empty_trace num)) (names_of cfg (length (vals_of s)) a)) /\
    (forall q, q <> p -> nth q (snd (fst R)) (empty_trace num) = nth q tr (empty_trace num)).
  Proof. exact (fun H1 H2 H3 => traced_solve_t_on num sub absf ltb isfin zero cfg a reset ev before after H1 H2 H3 d o t s tr p). Qed.

  (* TRACING OFF (trace omitted, None, False, '' or []): the call IS the untraced call and no Trace is written *)
  Theorem C17_trace_off_writes_nothing cfg a reset d o t s (tr : traces num) :
    shape_pres num ev -> shape_pres num before -> shape_pres num after ->
    truthy a = false ->
    traced_solve_t cfg a reset ev before after d o t s tr
    = (let '(s', out) := solve_t_M ev before after d o t s in ((s', tr), out)).
  Proof. exact (fun H1 H2 H3 => trace_off_writes_nothing num sub absf ltb isfin zero cfg a reset ev before after H1 H2 H3 d o t s tr). Qed.

  (* solve_period(label, trace=, reset=), for ANY label type and span lookup (`locate` = the instance's
     _locate_period_in_span: get_loc / index / the fallback): a label the lookup cannot turn into an int -> KeyError in
     both; otherwise as solve_t at the position found.  The untraced side is SolveAll.solve_period_M, the reference
     model of SolverMixin.solve_period. *)
  Theorem C17_trace_noninterference_solve_period cfg a reset (L : Type) (locate : L -> locres) d o lab s (tr : traces num) :
    shape_pres num ev -> shape_pres num before -> shape_pres num after ->
    (forall t, locate lab = LInt t -> truthy a = true -> ready num cfg a reset t (vals_of s) tr) ->
    let R := traced_solve_period_all num sub absf ltb isfin zero cfg a reset ev before after L locate d o lab s tr in
    (fst (fst R), snd R) = solve_period_M num sub absf ltb isfin zero ev before after L locate d o lab s.
  Proof. exact (fun H1 H2 H3 => trace_noninterference_solve_period_all num sub absf ltb isfin zero cfg a reset ev before after H1 H2 H3 L locate d o lab s tr). Qed.

  (* solve(start=, end=, trace=, reset=, ...): min_iter/max_iter and label validation, the periods iter_periods yields
     (defaults from lags / leads), then one solve_t per period with the keywords threaded through.  If trace_t cannot
     fail (in the initial state) at any position solve() is going to visit, the whole multi-period run — the three
     returned lists, the exception that stops it, every period's values / status / iterations — equals
     SolverMixin.solve without the keywords (SolveAll.solve_M). *)
  Theorem C17_trace_noninterference_solve cfg a reset (L : Type) (locate : L -> locres) d o span start end_ s (tr : traces num) :
    shape_pres num ev -> shape_pres num before -> shape_pres num after ->
    (truthy a = true ->
     forall t, In t (solve_targets num L locate d o span start end_) -> ready num cfg a reset t (vals_of s) tr) ->
    let R := traced_solve_all num sub absf ltb isfin zero cfg a reset ev before after L locate d o span start end_ s tr in
    (fst (fst R), snd R) = solve_M num sub absf ltb isfin zero ev before after L locate d o span start end_ s.
  Proof. exact (fun H1 H2 H3 => trace_noninterference_solve_all num sub absf ltb isfin zero cfg a reset ev before after H1 H2 H3 L locate d o span start end_ s tr). Qed.

  (* ... the same for ANY list of (position, label) pairs an overridden iter_periods may yield *)
  Theorem C17_trace_noninterference_run_periods cfg a reset (L : Type) d o (ps : list (Z * L)) s (tr : traces num) acc :
    shape_pres num ev -> shape_pres num before -> shape_pres num after ->
    (truthy a = true -> forall t, In t (map fst ps) -> ready num cfg a reset t (vals_of s) tr) ->
    let R := traced_run_periods num sub absf ltb isfin zero cfg a reset ev before after L d o ps s tr acc in
    (fst (fst R), snd R) = run_periods num sub absf ltb isfin zero ev before after L d o ps s acc.
  Proof. exact (fun H1 H2 H3 => traced_run_periods_erase num sub absf ltb isfin zero cfg a reset ev before after H1 H2 H3 L d o ps s tr acc). Qed.

  (* solve() with tracing on moves only the Traces of the periods it visits; the shape of the store, the number of
     Trace objects and of periods stay; wherever trace_t could not fail before, it cannot fail afterwards (so a further
     traced solve() with the same names is safe). *)
  Theorem C17_solve_moves_only_visited_traces cfg a reset (L : Type) d o (ps : list (Z * L)) s (tr : traces num) acc ts :
    shape_pres num ev -> shape_pres num before -> shape_pres num after ->
    truthy a = true ->
    (forall t, In t (map fst ps) -> ready num cfg a reset t (vals_of s) tr) ->
    (forall t, In t ts -> ready num cfg a reset t (vals_of s) tr) ->
    let R := traced_run_periods num sub absf ltb isfin zero cfg a reset ev before after L d o ps s tr acc in
    let s' := fst (fst R) in let tr' := snd (fst R) in
    shape num (vals_of s') = shape num (vals_of s) /\ length tr' = length tr /\ length (status s') = length (status s) /\
    (forall t, In t ts -> ready num cfg a reset t (vals_of s') tr') /\
    (forall q, (forall t, In t (map fst ps) -> py_pos (length tr) t <> Some q) ->
               nth q tr' (empty_trace num) = nth q tr (empty_trace num)).
  Proof. exact (fun H1 H2 H3 Ha => traced_run_periods_on num sub absf ltb isfin zero cfg a reset ev before after H1 H2 H3 L Ha d o ps s tr acc ts). Qed.

  (* WITHIN a multi-period solve(): the Trace of a period visited once is exactly what that period's own traced solve_t
     writes — from the Trace the period had before solve() was called and the instance (s1, tr1) as the earlier periods
     left it; later periods do not touch it.  The facts listed for (s1, tr1) are the hypotheses of C17_trace_of_run /
     C17_trace_shape_solved / C17_trace_shape_unsolved, which therefore describe every period's Trace after solve(). *)
  Theorem C17_trace_of_period_within_solve cfg a reset (L : Type) d o (l1 l2 : list (Z * L)) t lab s (tr : traces num) acc p s1 tr1 acc1 :
    shape_pres num ev -> shape_pres num before -> shape_pres num after ->
    truthy a = true ->
    (forall t', In t' (map fst (l1 ++ (t, lab) :: l2)) -> ready num cfg a reset t' (vals_of s) tr) ->
    py_pos (length tr) t = Some p ->
    (forall t', In t' (map fst l1 ++ map fst l2) -> py_pos (length tr) t' <> Some p) ->
    traced_run_periods num sub absf ltb isfin zero cfg a reset ev before after L d o l1 s tr acc = ((s1, tr1), Ret acc1) ->
    nth p tr1 (empty_trace num) = nth p tr (empty_trace num) /\
    ready num cfg a reset t (vals_of s1) tr1 /\ length tr1 = length tr /\ length (status s1) = length (status s) /\
    nth p (snd (fst (traced_run_periods num sub absf ltb isfin zero cfg a reset ev before after L d o (l1 ++ (t, lab) :: l2) s tr acc))) (empty_trace num)
    = nth p (snd (fst (traced_solve_t cfg a reset ev before after d o t s1 tr1))) (empty_trace num).
  Proof. exact (fun H1 H2 H3 Ha => trace_of_period_within_solve num sub absf ltb isfin zero cfg a reset ev before after H1 H2 H3 L Ha d o l1 l2 t lab s tr acc p s1 tr1 acc1). Qed.

  (* solve() that rejects its arguments (min_iter > max_iter, unknown start / end label, empty span, lags / leads
     beyond the span) or has no period to solve: no value, status, iteration count or Trace changes *)
  Theorem C17_traced_solve_no_targets cfg a reset (L : Type) (locate : L -> locres) d o span start end_ s (tr : traces num) :
    solve_targets num L locate d o span start end_ = [] ->
    fst (traced_solve_all num sub absf ltb isfin zero cfg a reset ev before after L locate d o span start end_ s tr) = (s, tr).
  Proof. exact (traced_solve_all_no_targets num sub absf ltb isfin zero cfg a reset ev before after L locate d o span start end_ s tr). Qed.

  Theorem C17_trace_off_solve_writes_nothing cfg a reset (L : Type) (locate : L -> locres) d o span start end_ s (tr : traces num) :
    shape_pres num ev -> shape_pres num before -> shape_pres num after ->
    truthy a = false ->
    snd (fst (traced_solve_all num sub absf ltb isfin zero cfg a reset ev before after L locate d o span start end_ s tr)) = tr.
  Proof. exact (fun H1 H2 H3 => trace_off_solve_all_writes_nothing num sub absf ltb isfin zero cfg a reset ev before after H1 H2 H3 L locate d o span start end_ s tr). Qed.

  (* When trace_t DOES fail at 'start' (unknown name -> KeyError, t outside the span -> IndexError, width mismatch ->
     ValueError): that exception is what the call raises, before the base class is entered; values, statuses and
     iteration counts are untouched. *)
  Theorem C17_traced_solve_t_start_fails cfg a reset d o t s (tr : traces num) e :
    truthy a = true ->
    snd (trace_t num cfg t LStart a reset (vals_of s) tr) = Some e ->
    traced_solve_t cfg a reset ev before after d o t s tr
    = ((s, fst (trace_t num cfg t LStart a reset (vals_of s) tr)), Raise e).
  Proof. exact (traced_solve_t_start_fails num sub absf ltb isfin zero cfg a reset ev before after d o t s tr e). Qed.

  (* TRACE SHAPE, solved period, default reset=False, starting from an empty Trace: labels start, before, 0, 1..k, end
     with k = iterations[t] >= 1; snapshot 'start' = the values on entry, 'before' = after the optional offset copy,
     j = after evaluation pass j (0 = after the pre-hook), 'end' = the stored solution. *)
  Theorem C17_trace_shape_solved cfg a d o t s (tr : traces num) p s' tr' :
    shape_pres num ev -> shape_pres num before -> shape_pres num after ->
    truthy a = true ->
    names_valid num (vals_of s) t (names_of cfg (length (vals_of s)) a) ->
    py_pos (length tr) t = Some p -> length tr = length (status s) ->
    is_empty num (nth p tr (empty_trace num)) = true ->
    traced_solve_t cfg a false ev before after d o t s tr = ((s', tr'), Ret true) ->
    let names := names_of cfg (length (vals_of s)) a in
    let v0 := seeded num zero d o s p in
    let v1 := fst (before t (errors o) (catch_first o) 0%nat v0) in
    exists k, (1 <= k)%nat /\
      status s' = upd p Solved (status s) /\ iters s' = upd p (Z.of_nat k) (iters s) /\
      nth p tr' (empty_trace num)
      = mkTrace names
          (LStart :: LBefore :: map LIter (seq 0 (S k)) ++ [LEnd])
          (snap num zero (vals_of s) t names :: snap num zero v0 t names
           :: map (fun j => snap num zero (st_after num ev o t v1 j) t names) (seq 0 (S k))
           ++ [snap num zero (vals_of s') t names]).
  Proof. exact (fun H1 H2 H3 => trace_shape_solved num sub absf ltb isfin zero cfg a ev before after H1 H2 H3 d o t s tr p s' tr'). Qed.

  (* ... unsolved period (returned False, or NonConvergenceError): the trace stops after its last pass k =
     iterations[t]; there is no 'end'; the last snapshot is what is stored. *)
  Theorem C17_trace_shape_unsolved cfg a d o t s (tr : traces num) p s' tr' out :
    shape_pres num ev -> shape_pres num before -> shape_pres num after ->
    truthy a = true ->
    names_valid num (vals_of s) t (names_of cfg (length (vals_of s)) a) ->
    py_pos (length tr) t = Some p -> length tr = length (status s) ->
    is_empty num (nth p tr (empty_trace num)) = true ->
    traced_solve_t cfg a false ev before after d o t s tr = ((s', tr'), out) ->
    out = Ret false \/ out = Raise NonConvergenceError ->
    let names := names_of cfg (length (vals_of s)) a in
    let v0 := seeded num zero d o s p in
    let v1 := fst (before t (errors o) (catch_first o) 0%nat v0) in
    exists k x, x <> Solved /\
      status s' = upd p x (status s) /\ iters s' = upd p (Z.of_nat k) (iters s) /\
      vals_of s' = st_after num ev o t v1 k /\
      nth p tr' (empty_trace num)
      = mkTrace names
          (LStart :: LBefore :: map LIter (seq 0 (S k)))
          (snap num zero (vals_of s) t names :: snap num zero v0 t names
           :: map (fun j => snap num zero (st_after num ev o t v1 j) t names) (seq 0 (S k))).
  Proof. exact (fun H1 H2 H3 => trace_shape_unsolved num sub absf ltb isfin zero cfg a ev before after H1 H2 H3 d o t s tr p s' tr' out). Qed.

  (* The general form (any reset, any prior Trace content of matching width): the period's Trace after the call is the
     prior one with the run's snapshots pushed in order — so repeated traced solves accumulate (reset=False) ... *)
  Theorem C17_trace_of_run cfg a reset d o t s (tr : traces num) p s' tr' out :
    shape_pres num ev -> shape_pres num before -> shape_pres num after ->
    truthy a = true ->
    names_valid num (vals_of s) t (names_of cfg (length (vals_of s)) a) ->
    py_pos (length tr) t = Some p -> length tr = length (status s) ->
    reset = true \/ width_ok num (nth p tr (empty_trace num)) (names_of cfg (length (vals_of s)) a) ->
    traced_solve_t cfg a reset ev before after d o t s tr = ((s', tr'), out) ->
    out = Ret true \/ out = Ret false \/ out = Raise NonConvergenceError ->
    let names := names_of cfg (length (vals_of s)) a in
    let v0 := seeded num zero d o s p in
    let v1 := fst (before t (errors o) (catch_first o) 0%nat v0) in
    exists k x,
      status s' = upd p x (status s) /\ iters s' = upd p (Z.of_nat k) (iters s) /\
      (out = Ret true <-> x = Solved) /\ (x = Solved -> (1 <= k)%nat) /\
      (x <> Solved -> vals_of s' = st_after num ev o t v1 k) /\
      nth p tr' (empty_trace num)
      = pushes num names reset (nth p tr (empty_trace num))
          ([(LStart, snap num zero (vals_of s) t names); (LBefore, snap num zero v0 t names); (LIter 0, snap num zero v1 t names)]
           ++ iter_entries num zero ev o t v1 names 0 k ++ end_entry num zero t names x (vals_of s')).
  Proof. exact (fun H1 H2 H3 => trace_of_run num sub absf ltb isfin zero cfg a reset ev before after H1 H2 H3 d o t s tr p s' tr' out). Qed.

  (* EVERY path, exceptions included (pre-existing NaN, hook failures, numerical errors, invalid `errors`, infeasible
     period, min_iter > max_iter ...): what the call appends to the period's Trace is a run
     start [, before [, 0, 1, .., m [, end]]] — no gap, nothing out of order, 'end' only last and only after >= 1 pass. *)
  Theorem C17_trace_every_path cfg a reset d o t s (tr : traces num) p :
    shape_pres num ev -> shape_pres num before -> shape_pres num after ->
    truthy a = true ->
    names_valid num (vals_of s) t (names_of cfg (length (vals_of s)) a) ->
    py_pos (length tr) t = Some p -> length tr = length (status s) ->
    reset = true \/ width_ok num (nth p tr (empty_trace num)) (names_of cfg (length (vals_of s)) a) ->
    let R := traced_solve_t cfg a reset ev before after d o t s tr in
    exists l, run_index (map fst l) /\
      nth p (snd (fst R)) (empty_trace num)
      = pushes num (names_of cfg (length (vals_of s)) a) reset (nth p tr (empty_trace num)) l.
  Proof. exact (fun H1 H2 H3 => trace_every_path num sub absf ltb isfin zero cfg a reset ev before after H1 H2 H3 d o t s tr p). Qed.

  (* ... and with reset=True (handed to every trace_t call of the run) only the last snapshot survives.
     [Describes the code; NOT a clause of the property, which constrains reset=False only — see the header.] *)
  Theorem C17_trace_reset_keeps_last_only cfg a d o t s (tr : traces num) p s' tr' :
    shape_pres num ev -> shape_pres num before -> shape_pres num after ->
    truthy a = true ->
    names_valid num (vals_of s) t (names_of cfg (length (vals_of s)) a) ->
    py_pos (length tr) t = Some p -> length tr = length (status s) ->
    traced_solve_t cfg a true ev before after d o t s tr = ((s', tr'), Ret true) ->
    let names := names_of cfg (length (vals_of s)) a in
    nth p tr' (empty_trace num) = mkTrace names [LEnd] [snap num zero (vals_of s') t names].
  Proof. exact (fun H1 H2 H3 => trace_reset_keeps_last_only num sub absf ltb isfin zero cfg a ev before after H1 H2 H3 d o t s tr p s' tr'). Qed.
  (* [Describes the code; not a clause of the property.]
     ... on EVERY path (exceptions included) reset=True leaves exactly ONE snapshot in the period's Trace — the last one
     the run took — under the names of this call, whatever the Trace held before (no width guard needed) *)
  Theorem C17_trace_reset_every_path cfg a d o t s (tr : traces num) p :
    shape_pres num ev -> shape_pres num before -> shape_pres num after ->
    truthy a = true ->
    names_valid num (vals_of s) t (names_of cfg (length (vals_of s)) a) ->
    py_pos (length tr) t = Some p -> length tr = length (status s) ->
    let R := traced_solve_t cfg a true ev before after d o t s tr in
    exists lab res, nth p (snd (fst R)) (empty_trace num) = mkTrace (names_of cfg (length (vals_of s)) a) [lab] [res].
  Proof. exact (fun H1 H2 H3 => trace_reset_every_path num sub absf ltb isfin zero cfg a ev before after H1 H2 H3 d o t s tr p). Qed.

  (* REPEATED SOLVES (default reset=False) of a period traced before under THE SAME list of names: nothing the Trace held
     is lost and the run's labels start, before, 0, 1..k [, end] and snapshots are appended in order.  (Under any other
     list of names the Trace starts afresh: C17_retrace_under_other_names_solved.) *)
  Theorem C17_trace_accumulates cfg a d o t s (tr : traces num) p s' tr' out :
    shape_pres num ev -> shape_pres num before -> shape_pres num after ->
    truthy a = true ->
    names_valid num (vals_of s) t (names_of cfg (length (vals_of s)) a) ->
    py_pos (length tr) t = Some p -> length tr = length (status s) ->
    is_empty num (nth p tr (empty_trace num)) = false ->
    tr_names (nth p tr (empty_trace num)) = names_of cfg (length (vals_of s)) a ->
    width_ok num (nth p tr (empty_trace num)) (names_of cfg (length (vals_of s)) a) ->
    traced_solve_t cfg a false ev before after d o t s tr = ((s', tr'), out) ->
    out = Ret true \/ out = Ret false \/ out = Raise NonConvergenceError ->
    let names := names_of cfg (length (vals_of s)) a in
    let old := nth p tr (empty_trace num) in
    let v0 := seeded num zero d o s p in
    let v1 := fst (before t (errors o) (catch_first o) 0%nat v0) in
    exists k x,
      status s' = upd p x (status s) /\ iters s' = upd p (Z.of_nat k) (iters s) /\
      (out = Ret true <-> x = Solved) /\
      nth p tr' (empty_trace num)
      = mkTrace (tr_names old)
          (tr_index old ++ LStart :: LBefore :: map LIter (seq 0 (S k)) ++ (if st_eqb x Solved then [LEnd] else []))
          (tr_values old ++ snap num zero (vals_of s) t names :: snap num zero v0 t names
             :: map (fun j => snap num zero (st_after num ev o t v1 j) t names) (seq 0 (S k))
             ++ (if st_eqb x Solved then [snap num zero (vals_of s') t names] else [])).
  Proof. exact (fun H1 H2 H3 => trace_accumulates num sub absf ltb isfin zero cfg a ev before after H1 H2 H3 d o t s tr p s' tr' out). Qed.

  (* Which names the period's Trace carries after a traced run: ALWAYS those of this call (fix 7d04ae5; this is the positive
     statement that replaces the former C17_trace_stale_names_refuted). *)
  Theorem C17_trace_names_after_run cfg a reset d o t s (tr : traces num) p s' tr' out :
    shape_pres num ev -> shape_pres num before -> shape_pres num after ->
    truthy a = true ->
    names_valid num (vals_of s) t (names_of cfg (length (vals_of s)) a) ->
    py_pos (length tr) t = Some p -> length tr = length (status s) ->
    reset = true \/ width_ok num (nth p tr (empty_trace num)) (names_of cfg (length (vals_of s)) a) ->
    traced_solve_t cfg a reset ev before after d o t s tr = ((s', tr'), out) ->
    out = Ret true \/ out = Ret false \/ out = Raise NonConvergenceError ->
    tr_names (nth p tr' (empty_trace num)) = names_of cfg (length (vals_of s)) a.
  Proof. exact (fun H1 H2 H3 => trace_names_after_run num sub absf ltb isfin zero cfg a ev before after H1 H2 H3 reset d o t s tr p s' tr' out). Qed.

  (* NON-INTERFERENCE WITHOUT A WIDTH GUARD (fixes 7d04ae5, cfb58ac; replaces the former C17_trace_width_mismatch_refuted).
     Every Trace the class builds is well formed — one label per column, one name per row (C17_tracer_init,
     C17_every_trace_t_keeps_traces_well_formed) — and on a well-formed Trace EVERY traced call with valid names at a period
     of the span erases to the untraced call: whatever the Trace holds, for whatever names it was recorded, with or
     without reset. *)
  Theorem C17_trace_noninterference_every_traced_call cfg a reset d o t s (tr : traces num) p :
    shape_pres num ev -> shape_pres num before -> shape_pres num after ->
    names_valid num (vals_of s) t (names_of cfg (length (vals_of s)) a) ->
    py_pos (length tr) t = Some p ->
    wf_trace num (nth p tr (empty_trace num)) = true ->
    let R := traced_solve_t cfg a reset ev before after d o t s tr in
    (fst (fst R), snd R) = solve_t_M ev before after d o t s.
  Proof. exact (fun H1 H2 H3 => trace_noninterference_wf num sub absf ltb isfin zero cfg a ev before after H1 H2 H3 reset d o t s tr p). Qed.

  (* ... `ready` (the exact condition under which trace_t cannot fail) holds on every well-formed Trace *)
  Theorem C17_well_formed_traces_accept_any_names (x : trace num) names : wf_trace num x = true -> width_ok num x names.
  Proof. exact (wf_width_ok num x names). Qed.

  (* A PERIOD TRACED AGAIN UNDER OTHER NAMES STARTS AFRESH (replaces the former refutations of finding #16 and of the
     stale-names finding).  Default reset=False; the period's Trace is empty OR was recorded for another list of names (of
     any number); the period is solved: afterwards its Trace is exactly the trace of a FIRST solve under the names traced
     now — labels start, before, 0, 1..k, end; snapshot j = those variables after pass j; last = the stored solution —
     with nothing of the old recording mixed in.  (afresh x false names = is_empty x || names differ.) *)
  Theorem C17_retrace_under_other_names_solved cfg a d o t s (tr : traces num) p s' tr' :
    shape_pres num ev -> shape_pres num before -> shape_pres num after ->
    truthy a = true ->
    names_valid num (vals_of s) t (names_of cfg (length (vals_of s)) a) ->
    py_pos (length tr) t = Some p -> length tr = length (status s) ->
    afresh num (nth p tr (empty_trace num)) false (names_of cfg (length (vals_of s)) a) = true ->
    traced_solve_t cfg a false ev before after d o t s tr = ((s', tr'), Ret true) ->
    let names := names_of cfg (length (vals_of s)) a in
    let v0 := seeded num zero d o s p in
    let v1 := fst (before t (errors o) (catch_first o) 0%nat v0) in
    exists k, (1 <= k)%nat /\
      status s' = upd p Solved (status s) /\ iters s' = upd p (Z.of_nat k) (iters s) /\
      nth p tr' (empty_trace num)
      = mkTrace names
          (LStart :: LBefore :: map LIter (seq 0 (S k)) ++ [LEnd])
          (snap num zero (vals_of s) t names :: snap num zero v0 t names
           :: map (fun j => snap num zero (st_after num ev o t v1 j) t names) (seq 0 (S k))
           ++ [snap num zero (vals_of s') t names]).
  Proof. exact (fun H1 H2 H3 => trace_shape_solved_afresh num sub absf ltb isfin zero cfg a ev before after H1 H2 H3 d o t s tr p s' tr'). Qed.

  Theorem C17_retrace_under_other_names_unsolved cfg a d o t s (tr : traces num) p s' tr' out :
    shape_pres num ev -> shape_pres num before -> shape_pres num after ->
    truthy a = true ->
    names_valid num (vals_of s) t (names_of cfg (length (vals_of s)) a) ->
    py_pos (length tr) t = Some p -> length tr = length (status s) ->
    afresh num (nth p tr (empty_trace num)) false (names_of cfg (length (vals_of s)) a) = true ->
    traced_solve_t cfg a false ev before after d o t s tr = ((s', tr'), out) ->
    out = Ret false \/ out = Raise NonConvergenceError ->
    let names := names_of cfg (length (vals_of s)) a in
    let v0 := seeded num zero d o s p in
    let v1 := fst (before t (errors o) (catch_first o) 0%nat v0) in
    exists k x, x <> Solved /\
      status s' = upd p x (status s) /\ iters s' = upd p (Z.of_nat k) (iters s) /\
      vals_of s' = st_after num ev o t v1 k /\
      nth p tr' (empty_trace num)
      = mkTrace names
          (LStart :: LBefore :: map LIter (seq 0 (S k)))
          (snap num zero (vals_of s) t names :: snap num zero v0 t names
           :: map (fun j => snap num zero (st_after num ev o t v1 j) t names) (seq 0 (S k))).
  Proof. exact (fun H1 H2 H3 => trace_shape_unsolved_afresh num sub absf ltb isfin zero cfg a ev before after H1 H2 H3 d o t s tr p s' tr' out). Qed.

  (* THE SECOND SENTENCE FOR solve(): after the WHOLE multi-period solve(trace=..., reset=False), a period with an empty
     Trace that is visited once and SOLVED holds the labels start, before, 0, 1..k, end (k = its iteration count >= 1),
     snapshot j = the traced variables after its pass j, the last snapshot = the solution stored when it finished.
     ((s1, tr1) = the instance when the period's turn comes, s2 = the state right after its solve_t.) *)
  Theorem C17_solve_trace_shape_solved cfg a (L : Type) d o (l1 l2 : list (Z * L)) t lab s (tr : traces num) acc p s1 tr1 acc1 s2 tr2 :
    shape_pres num ev -> shape_pres num before -> shape_pres num after ->
    truthy a = true ->
    (forall t', In t' (map fst (l1 ++ (t, lab) :: l2)) -> ready num cfg a false t' (vals_of s) tr) ->
    py_pos (length tr) t = Some p -> length tr = length (status s) ->
    (forall t', In t' (map fst l1 ++ map fst l2) -> py_pos (length tr) t' <> Some p) ->
    is_empty num (nth p tr (empty_trace num)) = true ->
    traced_run_periods num sub absf ltb isfin zero cfg a false ev before after L d o l1 s tr acc = ((s1, tr1), Ret acc1) ->
    traced_solve_t cfg a false ev before after d o t s1 tr1 = ((s2, tr2), Ret true) ->
    let names := names_of cfg (length (vals_of s1)) a in
    let v0 := seeded num zero d o s1 p in
    let v1 := fst (before t (errors o) (catch_first o) 0%nat v0) in
    exists k, (1 <= k)%nat /\
      status s2 = upd p Solved (status s1) /\ iters s2 = upd p (Z.of_nat k) (iters s1) /\
      nth p (snd (fst (traced_run_periods num sub absf ltb isfin zero cfg a false ev before after L d o (l1 ++ (t, lab) :: l2) s tr acc))) (empty_trace num)
      = mkTrace names
          (LStart :: LBefore :: map LIter (seq 0 (S k)) ++ [LEnd])
          (snap num zero (vals_of s1) t names :: snap num zero v0 t names
           :: map (fun j => snap num zero (st_after num ev o t v1 j) t names) (seq 0 (S k)) ++ [snap num zero (vals_of s2) t names]).
  Proof. exact (fun H1 H2 H3 => solve_trace_shape_solved num sub absf ltb isfin zero cfg a ev before after H1 H2 H3 L d o l1 l2 t lab s tr acc p s1 tr1 acc1 s2 tr2). Qed.

  (* ... and an UNSOLVED one (flag False, or NonConvergenceError which ends the run): no 'end'; the trace stops after its
     last pass k = iterations, whose snapshot is what is stored *)
  Theorem C17_solve_trace_shape_unsolved cfg a (L : Type) d o (l1 l2 : list (Z * L)) t lab s (tr : traces num) acc p s1 tr1 acc1 s2 tr2 out :
    shape_pres num ev -> shape_pres num before -> shape_pres num after ->
    truthy a = true ->
    (forall t', In t' (map fst (l1 ++ (t, lab) :: l2)) -> ready num cfg a false t' (vals_of s) tr) ->
    py_pos (length tr) t = Some p -> length tr = length (status s) ->
    (forall t', In t' (map fst l1 ++ map fst l2) -> py_pos (length tr) t' <> Some p) ->
    is_empty num (nth p tr (empty_trace num)) = true ->
    traced_run_periods num sub absf ltb isfin zero cfg a false ev before after L d o l1 s tr acc = ((s1, tr1), Ret acc1) ->
    traced_solve_t cfg a false ev before after d o t s1 tr1 = ((s2, tr2), out) ->
    out = Ret false \/ out = Raise NonConvergenceError ->
    let names := names_of cfg (length (vals_of s1)) a in
    let v0 := seeded num zero d o s1 p in
    let v1 := fst (before t (errors o) (catch_first o) 0%nat v0) in
    exists k x, x <> Solved /\
      status s2 = upd p x (status s1) /\ iters s2 = upd p (Z.of_nat k) (iters s1) /\
      vals_of s2 = st_after num ev o t v1 k /\
      nth p (snd (fst (traced_run_periods num sub absf ltb isfin zero cfg a false ev before after L d o (l1 ++ (t, lab) :: l2) s tr acc))) (empty_trace num)
      = mkTrace names
          (LStart :: LBefore :: map LIter (seq 0 (S k)))
          (snap num zero (vals_of s1) t names :: snap num zero v0 t names
           :: map (fun j => snap num zero (st_after num ev o t v1 j) t names) (seq 0 (S k))).
  Proof. exact (fun H1 H2 H3 => solve_trace_shape_unsolved num sub absf ltb isfin zero cfg a ev before after H1 H2 H3 L d o l1 l2 t lab s tr acc p s1 tr1 acc1 s2 tr2 out). Qed.
  (* Trace.to_dataframe() IS the labels x names table: after a traced solve that returns (or fails to converge), a Trace
     that was well formed before (one label per stored column, one name per row — in particular an empty one) is
     well formed and non-empty, so DataFrame(values.T, index=index, columns=names) is accepted: row labels = the labels,
     columns = the names, row j = snapshot j. *)
  Theorem C17_to_dataframe_after_run cfg a reset d o t s (tr : traces num) p s' tr' out :
    shape_pres num ev -> shape_pres num before -> shape_pres num after ->
    truthy a = true ->
    names_valid num (vals_of s) t (names_of cfg (length (vals_of s)) a) ->
    py_pos (length tr) t = Some p -> length tr = length (status s) ->
    wf_trace num (nth p tr (empty_trace num)) = true ->
    traced_solve_t cfg a reset ev before after d o t s tr = ((s', tr'), out) ->
    out = Ret true \/ out = Ret false \/ out = Raise NonConvergenceError ->
    let X := nth p tr' (empty_trace num) in
    to_dataframe num X = Ret (tr_index X, tr_names X, tr_values X) /\ tr_values X <> [].
  Proof. exact (fun H1 H2 H3 => to_dataframe_after_run num sub absf ltb isfin zero cfg a reset ev before after H1 H2 H3 d o t s tr p s' tr' out). Qed.

  (* EVERY trace_t (solve-internal or called directly) keeps a Trace well formed: it either starts it afresh or — same
     names, hence the same number of rows — extends it by one column.  No width guard (fix 7d04ae5). *)
  Theorem C17_every_trace_t_keeps_traces_well_formed names reset (old : trace num) lab res :
    wf_trace num old = true -> length res = length names ->
    wf_trace num (push num names reset old lab res) = true.
  Proof. exact (push_wf num names reset old lab res). Qed.

  (* A TRACED MODEL AS A SUBMODEL OF A LINKER.  BaseLinker reaches a submodel only through `_evaluate(t, iteration=k, **kwargs)`,
     once per linker pass (TracerLinked.v).  For passes k, k+1, .., k+n-1 over a tracer-extended submodel at a period where
     trace_t cannot fail: erasing the Trace objects gives the passes over the plain submodel (values, the exception that
     stopped them, raw); the store keeps its shape; only the period's own Trace moves; and it receives exactly one snapshot
     per pass that returned, labelled with the pass number and holding the traced variables as that pass left them —
     never 'start', 'before', 0 or 'end'. *)
  Theorem C17_linked_submodel_passes cfg a reset t em cf n k (v : vals num) (tr : traces num) p :
    shape_pres num ev -> truthy a = true ->
    names_valid num v t (names_of cfg (length v) a) ->
    py_pos (length tr) t = Some p ->
    reset = true \/ width_ok num (nth p tr (empty_trace num)) (names_of cfg (length v) a) ->
    let R := linked_passes num cfg a reset ev t em cf k n v tr in
    (fst (fst R), snd R) = plain_passes num ev t em cf k n v /\
    shape num (fst (fst R)) = shape num v /\
    length (snd (fst R)) = length tr /\
    (forall q, q <> p -> nth q (snd (fst R)) (empty_trace num) = nth q tr (empty_trace num)) /\
    nth p (snd (fst R)) (empty_trace num)
    = pushes num (names_of cfg (length v) a) reset (nth p tr (empty_trace num))
        (linked_entries num zero ev t em cf (names_of cfg (length v) a) k n v).
  Proof. exact (fun H1 Ha => linked_passes_spec num zero cfg a reset ev H1 Ha t em cf n k v tr p). Qed.

  Theorem C17_linked_submodel_labels t em cf names n k (v : vals num) :
    exists m, (m <= n)%nat /\ map fst (linked_entries num zero ev t em cf names k n v) = map LIter (seq k m) /\
              (snd (plain_passes num ev t em cf k n v) = None -> m = n).
  Proof. exact (linked_entries_labels num zero ev t em cf names n k v). Qed.
End C17.

(* THE KEYWORDS THE FOUR WRAPPERS THREAD THROUGH, EXPLICIT (TracerKw.v; independent review item 1).  BaseModel.solve_t hands
   its hooks errors=, catch_first_error=, iteration= and **kwargs (trace=, reset= and any further user keyword x); each
   wrapper binds trace / reset / iteration and calls super() with `trace=trace, reset=reset, iteration=iteration, **kwargs`
   (the function `forward`; a wrapper that forgets something is another function).  For ALL user hooks — functions of
   the iteration number, errors, catch_first_error and the user keywords they receive — the traced call erases to the call
   on the plain class with the same options and user keywords: values, statuses, iteration counts, hook-call order, result. *)
Theorem C17_noninterference_with_keywords (num : Type) (sub : num -> num -> num) (absf : num -> num) (ltb : num -> num -> bool)
        (isfin : num -> bool) (zero : num) cfg a r x (ev before after : uhook num) d o t s (tr : traces num) :
  ushape_pres num ev -> ushape_pres num before -> ushape_pres num after ->
  (truthy a = true -> ready num cfg a r t (vals_of s) tr) ->
  let R := traced_solve_t_K num sub absf ltb isfin zero forward forward forward cfg a r x ev before after d o t s tr in
  (fst (fst R), snd R) = plain_solve_t_K num sub absf ltb isfin zero x ev before after d o t s.
Proof. exact (kw_noninterference num sub absf ltb isfin zero cfg a r x ev before after d o t s tr). Qed.

(* what the user's hook receives through the real wrapper is what it receives on the plain class, for every trace / reset *)
Theorem C17_wrappers_forward_every_keyword (num : Type) (h : uhook num) a r x :
  (forall kw, forward kw = kw) /\ wrapped_hook num forward h a r x = plain_hook num h x.
Proof. exact (conj forward_id (wrapped_forward_is_plain num h a r x)). Qed.

(* ... and the statement is not structural: a wrapper that forgets `iteration=iteration` (pre-hook wrapper here), or drops
   **kwargs, breaks it for hooks that use what they are handed — the traced call fails where the plain one solves *)
Theorem C17_forgetting_iteration_is_noticed :
  snd (tx_P [] u_quiet) = Ret true /\ snd (tx_K forward_without_iteration forward forward [] u_quiet) = Raise (SolutionError (Some 13)).
Proof. exact forgetting_iteration_is_noticed. Qed.
Theorem C17_forgetting_kwargs_is_noticed :
  snd (tx_P [(7%nat, 1)] u_tagged) = Ret true
  /\ snd (tx_K forward forward_without_kwargs forward [(7%nat, 1)] u_tagged) = Raise (SolutionError (Some 12)).
Proof. exact forgetting_kwargs_is_noticed. Qed.

(* what fix 7d04ae5 removed: before it trace_t appended to ANY non-empty Trace unless reset=True, and appending a snapshot
   of another width fails in np.hstack (ValueError, the label already recorded): the former finding #16 *)
Theorem C17_append_to_a_trace_of_other_width_fails :
  snd (append_trace float (nth 1 tx_tr1 (empty_trace float)) LStart [1.5%float; 7%float]) = Some ValueError.
Proof. exact tx_append_to_other_width_fails. Qed.

(* reindex() AND copy() OF A TRACED INSTANCE (TracerReindex.v: the cells of the object array `_trace` hold references).
   Since fix 28b2a9a reindex() deep-copies the cells of the periods both spans have (the finding "Trace objects shared with
   the original instance" — DESIGN.md #21 seen from the tracer — is repaired): every kept period of the reindexed instance
   gets its OWN Trace object with the contents of the original's, a period that is new holds None, and no existing object
   is touched — nothing recorded through the reindexed instance can reach the original's Traces. *)
Theorem C17_reindex_gives_every_kept_period_its_own_trace (num : Type) positions cells (h : theap num) :
  let '(cs, h') := reindex_cells num positions cells h in
  length cs = length positions /\ (length h <= length h')%nat /\
  (forall a, (a < length h)%nat -> tderef num h' a = tderef num h a) /\
  (forall i, match nth i positions None with
             | None => nth i cs None = None
             | Some q => match nth q cells None with
                         | None => nth i cs None = None
                         | Some a => (a < length h)%nat ->
                             exists b, nth i cs None = Some b /\ (length h <= b < length h')%nat /\ tderef num h' b = tderef num h a
                         end
             end).
Proof. exact (reindex_cells_fresh num positions cells h). Qed.

(* since fix 3b0200f (replaces the former C17_reindex_new_period_raises): the first trace_t on a period that is new after
   reindex — its cell holds None — puts a fresh Trace with this snapshot into the cell, whatever names / label / values /
   reset, and touches nothing else; before the fix it raised AttributeError and changed nothing. *)
Theorem C17_reindex_new_period_gets_a_trace (num : Type) positions cells i names reset lab res (h : theap num) :
  nth i positions None = None ->
  let '(cs, h') := reindex_cells num positions cells h in
  trace_t_cells num names reset i lab res cs h' = ((upd i (Some (length h')) cs, h' ++ [mkTrace names [lab] [res]]), None).
Proof. exact (reindex_new_period_gets_a_trace num positions cells i names reset lab res h). Qed.

Theorem C17_reindex_new_period_raised_before_the_fix (num : Type) positions cells i names reset lab res (h : theap num) :
  nth i positions None = None ->
  let '(cs, h') := reindex_cells num positions cells h in
  trace_t_cells_none_raises num names reset i lab res cs h' = ((cs, h'), Some AttributeError).
Proof. exact (reindex_new_period_raised_before_the_fix num positions cells i names reset lab res h). Qed.

(* what fix 28b2a9a removed (the reverse patch, reindex_cells_shared): the cell of a kept period was the original's
   reference, and a traced solve through the reindexed instance (non-empty Trace, same width, reset=False) appended in
   place — the ORIGINAL instance's Trace of that period changed *)
Theorem C17_reindex_without_the_deepcopy_shared (num : Type) positions cells i q r names lab res (h : theap num) c cs :
  nth i positions None = Some q -> nth q cells None = Some r -> (r < length h)%nat ->
  tr_values (tderef num h r) = c :: cs -> length c = length res -> tr_names (tderef num h r) = names ->
  let old := tderef num h r in
  let '((cells', h'), e) := trace_t_cells num names false i lab res (reindex_cells_shared positions cells) h in
  e = None /\ cells' = reindex_cells_shared positions cells /\
  tderef num h' r = mkTrace (tr_names old) (tr_index old ++ [lab]) (tr_values old ++ [res]) /\
  tderef num h' r <> old.
Proof. exact (reindex_without_deepcopy_shared num positions cells i q r names lab res h c cs). Qed.

(* THE LINK BETWEEN THE REFERENCE LEVEL AND THE VALUE LEVEL.  On an array whose cells are None (a period added by reindex(),
   not traced yet) or Trace objects of their own (no two periods sharing one) the reference-level trace_t_cells, seen at the
   level of values — a None cell reads as the empty Trace — IS Tracer.trace_t (its part after the values are gathered and
   the period located: trace_t_core), and the new array is again of that kind.  Such arrays are what __init__, copy() and
   reindex() produce, so the theorems stated over `traces` speak about every instance the class can build. *)
Theorem C17_trace_t_is_its_core (num : Type) cfg t lab a reset (v : vals num) (tr : traces num) res p :
  gather num v t (names_of cfg (length v) a) = inl res -> py_pos (length tr) t = Some p ->
  trace_t num cfg t lab a reset v tr = trace_t_core num (names_of cfg (length v) a) reset p lab res tr.
Proof. exact (trace_t_is_core num cfg t lab a reset v tr res p). Qed.

Theorem C17_cells_refine_traces (num : Type) names reset p lab res cells (h : theap num) :
  (forall i r, nth i cells None = Some r -> (r < length h)%nat) ->
  (forall i j r, nth i cells None = Some r -> nth j cells None = Some r -> i = j) ->
  (p < length cells)%nat ->
  let '((cells', h'), e) := trace_t_cells num names reset p lab res cells h in
  (view num cells' h', e) = trace_t_core num names reset p lab res (view num cells h)
  /\ (forall i r, nth i cells' None = Some r -> (r < length h')%nat)
  /\ (forall i j r, nth i cells' None = Some r -> nth j cells' None = Some r -> i = j)
  /\ length cells' = length cells.
Proof. exact (cells_refine_traces num names reset p lab res cells h). Qed.

(* through a cell whose Trace is empty, or was recorded for other names, or with reset=True, trace_t puts a NEW Trace into
   the cell and writes into no existing object *)
Theorem C17_trace_t_makes_a_fresh_object_when_empty_or_reset (num : Type) names reset p lab res cells (h : theap num) r :
  nth p cells None = Some r -> afresh num (tderef num h r) reset names = true ->
  let '((cells', h'), e) := trace_t_cells num names reset p lab res cells h in
  cells' = upd p (Some (length h)) cells /\ (forall a, (a < length h)%nat -> tderef num h' a = tderef num h a).
Proof. exact (trace_t_cells_fresh_object num names reset p lab res cells h r). Qed.

(* copy() is sound: every period of the copy gets its OWN Trace object with the contents of the original's; no existing
   object is touched — nothing done to the copy's Traces can reach the original's *)
Theorem C17_copy_gives_every_period_its_own_trace (num : Type) cells (h : theap num) :
  let '(cs, h') := copy_cells num cells h in
  length cs = length cells /\ (length h <= length h')%nat /\
  (forall a, (a < length h)%nat -> tderef num h' a = tderef num h a) /\
  (forall i, match nth i cells None with
             | None => nth i cs None = None
             | Some a => (a < length h)%nat ->
                         exists b, nth i cs None = Some b /\ (length h <= b < length h')%nat /\ tderef num h' b = tderef num h a
             end).
Proof. exact (copy_cells_fresh num cells h). Qed.

(* TracerMixin.__init__: DuplicateNameError iff TRACE_NAME is already in the container's index (a variable, 'status',
   'iterations'); otherwise the name is appended to the index and every period gets an empty, well-formed Trace to which
   any first snapshot can be appended. *)
Theorem C17_tracer_init (num : Type) index trace_name n :
  (In trace_name index -> tracer_init num index trace_name n = Raise DuplicateNameError) /\
  (~ In trace_name index ->
   exists tr, tracer_init num index trace_name n = Ret (index ++ [trace_name], tr) /\
     length tr = n /\ (forall p, is_empty num (nth p tr (empty_trace num)) = true) /\
     (forall p w, width_ok num (nth p tr (empty_trace num)) w) /\
     (forall p, wf_trace num (nth p tr (empty_trace num)) = true)).
Proof. exact (tracer_init_spec num index trace_name n). Qed.

(* A TRACE IS A RECORD (fix cfb58ac: `names = list(names)` in trace_t; the earlier finding "Trace.names is the model's own
   names list" is repaired).  With Python's reference semantics explicit (TracerNames.v: list objects in a heap, trace= given
   as None / bool / str / a list OBJECT / a tuple / any other truthy non-Sequence): the list a Trace keeps is a NEW object
   holding exactly the names Tracer.names_of selects; the call changes no existing object; and whatever is done afterwards,
   in any order and any number of times, to ANY other list object — the model's names list (add_variable appends in
   place), the class's TRACE_VARIABLES, the list the caller passed, lists created later — the Trace's names stay. *)
Theorem C17_trace_names_fresh_copy e s h :
  let '(h', r) := trace_names e s h in
  r = length h /\ deref h' r = sel_contents h (select e s) /\
  length h' = S (length h) /\ (forall a, (a < length h)%nat -> deref h' a = deref h a).
Proof. exact (trace_names_fresh e s h). Qed.

Theorem C17_trace_names_is_the_value_traced e s h nvars :
  deref h (e_model_names e) = seq 0 nvars ->
  sel_contents h (select e s) = names_of (tcfg_of h e) nvars (targ_of h s).
Proof. exact (sel_contents_names_of e s h nvars). Qed.

Theorem C17_trace_names_survive_later_edits e s h ms :
  let '(h', r) := trace_names e s h in
  (forall m, In m ms -> fst m <> r) ->
  deref (mutates h' ms) r = sel_contents h (select e s).
Proof. exact (trace_names_private e s h ms). Qed.

Theorem C17_trace_names_survive_edits_of_everything_that_existed e s h ms :
  (forall m, In m ms -> (fst m < length h)%nat) ->
  deref (mutates (fst (trace_names e s h)) ms) (snd (trace_names e s h)) = sel_contents h (select e s).
Proof. exact (trace_names_private_existing e s h ms). Qed.

Theorem C17_trace_names_alias_nothing e s h :
  (e_model_names e < length h)%nat ->
  (forall c, e_trace_variables e = Some c -> (c < length h)%nat) ->
  (forall c, s = NSList c -> (c < length h)%nat) ->
  alias_flags e s (snd (trace_names e s h)) = (false, false, false).
Proof. exact (trace_names_no_alias e s h). Qed.

(* what the fix removed (the code of the reverse patch, trace_names_nocopy): trace=True kept the model's own list, so
   add_variable's in-place append showed up in the Trace *)
Theorem C17_trace_names_without_the_copy_shared :
  exists e s h l,
    let '(h', r) := trace_names_nocopy e s h in
    r = e_model_names e /\ deref (mutate h' (e_model_names e) l) r <> sel_contents h (select e s).
Proof. exact trace_names_nocopy_shared. Qed.

(* Outside the property's domain (t not in the span) the exception class can differ: IndexError from trace_t before
   the base class's ValueError for min_iter > max_iter. *)
Theorem C17_trace_out_of_span_refuted :
  exists (sc : scripts) (cfg : tcfg) (d : mdesc) (o : fopts) (t : Z) (s : fstate) (tr : ftraces) (a : targ),
    truthy a = true /\ py_pos (length tr) t = None /\
    snd (f_solve_t sc d o t s) = Raise ValueError /\
    snd (f_traced_solve_t sc cfg a false d o t s tr) = Raise IndexError.
Proof. exact trace_out_of_span_refuted. Qed.

(* The premise `shape_pres` is met by every scripted oracle of the correspondence check, whatever the script. *)
Theorem C17_scripted_oracles_shape_pres n sc :
  shape_pres float (s_ev n sc) /\ shape_pres float (s_before n sc) /\ shape_pres float (s_after n sc).
Proof. exact (conj (s_ev_shape_pres n sc) (conj (s_before_shape_pres n sc) (s_after_shape_pres n sc))). Qed.

Print Assumptions C17_extended_solver_is_solve_t_M.
Print Assumptions C17_ready_iff_trace_t_cannot_fail.
Print Assumptions C17_trace_noninterference_solve_t.
Print Assumptions C17_trace_noninterference_frame.
Print Assumptions C17_trace_off_writes_nothing.
Print Assumptions C17_trace_noninterference_solve_period.
Print Assumptions C17_trace_noninterference_solve.
Print Assumptions C17_trace_off_solve_writes_nothing.
Print Assumptions C17_trace_noninterference_run_periods.
Print Assumptions C17_solve_moves_only_visited_traces.
Print Assumptions C17_trace_of_period_within_solve.
Print Assumptions C17_traced_solve_no_targets.
Print Assumptions C17_trace_reset_every_path.
Print Assumptions C17_trace_accumulates.
Print Assumptions C17_trace_names_after_run.
Print Assumptions C17_to_dataframe_after_run.
Print Assumptions C17_every_trace_t_keeps_traces_well_formed.
Print Assumptions C17_trace_noninterference_every_traced_call.
Print Assumptions C17_well_formed_traces_accept_any_names.
Print Assumptions C17_retrace_under_other_names_solved.
Print Assumptions C17_retrace_under_other_names_unsolved.
Print Assumptions C17_solve_trace_shape_solved.
Print Assumptions C17_solve_trace_shape_unsolved.
Print Assumptions C17_traced_solve_t_start_fails.
Print Assumptions C17_trace_shape_solved.
Print Assumptions C17_trace_shape_unsolved.
Print Assumptions C17_trace_of_run.
Print Assumptions C17_trace_every_path.
Print Assumptions C17_trace_reset_keeps_last_only.
Print Assumptions C17_noninterference_with_keywords.
Print Assumptions C17_wrappers_forward_every_keyword.
Print Assumptions C17_forgetting_iteration_is_noticed.
Print Assumptions C17_forgetting_kwargs_is_noticed.
Print Assumptions C17_append_to_a_trace_of_other_width_fails.
Print Assumptions C17_linked_submodel_passes.
Print Assumptions C17_linked_submodel_labels.
Print Assumptions C17_reindex_gives_every_kept_period_its_own_trace.
Print Assumptions C17_reindex_new_period_gets_a_trace.
Print Assumptions C17_reindex_new_period_raised_before_the_fix.
Print Assumptions C17_reindex_without_the_deepcopy_shared.
Print Assumptions C17_trace_t_is_its_core.
Print Assumptions C17_cells_refine_traces.
Print Assumptions C17_trace_t_makes_a_fresh_object_when_empty_or_reset.
Print Assumptions C17_copy_gives_every_period_its_own_trace.
Print Assumptions C17_tracer_init.
Print Assumptions C17_trace_names_fresh_copy.
Print Assumptions C17_trace_names_is_the_value_traced.
Print Assumptions C17_trace_names_survive_later_edits.
Print Assumptions C17_trace_names_survive_edits_of_everything_that_existed.
Print Assumptions C17_trace_names_alias_nothing.
Print Assumptions C17_trace_names_without_the_copy_shared.
Print Assumptions C17_trace_out_of_span_refuted.
Print Assumptions C17_scripted_oracles_shape_pres.
Print Assumptions tx_ready.
Print Assumptions tx_trace_true.
