(* Props/C05.v — audited surface for property C05 (solve() = ordered single-period solves; failures contained;
   solve_period = solve_t o locate).  Statements only; every proof is `exact <lemma>`. *)
From Coq Require Import ZArith List Bool PrimFloat.
Import ListNotations.
Require Import PyBase Solver SolverF SolveAll SolveAllF SolveAllFacts SolveAllExamples.
Require Import SolveAllSpan SolveAllSpanFacts SolveAllSpanExamples SolverFacts3 SolveAllFacts2.
Require Import SolveAllFacts3 SolveAllFacts4 SolveAllPeriod SolveAllPeriodFacts SolveAllExamples3.
Require Fsic.Gen.Generated.
Open Scope Z_scope.

Section C05.
  (* any number type and arithmetic, any evaluation oracle and hooks, any label type, any span lookup *)
  Variable num : Type.
  Variables (sub : num -> num -> num) (absf : num -> num) (ltb : num -> num -> bool)
            (isfin : num -> bool) (zero : num).
  Variables (ev before after : hook num).
  Variable L : Type.
  Variable locate : L -> locres.
  Notation solve_t_M := (solve_t_M num sub absf ltb isfin zero ev before after).
  Notation run_periods := (run_periods num sub absf ltb isfin zero ev before after L).
  Notation solve_M := (solve_M num sub absf ltb isfin zero ev before after L locate).
  Notation solve_period_M := (solve_period_M num sub absf ltb isfin zero ev before after L locate).

  (* solve(start, end) = the left fold of solve_t over every position from `start` to `end` inclusive, in span order
     (defaults: position lags through position len-1-leads), stopping at the first exception; the three returned lists
     have one slot per position.  `locate_ok`: every label of the span resolves to its own position. *)
  (* [guard `locate_ok` on the whole span; superseded by C05_solve_eq_fold_given, sharp since fix 7cd6323] *)
  Theorem C05_solve_eq_fold d o span start end_ s a b :
    min_iter o <= max_iter o -> locate_ok L locate span ->
    resolves_start L d span start a -> resolves_end L d span end_ b ->
    solve_M d o span start end_ s =
    match run_periods d o (periods L span a b) s [] with
    | (s', Ret vs) => (s', Ret (mkRes (S b - a) vs))
    | (s', Raise e) => (s', Raise e)
    end.
  Proof. exact (solve_eq_fold num sub absf ltb isfin zero ev before after L locate d o span start end_ s a b). Qed.

  (* NOTE (what is definitional and what is not): `solve_M` is DEFINED as validation + iter_periods_M + run_periods, and run_periods
     as one solve_t_M per period, so the three C05_run_periods_* statements below are unfoldings of the model (they make the fold
     readable, they are not counted as covering a clause).  The substantive content is (i) which positions iter_periods yields
     (C05_iter_periods_given / _every_span, C05_positions_exact) and (ii) that the real solve() IS this fold — which is not a
     theorem but the correspondence K_solve plus the twin comparison (solve() vs. the plain loop of solve_t on a second instance). *)
  (* the fold IS "calling the single-period solver on each of those periods in turn": a returning solve_t appends
     (label, position, flag) and hands its state to the next period; a raising one ends the run with its state and exception *)
  Theorem C05_run_periods_cons_ret d o t lab ps s acc s1 b :
    solve_t_M d o t s = (s1, Ret b) ->
    run_periods d o ((t, lab) :: ps) s acc = run_periods d o ps s1 (acc ++ [(lab, t, b)]).
  Proof. exact (run_periods_cons_ret num sub absf ltb isfin zero ev before after L d o t lab ps s acc s1 b). Qed.
  Theorem C05_run_periods_cons_raise d o t lab ps s acc s1 e :
    solve_t_M d o t s = (s1, Raise e) ->
    run_periods d o ((t, lab) :: ps) s acc = (s1, Raise e).
  Proof. exact (run_periods_cons_raise num sub absf ltb isfin zero ev before after L d o t lab ps s acc s1 e). Qed.
  Theorem C05_run_periods_nil d o s acc : run_periods d o [] s acc = (s, Ret acc).
  Proof. exact (eq_refl (s, Ret acc)). Qed.

  (* the visited periods: entry i is position a+i with the span's label there, for exactly the i with a+i <= b
     (so: inclusive at both ends, span order, none repeated, and nothing at all if `end` precedes `start`) *)
  Theorem C05_positions_exact span a b : (b < length span)%nat ->
    forall i t lab, nth_error (periods L span a b) i = Some (t, lab) <->
                    ((a + i <= b)%nat /\ t = Z.of_nat (a + i) /\ nth_error span (a + i) = Some lab).
  Proof. exact (positions_exact L span a b). Qed.
  Theorem C05_periods_reversed_empty span a b : (b < a)%nat -> periods L span a b = [].
  Proof. exact (periods_reversed_empty L span a b). Qed.

  (* a returning solve() reports exactly those (position, label) pairs, one flag each, in order *)
  (* [superseded by C05_solve_returns_positions_given] *)
  Theorem C05_solve_returns_positions d o span start end_ s a b s' res :
    min_iter o <= max_iter o -> locate_ok L locate span ->
    resolves_start L d span start a -> resolves_end L d span end_ b ->
    solve_M d o span start end_ s = (s', Ret res) ->
    r_len res = (S b - a)%nat /\ length (r_visits res) = (S b - a)%nat /\
    map (fun v : visit L => (snd (fst v), fst (fst v))) (r_visits res) = periods L span a b.
  Proof. exact (solve_returns_positions num sub absf ltb isfin zero ev before after L locate d o span start end_ s a b s' res). Qed.

  (* errors that come first and change nothing: min_iter > max_iter; a start / end label that is unknown (the lookup raised)
     or does not resolve to a single position (the lookup returned something that is not an int); an empty span *)
  Theorem C05_solve_min_gt_max d o span start end_ s :
    max_iter o < min_iter o -> solve_M d o span start end_ s = (s, Raise ValueError).
  Proof. exact (solve_min_gt_max num sub absf ltb isfin zero ev before after L locate d o span start end_ s). Qed.
  Theorem C05_solve_bad_start d o span x end_ s :
    min_iter o <= max_iter o -> is_int (locate x) = false ->
    solve_M d o span (Some x) end_ s = (s, Raise KeyError).
  Proof. exact (solve_bad_start num sub absf ltb isfin zero ev before after L locate d o span x end_ s). Qed.
  Theorem C05_solve_bad_end d o span start y s :
    min_iter o <= max_iter o -> is_int (locate y) = false ->
    solve_M d o span start (Some y) s = (s, Raise KeyError).
  Proof. exact (solve_bad_end num sub absf ltb isfin zero ev before after L locate d o span start y s). Qed.
  Theorem C05_solve_empty_span d o start end_ s :
    min_iter o <= max_iter o -> bad_label L locate start = false -> bad_label L locate end_ = false ->
    solve_M d o [] start end_ s = (s, Raise (SolutionError None)).
  Proof. exact (solve_empty_span num sub absf ltb isfin zero ev before after L locate d o start end_ s). Qed.

  (* frame: solve_t for period t changes only column t of the values, status[t] and iterations[t] — given oracles that
     keep to the column of the period they are called for (hook_frame; true of every generated _evaluate, discharged for
     scripted models in C05_scripted_oracles_frame) *)
  Theorem C05_solve_t_frame d o t s s' r p :
    hook_frame num (length (status s)) ev -> hook_frame num (length (status s)) before -> hook_frame num (length (status s)) after ->
    py_pos (length (status s)) t = Some p -> solve_t_M d o t s = (s', r) ->
    forall q, q <> p -> same_at s s' q.
  Proof. exact (solve_t_frame num sub absf ltb isfin zero ev before after d o t s s' r p). Qed.

  (* failure containment: if solve() raises, it raised while solving exactly one position a+j of the range; positions
     a..a+j-1 were completed in order; the final state is what solve_t left when it raised there (so position a+j carries the
     status its policy prescribes — C06); every other position is as the completed prefix left it (earlier periods keep their
     completed values and status); positions after a+j (and before `start`) are identical to the initial state *)
  (* [whole-span guard `locate_ok`; superseded by C05_failure_containment_given, which asks only that GIVEN labels resolve] *)
  Theorem C05_failure_containment d o span start end_ s a b s' e :
    hook_frame num (length span) ev -> hook_frame num (length span) before -> hook_frame num (length span) after ->
    length (status s) = length span ->
    min_iter o <= max_iter o -> locate_ok L locate span ->
    resolves_start L d span start a -> resolves_end L d span end_ b ->
    solve_M d o span start end_ s = (s', Raise e) ->
    exists j lab sj vs,
      (a + j <= b)%nat /\ nth_error span (a + j) = Some lab /\
      run_periods d o (firstn j (periods L span a b)) s [] = (sj, Ret vs) /\ length vs = j /\
      solve_t_M d o (Z.of_nat (a + j)) sj = (s', Raise e) /\
      (forall q, q <> (a + j)%nat -> same_at sj s' q) /\
      (forall q, (q < a \/ a + j < q)%nat -> same_at s s' q).
  Proof. exact (solve_failure_containment num sub absf ltb isfin zero ev before after L locate d o span start end_ s a b s' e). Qed.

  (* ... and the failing period carries the status its policy prescribes: when the fold raises, one solve_t call for a period of
     the range (from the state the completed prefix left) raised, and that period is stamped 'F' with NonConvergenceError
     (failures='raise'), 'E' with SolutionError (errors='raise': non-finite value or exception inside a pass), or nothing is
     recorded at all (hook exception, pre-existing non-finite values, pass exception under another policy, IndexError, ValueError) *)
  Theorem C05_failing_period_status d o ps s acc s' e :
    run_periods d o ps s acc = (s', Raise e) ->
    exists t lab sj, In (t, lab) ps /\ solve_t_M d o t sj = (s', Raise e) /\
      ((status s' = status sj /\ iters s' = iters sj) \/
       exists p x k, py_pos (length (status sj)) t = Some p /\
         status s' = upd p x (status sj) /\ iters s' = upd p (Z.of_nat k) (iters sj) /\
         ((x = Failed /\ e = NonConvergenceError /\ fail_raise o = true) \/
          (x = ErrorSt /\ errors o = ERaise /\ exists c, e = SolutionError c))).
  Proof. exact (run_periods_raise_status num sub absf ltb isfin zero ev before after L d o ps s acc s' e). Qed.

  (* whatever the outcome, periods outside [start, end] are untouched *)
  (* [superseded by C05_untouched_outside_range_given] *)
  Theorem C05_untouched_outside_range d o span start end_ s a b s' r :
    hook_frame num (length span) ev -> hook_frame num (length span) before -> hook_frame num (length span) after ->
    length (status s) = length span ->
    min_iter o <= max_iter o -> locate_ok L locate span ->
    resolves_start L d span start a -> resolves_end L d span end_ b ->
    solve_M d o span start end_ s = (s', r) ->
    forall q, (q < a \/ b < q)%nat -> same_at s s' q.
  Proof. exact (solve_untouched_outside_range num sub absf ltb isfin zero ev before after L locate d o span start end_ s a b s' r). Qed.

  (* solve_period(label) = solve_t(position of label); a label that is unknown or not a single position: KeyError, no change *)
  Theorem C05_solve_period_eq_solve_t d o span lab i s :
    locate_ok L locate span -> nth_error span i = Some lab ->
    solve_period_M d o lab s = solve_t_M d o (Z.of_nat i) s.
  Proof. exact (solve_period_eq_solve_t num sub absf ltb isfin zero ev before after L locate d o span lab i s). Qed.
  Theorem C05_solve_period_bad_label d o lab s :
    is_int (locate lab) = false -> solve_period_M d o lab s = (s, Raise KeyError).
  Proof. exact (solve_period_bad_label num sub absf ltb isfin zero ev before after L locate d o lab s). Qed.
End C05.

(* the lookups of the supported span types meet `locate_ok` on spans without repeated labels:
   span.index (list, range) and the fallback used for NumPy arrays (which returns a built-in int since fix a094259);
   an unknown label makes both raise *)
Theorem C05_locate_index_ok span : NoDup span -> locate_ok Z (locate_index span) span.
Proof. exact (locate_index_ok span). Qed.
Theorem C05_locate_unique_ok span : NoDup span -> locate_ok Z (locate_unique span) span.
Proof. exact (locate_unique_ok span). Qed.
Theorem C05_locate_unknown_label span x : ~ In x span -> locate_index span x = LFail /\ locate_unique span x = LFail.
Proof. exact (locate_unknown_label span x). Qed.

(* ---- label resolution for every supported span type (the dispatch of VectorContainer._locate_period_in_span over the
   regenerated method list _VALID_INDEX_METHODS: pandas Index -> get_loc, list / tuple / range -> .index, NumPy array -> the
   static fallback; labels are integer ids, equal ids <-> labels that compare equal) ---- *)
Theorem C05_locate_dispatch k span x :
  locate_dispatch Generated.valid_index_methods k span x =
  Some (match k with
        | SpIndex => locate_getloc span x
        | SpList => locate_index span x
        | SpArray => locate_unique span x
        end).
Proof. exact (locate_span_eq k span x). Qed.

(* no repeated label: every label resolves to its own position, as a built-in int; an unknown label makes the lookup raise *)
Theorem C05_locate_span_ok k span : NoDup span -> locate_ok Z (locate_span k span) span.
Proof. exact (locate_span_ok k span). Qed.
Theorem C05_locate_span_unknown k span x : ~ In x span -> locate_span k span x = LFail.
Proof. exact (locate_span_unknown k span x). Qed.
(* a label carried by exactly one period resolves to that period's position on every span type, whatever the other labels *)
Theorem C05_locate_span_unique k span x i :
  nth_error span i = Some x -> count_of x span = 1%nat -> locate_span k span x = LInt (Z.of_nat i).
Proof. exact (locate_span_unique k span x i). Qed.
(* a label carried by several periods does not resolve to a single position: first occurrence on a list / tuple / range,
   an exception on a NumPy array, a slice / mask (not an int) on a pandas Index *)
Theorem C05_locate_span_repeated k span x : (2 <= count_of x span)%nat ->
  match k with
  | SpList => exists i, locate_span k span x = LInt (Z.of_nat i) /\ nth_error span i = Some x /\
                        forall j, (j < i)%nat -> nth_error span j <> Some x
  | SpArray => locate_span k span x = LFail
  | SpIndex => locate_span k span x = LOther
  end.
Proof. exact (locate_span_repeated k span x). Qed.

Section C05span.
  Variable num : Type.
  Variables (sub : num -> num -> num) (absf : num -> num) (ltb : num -> num -> bool)
            (isfin : num -> bool) (zero : num).
  Variables (ev before after : hook num).
  Notation solve_t_M := (solve_t_M num sub absf ltb isfin zero ev before after).
  Notation run_periods := (run_periods num sub absf ltb isfin zero ev before after Z).
  Notation solve_M k span := (solve_M num sub absf ltb isfin zero ev before after Z (locate_span k span)).
  Notation solve_period_M k span := (solve_period_M num sub absf ltb isfin zero ev before after Z (locate_span k span)).

  (* solve_period(label) is identical to solve_t(position of label) for EVERY supported span type *)
  (* [NoDup guard; superseded by C05_solve_period_unique_label: only THAT label must be carried by one period] *)
  Theorem C05_solve_period_every_span k span d o lab i s :
    NoDup span -> nth_error span i = Some lab ->
    solve_period_M k span d o lab s = solve_t_M d o (Z.of_nat i) s.
  Proof. exact (solve_period_every_span num sub absf ltb isfin zero ev before after k span d o lab i s). Qed.
  Theorem C05_solve_period_unknown_every_span k span d o lab s :
    ~ In lab span -> solve_period_M k span d o lab s = (s, Raise KeyError).
  Proof. exact (solve_period_unknown_every_span num sub absf ltb isfin zero ev before after k span d o lab s). Qed.
  Theorem C05_solve_period_repeated_label k span d o lab s :
    (2 <= count_of lab span)%nat -> k <> SpList -> solve_period_M k span d o lab s = (s, Raise KeyError).
  Proof. exact (solve_period_repeated_label num sub absf ltb isfin zero ev before after k span d o lab s). Qed.
  Theorem C05_solve_period_repeated_label_list span d o lab s :
    (2 <= count_of lab span)%nat ->
    exists i, nth_error span i = Some lab /\ (forall j, (j < i)%nat -> nth_error span j <> Some lab) /\
              solve_period_M SpList span d o lab s = solve_t_M d o (Z.of_nat i) s.
  Proof. exact (solve_period_repeated_label_list num sub absf ltb isfin zero ev before after span d o lab s). Qed.

  (* iter_periods(start, end): one (position, label) pair per position from `start` to `end` inclusive, in span order, for every
     supported span type.  Defaults are the POSITIONS lags and len-1-leads (fix 7cd6323) and need no condition on the labels —
     the span may repeat labels anywhere; only a label the caller GIVES must be carried by one period only
     (given_unique span x pos = unique_at span pos when x was given, true for a default) *)
  Theorem C05_iter_periods_every_span k span d start end_ a b :
    given_unique span start a = true -> given_unique span end_ b = true ->
    resolves_start Z d span start a -> resolves_end Z d span end_ b ->
    iter_periods_M Z (locate_span k span) d span start end_ = Ret ((S b - a)%nat, periods Z span a b).
  Proof. exact (iter_periods_every_span_given k span d start end_ a b). Qed.

  (* solve(start, end) = the fold of solve_t over those positions, for every supported span type; same guards: none for defaults *)
  Theorem C05_solve_every_span k span d o start end_ s a b :
    min_iter o <= max_iter o ->
    given_unique span start a = true -> given_unique span end_ b = true ->
    resolves_start Z d span start a -> resolves_end Z d span end_ b ->
    solve_M k span d o span start end_ s =
    match run_periods d o (periods Z span a b) s [] with
    | (s', Ret vs) => (s', Ret (mkRes (S b - a) vs))
    | (s', Raise e) => (s', Raise e)
    end.
  Proof. exact (solve_every_span_given num sub absf ltb isfin zero ev before after k span d o start end_ s a b). Qed.
  (* solve() with default start and end on ANY span (repeated, falsy, arbitrary labels; any supported type): every period from
     position lags to position len-1-leads is visited.  This REPLACES the refutation of the former finding
     "defaults looked up by label" (repaired by 7cd6323). *)
  Theorem C05_solve_defaults_any_span k span d o s :
    min_iter o <= max_iter o -> (lags d + leads d < length span)%nat ->
    solve_M k span d o span None None s =
    match run_periods d o (periods Z span (lags d) (length span - 1 - leads d)) s [] with
    | (s', Ret vs) => (s', Ret (mkRes (S (length span - 1 - leads d) - lags d) vs))
    | (s', Raise e) => (s', Raise e)
    end.
  Proof. exact (solve_defaults_any_span num sub absf ltb isfin zero ev before after k span d o s). Qed.
  (* the sharp guard: solve(start, end) = the fold over positions a..b as soon as the label of period a and the label of period b
     are each carried by exactly one period (the other periods may share labels) — for every supported span type (a special case of
     C05_solve_every_span, kept for its explicit form). *)
  Theorem C05_solve_unique_ends k span d o start end_ s a b xs xe :
    min_iter o <= max_iter o ->
    nth_error span a = Some xs -> nth_error span b = Some xe ->
    count_of xs span = 1%nat -> count_of xe span = 1%nat ->
    resolves_start Z d span start a -> resolves_end Z d span end_ b ->
    solve_M k span d o span start end_ s =
    match run_periods d o (periods Z span a b) s [] with
    | (s', Ret vs) => (s', Ret (mkRes (S b - a) vs))
    | (s', Raise e) => (s', Raise e)
    end.
  Proof. exact (solve_unique_ends num sub absf ltb isfin zero ev before after k span d o start end_ s a b xs xe). Qed.
  (* the same guard as a boolean test (decidable): unique_at span i = "the label of period i is carried by period i only" *)
  Theorem C05_solve_unique_ends_b k span d o start end_ s a b :
    min_iter o <= max_iter o ->
    unique_at span a = true -> unique_at span b = true ->
    resolves_start Z d span start a -> resolves_end Z d span end_ b ->
    solve_M k span d o span start end_ s =
    match run_periods d o (periods Z span a b) s [] with
    | (s', Ret vs) => (s', Ret (mkRes (S b - a) vs))
    | (s', Raise e) => (s', Raise e)
    end.
  Proof. exact (solve_unique_ends_b num sub absf ltb isfin zero ev before after k span d o start end_ s a b). Qed.
  (* solve_period(label) = solve_t(position) as soon as THAT label is carried by one period only *)
  Theorem C05_solve_period_unique_label k span d o lab i s :
    nth_error span i = Some lab -> count_of lab span = 1%nat ->
    solve_period_M k span d o lab s = solve_t_M d o (Z.of_nat i) s.
  Proof. exact (solve_period_unique_label num sub absf ltb isfin zero ev before after k span d o lab i s). Qed.
  Theorem C05_solve_unknown_start_every_span k span d o x end_ s :
    min_iter o <= max_iter o -> ~ In x span -> solve_M k span d o span (Some x) end_ s = (s, Raise KeyError).
  Proof. exact (solve_unknown_start_every_span num sub absf ltb isfin zero ev before after k span d o x end_ s). Qed.
  Theorem C05_solve_unknown_end_every_span k span d o start y s :
    min_iter o <= max_iter o -> ~ In y span -> solve_M k span d o span start (Some y) s = (s, Raise KeyError).
  Proof. exact (solve_unknown_end_every_span num sub absf ltb isfin zero ev before after k span d o start y s). Qed.

  (* an explicit start in front of the first period with enough lags: solve_t's feasibility guard rejects that first period
     with IndexError (fix eb62990) and nothing at all has changed *)
  (* [the NoDup hypothesis is stronger than needed: only the given start / end labels must be unambiguous, cf. C05_solve_every_span] *)
  Theorem C05_solve_start_before_lags_rejected k span d o start end_ s a b :
    min_iter o <= max_iter o -> NoDup span -> length (status s) = length span ->
    resolves_start Z d span start a -> resolves_end Z d span end_ b ->
    (a <= b)%nat -> (a < lags d)%nat ->
    solve_M k span d o span start end_ s = (s, Raise IndexError).
  Proof. exact (solve_start_before_lags_rejected num sub absf ltb isfin zero ev before after k span d o start end_ s a b). Qed.
End C05span.

(* defaults that do not exist (no more periods than lags / leads): IndexError before anything is solved, whatever the span type *)
Section C05defaults.
  Variable num : Type.
  Variables (sub : num -> num -> num) (absf : num -> num) (ltb : num -> num -> bool)
            (isfin : num -> bool) (zero : num).
  Variables (ev before after : hook num).
  Variable L : Type.
  Variable locate : L -> locres.
  Notation solve_M := (solve_M num sub absf ltb isfin zero ev before after L locate).
  Theorem C05_solve_default_start_beyond_span d o span end_ s :
    min_iter o <= max_iter o -> span <> [] -> (length span <= lags d)%nat -> bad_label L locate end_ = false ->
    solve_M d o span None end_ s = (s, Raise IndexError).
  Proof. exact (solve_default_start_beyond_span num sub absf ltb isfin zero ev before after L locate d o span end_ s). Qed.
  Theorem C05_solve_default_end_beyond_span d o span start a s :
    min_iter o <= max_iter o -> resolves_start L d span start a -> (length span <= leads d)%nat ->
    bad_label L locate start = false ->
    solve_M d o span start None s = (s, Raise IndexError).
  Proof. exact (solve_default_end_beyond_span num sub absf ltb isfin zero ev before after L locate d o span start a s). Qed.
End C05defaults.

(* for ANY lookup whatever (generic `locate`): only labels the caller GIVES must resolve to their positions (given_ok);
   defaults are never looked up *)
Section C05given.
  Variable num : Type.
  Variables (sub : num -> num -> num) (absf : num -> num) (ltb : num -> num -> bool)
            (isfin : num -> bool) (zero : num).
  Variables (ev before after : hook num).
  Variable L : Type.
  Variable locate : L -> locres.
  Notation solve_t_M := (solve_t_M num sub absf ltb isfin zero ev before after).
  Notation run_periods := (run_periods num sub absf ltb isfin zero ev before after L).
  Notation solve_M := (solve_M num sub absf ltb isfin zero ev before after L locate).
  Theorem C05_iter_periods_given d span start end_ a b :
    given_ok L locate start a -> given_ok L locate end_ b -> resolves_start L d span start a -> resolves_end L d span end_ b ->
    iter_periods_M L locate d span start end_ = Ret ((S b - a)%nat, periods L span a b).
  Proof. exact (iter_periods_given L locate d span start end_ a b). Qed.
  Theorem C05_solve_eq_fold_given d o span start end_ s a b :
    min_iter o <= max_iter o -> given_ok L locate start a -> given_ok L locate end_ b ->
    resolves_start L d span start a -> resolves_end L d span end_ b ->
    solve_M d o span start end_ s =
    match run_periods d o (periods L span a b) s [] with
    | (s', Ret vs) => (s', Ret (mkRes (S b - a) vs))
    | (s', Raise e) => (s', Raise e)
    end.
  Proof. exact (solve_eq_fold_given num sub absf ltb isfin zero ev before after L locate d o span start end_ s a b). Qed.
  (* the returned triple, failure containment, untouched periods and offsets with a guard on the labels the caller GIVES only
     (given_ok: a given label resolves to its position); nothing is asked for default start / end nor of the span's other labels *)
  Theorem C05_solve_returns_positions_given d o span start end_ s a b s' res :
    min_iter o <= max_iter o -> given_ok L locate start a -> given_ok L locate end_ b ->
    resolves_start L d span start a -> resolves_end L d span end_ b ->
    solve_M d o span start end_ s = (s', Ret res) ->
    r_len res = (S b - a)%nat /\ length (r_visits res) = (S b - a)%nat /\
    map (fun v : visit L => (snd (fst v), fst (fst v))) (r_visits res) = periods L span a b.
  Proof. exact (solve_returns_positions_given num sub absf ltb isfin zero ev before after L locate d o span start end_ s a b s' res). Qed.
  Theorem C05_failure_containment_given d o span start end_ s a b s' e :
    hook_frame num (length span) ev -> hook_frame num (length span) before -> hook_frame num (length span) after ->
    length (status s) = length span ->
    min_iter o <= max_iter o -> given_ok L locate start a -> given_ok L locate end_ b ->
    resolves_start L d span start a -> resolves_end L d span end_ b ->
    solve_M d o span start end_ s = (s', Raise e) ->
    exists j lab sj vs,
      (a + j <= b)%nat /\ nth_error span (a + j) = Some lab /\
      run_periods d o (firstn j (periods L span a b)) s [] = (sj, Ret vs) /\ length vs = j /\
      solve_t_M d o (Z.of_nat (a + j)) sj = (s', Raise e) /\
      (forall q, q <> (a + j)%nat -> same_at sj s' q) /\
      (forall q, (q < a \/ a + j < q)%nat -> same_at s s' q).
  Proof. exact (solve_failure_containment_given num sub absf ltb isfin zero ev before after L locate d o span start end_ s a b s' e). Qed.
  Theorem C05_untouched_outside_range_given d o span start end_ s a b s' r :
    hook_frame num (length span) ev -> hook_frame num (length span) before -> hook_frame num (length span) after ->
    length (status s) = length span ->
    min_iter o <= max_iter o -> given_ok L locate start a -> given_ok L locate end_ b ->
    resolves_start L d span start a -> resolves_end L d span end_ b ->
    solve_M d o span start end_ s = (s', r) ->
    forall q, (q < a \/ b < q)%nat -> same_at s s' q.
  Proof. exact (solve_untouched_outside_range_given num sub absf ltb isfin zero ev before after L locate d o span start end_ s a b s' r). Qed.
  Theorem C05_solve_offset_before_span_rejected_given d o span start end_ s a b :
    min_iter o <= max_iter o -> given_ok L locate start a -> given_ok L locate end_ b -> length (status s) = length span ->
    resolves_start L d span start a -> resolves_end L d span end_ b -> (a <= b)%nat ->
    Z.of_nat a + offset o < 0 ->
    solve_M d o span start end_ s = (s, Raise IndexError).
  Proof. exact (solve_offset_before_span_rejected_given num sub absf ltb isfin zero ev before after L locate d o span start end_ s a b). Qed.
  Theorem C05_solve_offset_beyond_span_stops_given d o span start end_ s a b j :
    min_iter o <= max_iter o -> given_ok L locate start a -> given_ok L locate end_ b -> length (status s) = length span ->
    resolves_start L d span start a -> resolves_end L d span end_ b -> (a + j <= b)%nat ->
    offset o <> 0 -> Z.of_nat (length span) <= Z.of_nat (a + j) + offset o ->
    solve_M d o span start end_ s =
    match run_periods d o (firstn j (periods L span a b)) s [] with
    | (s1, Ret vs) => (s1, Raise IndexError)
    | (s1, Raise e) => (s1, Raise e)
    end.
  Proof. exact (solve_offset_beyond_span_stops_given num sub absf ltb isfin zero ev before after L locate d o span start end_ s a b j). Qed.
End C05given.

(* next() on the object iter_periods() returns — REPAIRED by 7e39627 (was the finding "next(iter_periods()) raises TypeError", candidate
   patch /verif/fixes/perioditer-next): the first period of the range comes first; a reversed (empty) range gives StopIteration
   (OtherError in the model).  Same guards as everywhere: only on labels the caller gives. *)
Section C05next.
  Variable L : Type.
  Variable locate : L -> locres.
  Theorem C05_period_iter_next_first d span start end_ a b lab :
    given_ok L locate start a -> given_ok L locate end_ b -> resolves_start L d span start a -> resolves_end L d span end_ b ->
    (a <= b)%nat -> nth_error span a = Some lab ->
    period_iter_next_M (iter_periods_M L locate d span start end_) = Ret (Z.of_nat a, lab).
  Proof. exact (period_iter_next_first L locate d span start end_ a b lab). Qed.
  Theorem C05_period_iter_next_empty d span start end_ a b :
    given_ok L locate start a -> given_ok L locate end_ b -> resolves_start L d span start a -> resolves_end L d span end_ b ->
    (b < a)%nat ->
    period_iter_next_M (iter_periods_M L locate d span start end_) = Raise OtherError.
  Proof. exact (period_iter_next_empty L locate d span start end_ a b). Qed.
End C05next.

(* KEPT FINDING (reproduced on /repo; known_findings.d/C05.json): pandas IntervalIndex spans.  IntervalIndex.get_loc returns numpy.int64,
   which fails `isinstance(position, int)`: solve_period(label) and solve(start=label) raise KeyError for a label that names exactly
   one period — "solve_period(label) is identical to solve_t(position of label) for every supported span type" is REFUTED for this
   pandas Index subclass (kind 5 of f_locate mirrors it: SolveAllSpan.locate_interval); solve() with default start / end works.
   Every other pandas index type probed (Index, RangeIndex, DatetimeIndex, CategoricalIndex, MultiIndex, PeriodIndex) answers with an int. *)
Theorem C05_interval_index_label_rejected_refuted :
  exists span lab i,
    NoDup span /\ nth_error span i = Some lab /\
    f_solve_period exA_scripts exA_desc (exA_opts ERaise) 5 span [] lab exA_state = (exA_state, Raise KeyError) /\
    f_solve exA_scripts exA_desc (exA_opts ERaise) 5 span [] (Some lab) None exA_state = (exA_state, Raise KeyError) /\
    snd (f_solve exA_scripts exA_desc (exA_opts ERaise) 5 span [] None None exA_state)
    = Ret (mkRes 4%nat [(0, 0, true); (1, 1, true); (2, 2, true); (3, 3, true)]).
Proof. exact interval_index_label_rejected_refuted. Qed.

(* the guards are decidable *)
Theorem C05_nodup_b_spec l : nodup_b l = true <-> NoDup l.
Proof. exact (nodup_b_spec l). Qed.
Theorem C05_unique_at_spec span i :
  unique_at span i = true <-> exists x, nth_error span i = Some x /\ count_of x span = 1%nat.
Proof. exact (unique_at_spec span i). Qed.
Theorem C05_nodup_unique_at span i : NoDup span -> (i < length span)%nat -> unique_at span i = true.
Proof. exact (nodup_unique_at span i). Qed.

(* ---- solve() with a non-zero offset: the same offset goes to every period; the first period of the range whose source period
   t+offset lies outside the span ends the run with IndexError — the periods before it keep their completed results (they are
   exactly what the run over that prefix produces), that period and all later ones are untouched ---- *)
Section C05offset.
  Variable num : Type.
  Variables (sub : num -> num -> num) (absf : num -> num) (ltb : num -> num -> bool)
            (isfin : num -> bool) (zero : num).
  Variables (ev before after : hook num).
  Variable L : Type.
  Variable locate : L -> locres.
  Notation run_periods := (run_periods num sub absf ltb isfin zero ev before after L).
  Notation solve_M := (solve_M num sub absf ltb isfin zero ev before after L locate).

  Theorem C05_run_periods_offset_stops d o span a b j s :
    min_iter o <= max_iter o -> offset o <> 0 -> length (status s) = length span ->
    (a + j <= b)%nat -> (b < length span)%nat ->
    (Z.of_nat (a + j) + offset o < 0 \/ Z.of_nat (length span) <= Z.of_nat (a + j) + offset o) ->
    run_periods d o (periods L span a b) s [] =
    match run_periods d o (firstn j (periods L span a b)) s [] with
    | (s1, Ret vs) => (s1, Raise IndexError)
    | (s1, Raise e) => (s1, Raise e)
    end.
  Proof. exact (run_periods_offset_stops num sub absf ltb isfin zero ev before after L d o span a b j s). Qed.
  (* [superseded by C05_solve_offset_before_span_rejected_given] *)
  Theorem C05_solve_offset_before_span_rejected d o span start end_ s a b :
    min_iter o <= max_iter o -> locate_ok L locate span -> length (status s) = length span ->
    resolves_start L d span start a -> resolves_end L d span end_ b -> (a <= b)%nat ->
    Z.of_nat a + offset o < 0 ->
    solve_M d o span start end_ s = (s, Raise IndexError).
  Proof. exact (solve_offset_before_span_rejected num sub absf ltb isfin zero ev before after L locate d o span start end_ s a b). Qed.
  (* [superseded by C05_solve_offset_beyond_span_stops_given] *)
  Theorem C05_solve_offset_beyond_span_stops d o span start end_ s a b j :
    min_iter o <= max_iter o -> locate_ok L locate span -> length (status s) = length span ->
    resolves_start L d span start a -> resolves_end L d span end_ b -> (a + j <= b)%nat ->
    offset o <> 0 -> Z.of_nat (length span) <= Z.of_nat (a + j) + offset o ->
    solve_M d o span start end_ s =
    match run_periods d o (firstn j (periods L span a b)) s [] with
    | (s1, Ret vs) => (s1, Raise IndexError)
    | (s1, Raise e) => (s1, Raise e)
    end.
  Proof. exact (solve_offset_beyond_span_stops num sub absf ltb isfin zero ev before after L locate d o span start end_ s a b j). Qed.
End C05offset.

(* ---- quarterly pandas PeriodIndex, from a MODEL of PeriodIndex.get_loc (labels = quarter ordinals; a Period object and its full
   string are the same key; the key year_key y is the year string 'y', a key of lower resolution than the index): a year string
   is answered with a slice when some quarter of that year is in the index (one or several) and with KeyError otherwise — never
   with an int — so solve() / solve_period() reject it with KeyError before anything is solved ---- *)
Theorem C05_locate_qindex_ok span : NoDup span -> (forall z, In z span -> 0 <= z) -> locate_ok Z (locate_qindex span) span.
Proof. exact (locate_qindex_ok span). Qed.
Theorem C05_locate_qindex_year span y : 0 < y ->
  locate_qindex span (year_key y) = if existsb (fun z => year_of z =? y) span then LOther else LFail.
Proof. exact (locate_qindex_year span y). Qed.
Theorem C05_locate_qindex_unknown span z : 0 <= z -> ~ In z span -> locate_qindex span z = LFail.
Proof. exact (locate_qindex_unknown span z). Qed.
Section C05period.
  Variable num : Type.
  Variables (sub : num -> num -> num) (absf : num -> num) (ltb : num -> num -> bool)
            (isfin : num -> bool) (zero : num).
  Variables (ev before after : hook num).
  Notation solve_t_M := (solve_t_M num sub absf ltb isfin zero ev before after).
  Notation run_periods := (run_periods num sub absf ltb isfin zero ev before after Z).
  Notation solve_M span := (solve_M num sub absf ltb isfin zero ev before after Z (locate_qindex span)).
  Notation solve_period_M span := (solve_period_M num sub absf ltb isfin zero ev before after Z (locate_qindex span)).
  Theorem C05_solve_year_start_keyerror span d o y end_ s :
    min_iter o <= max_iter o -> 0 < y -> solve_M span d o span (Some (year_key y)) end_ s = (s, Raise KeyError).
  Proof. exact (solve_year_start_keyerror num sub absf ltb isfin zero ev before after span d o y end_ s). Qed.
  Theorem C05_solve_year_end_keyerror span d o y start s :
    min_iter o <= max_iter o -> 0 < y -> solve_M span d o span start (Some (year_key y)) s = (s, Raise KeyError).
  Proof. exact (solve_year_end_keyerror num sub absf ltb isfin zero ev before after span d o y start s). Qed.
  Theorem C05_solve_period_year_keyerror span d o y s :
    0 < y -> solve_period_M span d o (year_key y) s = (s, Raise KeyError).
  Proof. exact (solve_period_year_keyerror num sub absf ltb isfin zero ev before after span d o y s). Qed.
  (* [NoDup: a PeriodIndex from period_range has no repeats; for defaults no condition is needed, C05_solve_eq_fold_given] *)
  Theorem C05_solve_qindex span d o start end_ s a b :
    min_iter o <= max_iter o -> NoDup span -> (forall z, In z span -> 0 <= z) ->
    resolves_start Z d span start a -> resolves_end Z d span end_ b ->
    solve_M span d o span start end_ s =
    match run_periods d o (periods Z span a b) s [] with
    | (s', Ret vs) => (s', Ret (mkRes (S b - a) vs))
    | (s', Raise e) => (s', Raise e)
    end.
  Proof. exact (solve_qindex num sub absf ltb isfin zero ev before after span d o start end_ s a b). Qed.
  Theorem C05_solve_period_qindex span d o lab i s :
    NoDup span -> (forall z, In z span -> 0 <= z) -> nth_error span i = Some lab ->
    solve_period_M span d o lab s = solve_t_M d o (Z.of_nat i) s.
  Proof. exact (solve_period_qindex num sub absf ltb isfin zero ev before after span d o lab i s). Qed.
End C05period.

(* the frame premise holds for every scripted model whose script makes no absolute write *)
Theorem C05_scripted_oracles_frame n sc : scripts_local sc = true ->
  hook_frame float n (s_ev n sc) /\ hook_frame float n (s_before n sc) /\ hook_frame float n (s_after n sc).
Proof. exact (scripted_oracles_frame n sc). Qed.

Print Assumptions C05_solve_eq_fold.
Print Assumptions C05_run_periods_cons_ret.
Print Assumptions C05_run_periods_cons_raise.
Print Assumptions C05_run_periods_nil.
Print Assumptions C05_positions_exact.
Print Assumptions C05_periods_reversed_empty.
Print Assumptions C05_solve_returns_positions.
Print Assumptions C05_solve_min_gt_max.
Print Assumptions C05_solve_bad_start.
Print Assumptions C05_solve_bad_end.
Print Assumptions C05_solve_empty_span.
Print Assumptions C05_solve_t_frame.
Print Assumptions C05_failure_containment.
Print Assumptions C05_failing_period_status.
Print Assumptions C05_untouched_outside_range.
Print Assumptions C05_solve_period_eq_solve_t.
Print Assumptions C05_solve_period_bad_label.
Print Assumptions C05_locate_index_ok.
Print Assumptions C05_locate_unique_ok.
Print Assumptions C05_locate_unknown_label.
Print Assumptions C05_scripted_oracles_frame.
Print Assumptions C05_locate_dispatch.
Print Assumptions C05_locate_span_ok.
Print Assumptions C05_locate_span_unknown.
Print Assumptions C05_locate_span_repeated.
Print Assumptions C05_solve_period_every_span.
Print Assumptions C05_solve_period_unknown_every_span.
Print Assumptions C05_solve_period_repeated_label.
Print Assumptions C05_solve_period_repeated_label_list.
Print Assumptions C05_iter_periods_every_span.
Print Assumptions C05_solve_every_span.
Print Assumptions C05_solve_unique_ends.
Print Assumptions C05_locate_span_unique.
Print Assumptions C05_solve_unknown_start_every_span.
Print Assumptions C05_solve_unknown_end_every_span.
Print Assumptions C05_solve_start_before_lags_rejected.
Print Assumptions C05_solve_default_start_beyond_span.
Print Assumptions C05_solve_default_end_beyond_span.
Print Assumptions exS_defaults_beyond_span.
Print Assumptions C05_solve_defaults_any_span.
Print Assumptions C05_iter_periods_given.
Print Assumptions C05_solve_eq_fold_given.
Print Assumptions C05_solve_returns_positions_given.
Print Assumptions C05_failure_containment_given.
Print Assumptions C05_untouched_outside_range_given.
Print Assumptions C05_solve_offset_before_span_rejected_given.
Print Assumptions C05_solve_offset_beyond_span_stops_given.
Print Assumptions C05_interval_index_label_rejected_refuted.
Print Assumptions C05_period_iter_next_first.
Print Assumptions C05_period_iter_next_empty.
Print Assumptions exS_period_iter_protocol.
Print Assumptions exS_default_end_repeated_label.
Print Assumptions exS_given_repeated_label.
Print Assumptions C05_solve_unique_ends_b.
Print Assumptions C05_solve_period_unique_label.
Print Assumptions C05_nodup_b_spec.
Print Assumptions C05_unique_at_spec.
Print Assumptions C05_nodup_unique_at.
Print Assumptions C05_run_periods_offset_stops.
Print Assumptions C05_solve_offset_before_span_rejected.
Print Assumptions C05_solve_offset_beyond_span_stops.
Print Assumptions C05_locate_qindex_ok.
Print Assumptions C05_locate_qindex_year.
Print Assumptions C05_locate_qindex_unknown.
Print Assumptions C05_solve_year_start_keyerror.
Print Assumptions C05_solve_year_end_keyerror.
Print Assumptions C05_solve_period_year_keyerror.
Print Assumptions C05_solve_qindex.
Print Assumptions C05_solve_period_qindex.
Print Assumptions exO_offset_runs_into_the_end.
Print Assumptions exG_guards.
Print Assumptions exP_period_index.
Print Assumptions exS_unique_ends.
Print Assumptions exS_every_span_kind.
Print Assumptions exS_repeated_label.
Print Assumptions exS_start_before_lags.
Print Assumptions exB_containment_hypotheses_satisfiable.
Print Assumptions exB_fault_contained.
Print Assumptions exA_label_errors.
