(* Props/C20.v — the audited surface for property C20 ("the dependency graph tool reports exactly the dependencies the
   equations have").  Statements only; every proof is `exact <lemma>`.

   Model: Graph.symbols_to_graph_M is fsic.tools.symbols_to_graph as coded (equations of ENDOGENOUS symbols only — fix
   9d4c57e —, split at the first "=", re-tokenise both
   sides with the model of term_re.finditer (Parser/Lex.v), group(0) as node id, lhs x rhs edges, `equation` attribute).
   A normalised equation is given as a token list (GNorm.neq: variable terms NAME[t+k] / NAME[period], function names,
   keywords, verbatim fragments, single other characters); neq_wf is the boolean well-formedness that makes every token
   re-lex as itself (names are identifiers that are not keyword-prefixed, a function name is followed by "(", a keyword
   stands between non-word characters, other characters start no term).  Theorems hold for EVERY such list, of any length.
   That the equations the parser produces are of this form is checked per case by the correspondence K_domain
   (harness/props/C20.py), and proved for the renderings of all Eval statements (C20_rendered_statements_wf) and for source
   statements NAME[k] = rhs in the documented syntax with any layout of terms, blank runs and continuation lines under the
   decidable source-side conditions dq_ok_ws + sep_ok (C20_source_any_blanks_wf; whole scripts: C20_source_any_blanks_script_graph).
   Evaluation semantics: Eval.eval_expr (generic in the number type and in every arithmetic operation).

   WHAT IS PROVED ABOUT WHAT (independent review, 2026-10-02):
   * The structural half ("one node per left-hand term carrying its equation; edges = exactly the right-hand terms") is proved for
     the graph tool on every symbol list whose endogenous equations are well-formed (C20_graph_total + C20_tokenise_sound_complete);
     C20_edges_exact / _nodes_exact / _edges_listed_once then describe graph_of, which is DEFINED from the token ids — they carry the
     content only together with C20_graph_total.  The `_instance` theorems are computed examples.
   * The semantic half ("perturbing a term without an edge changes nothing; every in-edge is read") is proved for Eval programs and
     the graph of their own rendering GNorm.rstmt (C20_program_edges … C20_edge_is_read).  For PARSER output the graph reads
     Symbol.equation while Symbol.code is what runs: C20_equation_and_code_same_tokens shows both are renderings of one token list
     (a term NAME[t+k] in the one is self._NAME[t+k] in the other), under dq_ok_ws; that executing that code reads exactly those
     cells is NOT proved for parser output — it rests on the oracle (`influence-without-edge`, `edge-not-read`: every equation run
     alone on 4 data vectors, every cell perturbed by +-0.4, +-7.3 and set just above / below the numeric literals of the code; every
     cell the code reads must have an edge, every cell it writes must be a left-hand term; tuple targets and named periods included).
   * "is actually read" is proved only for conditional-free expressions that yield a value (C20_reads_logged, C20_edge_is_read);
     for `a if c else b` the theorem only restates membership in expr_reads (the definition of the edge): it does NOT cover the clause.
   * All parser-side theorems are about parse_model_nocheck / parse_equation_M, i.e. check_syntax=False; the default entry point
     only rejects more (ParseModel.parse_model_M), and that extra rejection is not analysed here.
   * Guards: neq_wf / sep_ok exclude finding #20 (blank before an index bracket), keyword glued to a braced term (`if{a}`, refuted
     witness below), numerals with a letter (`2e5`; rejected by the default syntax check anyway), names that are keyword-prefixed
     or reserved words (C14_reserved_word_parameter_refuted); dq_ok_ws additionally "#", line separators outside round brackets,
     blanks between a function name and "(" — layouts only.
   * K (harness) is stricter than the property: it compares node / edge insertion order and the non-variable nodes (functions,
     keywords) with the model; the oracle compares only variable-like nodes, sets of edges and the data flow. *)
From Coq Require Import String Ascii List Bool Arith ZArith.
Import ListNotations.
Require Import PyBase PyStr Lex Symbols ParseEq ParseModel GLex GNorm Graph GraphFacts GraphTheorems GraphEvalFacts GraphEvalWf GraphExamples GTokenise GTokeniseFacts.
Require Import Denorm DenormFacts GraphParseFacts GraphScriptFacts GraphSrcWf GraphSrcGraph GraphTokWf GraphSrcGraphWs GraphSeriesFacts GraphParseExamples LayoutExamples.
Require Import Split Merge ParseContribFacts.
Require Import Solver Eval EvalFacts.
Open Scope string_scope.

(* symbols_to_graph never raises on such symbols and returns the graph built equation by equation *)
Theorem C20_graph_total : forall (symbols : list symbol) (qs : list neq),
  equations_of symbols = map neq_text qs -> forallb neq_wf qs = true ->
  symbols_to_graph_M symbols = Ret (graph_of qs).
Proof. exact graph_total. Qed.
Print Assumptions C20_graph_total.

(* fix 9d4c57e: only ENDOGENOUS symbols contribute.  A symbol of any other type — a verbatim block (its code sits in the
   `equation` field, with or without "="), a parameter, a function … — adds no node, no edge and no failure *)
Theorem C20_non_endogenous_ignored : forall (a : list symbol) (s : symbol) (b : list symbol),
  stype s <> TEndogenous -> symbols_to_graph_M (a ++ s :: b)%list = symbols_to_graph_M (a ++ b)%list.
Proof. exact non_endogenous_ignored. Qed.
Print Assumptions C20_non_endogenous_ignored.
Theorem C20_only_endogenous_matter : forall symbols : list symbol,
  symbols_to_graph_M (filter endogenous_sym symbols) = symbols_to_graph_M symbols.
Proof. exact only_endogenous_matter. Qed.
Print Assumptions C20_only_endogenous_matter.
(* hence: whatever else the list holds, if the equations of its endogenous symbols are well-formed normalised equations the
   graph is built, never raises, and is the graph of exactly those equations *)
Theorem C20_graph_total_endogenous : forall (symbols : list symbol) (qs : list neq),
  equations_of (filter endogenous_sym symbols) = map neq_text qs -> forallb neq_wf qs = true ->
  symbols_to_graph_M symbols = Ret (graph_of qs).
Proof. exact graph_total_endogenous. Qed.
Print Assumptions C20_graph_total_endogenous.
Theorem C20_verbatim_blocks_instance :
  symbols_to_graph_M (ex_verbatim_noeq :: ex_symbols ++ [ex_verbatim_eq])%list = symbols_to_graph_M ex_symbols /\
  symbols_to_graph_M [ex_verbatim_noeq] = Ret empty_graph.
Proof. exact verbatim_blocks_ignored. Qed.
Print Assumptions C20_verbatim_blocks_instance.

(* ---- the domain of the theorems as a closed, decidable predicate on TEXTS ---- *)
(* GTokenise.tokenise reads a text back into a token list with the model of term_re; it is sound and complete for neq_wf: it
   succeeds exactly on the well-formed normalised equations.  (This is the reader the correspondence K_domain runs on every
   real equation: no witness supplied from outside.) *)
Theorem C20_tokenise_sound_complete : forall e : string,
  (forall q, tokenise e = Some q -> neq_text q = e /\ neq_wf q = true) /\
  ((exists q, tokenise e = Some q) <-> (exists q, neq_wf q = true /\ neq_text q = e)).
Proof. exact (fun e => conj (tokenise_sound e) (tokenise_iff e)). Qed.
Print Assumptions C20_tokenise_sound_complete.
(* for EVERY symbol list whose endogenous equations pass the check, whatever else it contains: the graph is built, never
   raises, and is the graph of the equations as read back — all edge / node theorems above then apply to `tokenised symbols` *)
Theorem C20_graph_of_checked : forall symbols : list symbol,
  checked symbols = true ->
  symbols_to_graph_M symbols = Ret (graph_of (tokenised symbols)) /\
  map neq_text (tokenised symbols) = equations_of symbols /\ forallb neq_wf (tokenised symbols) = true.
Proof. exact graph_of_checked. Qed.
Print Assumptions C20_graph_of_checked.

(* edge x -> n  iff  some equation has n among the ids of its left-hand side and x among the ids of its right-hand side *)
Theorem C20_edges_exact : forall (qs : list neq) (x n : string),
  is_edge (graph_of qs) x n = true <-> (exists q, In q qs /\ In n (nids (nlhs q)) /\ In x (nids (nrhs q))).
Proof. exact edges_exact. Qed.
Print Assumptions C20_edges_exact.

(* among the variable-like nodes: edge x -> n  iff  x is the text NAME[...] of a variable / parameter / error term (with its
   offset) on the right-hand side of an equation that has n on its left *)
Theorem C20_varlike_edges_exact : forall (qs : list neq) (x n : string),
  forallb neq_wf qs = true ->
  (is_edge (graph_of qs) x n = true /\ varlike_id x = true) <->
  (exists (q : neq) (name : string) (i : pidx),
     In q qs /\ In n (nids (nlhs q)) /\ In (name, i) (nterms (nrhs q)) /\ x = term_text name i).
Proof. exact varlike_edges_exact. Qed.
Print Assumptions C20_varlike_edges_exact.

Theorem C20_edges_listed_once : forall qs : list neq, NoDup (gedges (graph_of qs)).
Proof. exact edges_nodup. Qed.
Print Assumptions C20_edges_listed_once.

(* G.edges() as networkx iterates it (Graph.nx_edges: node by node, successors in insertion order — what the correspondence
   compares with the real graph) lists exactly the edges of is_edge *)
Theorem C20_networkx_edge_view : forall (qs : list neq) (x n : string),
  In (x, n) (nx_edges (graph_of qs)) <-> is_edge (graph_of qs) x n = true.
Proof. exact networkx_edge_view. Qed.
Print Assumptions C20_networkx_edge_view.

(* one node per left-hand-side term, carrying the normalised equation (the last one that has the term on its left) *)
Theorem C20_lhs_node_carries_equation : forall (qs1 : list neq) (q : neq) (qs2 : list neq) (n : string),
  In n (nids (nlhs q)) -> (forall q', In q' qs2 -> ~ In n (nids (nlhs q'))) ->
  node_attr (graph_of (qs1 ++ q :: qs2)%list) n = Some (Some (neq_text q)).
Proof. exact lhs_node_carries_equation. Qed.
Print Assumptions C20_lhs_node_carries_equation.

(* what must NOT happen: a term that is on no left-hand side never carries an equation *)
Theorem C20_rhs_only_node_has_no_equation : forall (qs : list neq) (n : string),
  (forall q, In q qs -> ~ In n (nids (nlhs q))) ->
  node_attr (graph_of qs) n = None \/ node_attr (graph_of qs) n = Some None.
Proof. exact rhs_only_node_has_no_equation. Qed.
Print Assumptions C20_rhs_only_node_has_no_equation.

(* the node set: left-hand ids, and right-hand ids of equations whose left-hand side has a term *)
Theorem C20_nodes_exact : forall (qs : list neq) (n : string),
  node_attr (graph_of qs) n <> None <->
  (exists q, In q qs /\ (In n (nids (nlhs q)) \/ (nids (nlhs q) <> [] /\ In n (nids (nrhs q))))).
Proof. exact nodes_exact. Qed.
Print Assumptions C20_nodes_exact.

(* ---- against the evaluation semantics: programs of Eval statements, rendered as normalised equations ---- *)
(* the rendering of every statement is a well-formed normalised equation *)
Theorem C20_rendered_statements_wf : forall (num : Type) (vname : nat -> string) (show : num -> string) (f1name f2name : nat -> string),
  (forall x, name_ok (vname x) = true) -> (forall z, numeral_ok (show z) = true) ->
  (forall f, fname_ok (f1name f) = true) -> (forall f, fname_ok (f2name f) = true) ->
  forall prog : list (stmt num), forallb neq_wf (map (rstmt num vname show f1name f2name) prog) = true.
Proof. exact rstmts_wf. Qed.
Print Assumptions C20_rendered_statements_wf.

(* term by term, without the decidable premise: names are identifiers that no keyword prefixes, distinct series have
   distinct names, numerals contain no letter / backtick / brace / "<".  Edge (x,k) -> (y,ky) iff a statement that assigns
   (y,ky) reads (x,k): nothing more (no spurious edge), nothing less (no dependency missed) *)
Theorem C20_program_edges_terms : forall (num : Type) (vname : nat -> string) (show : num -> string) (f1name f2name : nat -> string),
  (forall x, name_ok (vname x) = true) -> (forall x x', vname x = vname x' -> x = x') ->
  (forall z, numeral_ok (show z) = true) ->
  (forall f, fname_ok (f1name f) = true) -> (forall f, fname_ok (f2name f) = true) ->
  forall (prog : list (stmt num)) (x : nat) (k : Z) (y : nat) (ky : Z),
    is_edge (prog_graph num vname show f1name f2name prog) (tt vname x k) (tt vname y ky) = true
    <-> (exists e, In (SAssign y ky e) prog /\ In (x, k) (expr_reads num e)).
Proof. exact program_edges_terms. Qed.
Print Assumptions C20_program_edges_terms.

(* reads of a conditional-free expression that evaluates to a value are all in the access log *)
Theorem C20_reads_logged : forall (num : Type) (add sub mul div pow : num -> num -> num) (neg absf : num -> num) (ltb leb eqb : num -> num -> bool)
    (zero : num) (fun1 : nat -> num -> num) (fun2 : nat -> num -> num -> num) (flagged : list num -> num -> bool)
    (catch : bool) (t : Z) (v : vals num) (e : expr num) (r : num) (lg : list access),
  cond_free num e = true ->
  eval_expr num add sub mul div pow neg absf ltb leb eqb zero fun1 fun2 flagged catch t v e = (EVal r, lg) ->
  forall (x : nat) (k : Z), In (x, k) (expr_reads num e) -> exists q : nat, In (Acc false x (t + k)%Z (Some q)) lg.
Proof. exact reads_logged. Qed.
Print Assumptions C20_reads_logged.

(* variable-like edge x' -> n'  iff  some statement assigns the term n' and reads the term x' *)
Theorem C20_program_edges : forall (num : Type) (vname : nat -> string) (show : num -> string) (f1name f2name : nat -> string)
    (prog : list (stmt num)) (x' n' : string),
  forallb neq_wf (map (rstmt num vname show f1name f2name) prog) = true ->
  (is_edge (prog_graph num vname show f1name f2name prog) x' n' = true /\ varlike_id x' = true) <->
  (exists (y : nat) (ky : Z) (e : expr num) (x : nat) (k : Z),
     In (SAssign y ky e) prog /\ In (x, k) (expr_reads num e) /\ n' = tt vname y ky /\ x' = tt vname x k).
Proof. exact program_edges. Qed.
Print Assumptions C20_program_edges.

(* a series with no edge into y cannot influence y: two stores of the same shape that agree on every cell served for an
   in-edge term of y give the same value, the same exception and the same access log for y's expression *)
Theorem C20_no_edge_no_influence : forall (num : Type) (vname : nat -> string) (show : num -> string) (f1name f2name : nat -> string)
    (add sub mul div pow : num -> num -> num) (neg absf : num -> num) (ltb leb eqb : num -> num -> bool)
    (zero : num) (fun1 : nat -> num -> num) (fun2 : nat -> num -> num -> num) (flagged : list num -> num -> bool)
    (prog : list (stmt num)) (y : nat) (ky : Z) (e : expr num) (catch : bool) (t : Z) (v v' : vals num),
  forallb neq_wf (map (rstmt num vname show f1name f2name) prog) = true ->
  In (SAssign y ky e) prog ->
  shape v' = shape v ->
  (forall (x : nat) (k : Z) (q : nat),
     is_edge (prog_graph num vname show f1name f2name prog) (tt vname x k) (tt vname y ky) = true ->
     py_pos (nth x (shape v) 0%nat) (t + k)%Z = Some q -> nth q (nth x v' []) zero = nth q (nth x v []) zero) ->
  eval_expr num add sub mul div pow neg absf ltb leb eqb zero fun1 fun2 flagged catch t v' e =
  eval_expr num add sub mul div pow neg absf ltb leb eqb zero fun1 fun2 flagged catch t v e.
Proof. exact no_edge_no_influence. Qed.
Print Assumptions C20_no_edge_no_influence.

(* in particular: overwriting one cell (series i, position p) that no in-edge of y is served from changes nothing *)
Theorem C20_unlinked_cell_no_influence : forall (num : Type) (vname : nat -> string) (show : num -> string) (f1name f2name : nat -> string)
    (add sub mul div pow : num -> num -> num) (neg absf : num -> num) (ltb leb eqb : num -> num -> bool)
    (zero : num) (fun1 : nat -> num -> num) (fun2 : nat -> num -> num -> num) (flagged : list num -> num -> bool)
    (prog : list (stmt num)) (y : nat) (ky : Z) (e : expr num) (catch : bool) (t : Z) (v : vals num) (i p : nat) (z : num),
  forallb neq_wf (map (rstmt num vname show f1name f2name) prog) = true ->
  In (SAssign y ky e) prog ->
  (forall k : Z, is_edge (prog_graph num vname show f1name f2name prog) (tt vname i k) (tt vname y ky) = true ->
                 py_pos (nth i (shape v) 0%nat) (t + k)%Z <> Some p) ->
  eval_expr num add sub mul div pow neg absf ltb leb eqb zero fun1 fun2 flagged catch t (set_cell num v i p z) e =
  eval_expr num add sub mul div pow neg absf ltb leb eqb zero fun1 fun2 flagged catch t v e.
Proof. exact unlinked_cell_no_influence. Qed.
Print Assumptions C20_unlinked_cell_no_influence.

(* every variable-like in-edge is the text of a term that the statement reads; for a statement without a conditional
   expression the term's cell is in the access log of every evaluation that yields a value.  (Python evaluates only the
   selected branch of `a if c else b`: for such statements only membership in expr_reads is claimed — partial by nature.) *)
Theorem C20_edge_is_read : forall (num : Type) (vname : nat -> string) (show : num -> string) (f1name f2name : nat -> string)
    (add sub mul div pow : num -> num -> num) (neg absf : num -> num) (ltb leb eqb : num -> num -> bool)
    (zero : num) (fun1 : nat -> num -> num) (fun2 : nat -> num -> num -> num) (flagged : list num -> num -> bool)
    (prog : list (stmt num)) (x' : string) (y : nat) (ky : Z),
  forallb neq_wf (map (rstmt num vname show f1name f2name) prog) = true ->
  is_edge (prog_graph num vname show f1name f2name prog) x' (tt vname y ky) = true ->
  varlike_id x' = true ->
  exists (y' : nat) (ky' : Z) (e : expr num) (x : nat) (k : Z),
    In (SAssign y' ky' e) prog /\ tt vname y' ky' = tt vname y ky /\ x' = tt vname x k /\ In (x, k) (expr_reads num e) /\
    (cond_free num e = true ->
     forall (catch : bool) (t : Z) (v : vals num) (r : num) (lg : list access),
       eval_expr num add sub mul div pow neg absf ltb leb eqb zero fun1 fun2 flagged catch t v e = (EVal r, lg) ->
       exists q : nat, In (Acc false x (t + k)%Z (Some q)) lg).
Proof. exact edge_is_read. Qed.
Print Assumptions C20_edge_is_read.

(* ---- from the parser model to the graph, inside the model ---- *)
(* for every statement  NAME[k] = rhs  written in de-normalised form (Denorm.denorm_text, any index-bracket layout `lay`) whose normalised equation q satisfies
   the decidable conditions dq_ok (see Props/C14.v) and neq_wf (a statement that calls NAME as a function is a SymbolError since fix b45daa1, so no such guard is needed any more): the symbols
   parse_equation produces carry exactly one equation, and symbols_to_graph builds graph_of [q] from them *)
Theorem C20_reparsed_graph : forall (lay : layout) (y : string) (ky : Z) (ws r : list ntok) (syms : list symbol),
  dq_ok lay (mkNeq (NTerm y (IInt ky) :: ws) r) = true -> neq_wf (mkNeq (NTerm y (IInt ky) :: ws) r) = true ->
  parse_equation_M (denorm_text lay (mkNeq (NTerm y (IInt ky) :: ws) r)) = POk syms ->
  symbols_to_graph_M syms = Ret (graph_of [mkNeq (NTerm y (IInt ky) :: ws) r]).
Proof. exact reparsed_graph. Qed.
Print Assumptions C20_reparsed_graph.

Theorem C20_reparsed_graph_satisfiable :
  dq_ok canon ex_fix_q = true /\ neq_wf ex_fix_q = true /\
  exists syms, parse_equation_M (denorm_text canon ex_fix_q) = POk syms /\
    match symbols_to_graph_M syms with
    | Ret g => filter varlike_id (in_edges g "C[t+1]") = ["alpha_1[t]"; "YD[t+2]"; "H[t-1]"; "X['2000']"]
    | Raise _ => False
    end.
Proof. exact ex_reparse_hyps. Qed.
Print Assumptions C20_reparsed_graph_satisfiable.

(* ---- scripts of several statements, end to end inside the model: splitter -> parse_equation per statement -> cross-equation
   merge -> symbols_to_graph ---- *)
(* the merge neither loses nor invents an equation (per-statement symbols all named and tidy, as parse_equation builds them) *)
Theorem C20_merge_keeps_equations : forall (by_eq : list (list symbol)) (out : list symbol),
  (forall s, In s (concat by_eq) -> tidy s /\ sname s <> None) ->
  merge_symbols by_eq = Ret out ->
  forall e, In e (equations_of out) <-> In e (equations_of (concat by_eq)).
Proof. exact merge_equations. Qed.
Print Assumptions C20_merge_keeps_equations.

(* for every script that the splitter cuts into the statements  denorm_text lay q_1 … denorm_text lay q_n  (each q_i a plain
   NAME[k] = rhs under dq_ok and neq_wf) and that parse_model accepts, the graph of the
   parsed symbols has exactly the edges of the q_i: x -> n iff some q_i has n on its left and x on its right.  Statement order,
   names used before their definition and repeated statements do not matter *)
Theorem C20_script_graph_edges : forall (lay : layout) (qs : list neq) (s : string) (syms : list symbol),
  Forall (stmt_ok_q lay) qs ->
  split_M s = (map (denorm_text lay) qs, None) ->
  parse_model_nocheck s = POk syms ->
  exists g, symbols_to_graph_M syms = Ret g /\
    forall x n, is_edge g x n = true <-> exists q, In q qs /\ In n (nids (nlhs q)) /\ In x (nids (nrhs q)).
Proof. exact script_graph_edges. Qed.
Print Assumptions C20_script_graph_edges.
Theorem C20_script_graph_satisfiable :
  Forall (stmt_ok_q canon) [ex_sq1; ex_sq2] /\
  split_M ex_script = (map (denorm_text canon) [ex_sq1; ex_sq2], None) /\
  exists syms, parse_model_nocheck ex_script = POk syms /\
    match symbols_to_graph_M syms with
    | Ret g => in_edges g "Y[t]" = ["X[t-1]"; "Z[t]"; "a[t]"] /\ in_edges g "Z[t]" = ["Y[t-1]"]
    | Raise _ => False
    end.
Proof. exact ex_script_hyps. Qed.
Print Assumptions C20_script_graph_satisfiable.

(* ---- SOURCE statements: conditions on the source side only ---- *)
(* a statement  NAME[k] = rhs  spelled in the documented syntax — terms as NAME, { NAME }, < NAME > with any blanks inside, any
   index-bracket layout, [0] written or not (layout `lay`) — under the decidable dq_ok (it lexes token by token; no "#"; round
   brackets balanced; a newline only inside them; braces only around parameters) and sep_ok (names not keyword-prefixed; no
   keyword glued to a braced term as in `if{a}`; no keyword right after "<") produces a WELL-FORMED normalised equation:
   nothing is assumed about the parser's output any more *)
Theorem C20_source_statement_wf : forall (lay : layout) (q : neq),
  dq_ok lay q = true -> sep_ok lay (nrhs q) = true -> neq_wf q = true.
Proof. exact dq_ok_neq_wf. Qed.
Print Assumptions C20_source_statement_wf.
Theorem C20_source_statement_graph : forall (lay : layout) (y : string) (ky : Z) (ws r : list ntok) (syms : list symbol),
  dq_ok lay (mkNeq (NTerm y (IInt ky) :: ws) r) = true -> sep_ok lay r = true ->
  parse_equation_M (denorm_text lay (mkNeq (NTerm y (IInt ky) :: ws) r)) = POk syms ->
  symbols_to_graph_M syms = Ret (graph_of [mkNeq (NTerm y (IInt ky) :: ws) r]) /\ neq_wf (mkNeq (NTerm y (IInt ky) :: ws) r) = true.
Proof. exact source_statement_graph. Qed.
Print Assumptions C20_source_statement_graph.
(* whole scripts: splitter -> parse_equation per statement -> merge -> graph; edges exactly those of the statements *)
Theorem C20_source_script_graph : forall (lay : layout) (qs : list neq) (s : string) (syms : list symbol),
  Forall (stmt_src_q lay) qs ->
  split_M s = (map (denorm_text lay) qs, None) ->
  parse_model_nocheck s = POk syms ->
  exists g, symbols_to_graph_M syms = Ret g /\
    forall x n, is_edge g x n = true <-> exists q, In q qs /\ In n (nids (nlhs q)) /\ In x (nids (nrhs q)).
Proof. exact source_script_graph. Qed.
Print Assumptions C20_source_script_graph.
Theorem C20_source_script_satisfiable :
  ex_src_script = "Y = X[ -1 ] + Z * { a}" ++ nl_s ++ "Z = Y < max(X[ +1 ])" /\
  Forall (stmt_src_q ex_src_lay) [ex_sq1; ex_sq2b] /\
  split_M ex_src_script = (map (denorm_text ex_src_lay) [ex_sq1; ex_sq2b], None) /\
  exists syms, parse_model_nocheck ex_src_script = POk syms /\
    match symbols_to_graph_M syms with
    | Ret g => in_edges g "Y[t]" = ["X[t-1]"; "Z[t]"; "a[t]"] /\ in_edges g "Z[t]" = ["Y[t]"; "max"; "X[t+1]"]
    | Raise _ => False
    end.
Proof. exact ex_src_script_hyps. Qed.
Print Assumptions C20_source_script_satisfiable.

(* ---- the same with ANY runs of blanks and continuation lines: dq_ok_ws instead of dq_ok (no requirement that the statement is
   already in normal spacing).  The parser's normaliser acts on the token list as DenormFacts.nrm (blank runs collapsed, blanks
   after "(" and before ")" dropped); nrm_q q is q with both sides normalised, and neq_text (nrm_q q) is the equation text the
   parser stores (DenormFacts.parse_denorm_general).  GraphTokWf shows that the three passes keep the token list lexable. *)
Theorem C20_source_any_blanks_wf : forall (lay : layout) (q : neq),
  dq_ok_ws lay q = true -> sep_ok lay (nrhs q) = true -> neq_wf (nrm_q q) = true.
Proof. exact dq_ok_ws_neq_wf. Qed.
Print Assumptions C20_source_any_blanks_wf.
Theorem C20_source_any_blanks_statement_graph : forall (lay : layout) (y : string) (ky : Z) (ws r : list ntok) (syms : list symbol),
  dq_ok_ws lay (mkNeq (NTerm y (IInt ky) :: ws) r) = true -> sep_ok lay r = true ->
  parse_equation_M (denorm_text lay (mkNeq (NTerm y (IInt ky) :: ws) r)) = POk syms ->
  symbols_to_graph_M syms = Ret (graph_of [nrm_q (mkNeq (NTerm y (IInt ky) :: ws) r)]) /\
  neq_wf (nrm_q (mkNeq (NTerm y (IInt ky) :: ws) r)) = true.
Proof. exact source_statement_graph_ws. Qed.
Print Assumptions C20_source_any_blanks_statement_graph.
(* the edges are read off the SOURCE token lists: the normaliser keeps the terms *)
Theorem C20_source_any_blanks_script_graph : forall (lay : layout) (qs : list neq) (s : string) (syms : list symbol),
  Forall (stmt_src_ws lay) qs ->
  split_M s = (map (denorm_text lay) qs, None) ->
  parse_model_nocheck s = POk syms ->
  exists g, symbols_to_graph_M syms = Ret g /\
    forall x n, is_edge g x n = true <-> exists q, In q qs /\ In n (nids (nlhs q)) /\ In x (nids (nrhs q)).
Proof. exact source_script_graph_ws. Qed.
Print Assumptions C20_source_any_blanks_script_graph.
Theorem C20_source_any_blanks_satisfiable :
  ex_ws_script = "Y  =  X[ -1 ]  + max( Z ," ++ nl_s ++ "  { a} )" ++ nl_s ++ "Z   = Y  <  max( X[ +1 ] ) if  Y else 1" /\
  dq_ok ex_src_lay ex_wq1 = false /\ dq_ok ex_src_lay ex_wq2 = false /\
  Forall (stmt_src_ws ex_src_lay) [ex_wq1; ex_wq2] /\
  split_M ex_ws_script = (map (denorm_text ex_src_lay) [ex_wq1; ex_wq2], None) /\
  neq_text (nrm_q ex_wq1) = "Y[t] = X[t-1] + max(Z[t] , a[t])" /\
  neq_text (nrm_q ex_wq2) = "Z[t] = Y[t] < max(X[t+1]) if Y[t] else 1" /\
  exists syms, parse_model_nocheck ex_ws_script = POk syms /\
    match symbols_to_graph_M syms with
    | Ret g => in_edges g "Y[t]" = ["X[t-1]"; "max"; "Z[t]"; "a[t]"] /\ in_edges g "Z[t]" = ["Y[t]"; "max"; "X[t+1]"; "if"; "else"]
    | Raise _ => False
    end.
Proof. exact ex_ws_script_hyps. Qed.
Print Assumptions C20_source_any_blanks_satisfiable.

(* a tuple assignment `S,D = X, Y[-1]` (accepted by the parser: one equation text carried by both assigned names): every target
   is a node with the equation and receives every edge — C20_edges_exact with two ids on the left-hand side, at work on the
   symbols the parser model produces for the script; the following statement reads both targets *)
Theorem C20_tuple_assignment_instance :
  exists syms, parse_model_nocheck ("S,D = X, Y[-1]" ++ nl_s ++ "Q = S + D[-1]") = POk syms /\
    equations_of syms = ["S[t],D[t] = X[t], Y[t-1]"; "S[t],D[t] = X[t], Y[t-1]"; "Q[t] = S[t] + D[t-1]"] /\
    (forall q, tokenise "S[t],D[t] = X[t], Y[t-1]" = Some q -> nids (nlhs q) = ["S[t]"; "D[t]"] /\ nids (nrhs q) = ["X[t]"; "Y[t-1]"]) /\
    match symbols_to_graph_M syms with
    | Ret g => in_edges g "S[t]" = ["X[t]"; "Y[t-1]"] /\ in_edges g "D[t]" = ["X[t]"; "Y[t-1]"] /\ in_edges g "Q[t]" = ["S[t]"; "D[t-1]"] /\
               map fst (gnodes g) = ["S[t]"; "D[t]"; "X[t]"; "Y[t-1]"; "Q[t]"; "D[t-1]"]
    | Raise _ => False
    end.
Proof. exact ex_tuple_assignment. Qed.
Print Assumptions C20_tuple_assignment_instance.

(* the bridge between Symbol.equation (what the graph reads) and Symbol.code (what runs), for parser output: every symbol of a
   source statement carries either nothing or exactly nflat T / cflat T for ONE token list T — the same tokens, a term written
   NAME[t+k] in the equation and self._NAME[t+k] in the code (Denorm.tok_code), every other token identical *)
Theorem C20_equation_and_code_same_tokens : forall (lay : layout) (q : neq) (syms : list symbol),
  dq_ok_ws lay q = true -> parse_equation_M (denorm_text lay q) = POk syms ->
  forall s, In s syms -> tame (nflat (nrm (whole_toks q))) (cflat (nrm (whole_toks q))) s.
Proof. exact source_statement_texts. Qed.
Print Assumptions C20_equation_and_code_same_tokens.

(* ---- finding #19 repaired in /repo (b45daa1), stated positively: every variable-like dependency of the graph is a SERIES of
   the model (is_series: the symbol list holds a symbol of that name of type ENDOGENOUS / EXOGENOUS / PARAMETER / ERROR — the
   model's NAMES).  Before the fix `Y = exp + exp(X)` was accepted, the FUNCTION entry replaced the variable exp, and the graph
   had the edge exp[t] -> Y[t] although the model had no series exp. ---- *)
(* per equation, for EVERY term list: when the symbol loop of parse_equation returns, every variable / parameter / error term has
   a symbol of its name with a series type *)
Theorem C20_terms_are_series_per_equation : forall (eqn code : string) (terms : list term) (syms : list symbol),
  equation_symbols eqn code terms = Ret syms ->
  forall t, In t terms -> is_series (ttype t) = true ->
  exists s, In s syms /\ sname s = Some (tname t) /\ is_series (stype s) = true.
Proof. exact equation_symbols_series. Qed.
Print Assumptions C20_terms_are_series_per_equation.
(* the cross-equation merge keeps every series (for EVERY list of per-statement symbol lists) *)
Theorem C20_merge_keeps_series : forall (by_eq : list (list symbol)) (out : list symbol),
  merge_symbols by_eq = Ret out ->
  forall s n, In s (concat by_eq) -> sname s = Some n -> is_series (stype s) = true ->
  exists s', In s' out /\ sname s' = Some n /\ is_series (stype s') = true.
Proof. exact merge_series. Qed.
Print Assumptions C20_merge_keeps_series.
(* scripts of source statements (any layout, dq_ok_ws + sep_ok) accepted by the parser model: every term of every statement *)
Theorem C20_script_terms_are_series : forall (lay : layout) (qs : list neq) (s : string) (syms : list symbol),
  Forall (stmt_src_ws lay) qs ->
  split_M s = (map (denorm_text lay) qs, None) ->
  parse_model_nocheck s = POk syms ->
  forall q name i, In q qs -> In (name, i) (nterms (nlhs q) ++ nterms (nrhs q)) ->
  exists sy, In sy syms /\ sname sy = Some name /\ is_series (stype sy) = true.
Proof. exact source_script_terms_series. Qed.
Print Assumptions C20_script_terms_are_series.
(* … hence every variable-like in-edge of the graph *)
Theorem C20_graph_terms_are_series : forall (lay : layout) (qs : list neq) (s : string) (syms : list symbol),
  Forall (stmt_src_ws lay) qs ->
  split_M s = (map (denorm_text lay) qs, None) ->
  parse_model_nocheck s = POk syms ->
  exists g, symbols_to_graph_M syms = Ret g /\
    forall x n, is_edge g x n = true -> varlike_id x = true ->
    exists name i sy, x = term_text name i /\ In sy syms /\ sname sy = Some name /\ is_series (stype sy) = true.
Proof. exact graph_terms_are_series. Qed.
Print Assumptions C20_graph_terms_are_series.
Theorem C20_function_variable_clash_instance :
  parse_model_nocheck "Y = exp + exp(X)" = PErr SymbolError /\ parse_model_nocheck "Y = exp(X) + exp" = PErr SymbolError /\
  parse_model_nocheck "Y = max(X, 1) * {max}" = PErr SymbolError /\
  exists syms, parse_model_nocheck "Y = exp(X) + exp(Z[-1]) * {a}" = POk syms /\
    map (fun s => (sname s, stype s)) syms = [(Some "Y", TEndogenous); (Some "exp", TFunction); (Some "X", TExogenous); (Some "Z", TExogenous); (Some "a", TParameter)] /\
    match symbols_to_graph_M syms with
    | Ret g => in_edges g "Y[t]" = ["exp"; "X[t]"; "Z[t-1]"; "a[t]"] /\ filter varlike_id (in_edges g "Y[t]") = ["X[t]"; "Z[t-1]"; "a[t]"]
    | Raise _ => False
    end.
Proof. exact ex_function_variable_clash. Qed.
Print Assumptions C20_function_variable_clash_instance.

(* ---- hypotheses are satisfiable; what does not hold of the code as it is ---- *)
Theorem C20_hypotheses_satisfiable :
  forallb neq_wf [ex_q1; ex_q2] = true /\
  forallb neq_wf (map (rstmt Z ex_vname string_of_Z ex_f1 ex_f2) ex_prog) = true /\
  forallb name_ok ["Y"; "X"; "is_open"; "not_X"; "Pin"; "alpha_1"] = true /\ name_ok "if" = false /\ name_ok "is" = false /\
  forallb fname_ok ["exp"; "np.sqrt"; "max"] = true /\ forallb numeral_ok ["2"; "0.5"; "-10"; "1."] = true /\ numeral_ok "2e5" = false.
Proof. exact (conj ex_neqs_wf (conj ex_prog_wf ex_name_conditions)). Qed.
Print Assumptions C20_hypotheses_satisfiable.

(* finding #20: the script says X one period back, the graph (built from the normalised equation "Y[t] = X[t] [-1]") says X now *)
Theorem C20_space_before_index_refuted :
  exists script symbols g,
    parse_model_nocheck script = POk symbols /\ symbols_to_graph_M symbols = Ret g /\
    in_edges g "Y[t]" = ["X[t]"] /\ is_edge g "X[t-1]" "Y[t]" = false.
Proof. exact space_before_index_graph_refuted. Qed.
Print Assumptions C20_space_before_index_refuted.

(* outside sep_ok / neq_wf (reachable only with check_syntax=False): a keyword glued to a braced parameter; re-tokenising reads `ifa` *)
Theorem C20_wellformedness_needed_refuted :
  exists script symbols g,
    parse_model_nocheck script = POk symbols /\ symbols_to_graph_M symbols = Ret g /\
    in_edges g "Y[t]" = ["ifa[t]"; "else"] /\ is_edge g "a[t]" "Y[t]" = false.
Proof. exact renormalised_keyword_glued_refuted. Qed.
Print Assumptions C20_wellformedness_needed_refuted.

(* second independent review, 2026-10-02 — two accepted statements (default parse_model as well) whose graph does not describe what
   the code does; both reproduced on the pinned tree, kept findings of C20 (the rewriting itself is C01 material): *)
(* a second statement after ";": one equation for Y whose code also assigns Z; Z stays EXOGENOUS, is no node with an equation, and
   the graph has the edge Z[t] -> Y[t] (and Y[t] -> Y[t]) although Z is written, not read *)
Theorem C20_semicolon_statement_refuted :
  view_of (parse_model_nocheck "Y = X; Z = Y")
  = Some [(Some "Y", TEndogenous, Some "Y[t] = X[t]; Z[t] = Y[t]", Some "self._Y[t] = self._X[t]; self._Z[t] = self._Y[t]");
          (Some "X", TExogenous, None, None); (Some "Z", TExogenous, None, None)] /\
  graph_view (parse_model_nocheck "Y = X; Z = Y")
  = Some ([("Y[t]", Some "Y[t] = X[t]; Z[t] = Y[t]"); ("X[t]", None); ("Z[t]", None)], [("X[t]", "Y[t]"); ("Z[t]", "Y[t]"); ("Y[t]", "Y[t]")]).
Proof. exact ex_semicolon_statement. Qed.
Print Assumptions C20_semicolon_statement_refuted.
(* a name inside a string literal is rewritten like a term: edge W[t] -> Y[t], but the code compares with the string 'self._W[t]' *)
Theorem C20_term_in_string_literal_refuted :
  view_of (parse_model_nocheck "Y = X if S == 'W' else Z")
  = Some [(Some "Y", TEndogenous, Some "Y[t] = X[t] if S[t] == 'W[t]' else Z[t]", Some "self._Y[t] = self._X[t] if self._S[t] == 'self._W[t]' else self._Z[t]");
          (Some "X", TExogenous, None, None); (Some "if", TKeyword, None, None); (Some "S", TExogenous, None, None); (Some "W", TExogenous, None, None);
          (Some "else", TKeyword, None, None); (Some "Z", TExogenous, None, None)] /\
  (exists nodes edges, graph_view (parse_model_nocheck "Y = X if S == 'W' else Z") = Some (nodes, edges) /\ In ("W[t]", "Y[t]") edges).
Proof. exact ex_term_in_string_literal. Qed.
Print Assumptions C20_term_in_string_literal_refuted.
