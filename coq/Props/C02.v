(* Props/C02.v — the audited surface for property C02.  Statements only; every proof is
   `exact <lemma>`; Print Assumptions under each. *)
From Coq Require Import ZArith List Bool PrimFloat.
Import ListNotations.
Require Import PyBase Solver SolverFacts SolverF SolverExamples SolverDefaults SolverFacts8 SolverExamples3.
Require Import SolveAll SolveAllFacts SolveAllSpan SolveAllSpanFacts SolveAllSpanFacts2 SolveAllPeriod SolveAllPeriodFacts
               SolveAllF SolveAllExamples SolveAllSpanExamples SolveAllExamples3.
Open Scope Z_scope.

Section C02.
  (* any number type, any arithmetic, any evaluation oracle, any hooks *)
  Variable num : Type.
  Variables (sub : num -> num -> num) (absf : num -> num) (ltb : num -> num -> bool)
            (isfin : num -> bool) (zero : num).
  Variables (ev before after : hook num).
  Notation solve_t_M := (solve_t_M num sub absf ltb isfin zero ev before after).

  (* min_iter > max_iter: ValueError, nothing changes *)
  Theorem C02_min_gt_max_rejected d o t s :
    max_iter o < min_iter o -> solve_t_M d o t s = (s, Raise ValueError).
  Proof. exact (min_gt_max_rejected num sub absf ltb isfin zero ev before after d o t s). Qed.

  (* offset pointing outside the span: IndexError, nothing changes (both spellings of t) *)
  Theorem C02_offset_out_of_span_rejected d o t s p :
    min_iter o <= max_iter o ->
    py_pos (length (status s)) t = Some p -> feasible d (length (status s)) p = true ->
    offset o <> 0 ->
    (Z.of_nat p + offset o < 0 \/ Z.of_nat (length (status s)) <= Z.of_nat p + offset o) ->
    solve_t_M d o t s = (s, Raise IndexError).
  Proof. exact (offset_out_of_span_rejected num sub absf ltb isfin zero ev before after d o t s p). Qed.

  (* a period without room for the instance's lags (p < lags) or leads (p + leads >= len(span)): IndexError, nothing
     changes; p is the normalised position, so both spellings of t are covered (holds since fix: eb62990) *)
  Theorem C02_infeasible_period_rejected d o t s p :
    min_iter o <= max_iter o ->
    py_pos (length (status s)) t = Some p ->
    ((p < lags d)%nat \/ (length (status s) <= p + leads d)%nat) ->
    solve_t_M d o t s = (s, Raise IndexError).
  Proof. exact (infeasible_period_rejected num sub absf ltb isfin zero ev before after d o t s p). Qed.

  (* in-span offset: identical to the offset-free solve after copying the endogenous values of t+offset into t *)
  Theorem C02_offset_seeds d o t s p :
    py_pos (length (status s)) t = Some p -> feasible d (length (status s)) p = true ->
    offset o <> 0 ->
    0 <= Z.of_nat p + offset o < Z.of_nat (length (status s)) ->
    solve_t_M d o t s =
    (if max_iter o <? min_iter o then (s, Raise ValueError) else
     solve_t_M d (set_offset num o 0) t
       (mkState (copy_endo num zero d (vals_of s) p (Z.to_nat (Z.of_nat p + offset o))) (status s) (iters s) (log s))).
  Proof. exact (offset_seeds num sub absf ltb isfin zero ev before after d o t s p). Qed.

  (* finite regime, some pass converges: stops at the LEAST k in [max 1 min_iter, max_iter] at which every
     check variable moved by strictly less than tol; '.', iterations = k, True; exactly k passes; hooks once each *)
  Theorem C02_converges_at_least_k d o t s p v1 k0 :
    min_iter o <= max_iter o -> 0 <= max_iter o ->
    py_pos (length (status s)) t = Some p -> feasible d (length (status s)) p = true -> offset o = 0 ->
    let c0 := get_check num zero d (vals_of s) p in
    let N := Z.to_nat (max_iter o) in
    before t (errors o) (catch_first o) 0%nat (vals_of s) = (v1, None) ->
    (forall i, (1 <= i <= N)%nat -> snd (evk num ev o t i (st_after num ev o t v1 (i - 1))) = None) ->
    (forall i, (i <= N)%nat -> all_finite num isfin (chkseq num zero ev d o t p c0 v1 i) = true) ->
    (forall k v, snd (afterk num after o t k v) = None) ->
    (1 <= k0 <= N)%nat -> convk num sub absf ltb zero ev d o t p c0 v1 k0 = true ->
    (forall j, (1 <= j < k0)%nat -> convk num sub absf ltb zero ev d o t p c0 v1 j = false) ->
    let r := solve_t_M d o t s in
    snd r = Ret true /\
    nth_error (status (fst r)) p = Some Solved /\
    nth_error (iters (fst r)) p = (if (p <? length (iters s))%nat then Some (Z.of_nat k0) else None) /\
    log (fst r) = log s ++ [EvBefore t] ++ pass_events t 1 k0 ++ [EvAfter t k0] /\
    (forall q, q <> p -> nth_error (status (fst r)) q = nth_error (status s) q
                      /\ nth_error (iters (fst r)) q = nth_error (iters s) q).
  Proof. exact (solve_t_converges_at_least_k num sub absf ltb isfin zero ev before after d o t s p v1 k0). Qed.

  (* finite regime, no pass converges: 'F', iterations = max_iter, False / NonConvergenceError iff failures='raise' *)
  Theorem C02_fails_when_no_k d o t s p v1 :
    min_iter o <= max_iter o -> 0 <= max_iter o ->
    py_pos (length (status s)) t = Some p -> feasible d (length (status s)) p = true -> offset o = 0 ->
    let c0 := get_check num zero d (vals_of s) p in
    let N := Z.to_nat (max_iter o) in
    before t (errors o) (catch_first o) 0%nat (vals_of s) = (v1, None) ->
    (forall i, (1 <= i <= N)%nat -> snd (evk num ev o t i (st_after num ev o t v1 (i - 1))) = None) ->
    (forall i, (i <= N)%nat -> all_finite num isfin (chkseq num zero ev d o t p c0 v1 i) = true) ->
    (forall j, (1 <= j <= N)%nat -> convk num sub absf ltb zero ev d o t p c0 v1 j = false) ->
    let r := solve_t_M d o t s in
    snd r = (if fail_raise o then Raise NonConvergenceError else Ret false) /\
    nth_error (status (fst r)) p = Some Failed /\
    log (fst r) = log s ++ [EvBefore t] ++ pass_events t 1 N /\
    vals_of (fst r) = st_after num ev o t v1 N /\
    (forall q, q <> p -> nth_error (status (fst r)) q = nth_error (status s) q
                      /\ nth_error (iters (fst r)) q = nth_error (iters s) q).
  Proof. exact (solve_t_fails_when_no_k num sub absf ltb isfin zero ev before after d o t s p v1). Qed.

  (* the complete equation, from which the two readings above follow *)
  Theorem C02_finite_spec d o t s p v1 :
    min_iter o <= max_iter o -> 0 <= max_iter o ->
    py_pos (length (status s)) t = Some p -> feasible d (length (status s)) p = true ->
    offset o = 0 ->
    let c0 := get_check num zero d (vals_of s) p in
    let N := Z.to_nat (max_iter o) in
    before t (errors o) (catch_first o) 0%nat (vals_of s) = (v1, None) ->
    (forall i, (1 <= i <= N)%nat -> snd (evk num ev o t i (st_after num ev o t v1 (i - 1))) = None) ->
    (forall i, (i <= N)%nat -> all_finite num isfin (chkseq num zero ev d o t p c0 v1 i) = true) ->
    solve_t_M d o t s =
    match find_first (convk num sub absf ltb zero ev d o t p c0 v1) 1 N with
    | Some k0 =>
        match afterk num after o t k0 (st_after num ev o t v1 k0) with
        | (v'', Some c) =>
            (mkState v'' (status s) (iters s) (log s ++ [EvBefore t] ++ pass_events t 1 k0 ++ [EvAfter t k0]),
             Raise (SolutionError (Some c)))
        | (v'', None) =>
            (mkState v'' (upd p Solved (status s)) (upd p (Z.of_nat k0) (iters s))
                     (log s ++ [EvBefore t] ++ pass_events t 1 k0 ++ [EvAfter t k0]), Ret true)
        end
    | None =>
        (mkState (st_after num ev o t v1 N) (upd p Failed (status s)) (upd p (max_iter o) (iters s))
                 (log s ++ [EvBefore t] ++ pass_events t 1 N),
         if fail_raise o then Raise NonConvergenceError else Ret false)
    end.
  Proof. exact (solve_t_finite_spec num sub absf ltb isfin zero ev before after d o t s p v1). Qed.

  (* max_iter = 0: no pass is run, status F, iterations = max_iter = 0 (holds since the fix: commit for finding #1) *)
  Theorem C02_maxiter0 d o t s p v1 :
    min_iter o <= max_iter o -> max_iter o = 0 ->
    py_pos (length (status s)) t = Some p -> feasible d (length (status s)) p = true -> offset o = 0 ->
    all_finite num isfin (get_check num zero d (vals_of s) p) = true ->
    before t (errors o) (catch_first o) 0%nat (vals_of s) = (v1, None) ->
    solve_t_M d o t s =
      (mkState v1 (upd p Failed (status s)) (upd p (max_iter o) (iters s)) (log s ++ [EvBefore t]),
       if fail_raise o then Raise NonConvergenceError else Ret false).
  Proof. exact (solve_t_maxiter0 num sub absf ltb isfin zero ev before after d o t s p v1). Qed.
  (* the F branch with the iteration count spelled out: no pass in [max(1,min_iter), max_iter] converged -> 'F',
     iterations[t] = max_iter, exactly max_iter passes and no post-hook, False / NonConvergenceError *)
  Theorem C02_fails_when_no_k_full d o t s p v1 :
    min_iter o <= max_iter o -> 0 <= max_iter o -> length (iters s) = length (status s) ->
    py_pos (length (status s)) t = Some p -> feasible d (length (status s)) p = true -> offset o = 0 ->
    let c0 := get_check num zero d (vals_of s) p in
    let N := Z.to_nat (max_iter o) in
    before t (errors o) (catch_first o) 0%nat (vals_of s) = (v1, None) ->
    (forall i, (1 <= i <= N)%nat -> snd (evk num ev o t i (st_after num ev o t v1 (i - 1))) = None) ->
    (forall i, (i <= N)%nat -> all_finite num isfin (chkseq num zero ev d o t p c0 v1 i) = true) ->
    (forall j, (1 <= j <= N)%nat -> convk num sub absf ltb zero ev d o t p c0 v1 j = false) ->
    let r := solve_t_M d o t s in
    snd r = (if fail_raise o then Raise NonConvergenceError else Ret false) /\
    nth_error (status (fst r)) p = Some Failed /\
    nth_error (iters (fst r)) p = Some (max_iter o) /\
    log (fst r) = log s ++ [EvBefore t] ++ pass_events t 1 N.
  Proof. exact (solve_t_fails_when_no_k_full num sub absf ltb isfin zero ev before after d o t s p v1). Qed.

  (* a NEGATIVE max_iter (min_iter <= max_iter < 0 is accepted): no pass, 'F' — and iterations[t] = 0, not max_iter.  The F-branch
     theorems therefore carry the guard 0 <= max_iter; see C02_failed_iterations_eq_max_iter_refuted *)
  Theorem C02_negative_max_iter d o t s p v1 :
    min_iter o <= max_iter o -> max_iter o < 0 ->
    py_pos (length (status s)) t = Some p -> feasible d (length (status s)) p = true -> offset o = 0 ->
    is_raise (errors o) && negb (all_finite num isfin (get_check num zero d (vals_of s) p)) = false ->
    before t (errors o) (catch_first o) 0%nat (vals_of s) = (v1, None) ->
    solve_t_M d o t s =
      (mkState v1 (upd p Failed (status s)) (upd p 0 (iters s)) (log s ++ [EvBefore t]),
       if fail_raise o then Raise NonConvergenceError else Ret false).
  Proof. exact (solve_t_negative_max_iter num sub absf ltb isfin zero ev before after d o t s p v1). Qed.
End C02.

(* "iterations[t] = max_iter on failure" read literally is REFUTED for a negative max_iter (min_iter = max_iter = -2 records 0);
   the statement's range "k <= max_iter" is empty there.  Not reported as a finding: stated in ASSUMPTIONS (max_iter >= 0). *)
Theorem C02_failed_iterations_eq_max_iter_refuted :
  exists sc d (o : fopts) t (s : fstate) p,
    min_iter o <= max_iter o /\ py_pos (length (status s)) t = Some p /\
    nth_error (status (fst (f_solve_t sc d o t s))) p = Some Failed /\
    nth_error (iters (fst (f_solve_t sc d o t s))) p <> Some (max_iter o) /\
    nth_error (iters (fst (f_solve_t sc d o t s))) p = Some 0.
Proof. exact failed_iterations_eq_max_iter_refuted. Qed.

(* ---- keyword defaults: the option records the correspondence uses for every keyword a call OMITS are built from the regenerated
   signature constants, and they are the documented defaults (min_iter=0, max_iter=100, tol=1e-10, offset=0, failures='raise',
   errors='raise', catch_first_error=True) for solve_t, solve and solve_period alike ---- *)
Theorem C02_solver_defaults_documented :
  dflt_solve_t = mkOpts 0 100 0x1.b7cdfd9d7bdbbp-34%float 0 true ERaise true /\
  dflt_solve = mkOpts 0 100 0x1.b7cdfd9d7bdbbp-34%float 0 true ERaise true /\
  dflt_solve_period = mkOpts 0 100 0x1.b7cdfd9d7bdbbp-34%float 0 true ERaise true.
Proof. exact solver_defaults_documented. Qed.

(* ---- binary64: what the abstract `sub`, `absf`, `ltb` of the theorems above are for NumPy float64 (the instantiation K runs).
   The convergence test over the check variables holds iff EVERY variable satisfies  abs(current - previous) < tol  with the kernel's
   IEEE subtraction, absolute value and STRICT less-than; instances at the boundary: a move of exactly tol does not converge, one ulp
   less does, one ulp more does not, the sign of the move is irrelevant, a NaN move never converges, tol = 0 never converges ---- *)
(* (C02_float_conv_all_strict_abs unfolds `conv` into a statement per check variable — definitional; the content is the ten boundary
   instances of C02_float_conv_boundaries and the correspondence K) *)
Theorem C02_float_conv_all_strict_abs tl cur prev : length cur = length prev ->
  conv float PrimFloat.sub PrimFloat.abs PrimFloat.ltb tl cur prev = true <->
  (forall i c p, nth_error cur i = Some c -> nth_error prev i = Some p ->
                 PrimFloat.ltb (PrimFloat.abs (PrimFloat.sub c p)) tl = true).
Proof. exact (float_conv_all_strict_abs tl cur prev). Qed.
Theorem C02_float_conv_boundaries :
  let tl := 0x1.b7cdfd9d7bdbbp-34%float in
  fmoved_lt tl tl 0 = false /\ fmoved_lt tl 0x1.b7cdfd9d7bdbap-34 0 = true /\ fmoved_lt tl 0x1.b7cdfd9d7bdbcp-34 0 = false /\
  fmoved_lt tl 0 tl = false /\ fmoved_lt tl 0 0x1.b7cdfd9d7bdbap-34 = true /\ fmoved_lt tl (-0x1.b7cdfd9d7bdbap-34) 0 = true /\
  fmoved_lt tl 1 1 = true /\ fmoved_lt tl nan 0 = false /\ fmoved_lt tl infinity infinity = false /\
  fmoved_lt 0 1 1 = false.
Proof. exact float_conv_boundaries. Qed.

(* KEPT FINDING (reproduced on /repo; known_findings.d/C02.json): the theorems above hold for every arithmetic — including the wrong
   one.  For a model whose series are UNSIGNED integers NumPy subtracts in that dtype, `current - previous` wraps (uint8: 4 - 5 = 255)
   and a downward move smaller than tol is not recognised: with the generic model instantiated by 8-bit unsigned subtraction the period
   whose check variable moved by 1 < tol = 3 on pass 1 is declared solved only at pass 2 — "stops at the FIRST k at which every check
   variable has moved by strictly less than tol in absolute value" is REFUTED there (exact integers: pass 1). *)
Theorem C02_uint8_convergence_wraps_refuted :
  exists (ev : hook Z) d o t s,
    Z.abs (cell Z 0 (fst (ev t (errors o) (catch_first o) 1%nat (vals_of s))) 0 1 - cell Z 0 (vals_of s) 0 1) < tol o /\
    Z.max 1 (min_iter o) <= 1 <= max_iter o /\
    snd (solve_t_M Z u8_sub Z.abs Z.ltb (fun _ => true) 0 ev u8_noop u8_noop d o t s) = Ret true /\
    nth_error (iters (fst (solve_t_M Z u8_sub Z.abs Z.ltb (fun _ => true) 0 ev u8_noop u8_noop d o t s))) 1 = Some 2.
Proof. exact uint8_convergence_wraps_refuted. Qed.

(* ---- solve_period: label -> position -> solve_t, end to end.  The lookup is the model of VectorContainer._locate_period_in_span
   over the regenerated method list: list / tuple / range (.index), NumPy array (fallback), pandas Index (get_loc), and a
   quarterly pandas PeriodIndex (Period objects and their full strings; year strings are rejected) ---- *)
Section C02period.
  Variable num : Type.
  Variables (sub : num -> num -> num) (absf : num -> num) (ltb : num -> num -> bool)
            (isfin : num -> bool) (zero : num).
  Variables (ev before after : hook num).
  Notation solve_t_M := (solve_t_M num sub absf ltb isfin zero ev before after).
  Notation solve_period_M loc := (solve_period_M num sub absf ltb isfin zero ev before after Z loc).

  (* a label carried by exactly one period (other labels may repeat): solve_period(label) IS solve_t(position), on every span type *)
  Theorem C02_solve_period_eq_solve_t k span d o lab i s :
    nth_error span i = Some lab -> count_of lab span = 1%nat ->
    solve_period_M (locate_span k span) d o lab s = solve_t_M d o (Z.of_nat i) s.
  Proof. exact (solve_period_unique_label num sub absf ltb isfin zero ev before after k span d o lab i s). Qed.
  (* quarterly PeriodIndex: a Period object or its full string *)
  Theorem C02_solve_period_eq_solve_t_period_index span d o lab i s :
    NoDup span -> (forall z, In z span -> 0 <= z) -> nth_error span i = Some lab ->
    solve_period_M (locate_qindex span) d o lab s = solve_t_M d o (Z.of_nat i) s.
  Proof. exact (solve_period_qindex num sub absf ltb isfin zero ev before after span d o lab i s). Qed.
  (* a label that is unknown, or (NumPy / pandas) carried by several periods, or a year string on a quarterly PeriodIndex:
     KeyError and nothing changes *)
  Theorem C02_solve_period_unknown_label k span d o lab s :
    ~ In lab span -> solve_period_M (locate_span k span) d o lab s = (s, Raise KeyError).
  Proof. exact (solve_period_unknown_every_span num sub absf ltb isfin zero ev before after k span d o lab s). Qed.
  Theorem C02_solve_period_repeated_label k span d o lab s :
    (2 <= count_of lab span)%nat -> k <> SpList -> solve_period_M (locate_span k span) d o lab s = (s, Raise KeyError).
  Proof. exact (solve_period_repeated_label num sub absf ltb isfin zero ev before after k span d o lab s). Qed.
  Theorem C02_solve_period_year_string span d o y s :
    0 < y -> solve_period_M (locate_qindex span) d o (year_key y) s = (s, Raise KeyError).
  Proof. exact (solve_period_year_keyerror num sub absf ltb isfin zero ev before after span d o y s). Qed.

  (* the complete equation of C02_finite_spec for solve_period(label): passes k = 1, 2, ... until the first
     k in [max(1,min_iter), max_iter] at which every check variable moved by < tol; '.', iterations = k, True, hooks once each —
     or 'F', iterations = max_iter, False / NonConvergenceError *)
  Theorem C02_solve_period_finite_spec k span d o lab i s v1 :
    nth_error span i = Some lab -> count_of lab span = 1%nat -> length (status s) = length span ->
    min_iter o <= max_iter o -> 0 <= max_iter o ->
    feasible d (length (status s)) i = true -> offset o = 0 ->
    let t := Z.of_nat i in
    let c0 := get_check num zero d (vals_of s) i in
    let N := Z.to_nat (max_iter o) in
    before t (errors o) (catch_first o) 0%nat (vals_of s) = (v1, None) ->
    (forall j, (1 <= j <= N)%nat -> snd (evk num ev o t j (st_after num ev o t v1 (j - 1))) = None) ->
    (forall j, (j <= N)%nat -> all_finite num isfin (chkseq num zero ev d o t i c0 v1 j) = true) ->
    solve_period_M (locate_span k span) d o lab s =
    match find_first (convk num sub absf ltb zero ev d o t i c0 v1) 1 N with
    | Some k0 =>
        match afterk num after o t k0 (st_after num ev o t v1 k0) with
        | (v'', Some c) =>
            (mkState v'' (status s) (iters s) (log s ++ [EvBefore t] ++ pass_events t 1 k0 ++ [EvAfter t k0]),
             Raise (SolutionError (Some c)))
        | (v'', None) =>
            (mkState v'' (upd i Solved (status s)) (upd i (Z.of_nat k0) (iters s))
                     (log s ++ [EvBefore t] ++ pass_events t 1 k0 ++ [EvAfter t k0]), Ret true)
        end
    | None =>
        (mkState (st_after num ev o t v1 N) (upd i Failed (status s)) (upd i (max_iter o) (iters s))
                 (log s ++ [EvBefore t] ++ pass_events t 1 N),
         if fail_raise o then Raise NonConvergenceError else Ret false)
    end.
  Proof. exact (solve_period_finite_spec num sub absf ltb isfin zero ev before after k span d o lab i s v1). Qed.
End C02period.

Print Assumptions C02_min_gt_max_rejected.
Print Assumptions C02_offset_out_of_span_rejected.
Print Assumptions C02_infeasible_period_rejected.
Print Assumptions C02_offset_seeds.
Print Assumptions C02_converges_at_least_k.
Print Assumptions C02_fails_when_no_k.
Print Assumptions C02_finite_spec.
Print Assumptions C02_maxiter0.
Print Assumptions C02_fails_when_no_k_full.
Print Assumptions C02_negative_max_iter.
Print Assumptions C02_failed_iterations_eq_max_iter_refuted.
Print Assumptions C02_solver_defaults_documented.
Print Assumptions C02_float_conv_all_strict_abs.
Print Assumptions C02_float_conv_boundaries.
Print Assumptions C02_uint8_convergence_wraps_refuted.
Print Assumptions exact_int_converges_at_1.
Print Assumptions C02_solve_period_eq_solve_t.
Print Assumptions C02_solve_period_eq_solve_t_period_index.
Print Assumptions C02_solve_period_unknown_label.
Print Assumptions C02_solve_period_repeated_label.
Print Assumptions C02_solve_period_year_string.
Print Assumptions C02_solve_period_finite_spec.
Print Assumptions exA_solve_period.
Print Assumptions exS_repeated_label.
Print Assumptions exP_period_index.
Print Assumptions ex_hypotheses_satisfiable.
Print Assumptions ex_infeasible_rejected.
