(* Props/C15.v — audited surface for property C15 (all ways of building a class from symbols yield the same model).

   BuildDef.build_def St conv st syms o with_type_hints = (st', text) is build_model_definition: `conv` is the converter
   as a STATEFUL oracle (any Python callable), `st` its state before, `st'` after; `o` the lags / leads options;
   Classify.class_of the name lists and LAGS / LEADS (shared with C03); ParseModel.emits the selection
   `type in (ENDOGENOUS, VERBATIM) and equation is not None and code is not None`; the templates are the regenerated
   strings Generated.model_template_typed / _untyped; `fill h c eqs` is the template text with the seven fields
   inserted verbatim between its literal segments `seg h 0 .. seg h 7`.
   BuildDef.build_model_M adds `exec` (an oracle for CPython's exec of a class text) and the CODE attribute.
   What only CPython can tell (that annotations do not change behaviour, that exec of equal texts gives equal classes) is
   observed by the correspondence check, not proved.

   HONEST SCOPE (after the independent review):
   * "evaluation results on all data" and "a valid model that solves trivially" have NO theorem: they are oracle-only (four
     routes executed by CPython, _evaluate at several periods incl. boundary ones, two passes, finite and NaN/inf data; solve()).
     The kernel-checked link between the METHOD code of the two templates is C15_templates_agree_modulo_hints
     (+ C15_attribute_lines_agree, C15_names_and_check_lines); C15_four_routes / C15_routes_same_behaviour are about
     BuildRoutes.exec_M, a template UN-FILLER (read ∘ fill = id) that accepts any block: the first conjunct of C15_four_routes
     ("build_model returns the class") holds by the choice exec_oracle := exec_M and is not counted as covering a clause; what
     these theorems do add: both templates carry the same seven fields to the same attribute lines, so the tuple a text denotes
     does not depend on the template or the route (K_exec validates exec_M against CPython on every generated text).
   * theorems that only unfold a definition (not counted): C15_stateless_converter, C15_no_equation_no_code,
     C15_empty_symbols, C15_no_equations_pass, C15_code_is_text.
   * the lags / leads options are delegated to Classify.class_of (C03_lags_leads); C15_build_def says the fields come from
     class_of syms o for every o.
   * KNOWN FINDING: "a namespace that provides BaseModel" is not enough for the typed text (C15_exec_namespace_refuted).
   * KEPT FINDINGS without a model-level statement of name resolution: the class returned by build_model resolves free names of
     the equations in fsic.parser's globals, an exec'd class in the caller's (oracle: `Y = bool(split_equations(X)) + X`); the model's
     `exec` oracle abstracts the namespace away, so C15_build_model_returns_iff_text_executes says nothing about it.
   * "inserted verbatim" is about characters, not meaning: C15_indent_inside_string_literal_refuted.
   * a docstring edit in ONE template, a new kind of type hint, another field order or text after {equations} make
     C15_templates_agree_modulo_hints / C15_template_fields fail to compile: reported as a broken proof
     (VIOLATION … no-failing-input-found unless the oracle also fails); K_text is byte for byte and stricter than the property. *)
From Coq Require Import String Ascii List Bool Arith ZArith.
Import ListNotations.
Require Import PyBase Generated PyStr Symbols ParseEq ParseModel Classify BuildDef BuildDefFacts BuildDefExamples BuildRepr BuildReprFacts BuildIndentFacts BuildRoutes BuildRoutesFacts BuildAgreeC01 BuildNamespace.
Open Scope string_scope.

(* the typed and the untyped template are the same text once the type hints are erased (kernel-checked on the strings
   regenerated from the source at every run), and they do differ *)
Theorem C15_templates_agree_modulo_hints :
  erase_hints model_template_typed = model_template_untyped /\ erase_hints model_template_untyped = model_template_untyped /\
  model_template_typed <> model_template_untyped.
Proof. exact (conj templates_agree_modulo_hints (conj erase_hints_untyped templates_differ)). Qed.
Print Assumptions C15_templates_agree_modulo_hints.

(* both templates consist of eight brace-free literal segments around the same seven fields in the same order, and the
   segments (which carry the attribute names ENDOGENOUS … LEADS, NAMES, CHECK and the method headers) agree modulo hints *)
Theorem C15_template_fields : forall h,
  snd (tpl_split (template_of_hints h) "" None) = ["endogenous"; "exogenous"; "parameters"; "errors"; "lags"; "leads"; "equations"] /\
  length (segments h) = 8 /\ forallb no_brace (segments h) = true /\
  template_of_hints h = seg h 0 ++ "{endogenous}" ++ seg h 1 ++ "{exogenous}" ++ seg h 2 ++ "{parameters}" ++ seg h 3 ++ "{errors}" ++
                        seg h 4 ++ "{lags}" ++ seg h 5 ++ "{leads}" ++ seg h 6 ++ "{equations}" ++ seg h 7.
Proof. exact template_fields. Qed.
Print Assumptions C15_template_fields.
Theorem C15_attribute_lines_agree : map erase_hints (segments true) = segments false.
Proof. exact attribute_lines_agree. Qed.
Print Assumptions C15_attribute_lines_agree.

(* filling a template never fails and inserts every field value verbatim, whatever it contains *)
Theorem C15_fill : forall h c equations,
  format_named (template_of_hints h) (class_fields c equations) = POk (fill h c equations).
Proof. exact fill_spec. Qed.
Print Assumptions C15_fill.

(* the list literals written into the text denote the name lists: reading back (BuildRepr.read_names, the fragment of
   Python literal syntax that repr uses) what is written for any list of names — quotes, backslashes, control and
   non-ASCII characters, None included — gives that list, and two different names are never written alike *)
Theorem C15_names_read_back : forall l rest, read_names (py_repr_names l ++ rest) = Some (l, rest).
Proof. exact read_names_repr. Qed.
Print Assumptions C15_names_read_back.
Theorem C15_repr_injective : forall s1 s2, py_repr_str s1 = py_repr_str s2 -> s1 = s2.
Proof. exact py_repr_str_injective. Qed.
Print Assumptions C15_repr_injective.
(* in the class text (either template): the four literals read back as the four lists of class_of *)
Theorem C15_text_lists_read_back : forall h c eqs,
  exists t1 t2 t3 t4,
    fill h c eqs = seg h 0 ++ t1 /\
    read_names t1 = Some (c_endogenous c, seg h 1 ++ t2) /\
    read_names t2 = Some (c_exogenous c, seg h 2 ++ t3) /\
    read_names t3 = Some (c_parameters c, seg h 3 ++ t4) /\
    read_names t4 = Some (c_errors c, seg h 4 ++ string_of_Z (c_lags c) ++ seg h 5 ++ string_of_Z (c_leads c) ++ seg h 6 ++ eqs ++ seg h 7).
Proof. exact text_lists_read_back. Qed.
Print Assumptions C15_text_lists_read_back.

(* build_model_definition, for every converter, symbol list, options and template: the class fields come from class_of
   (no converter call when that fails), the converter runs over the emitting symbols in list order threading its state,
   the block is the "\n\n"-join of the indented outputs or `pass` *)
Theorem C15_build_def : forall St (conv : St -> symbol -> St * string) st syms o h,
  build_def St conv st syms o h =
  match class_of syms o with
  | Raise e => (st, PErr e)
  | Ret c => let '(st', exprs) := run St conv st (filter emits syms) in (st', POk (fill h c (equations_block exprs)))
  end.
Proof. exact build_def_spec. Qed.
Print Assumptions C15_build_def.

(* the converter is called exactly once for each symbol that carries an equation (and code), in symbol order: the call
   log of a logging wrapper is the list of emitting symbols, outputs and final state are the converter's own *)
Theorem C15_converter_call_log : forall St (conv : St -> symbol -> St * string) log st syms,
  expressions (list symbol * St) (logged St conv) (log, st) syms =
  ((log ++ filter emits syms)%list, fst (expressions St conv st syms), snd (expressions St conv st syms)).
Proof. exact call_log. Qed.
Print Assumptions C15_converter_call_log.

(* a stateless converter f: the expressions are f applied to the emitting symbols, in order *)
Theorem C15_stateless_converter : forall (f : symbol -> string) syms,
  expressions unit (stateless f) tt syms = (tt, map f (filter emits syms)).
Proof. exact stateless_block. Qed.
Print Assumptions C15_stateless_converter.

(* with and without type hints: same converter state afterwards, same fields, only the template differs *)
Theorem C15_hints_only_change_template : forall St (conv : St -> symbol -> St * string) st syms o,
  fst (build_def St conv st syms o true) = fst (build_def St conv st syms o false) /\
  match snd (build_def St conv st syms o true), snd (build_def St conv st syms o false) with
  | POk t1, POk t2 => exists c eqs, class_of syms o = Ret c /\ t1 = fill true c eqs /\ t2 = fill false c eqs
  | PErr e1, PErr e2 => e1 = e2 /\ class_of syms o = Raise e1
  | _, _ => False
  end.
Proof. exact hints_only_change_template. Qed.
Print Assumptions C15_hints_only_change_template.

(* variable lists, LAGS and LEADS in the text do not depend on the converter or on the template *)
Theorem C15_fields_independent_of_converter :
  forall St1 St2 (conv1 : St1 -> symbol -> St1 * string) (conv2 : St2 -> symbol -> St2 * string) st1 st2 syms o h1 h2 t1 t2,
  snd (build_def St1 conv1 st1 syms o h1) = POk t1 -> snd (build_def St2 conv2 st2 syms o h2) = POk t2 ->
  exists c e1 e2, class_of syms o = Ret c /\ t1 = fill h1 c e1 /\ t2 = fill h2 c e2.
Proof. exact fields_independent_of_converter. Qed.
Print Assumptions C15_fields_independent_of_converter.

(* symbols without an equation contribute variables but no code and no converter call *)
Theorem C15_no_equation_no_code : forall St (conv : St -> symbol -> St * string) st syms,
  expressions St conv st (filter emits syms) = expressions St conv st syms.
Proof. exact no_equation_no_code. Qed.
Print Assumptions C15_no_equation_no_code.
Theorem C15_no_equations_pass : forall St (conv : St -> symbol -> St * string) st syms o h c,
  forallb (fun s => negb (emits s)) syms = true -> class_of syms o = Ret c ->
  build_def St conv st syms o h = (st, POk (fill h c "        pass")).
Proof. exact no_equations_pass. Qed.
Print Assumptions C15_no_equations_pass.

(* the empty symbol list: a valid class text with empty lists, LAGS = LEADS = 0 and the body `pass` *)
Theorem C15_empty_symbols : forall St (conv : St -> symbol -> St * string) st h,
  build_def St conv st [] default_opts h =
  (st, POk (seg h 0 ++ "[]" ++ seg h 1 ++ "[]" ++ seg h 2 ++ "[]" ++ seg h 3 ++ "[]" ++ seg h 4 ++ "0" ++ seg h 5 ++ "0" ++
            seg h 6 ++ "        pass" ++ seg h 7)).
Proof. exact empty_symbols. Qed.
Print Assumptions C15_empty_symbols.

(* textwrap.indent loses nothing: with the empty prefix the converter output comes back unchanged *)
Theorem C15_indent_empty_prefix : forall text, indent "" text = text.
Proof. exact indent_empty_prefix. Qed.
Print Assumptions C15_indent_empty_prefix.

(* … and on text whose lines are separated by "\n" the lines stay the same lines: each one that is not whitespace-only gets
   the prefix and no character is otherwise added, removed or reordered.  NOT claimed: that the MEANING of the inserted code is
   unchanged — a continuation line inside a multi-line string literal gets the prefix too (C15_indent_inside_string_literal_refuted) *)
Theorem C15_indent_line_by_line : forall p ls,
  forallb no_sep ls = true -> indent p (join_nl ls) = join_nl (map (indent_line p) ls).
Proof. exact indent_join_nl. Qed.
Print Assumptions C15_indent_line_by_line.

(* the block of converter outputs is the very end of the class text: text = head ++ block, the head not depending on it *)
Theorem C15_text_ends_with_block : forall h c eqs,
  fill h c eqs = (seg h 0 ++ py_repr_names (c_endogenous c) ++ seg h 1 ++ py_repr_names (c_exogenous c) ++ seg h 2 ++
                  py_repr_names (c_parameters c) ++ seg h 3 ++ py_repr_names (c_errors c) ++ seg h 4 ++
                  string_of_Z (c_lags c) ++ seg h 5 ++ string_of_Z (c_leads c) ++ seg h 6) ++ eqs.
Proof. exact text_ends_with_block. Qed.
Print Assumptions C15_text_ends_with_block.

(* build_model (fix 56579cc mirrored): it returns a class iff the generated text executes; the class is exec(text) and its
   CODE is that text — for every converter, exec oracle, symbol list, options and template *)
Theorem C15_build_model_returns_iff_text_executes :
  forall St Cls (conv : St -> symbol -> St * string) (exec : string -> exec_res Cls) st syms o h st' c code,
  build_model_M St Cls conv exec st syms o h = (st', Built c code) <->
  (build_def St conv st syms o h = (st', POk code) /\ exec code = ExecOk c).
Proof. exact build_model_returns_iff_text_executes. Qed.
Print Assumptions C15_build_model_returns_iff_text_executes.

(* a text that does not compile: BuildError (chained from the SyntaxError) whether or not a single symbol reproduces the
   error — never a class; only an exception let through by the retry loop itself takes precedence *)
Theorem C15_build_model_syntax_error :
  forall St Cls (conv : St -> symbol -> St * string) (exec : string -> exec_res Cls) st syms o h st' text,
  build_def St conv st syms o h = (st', POk text) -> exec text = ExecSyntaxError ->
  match retry_each Cls exec syms false with
  | inl listed => build_model_M St Cls conv exec st syms o h = (st', BuildError listed)
  | inr e => build_model_M St Cls conv exec st syms o h = (st', BuildRaise e)
  end.
Proof. exact build_model_syntax_error. Qed.
Print Assumptions C15_build_model_syntax_error.

(* every outcome of build_model, by what exec says about the text *)
Theorem C15_build_model_outcomes :
  forall St Cls (conv : St -> symbol -> St * string) (exec : string -> exec_res Cls) st syms o h,
  match build_def St conv st syms o h with
  | (st', POk text) =>
    match exec text with
    | ExecOk c => build_model_M St Cls conv exec st syms o h = (st', Built c text)
    | ExecOther e => build_model_M St Cls conv exec st syms o h = (st', BuildRaise e)
    | ExecSyntaxError => (exists listed, build_model_M St Cls conv exec st syms o h = (st', BuildError listed)) \/
                         (exists e, build_model_M St Cls conv exec st syms o h = (st', BuildRaise e))
    end
  | (st', PErr e) => build_model_M St Cls conv exec st syms o h = (st', BuildRaise e)
  | (st', PUnmodelled) => build_model_M St Cls conv exec st syms o h = (st', BuildUnmodelled)
  end.
Proof. exact build_model_outcomes. Qed.
Print Assumptions C15_build_model_outcomes.

(* a returned class carries the text of build_model_definition (same arguments) as CODE *)
Theorem C15_code_is_text : forall St Cls (conv : St -> symbol -> St * string) (exec : string -> exec_res Cls) st syms o h st' c code,
  build_model_M St Cls conv exec st syms o h = (st', Built c code) -> snd (build_def St conv st syms o h) = POk code.
Proof. exact code_is_text. Qed.
Print Assumptions C15_code_is_text.

(* ---------- behavioural identity of the four routes ----------
   BuildRoutes.exec_M models what exec makes of a text generated from either template, restricted to what the property
   observes of a class: the tuple (ENDOGENOUS, EXOGENOUS, PARAMETERS, ERRORS, LAGS, LEADS, body of _evaluate); NAMES and
   CHECK are fixed expressions of these inside a literal segment (BuildReprFacts.untyped_segment_heads). *)

(* reading a generated text gives back exactly the fields it was generated from — either template, any names, any block *)
Theorem C15_exec_of_generated_text : forall h c eqs, exec_M (fill h c eqs) = Some (tuple_of c eqs).
Proof. exact exec_fill. Qed.
Print Assumptions C15_exec_of_generated_text.
Theorem C15_read_int_roundtrip : forall z rest, head_fails is_intc rest = true -> read_int (string_of_Z z ++ rest) = Some (z, rest).
Proof. exact read_int_roundtrip. Qed.
Print Assumptions C15_read_int_roundtrip.

(* the four routes — build_model, exec of the definition text with and without type hints, exec of CODE — yield the same
   class tuple: the lists and lengths of class_of, and the block of the converter run from the same state *)
Theorem C15_four_routes : forall St (conv : St -> symbol -> St * string) st syms o c h, class_of syms o = Ret c ->
  let T := the_class St conv st syms c in
  (exists st' code, build_model_M St ctuple conv exec_oracle st syms o h = (st', Built T code) /\
                    snd (build_def St conv st syms o h) = POk code /\ exec_M code = Some T) /\
  (exists t1, snd (build_def St conv st syms o true) = POk t1 /\ exec_M t1 = Some T) /\
  (exists t2, snd (build_def St conv st syms o false) = POk t2 /\ exec_M t2 = Some T).
Proof. exact four_routes. Qed.
Print Assumptions C15_four_routes.

(* hence every function of the class — its evaluation semantics on all data included — has the same value on every route *)
Theorem C15_routes_same_behaviour : forall St (conv : St -> symbol -> St * string) (B : Type) (sem : ctuple -> B) st syms o c t1 t2 T1 T2,
  class_of syms o = Ret c ->
  snd (build_def St conv st syms o true) = POk t1 -> snd (build_def St conv st syms o false) = POk t2 ->
  exec_M t1 = Some T1 -> exec_M t2 = Some T2 -> sem T1 = sem T2.
Proof. exact routes_same_behaviour. Qed.
Print Assumptions C15_routes_same_behaviour.

(* with the default converter that block is, for every symbol list, the block of C01's independently written model
   (CodeGen/CodeGenBlock), whose statements C01's pass semantics interprets *)
Theorem C15_default_block_is_C01_block : forall syms,
  equations_block (snd (expressions unit conv_default tt syms)) = Fsic.CodeGen.CodeGenBlock.equations_block syms.
Proof. exact default_block_is_C01_block. Qed.
Print Assumptions C15_default_block_is_C01_block.

(* which BuildError: the retry loop names symbols (`listed`) exactly when some symbol with an equation, alone and with the
   default converter and typed template, fails to compile *)
Theorem C15_retry_each_listed : forall Cls (exec : string -> exec_res Cls) syms failed b,
  retry_each Cls exec syms failed = inl b ->
  b = failed || existsb (fun s => match sequation s with
                                  | None => false
                                  | Some _ => match snd (build_def unit conv_default tt [s] default_opts true) with
                                              | POk text => match exec text with ExecSyntaxError => true | _ => false end
                                              | _ => false
                                              end
                                  end) syms.
Proof. exact retry_each_listed. Qed.
Print Assumptions C15_retry_each_listed.

(* KNOWN FINDING (reviewer-E): "executing the text in a namespace that provides BaseModel" — every typed class text begins with
   the executed annotation `ENDOGENOUS: List[str] = …` and the typed template also names Optional and Any: with BaseModel alone
   exec raises NameError.  The untyped template names none of them (and np only inside equations that use exp / log). *)
Theorem C15_exec_namespace_refuted : forall c eqs,
  contains "ENDOGENOUS: List[str] = " (fill true c eqs) = true /\
  contains "Optional[int]" model_template_typed = true /\ contains ": Any" model_template_typed = true.
Proof. exact exec_namespace_refuted. Qed.
Print Assumptions C15_exec_namespace_refuted.
Theorem C15_untyped_names_nothing_else :
  contains "List" model_template_untyped = false /\ contains "Optional" model_template_untyped = false /\
  contains "Any" model_template_untyped = false /\ contains "np." model_template_untyped = false.
Proof. exact untyped_names_nothing_else. Qed.
Print Assumptions C15_untyped_names_nothing_else.

(* NAMES = ENDOGENOUS + EXOGENOUS + PARAMETERS + ERRORS and CHECK = ENDOGENOUS in the regenerated templates: the literal segment
   between the ERRORS literal and the LAGS literal, typed and untyped, equal modulo hints *)
Theorem C15_names_and_check_lines :
  seg false 4 = nl_s ++ nl_s ++ "    NAMES = ENDOGENOUS + EXOGENOUS + PARAMETERS + ERRORS" ++ nl_s ++ "    CHECK = ENDOGENOUS" ++ nl_s ++ nl_s ++ "    LAGS = " /\
  seg true 4 = nl_s ++ nl_s ++ "    NAMES: List[str] = ENDOGENOUS + EXOGENOUS + PARAMETERS + ERRORS" ++ nl_s ++ "    CHECK: List[str] = ENDOGENOUS" ++ nl_s ++ nl_s ++ "    LAGS: int = " /\
  erase_hints (seg true 4) = seg false 4.
Proof. exact names_and_check_lines. Qed.
Print Assumptions C15_names_and_check_lines.

(* the block of equations is the body of _evaluate: the segment before it contains the header of `def _evaluate(` and ends
   with the closing quotes of its docstring; nothing follows the block *)
Theorem C15_block_follows_evaluate_docstring : forall h,
  contains "    def _evaluate(self, t" (seg h 6) = true /\
  ends_with ("        """"""" ++ nl_s) (seg h 6) = true /\ seg h 7 = "".
Proof. exact block_follows_evaluate_docstring. Qed.
Print Assumptions C15_block_follows_evaluate_docstring.

(* KEPT FINDING (reviewer2-E): the indentation reaches inside a multi-line string literal of verbatim code and changes its value *)
Theorem C15_indent_inside_string_literal_refuted :
  indent eq_prefix ("self.s = " ++ tq ++ "a" ++ nl_s ++ nl_s ++ "b" ++ tq) =
  "        self.s = " ++ tq ++ "a" ++ nl_s ++ nl_s ++ "        b" ++ tq.
Proof. exact indent_inside_string_literal_refuted. Qed.
Print Assumptions C15_indent_inside_string_literal_refuted.
