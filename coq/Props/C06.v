(* Props/C06.v — audited surface for property C06 (error / failure policy state machine). *)
From Coq Require Import ZArith List Bool PrimFloat String.
Import ListNotations.
Require Import PyBase Solver SolverFacts SolverFacts2 SolverF SolverExamples.
Require Fsic.Gen.Generated.
Open Scope Z_scope.

Section C06.
  Variable num : Type.
  Variables (sub : num -> num -> num) (absf : num -> num) (ltb : num -> num -> bool)
            (isfin : num -> bool) (zero : num).
  Variables (ev before after : hook num).
  Notation solve_t_M := (solve_t_M num sub absf ltb isfin zero ev before after).
  Notation quiet := (quiet num sub absf ltb isfin zero ev).
  Notation all_finite := (all_finite num isfin).
  Notation get_check := (get_check num zero).
  Notation st_after := (st_after num ev).
  Notation evk := (evk num ev).
  Notation chkseq := (chkseq num zero ev).

  (* A pass leaves a non-finite check value although every earlier pass (and the start) was finite:
     raise -> SolutionError (not chained), 'E', iterations = that pass; skip -> 'S', that pass, no exception;
     invalid `errors` -> ValueError; ignore/replace -> no 'E'/'S' (and 'F' if that was the last pass). *)
  Theorem C06_first_nonfinite_policy d o t s p v1 k :
    min_iter o <= max_iter o ->
    py_pos (List.length (status s)) t = Some p -> feasible d (List.length (status s)) p = true -> offset o = 0 ->
    is_raise (errors o) && negb (all_finite (get_check d (vals_of s) p)) = false ->
    before t (errors o) (catch_first o) 0%nat (vals_of s) = (v1, None) ->
    (S k <= Z.to_nat (max_iter o))%nat ->
    quiet d o t p (get_check d (vals_of s) p) v1 k ->
    snd (evk o t (S k) (st_after o t v1 k)) = None ->
    all_finite (chkseq d o t p (get_check d (vals_of s) p) v1 (S k)) = false ->
    let lg' := log s ++ [EvBefore t] ++ pass_events t 1 (S k) in
    let v' := st_after o t v1 (S k) in
    match errors o with
    | ERaise => solve_t_M d o t s =
                (mkState v' (upd p ErrorSt (status s)) (upd p (Z.of_nat (S k)) (iters s)) lg', Raise (SolutionError None))
    | ESkip => solve_t_M d o t s =
               (mkState v' (upd p Skipped (status s)) (upd p (Z.of_nat (S k)) (iters s)) lg', Ret false)
    | EInvalid => solve_t_M d o t s = (mkState v' (status s) (iters s) lg', Raise ValueError)
    | EIgnore | EReplace =>
        S k = Z.to_nat (max_iter o) ->
        solve_t_M d o t s =
        (mkState v' (upd p Failed (status s)) (upd p (Z.of_nat (S k)) (iters s)) lg',
         if fail_raise o then Raise NonConvergenceError else Ret false)
    end.
  Proof. intros H1 H2 H3 H4 H5 H6. exact (first_nonfinite_policy num sub absf ltb isfin zero ev before after d o t s p v1 H1 H2 H3 H4 H5 H6 k). Qed.

  (* errors='ignore', complete rule: '.' at the first pass >= max(1,min_iter) that is JUDGED (its own and the previous
     check vector finite) and converged; otherwise 'F' with iterations = max_iter.  No finiteness assumption. *)
  Theorem C06_ignore_policy d o t s p v1 :
    min_iter o <= max_iter o ->
    py_pos (List.length (status s)) t = Some p -> feasible d (List.length (status s)) p = true -> offset o = 0 ->
    is_raise (errors o) && negb (all_finite (get_check d (vals_of s) p)) = false ->
    before t (errors o) (catch_first o) 0%nat (vals_of s) = (v1, None) ->
    errors o = EIgnore ->
    (forall i, (1 <= i <= Z.to_nat (max_iter o))%nat -> snd (evk o t i (st_after o t v1 (i - 1))) = None) ->
    solve_t_M d o t s =
    match find_first (jconvk num sub absf ltb isfin zero ev d o t p (get_check d (vals_of s) p) v1) 1 (Z.to_nat (max_iter o)) with
    | Some k0 =>
        match afterk num after o t k0 (st_after o t v1 k0) with
        | (v'', Some c) =>
            (mkState v'' (status s) (iters s) (log s ++ [EvBefore t] ++ pass_events t 1 k0 ++ [EvAfter t k0]),
             Raise (SolutionError (Some c)))
        | (v'', None) =>
            (mkState v'' (upd p Solved (status s)) (upd p (Z.of_nat k0) (iters s))
                     (log s ++ [EvBefore t] ++ pass_events t 1 k0 ++ [EvAfter t k0]), Ret true)
        end
    | None =>
        (mkState (st_after o t v1 (Z.to_nat (max_iter o))) (upd p Failed (status s))
                 (upd p (Z.of_nat (Z.to_nat (max_iter o))) (iters s))
                 (log s ++ [EvBefore t] ++ pass_events t 1 (Z.to_nat (max_iter o))),
         if fail_raise o then Raise NonConvergenceError else Ret false)
    end.
  Proof. exact (ignore_policy num sub absf ltb isfin zero ev before after d o t s p v1). Qed.

  (* an exception inside an evaluation pass: SolutionError chained to it; 'E' + pass number iff errors='raise' *)
  Theorem C06_ev_exception_surfaces d o t s p v1 k v' c :
    min_iter o <= max_iter o ->
    py_pos (List.length (status s)) t = Some p -> feasible d (List.length (status s)) p = true -> offset o = 0 ->
    is_raise (errors o) && negb (all_finite (get_check d (vals_of s) p)) = false ->
    before t (errors o) (catch_first o) 0%nat (vals_of s) = (v1, None) ->
    (S k <= Z.to_nat (max_iter o))%nat ->
    quiet d o t p (get_check d (vals_of s) p) v1 k ->
    evk o t (S k) (st_after o t v1 k) = (v', Some c) ->
    solve_t_M d o t s =
    (if is_raise (errors o)
     then mkState v' (upd p ErrorSt (status s)) (upd p (Z.of_nat (S k)) (iters s)) (log s ++ [EvBefore t] ++ pass_events t 1 (S k))
     else mkState v' (status s) (iters s) (log s ++ [EvBefore t] ++ pass_events t 1 (S k)),
     Raise (SolutionError (Some c))).
  Proof. intros H1 H2 H3 H4 H5 H6. exact (ev_exception_surfaces num sub absf ltb isfin zero ev before after d o t s p v1 H1 H2 H3 H4 H5 H6 k v' c). Qed.

  (* an exception in the pre-hook: SolutionError chained to it, nothing recorded *)
  Theorem C06_before_exception_surfaces d o t s p v' c :
    min_iter o <= max_iter o ->
    py_pos (List.length (status s)) t = Some p -> feasible d (List.length (status s)) p = true -> offset o = 0 ->
    is_raise (errors o) && negb (all_finite (get_check d (vals_of s) p)) = false ->
    before t (errors o) (catch_first o) 0%nat (vals_of s) = (v', Some c) ->
    solve_t_M d o t s = (mkState v' (status s) (iters s) (log s ++ [EvBefore t]), Raise (SolutionError (Some c))).
  Proof. intros H1 H2 H3 H4. exact (before_exception_surfaces num sub absf ltb isfin zero ev before after d o t s p H1 H2 H3 H4 v' c). Qed.

  (* pre-existing non-finite check values under 'raise': rejected before any hook or pass, nothing changes *)
  Theorem C06_preexisting_nonfinite_rejected d o t s p :
    min_iter o <= max_iter o ->
    py_pos (List.length (status s)) t = Some p -> feasible d (List.length (status s)) p = true -> offset o = 0 ->
    errors o = ERaise -> all_finite (get_check d (vals_of s) p) = false ->
    solve_t_M d o t s = (mkState (vals_of s) (status s) (iters s) (log s), Raise (SolutionError None)).
  Proof. exact (preexisting_nonfinite_rejected num sub absf ltb isfin zero ev before after d o t s p). Qed.

  (* the solved flag is True only for '.', and a returning call records '.', 'F' or (only under skip) 'S' *)
  Theorem C06_solved_flag_iff_dot d o t s s' b p :
    py_pos (List.length (status s)) t = Some p ->
    solve_t_M d o t s = (s', Ret b) ->
    exists x, nth_error (status s') p = Some x /\ b = st_eqb x Solved /\
              (x = Solved \/ x = Failed \/ (x = Skipped /\ errors o = ESkip)).
  Proof. exact (solved_flag_iff_dot num sub absf ltb isfin zero ev before after d o t s s' b p). Qed.

  (* every exception solve_t can raise; 'E' is recorded only under errors='raise', 'F' only with NonConvergenceError *)
  Theorem C06_raise_classes d o t s s' e p :
    py_pos (List.length (status s)) t = Some p ->
    solve_t_M d o t s = (s', Raise e) ->
    (e = ValueError \/ e = IndexError \/ e = NonConvergenceError \/ exists c, e = SolutionError c) /\
    (forall x, nth_error (status s') p = Some x ->
       Some x = nth_error (status s) p \/ (x = ErrorSt /\ errors o = ERaise) \/ (x = Failed /\ e = NonConvergenceError)).
  Proof. exact (raise_classes num sub absf ltb isfin zero ev before after d o t s s' e p). Qed.
End C06.

(* the five statuses of the model are the SolutionStatus values of the working tree (regenerated constant) *)
Theorem C06_status_alphabet_matches_source :
  map st_char [Unsolved; Solved; Failed; ErrorSt; Skipped] = Generated.status_values.
Proof. exact status_alphabet_matches_source. Qed.
Theorem C06_status_always_in_alphabet (x : st) : In (st_char x) Generated.status_values.
Proof. exact (status_always_in_alphabet x). Qed.

(* catch_first_error: the warning-raising statement does not store its result (scripted oracle = harness model) *)
Theorem C06_catch_first_warning_no_store p pre i x rest v :
  no_stop pre = true ->
  run_actions true p (pre ++ AWarnSet i x :: rest) v = (fst (run_actions true p pre v), Some 1).
Proof. exact (catch_first_warning_no_store p pre i x rest v). Qed.

(* finding #5: under 'replace' the pass after a non-finite pass IS judged (against zeros) — the clause
   "a pass that starts from non-finite check values is never judged" is refuted for replace *)
Theorem C06_replace_judged_after_nonfinite_refuted :
  exists sc d o t s p,
    errors o = EReplace /\ py_pos (List.length (status s)) t = Some p /\
    all_finite float fisfin (get_check float fzero d (fst (s_ev 3 sc t (errors o) (catch_first o) 1%nat (vals_of s))) p) = false /\
    snd (f_solve_t sc d o t s) = Ret true /\ nth_error (iters (fst (f_solve_t sc d o t s))) p = Some 2.
Proof. exact replace_judged_after_nonfinite_refuted. Qed.

Print Assumptions C06_first_nonfinite_policy.
Print Assumptions C06_ignore_policy.
Print Assumptions C06_ev_exception_surfaces.
Print Assumptions C06_before_exception_surfaces.
Print Assumptions C06_preexisting_nonfinite_rejected.
Print Assumptions C06_solved_flag_iff_dot.
Print Assumptions C06_raise_classes.
Print Assumptions C06_status_alphabet_matches_source.
Print Assumptions C06_status_always_in_alphabet.
Print Assumptions C06_catch_first_warning_no_store.
Print Assumptions C06_replace_judged_after_nonfinite_refuted.
Print Assumptions ex6_quiet_satisfiable.
