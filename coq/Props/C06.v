(* Props/C06.v — audited surface for property C06 (error / failure policy state machine). *)
From Coq Require Import ZArith List Bool PrimFloat String.
Import ListNotations.
Require Import PyBase Solver SolverFacts SolverFacts2 SolverFacts3 SolverFacts4 SolverFacts5 SolverFacts6 SolverFacts7 SolverFacts8 SolverDefaults SolverF SolverExamples SolverExamples2.
Require Import SolveAll SolveAllF SolveAllFacts SolveAllFacts2 SolveAllExamples SolveAllExamples2 SolveAllHistF SolveAllHistFacts.
Require Fsic.Gen.Generated.
Open Scope Z_scope.

Section C06.
  Variable num : Type.
  Variables (sub : num -> num -> num) (absf : num -> num) (ltb : num -> num -> bool)
            (isfin : num -> bool) (zero : num).
  Variables (ev before after : hook num).
  Notation solve_t_M := (solve_t_M num sub absf ltb isfin zero ev before after).
  Notation quiet := (quiet num sub absf ltb isfin zero ev).
  Notation all_finite := (all_finite num isfin).
  Notation get_check := (get_check num zero).
  Notation st_after := (st_after num ev).
  Notation evk := (evk num ev).
  Notation chkseq := (chkseq num zero ev).

  (* A pass leaves a non-finite check value although every earlier pass (and the start) was finite:
     raise -> SolutionError (not chained), 'E', iterations = that pass; skip -> 'S', that pass, no exception;
     invalid `errors` -> ValueError; ignore/replace -> no 'E'/'S' (and 'F' if that was the last pass). *)
  Theorem C06_first_nonfinite_policy d o t s p v1 k :
    min_iter o <= max_iter o ->
    py_pos (List.length (status s)) t = Some p -> feasible d (List.length (status s)) p = true -> offset o = 0 ->
    is_raise (errors o) && negb (all_finite (get_check d (vals_of s) p)) = false ->
    before t (errors o) (catch_first o) 0%nat (vals_of s) = (v1, None) ->
    (S k <= Z.to_nat (max_iter o))%nat ->
    quiet d o t p (get_check d (vals_of s) p) v1 k ->
    snd (evk o t (S k) (st_after o t v1 k)) = None ->
    all_finite (chkseq d o t p (get_check d (vals_of s) p) v1 (S k)) = false ->
    let lg' := log s ++ [EvBefore t] ++ pass_events t 1 (S k) in
    let v' := st_after o t v1 (S k) in
    match errors o with
    | ERaise => solve_t_M d o t s =
                (mkState v' (upd p ErrorSt (status s)) (upd p (Z.of_nat (S k)) (iters s)) lg', Raise (SolutionError None))
    | ESkip => solve_t_M d o t s =
               (mkState v' (upd p Skipped (status s)) (upd p (Z.of_nat (S k)) (iters s)) lg', Ret false)
    | EInvalid => solve_t_M d o t s = (mkState v' (status s) (iters s) lg', Raise ValueError)
    | EIgnore | EReplace =>
        S k = Z.to_nat (max_iter o) ->
        solve_t_M d o t s =
        (mkState v' (upd p Failed (status s)) (upd p (Z.of_nat (S k)) (iters s)) lg',
         if fail_raise o then Raise NonConvergenceError else Ret false)
    end.
  Proof. intros H1 H2 H3 H4 H5 H6. exact (first_nonfinite_policy num sub absf ltb isfin zero ev before after d o t s p v1 H1 H2 H3 H4 H5 H6 k). Qed.

  (* errors='ignore', complete rule: '.' at the first pass >= max(1,min_iter) that is JUDGED (its own and the previous
     check vector finite) and converged; otherwise 'F' with iterations = max_iter.  No finiteness assumption. *)
  Theorem C06_ignore_policy d o t s p v1 :
    min_iter o <= max_iter o ->
    py_pos (List.length (status s)) t = Some p -> feasible d (List.length (status s)) p = true -> offset o = 0 ->
    is_raise (errors o) && negb (all_finite (get_check d (vals_of s) p)) = false ->
    before t (errors o) (catch_first o) 0%nat (vals_of s) = (v1, None) ->
    errors o = EIgnore ->
    (forall i, (1 <= i <= Z.to_nat (max_iter o))%nat -> snd (evk o t i (st_after o t v1 (i - 1))) = None) ->
    solve_t_M d o t s =
    match find_first (jconvk num sub absf ltb isfin zero ev d o t p (get_check d (vals_of s) p) v1) 1 (Z.to_nat (max_iter o)) with
    | Some k0 =>
        match afterk num after o t k0 (st_after o t v1 k0) with
        | (v'', Some c) =>
            (mkState v'' (status s) (iters s) (log s ++ [EvBefore t] ++ pass_events t 1 k0 ++ [EvAfter t k0]),
             Raise (SolutionError (Some c)))
        | (v'', None) =>
            (mkState v'' (upd p Solved (status s)) (upd p (Z.of_nat k0) (iters s))
                     (log s ++ [EvBefore t] ++ pass_events t 1 k0 ++ [EvAfter t k0]), Ret true)
        end
    | None =>
        (mkState (st_after o t v1 (Z.to_nat (max_iter o))) (upd p Failed (status s))
                 (upd p (Z.of_nat (Z.to_nat (max_iter o))) (iters s))
                 (log s ++ [EvBefore t] ++ pass_events t 1 (Z.to_nat (max_iter o))),
         if fail_raise o then Raise NonConvergenceError else Ret false)
    end.
  Proof. exact (ignore_policy num sub absf ltb isfin zero ev before after d o t s p v1). Qed.

  (* an exception inside an evaluation pass: SolutionError chained to it; 'E' + pass number iff errors='raise' *)
  Theorem C06_ev_exception_surfaces d o t s p v1 k v' c :
    min_iter o <= max_iter o ->
    py_pos (List.length (status s)) t = Some p -> feasible d (List.length (status s)) p = true -> offset o = 0 ->
    is_raise (errors o) && negb (all_finite (get_check d (vals_of s) p)) = false ->
    before t (errors o) (catch_first o) 0%nat (vals_of s) = (v1, None) ->
    (S k <= Z.to_nat (max_iter o))%nat ->
    quiet d o t p (get_check d (vals_of s) p) v1 k ->
    evk o t (S k) (st_after o t v1 k) = (v', Some c) ->
    solve_t_M d o t s =
    (if is_raise (errors o)
     then mkState v' (upd p ErrorSt (status s)) (upd p (Z.of_nat (S k)) (iters s)) (log s ++ [EvBefore t] ++ pass_events t 1 (S k))
     else mkState v' (status s) (iters s) (log s ++ [EvBefore t] ++ pass_events t 1 (S k)),
     Raise (SolutionError (Some c))).
  Proof. intros H1 H2 H3 H4 H5 H6. exact (ev_exception_surfaces num sub absf ltb isfin zero ev before after d o t s p v1 H1 H2 H3 H4 H5 H6 k v' c). Qed.

  (* an exception in the pre-hook: SolutionError chained to it, nothing recorded *)
  Theorem C06_before_exception_surfaces d o t s p v' c :
    min_iter o <= max_iter o ->
    py_pos (List.length (status s)) t = Some p -> feasible d (List.length (status s)) p = true -> offset o = 0 ->
    is_raise (errors o) && negb (all_finite (get_check d (vals_of s) p)) = false ->
    before t (errors o) (catch_first o) 0%nat (vals_of s) = (v', Some c) ->
    solve_t_M d o t s = (mkState v' (status s) (iters s) (log s ++ [EvBefore t]), Raise (SolutionError (Some c))).
  Proof. intros H1 H2 H3 H4. exact (before_exception_surfaces num sub absf ltb isfin zero ev before after d o t s p H1 H2 H3 H4 v' c). Qed.

  (* pre-existing non-finite check values under 'raise': rejected before any hook or pass, nothing changes *)
  Theorem C06_preexisting_nonfinite_rejected d o t s p :
    min_iter o <= max_iter o ->
    py_pos (List.length (status s)) t = Some p -> feasible d (List.length (status s)) p = true -> offset o = 0 ->
    errors o = ERaise -> all_finite (get_check d (vals_of s) p) = false ->
    solve_t_M d o t s = (mkState (vals_of s) (status s) (iters s) (log s), Raise (SolutionError None)).
  Proof. exact (preexisting_nonfinite_rejected num sub absf ltb isfin zero ev before after d o t s p). Qed.

  (* the solved flag is True only for '.', and a returning call records '.', 'F' or (only under skip) 'S' *)
  Theorem C06_solved_flag_iff_dot d o t s s' b p :
    py_pos (List.length (status s)) t = Some p ->
    solve_t_M d o t s = (s', Ret b) ->
    exists x, nth_error (status s') p = Some x /\ b = st_eqb x Solved /\
              (x = Solved \/ x = Failed \/ (x = Skipped /\ errors o = ESkip)).
  Proof. exact (solved_flag_iff_dot num sub absf ltb isfin zero ev before after d o t s s' b p). Qed.

  (* every exception solve_t can raise; 'E' is recorded only under errors='raise', 'F' only with NonConvergenceError *)
  Theorem C06_raise_classes d o t s s' e p :
    py_pos (List.length (status s)) t = Some p ->
    solve_t_M d o t s = (s', Raise e) ->
    (e = ValueError \/ e = IndexError \/ e = NonConvergenceError \/ exists c, e = SolutionError c) /\
    (forall x, nth_error (status s') p = Some x ->
       Some x = nth_error (status s) p \/ (x = ErrorSt /\ errors o = ERaise) \/ (x = Failed /\ e = NonConvergenceError)).
  Proof. exact (raise_classes num sub absf ltb isfin zero ev before after d o t s s' e p). Qed.

  (* errors='replace', complete rule (mirrors the code, finding #5 included): the loop's LOCAL vector `rcur` is the stored
     check vector except that after a non-finite pass its non-finite entries are zero; '.' at the first pass >= max(1,min_iter)
     whose local start vector and stored end vector are finite and which converged against the LOCAL vector; else 'F', max_iter *)
  Theorem C06_replace_policy d o t s p v1 :
    min_iter o <= max_iter o ->
    py_pos (List.length (status s)) t = Some p -> feasible d (List.length (status s)) p = true -> offset o = 0 ->
    is_raise (errors o) && negb (all_finite (get_check d (vals_of s) p)) = false ->
    before t (errors o) (catch_first o) 0%nat (vals_of s) = (v1, None) ->
    errors o = EReplace ->
    (forall i, (1 <= i <= Z.to_nat (max_iter o))%nat -> snd (evk o t i (st_after o t v1 (i - 1))) = None) ->
    solve_t_M d o t s =
    match find_first (rconvk num sub absf ltb isfin zero ev d o t p (get_check d (vals_of s) p) v1) 1 (Z.to_nat (max_iter o)) with
    | Some k0 =>
        match afterk num after o t k0 (st_after o t v1 k0) with
        | (v'', Some c) =>
            (mkState v'' (status s) (iters s) (log s ++ [EvBefore t] ++ pass_events t 1 k0 ++ [EvAfter t k0]),
             Raise (SolutionError (Some c)))
        | (v'', None) =>
            (mkState v'' (upd p Solved (status s)) (upd p (Z.of_nat k0) (iters s))
                     (log s ++ [EvBefore t] ++ pass_events t 1 k0 ++ [EvAfter t k0]), Ret true)
        end
    | None =>
        (mkState (st_after o t v1 (Z.to_nat (max_iter o))) (upd p Failed (status s))
                 (upd p (Z.of_nat (Z.to_nat (max_iter o))) (iters s))
                 (log s ++ [EvBefore t] ++ pass_events t 1 (Z.to_nat (max_iter o))),
         if fail_raise o then Raise NonConvergenceError else Ret false)
    end.
  Proof. exact (replace_policy num sub absf ltb isfin zero ev before after d o t s p v1). Qed.

  (* raise / skip / ignore (and an invalid `errors`): whenever True is returned, the recorded pass k was JUDGED: it started
     from finite stored check values, ended with finite ones, k >= min_iter, every check variable moved by < tol; exactly k
     passes and both hooks ran *)
  Theorem C06_solved_only_if_judged d o t s p v1 s' :
    min_iter o <= max_iter o ->
    py_pos (List.length (status s)) t = Some p -> feasible d (List.length (status s)) p = true -> offset o = 0 ->
    is_raise (errors o) && negb (all_finite (get_check d (vals_of s) p)) = false ->
    before t (errors o) (catch_first o) 0%nat (vals_of s) = (v1, None) ->
    errors o <> EReplace ->
    solve_t_M d o t s = (s', Ret true) ->
    exists k, (1 <= k <= Z.to_nat (max_iter o))%nat /\
      status s' = upd p Solved (status s) /\ iters s' = upd p (Z.of_nat k) (iters s) /\
      all_finite (chkseq d o t p (get_check d (vals_of s) p) v1 (k - 1)) = true /\
      all_finite (chkseq d o t p (get_check d (vals_of s) p) v1 k) = true /\
      convk num sub absf ltb zero ev d o t p (get_check d (vals_of s) p) v1 k = true /\
      vals_of s' = fst (afterk num after o t k (st_after o t v1 k)) /\
      log s' = log s ++ [EvBefore t] ++ pass_events t 1 k ++ [EvAfter t k].
  Proof. intros H1 H2 H3 H4 H5 H6. exact (solved_only_if_judged num sub absf ltb isfin zero ev before after d o t s p v1 H1 H2 H3 H4 H5 H6 s'). Qed.

  (* the clause as worded — "a pass that starts from non-finite check values is never judged" — for raise / skip / ignore:
     if the stored check vector after pass k-1 is non-finite, the period is not declared solved at pass k.
     (For 'replace' the clause is REFUTED: C06_replace_judged_after_nonfinite_refuted below.) *)
  Theorem C06_nonfinite_start_never_judged_partial d o t s p v1 s' k :
    min_iter o <= max_iter o ->
    py_pos (List.length (status s)) t = Some p -> feasible d (List.length (status s)) p = true -> offset o = 0 ->
    is_raise (errors o) && negb (all_finite (get_check d (vals_of s) p)) = false ->
    before t (errors o) (catch_first o) 0%nat (vals_of s) = (v1, None) ->
    errors o <> EReplace -> List.length (iters s) = List.length (status s) ->
    all_finite (chkseq d o t p (get_check d (vals_of s) p) v1 (k - 1)) = false ->
    solve_t_M d o t s = (s', Ret true) ->
    nth_error (iters s') p <> Some (Z.of_nat k).
  Proof. intros H1 H2 H3 H4 H5 H6. exact (nonfinite_start_never_judged_partial num sub absf ltb isfin zero ev before after d o t s p v1 H1 H2 H3 H4 H5 H6 s' k). Qed.

  (* an exception in the post-hook (finite regime, converging pass k0): SolutionError chained to it; status / iterations
     of the period are NOT recorded *)
  Theorem C06_after_exception_surfaces d o t s p v1 k0 v'' c :
    min_iter o <= max_iter o ->
    py_pos (List.length (status s)) t = Some p -> feasible d (List.length (status s)) p = true -> offset o = 0 ->
    before t (errors o) (catch_first o) 0%nat (vals_of s) = (v1, None) ->
    0 <= max_iter o ->
    (forall i, (1 <= i <= Z.to_nat (max_iter o))%nat -> snd (evk o t i (st_after o t v1 (i - 1))) = None) ->
    (forall i, (i <= Z.to_nat (max_iter o))%nat -> all_finite (chkseq d o t p (get_check d (vals_of s) p) v1 i) = true) ->
    find_first (convk num sub absf ltb zero ev d o t p (get_check d (vals_of s) p) v1) 1 (Z.to_nat (max_iter o)) = Some k0 ->
    afterk num after o t k0 (st_after o t v1 k0) = (v'', Some c) ->
    solve_t_M d o t s =
    (mkState v'' (status s) (iters s) (log s ++ [EvBefore t] ++ pass_events t 1 k0 ++ [EvAfter t k0]),
     Raise (SolutionError (Some c))).
  Proof. intros H1 H2 H3 H4 H5. exact (after_exception_surfaces num sub absf ltb isfin zero ev before after d o t s p v1 H1 H2 H3 H4 H5 k0 v'' c). Qed.

  (* THE COMPLETE STATE MACHINE of one period — all five `errors` values at once, no assumption on the oracles (they may
     raise at any pass) or on finiteness.  With `lcur j` the loop's local check vector after pass j (the stored one, except
     that 'replace' zeroes its non-finite entries after a non-finite pass), pass j STOPS the loop iff it raises, or it started
     from a finite local vector and either left a non-finite stored vector under raise / skip / an invalid mode (under
     ignore / replace only on the last permitted pass), or left a finite one with j >= min_iter and every check variable
     moved by < tol.  solve_t is the bookkeeping (`finish`) of the outcome `result_at` of the FIRST stopping pass;
     if no pass stops: 'F', iterations = max_iter. *)
  Theorem C06_complete_state_machine d o t s p v1 :
    min_iter o <= max_iter o ->
    py_pos (List.length (status s)) t = Some p -> feasible d (List.length (status s)) p = true -> offset o = 0 ->
    is_raise (errors o) && negb (all_finite (get_check d (vals_of s) p)) = false ->
    before t (errors o) (catch_first o) 0%nat (vals_of s) = (v1, None) ->
    let c0 := get_check d (vals_of s) p in
    let N := Z.to_nat (max_iter o) in
    let lg := log s ++ [EvBefore t] in
    solve_t_M d o t s =
    finish num o s p
      (match find_first (stops num sub absf ltb isfin zero ev d o t p c0 v1 N) 1 N with
       | Some k => result_at num isfin zero ev after d o t p c0 v1 k lg
       | None => LDone (st_after o t v1 N) Failed N (lg ++ pass_events t 1 N)
       end).
  Proof. exact (solve_t_complete_spec num sub absf ltb isfin zero ev before after d o t s p v1). Qed.

  (* what `stops` and `result_at` say, spelled out (definitional unfoldings, so that the theorem above can be read here) *)
  (* (definitional unfoldings — not counted as covering a clause) *)
  Theorem C06_stops_unfold d o t p c0 v1 N j :
    stops num sub absf ltb isfin zero ev d o t p c0 v1 N j =
    (match snd (evk o t j (st_after o t v1 (j - 1))) with Some _ => true | None => false end) ||
    (all_finite (lcur num isfin zero ev d o t p c0 v1 (j - 1)) &&
     (if all_finite (chkseq d o t p c0 v1 j)
      then (min_iter o <=? Z.of_nat j) &&
           conv num sub absf ltb (tol o) (chkseq d o t p c0 v1 j) (lcur num isfin zero ev d o t p c0 v1 (j - 1))
      else (match errors o with ERaise | ESkip | EInvalid => true | _ => false end) || (j =? N)%nat)).
  Proof. exact (eq_refl _). Qed.
  Theorem C06_result_at_unfold d o t p c0 v1 j lg :
    result_at num isfin zero ev after d o t p c0 v1 j lg =
    let lgj := lg ++ pass_events t 1 j in
    match evk o t j (st_after o t v1 (j - 1)) with
    | (v', Some c) => LRaise v' (if is_raise (errors o) then Some (ErrorSt, j) else None) (SolutionError (Some c)) lgj
    | (v', None) =>
        if all_finite (chkseq d o t p c0 v1 j) then
          match afterk num after o t j (st_after o t v1 j) with
          | (v'', Some c) => LRaise v'' None (SolutionError (Some c)) (lgj ++ [EvAfter t j])
          | (v'', None) => LDone v'' Solved j (lgj ++ [EvAfter t j])
          end
        else
          match errors o with
          | ERaise => LRaise (st_after o t v1 j) (Some (ErrorSt, j)) (SolutionError None) lgj
          | ESkip => LDone (st_after o t v1 j) Skipped j lgj
          | EInvalid => LRaise (st_after o t v1 j) None ValueError lgj
          | EIgnore | EReplace => LDone (st_after o t v1 j) Failed j lgj
          end
    end.
  Proof. exact (eq_refl _). Qed.
  (* the local vector: the stored check vector, except after a non-finite pass under 'replace' *)
  Theorem C06_lcur_step d o t p c0 v1 j :
    lcur num isfin zero ev d o t p c0 v1 0 = c0 /\
    lcur num isfin zero ev d o t p c0 v1 (S j) =
    if (match errors o with EReplace => true | _ => false end) && all_finite (lcur num isfin zero ev d o t p c0 v1 j)
       && negb (all_finite (chkseq d o t p c0 v1 (S j)))
    then replace_nonfinite num isfin zero (chkseq d o t p c0 v1 (S j)) else chkseq d o t p c0 v1 (S j).
  Proof. exact (lcur_0_S num isfin zero ev d o t p c0 v1 j). Qed.

  (* EVERY `errors` value: True is returned only for a pass k that was judged — it started from a finite LOCAL vector, ended
     with a finite stored vector, k >= min_iter, every check variable moved by < tol against the local vector, and no earlier
     pass stopped the loop.  (The local vector is the stored one except after a zeroing under 'replace': C06_lcur_step.) *)
  Theorem C06_solved_only_if_locally_judged d o t s p v1 s' :
    min_iter o <= max_iter o ->
    py_pos (List.length (status s)) t = Some p -> feasible d (List.length (status s)) p = true -> offset o = 0 ->
    is_raise (errors o) && negb (all_finite (get_check d (vals_of s) p)) = false ->
    before t (errors o) (catch_first o) 0%nat (vals_of s) = (v1, None) ->
    List.length (iters s) = List.length (status s) ->
    solve_t_M d o t s = (s', Ret true) ->
    let c0 := get_check d (vals_of s) p in
    exists k, (1 <= k <= Z.to_nat (max_iter o))%nat /\
      nth_error (status s') p = Some Solved /\ nth_error (iters s') p = Some (Z.of_nat k) /\
      all_finite (lcur num isfin zero ev d o t p c0 v1 (k - 1)) = true /\ all_finite (chkseq d o t p c0 v1 k) = true /\
      min_iter o <= Z.of_nat k /\
      conv num sub absf ltb (tol o) (chkseq d o t p c0 v1 k) (lcur num isfin zero ev d o t p c0 v1 (k - 1)) = true /\
      (forall j, (1 <= j < k)%nat -> stops num sub absf ltb isfin zero ev d o t p c0 v1 (Z.to_nat (max_iter o)) j = false).
  Proof. intros H1 H2 H3 H4 H5 H6. exact (solved_only_if_locally_judged num sub absf ltb isfin zero ev before after d o t s p v1 H1 H2 H3 H4 H5 H6 s'). Qed.

  (* the clause "a pass that starts from non-finite check values is never judged" for errors='replace', under the explicit guard
     that excludes finding #5: no earlier pass of this period turned a finite local vector into a non-finite stored one (nothing
     was zeroed).  Without the guard the clause is refuted (C06_replace_judged_after_nonfinite_refuted), and the guard is
     exactly what fails there (C06_replace_judged_after_nonfinite_only_by_zeroing). *)
  Theorem C06_nonfinite_start_never_judged_replace_guarded d o t s p v1 s' k :
    min_iter o <= max_iter o ->
    py_pos (List.length (status s)) t = Some p -> feasible d (List.length (status s)) p = true -> offset o = 0 ->
    is_raise (errors o) && negb (all_finite (get_check d (vals_of s) p)) = false ->
    before t (errors o) (catch_first o) 0%nat (vals_of s) = (v1, None) ->
    errors o = EReplace -> List.length (iters s) = List.length (status s) ->
    let c0 := get_check d (vals_of s) p in
    (forall j, (S j < k)%nat -> all_finite (lcur num isfin zero ev d o t p c0 v1 j) = true ->
               all_finite (chkseq d o t p c0 v1 (S j)) = true) ->
    all_finite (chkseq d o t p c0 v1 (k - 1)) = false ->
    solve_t_M d o t s = (s', Ret true) ->
    nth_error (iters s') p <> Some (Z.of_nat k).
  Proof. intros H1 H2 H3 H4 H5 H6. exact (nonfinite_start_never_judged_replace_guarded num sub absf ltb isfin zero ev before after d o t s p v1 H1 H2 H3 H4 H5 H6 s' k). Qed.
  Theorem C06_replace_judged_after_nonfinite_only_by_zeroing d o t s p v1 s' k :
    min_iter o <= max_iter o ->
    py_pos (List.length (status s)) t = Some p -> feasible d (List.length (status s)) p = true -> offset o = 0 ->
    is_raise (errors o) && negb (all_finite (get_check d (vals_of s) p)) = false ->
    before t (errors o) (catch_first o) 0%nat (vals_of s) = (v1, None) ->
    errors o = EReplace -> List.length (iters s) = List.length (status s) ->
    let c0 := get_check d (vals_of s) p in
    all_finite (chkseq d o t p c0 v1 (k - 1)) = false ->
    solve_t_M d o t s = (s', Ret true) -> nth_error (iters s') p = Some (Z.of_nat k) ->
    ~ (forall j, (S j < k)%nat -> all_finite (lcur num isfin zero ev d o t p c0 v1 j) = true ->
                 all_finite (chkseq d o t p c0 v1 (S j)) = true).
  Proof. intros H1 H2 H3 H4 H5 H6. exact (replace_judged_after_nonfinite_only_by_zeroing num sub absf ltb isfin zero ev before after d o t s p v1 H1 H2 H3 H4 H5 H6 s' k). Qed.

  (* an exception in the post-hook in EVERY regime (any `errors` value, earlier passes may have been non-finite): the hook runs
     after the first stopping pass k0 when that pass returned and ended with finite check values (i.e. was judged converged);
     its exception surfaces as SolutionError chained to it and neither status nor iterations of the period are recorded *)
  Theorem C06_after_exception_surfaces_general d o t s p v1 k0 v'' c :
    min_iter o <= max_iter o ->
    py_pos (List.length (status s)) t = Some p -> feasible d (List.length (status s)) p = true -> offset o = 0 ->
    is_raise (errors o) && negb (all_finite (get_check d (vals_of s) p)) = false ->
    before t (errors o) (catch_first o) 0%nat (vals_of s) = (v1, None) ->
    let c0 := get_check d (vals_of s) p in
    find_first (stops num sub absf ltb isfin zero ev d o t p c0 v1 (Z.to_nat (max_iter o))) 1 (Z.to_nat (max_iter o)) = Some k0 ->
    snd (evk o t k0 (st_after o t v1 (k0 - 1))) = None -> all_finite (chkseq d o t p c0 v1 k0) = true ->
    afterk num after o t k0 (st_after o t v1 k0) = (v'', Some c) ->
    solve_t_M d o t s =
    (mkState v'' (status s) (iters s) (log s ++ [EvBefore t] ++ pass_events t 1 k0 ++ [EvAfter t k0]),
     Raise (SolutionError (Some c))).
  Proof. intros H1 H2 H3 H4 H5 H6. exact (after_exception_surfaces_general num sub absf ltb isfin zero ev before after d o t s p v1 H1 H2 H3 H4 H5 H6 k0 v'' c). Qed.

  (* (extensionality of a function application — a remark about the TYPING of the model, not counted as covering a clause)
     solve_t consults its oracles only at this call's period argument, `errors` and `catch_first_error` (the warnings filter
     is selected from exactly these two options and nothing else) *)
  Theorem C06_solve_t_hooks_ext (ev' before' after' : hook num) d o t s :
    (forall k v, ev t (errors o) (catch_first o) k v = ev' t (errors o) (catch_first o) k v) ->
    (forall k v, before t (errors o) (catch_first o) k v = before' t (errors o) (catch_first o) k v) ->
    (forall k v, after t (errors o) (catch_first o) k v = after' t (errors o) (catch_first o) k v) ->
    solve_t_M d o t s = Solver.solve_t_M num sub absf ltb isfin zero ev' before' after' d o t s.
  Proof. exact (solve_t_hooks_ext num sub absf ltb isfin zero ev ev' before before' after after' d o t s). Qed.

  (* ANY call of solve_t (any arguments, oracles, state; no hypothesis at all): it either records nothing (and then does not
     return a flag), or stamps exactly position t with '.', 'F', 'S' (only under skip) or 'E' (only under raise), the outcome
     agreeing with the stamp: True iff '.', SolutionError with 'E', NonConvergenceError only with 'F' and failures='raise' *)
  Theorem C06_solve_t_status_shape d o t s s' r :
    solve_t_M d o t s = (s', r) ->
    (status s' = status s /\ iters s' = iters s /\ (r = Ret true -> False) /\ (r = Ret false -> False)) \/
    exists p x k, py_pos (List.length (status s)) t = Some p /\
      status s' = upd p x (status s) /\ iters s' = upd p (Z.of_nat k) (iters s) /\
      ((x = Solved /\ r = Ret true) \/
       (x = Failed /\ (r = Ret false \/ (r = Raise NonConvergenceError /\ fail_raise o = true))) \/
       (x = Skipped /\ errors o = ESkip /\ r = Ret false) \/
       (x = ErrorSt /\ errors o = ERaise /\ exists c, r = Raise (SolutionError c))).
  Proof. exact (solve_t_status_shape num sub absf ltb isfin zero ev before after d o t s s' r). Qed.

  (* invariant over ARBITRARY sequences of solve_t calls (each with its own options, period and lags/leads; exceptions
     caught by the caller): the status / iterations series keep their length, and every status is either the one the period
     started with or one of '.', 'F', 'S', 'E' written by a call in the sequence aimed at that very period — 'S' only by a
     call with errors='skip', 'E' only by one with errors='raise'; in particular every status is one of the five values *)
  Theorem C06_calls_status_invariant cs s :
    let s' := run_calls num sub absf ltb isfin zero ev before after cs s in
    List.length (status s') = List.length (status s) /\ List.length (iters s') = List.length (iters s) /\
    forall q x, nth_error (status s') q = Some x ->
      In (st_char x) Generated.status_values /\
      (nth_error (status s) q = Some x \/
       exists c, In c cs /\ py_pos (List.length (status s)) (call_t num c) = Some q /\
         (x = Solved \/ x = Failed \/ (x = Skipped /\ errors (call_opts num c) = ESkip) \/ (x = ErrorSt /\ errors (call_opts num c) = ERaise))).
  Proof. exact (calls_status_invariant_alphabet num sub absf ltb isfin zero ev before after cs s). Qed.
End C06.

(* 'skip' in a multi-period solve: the period whose pass k+1 leaves a non-finite check value (after k quiet passes) is
   stamped 'S' / k+1 with flag False, no exception, and the loop of solve() goes on with the remaining periods from that state *)
Section C06multi.
  Variable num : Type.
  Variables (sub : num -> num -> num) (absf : num -> num) (ltb : num -> num -> bool)
            (isfin : num -> bool) (zero : num).
  Variables (ev before after : hook num).
  Variable L : Type.
  Notation run_periods := (run_periods num sub absf ltb isfin zero ev before after L).

  Theorem C06_skip_moves_on d o t (lab : L) rest s acc p v1 k :
    min_iter o <= max_iter o ->
    py_pos (List.length (status s)) t = Some p -> feasible d (List.length (status s)) p = true -> offset o = 0 ->
    errors o = ESkip ->
    before t (errors o) (catch_first o) 0%nat (vals_of s) = (v1, None) ->
    (S k <= Z.to_nat (max_iter o))%nat ->
    quiet num sub absf ltb isfin zero ev d o t p (get_check num zero d (vals_of s) p) v1 k ->
    snd (evk num ev o t (S k) (st_after num ev o t v1 k)) = None ->
    all_finite num isfin (chkseq num zero ev d o t p (get_check num zero d (vals_of s) p) v1 (S k)) = false ->
    run_periods d o ((t, lab) :: rest) s acc =
    run_periods d o rest
      (mkState (st_after num ev o t v1 (S k)) (upd p Skipped (status s)) (upd p (Z.of_nat (S k)) (iters s))
               (log s ++ [EvBefore t] ++ pass_events t 1 (S k)))
      (acc ++ [(lab, t, false)]).
  Proof. exact (skip_moves_on num sub absf ltb isfin zero ev before after L d o t lab rest s acc p v1 k). Qed.
  (* ARBITRARY histories of public solver calls — solve_t, solve_period and solve in any order, each with its own options,
     labels and period, exceptions caught by the caller: the status / iterations series keep their length and every status is
     one of the five SolutionStatus values: the one the period started with, '.', 'F', 'S' (only if some call of the history had
     errors='skip') or 'E' (only if some call had errors='raise') *)
  Theorem C06_api_history_status_invariant (locate : L -> locres) cs s :
    let s' := run_api num sub absf ltb isfin zero ev before after L locate cs s in
    List.length (status s') = List.length (status s) /\ List.length (iters s') = List.length (iters s) /\
    forall q x, nth_error (status s') q = Some x ->
      In (st_char x) Generated.status_values /\
      (nth_error (status s) q = Some x \/ x = Solved \/ x = Failed \/
       (x = Skipped /\ exists c, In c cs /\ errors (api_opts num L c) = ESkip) \/
       (x = ErrorSt /\ exists c, In c cs /\ errors (api_opts num L c) = ERaise)).
  Proof. exact (api_status_invariant num sub absf ltb isfin zero ev before after L locate cs s). Qed.
End C06multi.

(* the histories the correspondence K_history runs against the implementation (SolveAllHistF.run_hist on ONE scripted instance:
   solve_t / solve_period / solve calls, each with its own options, interleaved with copy(), whole-series list assignments, direct
   cell assignments (NaN included) and reindex() onto another span; every outcome collected).
   Without reindex(): the series keep their length and every status after the history is one of the five SolutionStatus values —
   the one the period started with, '.', 'F', 'S' (only if some call had errors='skip') or 'E' (only if some call had errors='raise'). *)
Theorem C06_history_status_invariant sc d kind cs (s : fstate) span :
  existsb is_reindex cs = false ->
  let s' := fst (fst (run_hist sc d kind cs (s, span))) in
  List.length (status s') = List.length (status s) /\ List.length (iters s') = List.length (iters s) /\
  forall q x, nth_error (status s') q = Some x ->
    In (st_char x) Generated.status_values /\
    (nth_error (status s) q = Some x \/ x = Solved \/ x = Failed \/
     (x = Skipped /\ exists c, In c cs /\ hcall_errors c = Some ESkip) \/
     (x = ErrorSt /\ exists c, In c cs /\ hcall_errors c = Some ERaise)).
Proof. exact (hist_status_invariant sc d kind cs s span). Qed.
(* SCOPE NOTE: the reindex() of these histories is `m.reindex(span)` WITHOUT fill keywords (HReindex has no fill argument, and the
   harness never passes one).  Since 2658d81 `reindex(span, status='Q')` is effective and puts the caller's own value into the new
   periods — a status outside the five letters that comes from USER INPUT, not from a solver call; such histories are outside this
   theorem (and outside the statement's "statuses written by the solver").
   ANY history, reindex() (without fill keywords) included: every status is one of the five values — one present in the start state, the fill '-' of a
   reindex, '.', 'F', 'S' (only after a call with errors='skip') or 'E' (only after one with errors='raise'); status and iterations
   stay equally long *)
Theorem C06_history_status_invariant_general sc d kind cs (s : fstate) span :
  List.length (iters s) = List.length (status s) ->
  let s' := fst (fst (run_hist sc d kind cs (s, span))) in
  List.length (iters s') = List.length (status s') /\
  forall x, In x (status s') ->
    In (st_char x) Generated.status_values /\
    (In x (status s) \/ x = Unsolved \/ x = Solved \/ x = Failed \/
     (x = Skipped /\ exists c, In c cs /\ hcall_errors c = Some ESkip) \/
     (x = ErrorSt /\ exists c, In c cs /\ hcall_errors c = Some ERaise)).
Proof. exact (hist_status_invariant_general sc d kind cs s span). Qed.
(* a solver call of a history IS the corresponding call of run_api (C06_api_history_status_invariant) on the current span;
   copy() and assignments never touch status / iterations / span *)
Theorem C06_history_call_is_api_call sc d kind c a (s : fstate) span :
  to_api d span c = Some a ->
  fst (run_hcall sc d kind c (s, span)) =
  (run_api1 float PrimFloat.sub PrimFloat.abs PrimFloat.ltb fisfin fzero
            (s_ev (List.length (status s)) sc) (s_before (List.length (status s)) sc) (s_after (List.length (status s)) sc) Z
            (f_locate kind span []) a s, span).
Proof. exact (run_hcall_api sc d kind c a s span). Qed.
Theorem C06_history_edit_keeps_status sc d kind c (s : fstate) span :
  to_api d span c = None -> is_reindex c = false ->
  status (fst (fst (run_hcall sc d kind c (s, span)))) = status s /\ iters (fst (fst (run_hcall sc d kind c (s, span)))) = iters s /\
  snd (fst (run_hcall sc d kind c (s, span))) = span.
Proof. exact (run_hcall_edit sc d kind c s span). Qed.

(* the five statuses of the model are the SolutionStatus values of the working tree (regenerated constant) *)
Theorem C06_status_alphabet_matches_source :
  map st_char [Unsolved; Solved; Failed; ErrorSt; Skipped] = Generated.status_values.
Proof. exact status_alphabet_matches_source. Qed.
(* NOTE: true by the five-constructor type `st` (the model's oracles cannot write a status); the content of the alphabet clause is the
   provenance part of the invariants above and the tie of the five letters to the regenerated SolutionStatus values *)
Theorem C06_status_always_in_alphabet (x : st) : In (st_char x) Generated.status_values.
Proof. exact (status_always_in_alphabet x). Qed.

(* catch_first_error: the warning-raising statement does not store its result (scripted oracle = harness model) *)
Theorem C06_catch_first_warning_no_store p pre i x rest v :
  no_stop pre = true ->
  run_actions true p (pre ++ AWarnSet i x :: rest) v = (fst (run_actions true p pre v), Some 1).
Proof. exact (catch_first_warning_no_store p pre i x rest v). Qed.

(* catch_first_error at the level of solve_t, for every scripted model: under errors='raise' with catch_first_error the
   statement of pass k+1 that issues the warning does not store (nor do the statements after it; those before it have);
   'E', iterations = k+1, SolutionError chained to the warning *)
Theorem C06_catch_first_no_store sc d (o : fopts) t (s : fstate) p ps k pre i x rest :
  min_iter o <= max_iter o ->
  py_pos (List.length (status s)) t = Some p -> feasible d (List.length (status s)) p = true -> offset o = 0 ->
  errors o = ERaise -> catch_first o = true ->
  all_finite float fisfin (get_check float fzero d (vals_of s) p) = true ->
  lookup p sc = Some ps -> sbefore ps = [] ->
  (S k <= Z.to_nat (max_iter o))%nat ->
  quiet float PrimFloat.sub PrimFloat.abs PrimFloat.ltb fisfin fzero (s_ev (List.length (status s)) sc) d o t p
        (get_check float fzero d (vals_of s) p) (vals_of s) k ->
  nth k (spasses ps) [] = pre ++ AWarnSet i x :: rest -> no_stop pre = true ->
  let vk := st_after float (s_ev (List.length (status s)) sc) o t (vals_of s) k in
  f_solve_t sc d o t s =
  (mkState (fst (run_actions true p pre vk)) (upd p ErrorSt (status s)) (upd p (Z.of_nat (S k)) (iters s))
           (log s ++ [EvBefore t] ++ pass_events t 1 (S k)), Raise (SolutionError (Some 1))).
Proof. exact (f_catch_first_no_store sc d o t s p ps k pre i x rest). Qed.

(* the warnings filter: unless errors='raise' AND catch_first_error, a warning is recorded and dropped — solve_t behaves
   exactly as on the script in which every warning-raising statement is an ordinary store (so detection is end-of-pass) *)
Theorem C06_warnings_dropped_unless_raise_and_catch_first sc d (o : fopts) t (s : fstate) :
  is_raise (errors o) && catch_first o = false ->
  f_solve_t sc d o t s = f_solve_t (unwarn_scripts sc) d o t s.
Proof. exact (f_solve_t_warnings_dropped sc d o t s). Qed.

(* ... and with both set, a warning in the PRE-hook surfaces as SolutionError chained to the warning before its statement
   stores; no pass runs and nothing is recorded *)
Theorem C06_before_hook_warning_caught sc d (o : fopts) t (s : fstate) p ps pre i x rest :
  min_iter o <= max_iter o ->
  py_pos (List.length (status s)) t = Some p -> feasible d (List.length (status s)) p = true -> offset o = 0 ->
  errors o = ERaise -> catch_first o = true ->
  all_finite float fisfin (get_check float fzero d (vals_of s) p) = true ->
  lookup p sc = Some ps -> sbefore ps = pre ++ AWarnSet i x :: rest -> no_stop pre = true ->
  f_solve_t sc d o t s =
  (mkState (fst (run_actions true p pre (vals_of s))) (status s) (iters s) (log s ++ [EvBefore t]),
   Raise (SolutionError (Some 1))).
Proof. exact (f_before_warning_caught sc d o t s p ps pre i x rest). Qed.

(* ... and a warning in the POST-hook (after the first stopping pass k0, which ended finite, i.e. converged): SolutionError chained
   to the warning before its statement stores; although the converging pass has run, status and iterations are NOT recorded *)
Theorem C06_after_hook_warning_caught sc d (o : fopts) t (s : fstate) p ps k0 pre i x rest :
  min_iter o <= max_iter o ->
  py_pos (List.length (status s)) t = Some p -> feasible d (List.length (status s)) p = true -> offset o = 0 ->
  errors o = ERaise -> catch_first o = true ->
  all_finite float fisfin (get_check float fzero d (vals_of s) p) = true ->
  lookup p sc = Some ps -> sbefore ps = [] ->
  let ev := s_ev (List.length (status s)) sc in
  let c0 := get_check float fzero d (vals_of s) p in
  let N := Z.to_nat (max_iter o) in
  find_first (stops float PrimFloat.sub PrimFloat.abs PrimFloat.ltb fisfin fzero ev d o t p c0 (vals_of s) N) 1 N = Some k0 ->
  snd (evk float ev o t k0 (st_after float ev o t (vals_of s) (k0 - 1))) = None ->
  all_finite float fisfin (chkseq float fzero ev d o t p c0 (vals_of s) k0) = true ->
  safter ps = pre ++ AWarnSet i x :: rest -> no_stop pre = true ->
  f_solve_t sc d o t s =
  (mkState (fst (run_actions true p pre (st_after float ev o t (vals_of s) k0))) (status s) (iters s)
           (log s ++ [EvBefore t] ++ pass_events t 1 k0 ++ [EvAfter t k0]),
   Raise (SolutionError (Some 1))).
Proof. exact (f_after_warning_caught sc d o t s p ps k0 pre i x rest). Qed.

(* ---- binary64: the abstract `isfin` of the theorems above is, for NumPy float64 (the instantiation K runs), "neither NaN nor an
   infinity" — exactly np.isfinite; instances: NaN, +inf, -inf, 1/0, 0/0 and an overflowing product are non-finite; zeros, the largest
   finite value and the smallest subnormal are finite; 'replace' puts 0.0 in place of exactly the non-finite entries.  The defaults
   errors='raise', catch_first_error=True used for omitted keywords are those of the working tree (C02_solver_defaults_documented) ---- *)
Theorem C06_float_nonfinite_is_nan_or_inf x :
  fisfin x = false <-> PrimFloat.is_nan x = true \/ PrimFloat.is_infinity x = true.
Proof. exact (float_nonfinite_is_nan_or_inf x). Qed.
Theorem C06_float_finiteness_instances :
  fisfin nan = false /\ fisfin infinity = false /\ fisfin neg_infinity = false /\
  fisfin 0 = true /\ fisfin (-0) = true /\ fisfin 0x1.fffffffffffffp+1023 = true /\ fisfin 0x0.0000000000001p-1022 = true /\
  fisfin (PrimFloat.div 1 0) = false /\ fisfin (PrimFloat.div 0 0) = false /\
  fisfin (PrimFloat.mul 0x1p+1023 2) = false /\
  replace_nonfinite float fisfin fzero [nan; 1%float; infinity] = [0%float; 1%float; 0%float].
Proof. exact float_finiteness_instances. Qed.

(* finding #5: under 'replace' the pass after a non-finite pass IS judged (against zeros) — the clause
   "a pass that starts from non-finite check values is never judged" is refuted for replace *)
Theorem C06_replace_judged_after_nonfinite_refuted :
  exists sc d o t s p,
    errors o = EReplace /\ py_pos (List.length (status s)) t = Some p /\
    all_finite float fisfin (get_check float fzero d (fst (s_ev 3 sc t (errors o) (catch_first o) 1%nat (vals_of s))) p) = false /\
    snd (f_solve_t sc d o t s) = Ret true /\ nth_error (iters (fst (f_solve_t sc d o t s))) p = Some 2.
Proof. exact replace_judged_after_nonfinite_refuted. Qed.

Print Assumptions C06_first_nonfinite_policy.
Print Assumptions C06_ignore_policy.
Print Assumptions C06_ev_exception_surfaces.
Print Assumptions C06_before_exception_surfaces.
Print Assumptions C06_preexisting_nonfinite_rejected.
Print Assumptions C06_solved_flag_iff_dot.
Print Assumptions C06_raise_classes.
Print Assumptions C06_replace_policy.
Print Assumptions C06_solved_only_if_judged.
Print Assumptions C06_nonfinite_start_never_judged_partial.
Print Assumptions C06_after_exception_surfaces.
Print Assumptions C06_complete_state_machine.
Print Assumptions C06_stops_unfold.
Print Assumptions C06_result_at_unfold.
Print Assumptions C06_lcur_step.
Print Assumptions C06_solved_only_if_locally_judged.
Print Assumptions C06_nonfinite_start_never_judged_replace_guarded.
Print Assumptions C06_replace_judged_after_nonfinite_only_by_zeroing.
Print Assumptions C06_after_exception_surfaces_general.
Print Assumptions C06_solve_t_hooks_ext.
Print Assumptions C06_warnings_dropped_unless_raise_and_catch_first.
Print Assumptions C06_before_hook_warning_caught.
Print Assumptions C06_after_hook_warning_caught.
Print Assumptions C06_solve_t_status_shape.
Print Assumptions C06_calls_status_invariant.
Print Assumptions C06_catch_first_no_store.
Print Assumptions C06_skip_moves_on.
Print Assumptions C06_api_history_status_invariant.
Print Assumptions C06_history_status_invariant.
Print Assumptions C06_history_status_invariant_general.
Print Assumptions C06_history_call_is_api_call.
Print Assumptions C06_history_edit_keeps_status.
Print Assumptions C06_float_nonfinite_is_nan_or_inf.
Print Assumptions C06_float_finiteness_instances.
Print Assumptions C06_status_alphabet_matches_source.
Print Assumptions C06_status_always_in_alphabet.
Print Assumptions C06_catch_first_warning_no_store.
Print Assumptions C06_replace_judged_after_nonfinite_refuted.
Print Assumptions ex6_quiet_satisfiable.
Print Assumptions ex7_catch_first.
Print Assumptions exB_skip_moves_on.
Print Assumptions ex8_never_judged_hypotheses_satisfiable.
Print Assumptions ex10_state_machine_instances.
Print Assumptions ex11_warning_filter.
Print Assumptions ex12_before_hook_warning.
Print Assumptions ex13_replace_guard_satisfiable.
Print Assumptions ex14_after_hook_exception_general.
Print Assumptions ex15_after_hook_warning.
Print Assumptions exH_history_statuses.
